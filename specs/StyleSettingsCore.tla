------------------------- MODULE StyleSettingsCore -------------------------
(***************************************************************************)
(* C20: functional core of the style-setting model (no variables).          *)
(*                                                                         *)
(* A *tree* T = [par, nc] describes style classes and instances:            *)
(*   nodes 1..Len(T.par); nodes 1..T.nc are classes, the others instances;  *)
(*   T.par[n] = parent class of class n (0 for the root = the real style    *)
(*   class KittyImage / ITerm2Image), or the class of instance n.           *)
(*   Parents precede children (T.par[n] < n); node 1 is the only root.      *)
(*   T.dm[n] = 1: class n is DECLARED with a metaclass derived from its      *)
(*   parent's metaclass (legitimate for a style subclass; its own subclasses *)
(*   inherit that metaclass).  No operator below reads T.dm: every setting   *)
(*   resolves along the CLASS ancestry only, and the global one is shared by *)
(*   all classes whatever their metaclass.  The field exists so that model   *)
(*   trees / recorded trees name such classes and the real-code side builds  *)
(*   them.                                                                   *)
(*   T.real[n] names the REAL library class a node stands for: "BaseImage",   *)
(*   "GraphicsImage" (abstract ancestors), "style" (the concrete class of    *)
(*   the family under test), "other" (the concrete class of the other        *)
(*   graphics family, a sibling under GraphicsImage), "" = a user subclass   *)
(*   or an instance.  forced_support is settable and readable on ALL of      *)
(*   them (it is a BaseImage property: "descendant"); the other settings     *)
(*   exist only at the style class and below.                                *)
(*   T.fl[n] = 1: class n defines `__len__` returning 0, so its instances    *)
(*   (and those of its subclasses) are FALSY objects.  Likewise read by no   *)
(*   operator: an instance-level set / unset stays instance-level and an     *)
(*   instance resolves through its class whatever its truth value.           *)
(*                                                                         *)
(* Settings: rm = class-wide / instance render method (set_render_method),  *)
(*           fs = forced_support, jq = jpeg_quality, rf = read_from_file,   *)
(*           nb = native_anim_max_bytes.  Family "kitty" only has rm, fs.   *)
(*                                                                         *)
(* A state S maps every setting to an override map  node -> value | Unset.  *)
(* Values are records [t, i, s] (type tag, integer, lower-cased string) so  *)
(* that valid, invalid and observed values share one comparable shape.      *)
(***************************************************************************)
EXTENDS Integers, Sequences, FiniteSets, TLC

V(t, i, s) == [t |-> t, i |-> i, s |-> s]
Unset == V("unset", 0, "")
NoneV == V("none", 0, "")
NA == V("na", 0, "")
StrV(s) == V("str", 0, s)
IntV(i) == V("int", i, "")
BoolV(b) == V("bool", IF b THEN 1 ELSE 0, "")

\* compact text form used in edge dumps and for observed values in traces
Show(v) == v.t \o ":" \o (IF v.t = "str" THEN v.s ELSE ToString(v.i))

Settings == {"rm", "fs", "jq", "rf", "nb"}
SettingSeq == <<"rm", "fs", "jq", "rf", "nb">>
SettingsOf(fam) == IF fam = "kitty" THEN {"rm", "fs"} ELSE Settings

\* documented defaults (docstrings of set_render_method / the properties)
Default(set) ==
  CASE set = "rm" -> StrV("lines")          \* "LINES (default)"
    [] set = "fs" -> BoolV(FALSE)           \* "By default, forced support is disabled"
    [] set = "jq" -> IntV(-1)               \* "the default (disabled)": getter reports -1
    [] set = "rf" -> BoolV(TRUE)            \* "the default (True)"
    [] set = "nb" -> IntV(2097152)          \* 2 MiB

Methods(fam) == IF fam = "kitty" THEN {"lines", "whole"} ELSE {"lines", "whole", "anim"}

ClassOnly(set) == set \in {"fs", "nb"}     \* "Can not be set on/via an instance"
Global(set) == set = "nb"                  \* "This property is a global setting"
HasUnset(set) == set # "fs"                \* forced_support documents GET and SET only

\* acceptance of a value, as documented
Valid(fam, set, a) ==
  CASE set = "rm" -> a.t = "str" /\ a.s \in Methods(fam)
    [] set = "fs" -> a.t = "bool"
    [] set = "rf" -> a.t = "bool"
    [] set = "jq" -> a.t = "int" /\ a.i <= 95      \* "< 0 disabled; 0..95 enabled"
    [] set = "nb" -> a.t = "int" /\ a.i > 0        \* "A positive integer"

---------------------------------------------------------------------------
Nodes(T) == 1..Len(T.par)
IsClass(T, n) == n <= T.nc

Abstract(T, n) == T.real[n] \in {"BaseImage", "GraphicsImage"}
StyleNode(T) == CHOOSE n \in Nodes(T) : T.real[n] = "style"

WellFormedTree(T) ==
  /\ T.nc >= 1 /\ T.nc <= Len(T.par)
  /\ T.par[1] = 0
  /\ \A n \in 2..Len(T.par) : T.par[n] \in 1..(n - 1) /\ IsClass(T, T.par[n])
  /\ Len(T.dm) = Len(T.par)
  /\ \A n \in 1..Len(T.par) : T.dm[n] \in {0, 1} /\ (T.dm[n] = 1 => T.real[n] = "" /\ IsClass(T, n))
  /\ Len(T.fl) = Len(T.par)
  /\ \A n \in 1..Len(T.par) : T.fl[n] \in {0, 1} /\ (T.fl[n] = 1 => T.real[n] = "" /\ IsClass(T, n))
  /\ Len(T.real) = Len(T.par)
  /\ Cardinality({n \in Nodes(T) : T.real[n] = "style"}) = 1
  /\ \A n \in Nodes(T) :
       /\ T.real[n] \in {"BaseImage", "GraphicsImage", "style", "other", ""}
       /\ T.real[n] # "" => IsClass(T, n)
       /\ T.real[n] = "BaseImage" => T.par[n] = 0
       /\ T.real[n] = "GraphicsImage" => T.par[n] = 0 \/ T.real[T.par[n]] = "BaseImage"
       /\ T.real[n] \in {"style", "other"} => T.par[n] = 0 \/ T.real[T.par[n]] = "GraphicsImage"
       \* user classes and instances live at / below the style class
       /\ T.real[n] = "" => T.par[n] # 0 /\ T.real[T.par[n]] \in {"style", ""}
  /\ Cardinality({n \in Nodes(T) : T.real[n] = "other"}) <= 1

RECURSIVE Anc(_, _)
Anc(T, n) == IF T.par[n] = 0 THEN {} ELSE {T.par[n]} \cup Anc(T, T.par[n])

Subtree(T, x) == {n \in Nodes(T) : n = x \/ x \in Anc(T, n)}

\* nodes strictly below x that have no override of their own between them and x
\* (walking up from n, x is met before any node that has its own value)
RECURSIVE Reaches(_, _, _, _, _)
Reaches(T, S, set, n, x) ==
  IF n = x THEN TRUE
  ELSE IF S[set][n] # Unset \/ T.par[n] = 0 THEN FALSE
  ELSE Reaches(T, S, set, T.par[n], x)
InheritsThrough(T, S, set, x) == {n \in Nodes(T) \ {x} : Reaches(T, S, set, n, x)}

\* Effective value: first set value along instance, its class, ancestors, else the default
RECURSIVE Eff(_, _, _, _)
Eff(T, S, set, n) ==
  IF S[set][n] # Unset THEN S[set][n]
  ELSE IF T.par[n] = 0 THEN Default(set)
  ELSE Eff(T, S, set, T.par[n])

\* the same thing said with an explicit chain (used as a cross-check invariant)
RECURSIVE Chain(_, _)
Chain(T, n) == IF T.par[n] = 0 THEN <<n>> ELSE <<n>> \o Chain(T, T.par[n])
EffByChain(T, S, set, n) ==
  LET ch == Chain(T, n)
      set_at == {i \in 1..Len(ch) : S[set][ch[i]] # Unset}
  IN IF set_at = {} THEN Default(set)
     ELSE S[set][ch[CHOOSE i \in set_at : \A j \in set_at : i <= j]]

\* where a write lands: a global setting has one slot (kept at the root)
Slot(T, set, n) == IF Global(set) THEN 1 ELSE n

Clean(T) == [set \in Settings |-> [n \in Nodes(T) |-> Unset]]

---------------------------------------------------------------------------
(* Operations: op = [k, set, n, a]                                          *)
(*   k = "set":    write value a of setting `set` at node n                 *)
(*   k = "unset":  set_render_method(None) / del node.<property>            *)
(*   k = "render": render node n (a class: a fresh instance of it) with the  *)
(*                 per-call method override a (Unset = no override)          *)

\* expected outcome: "ok", a documented exception class, or "rejected" (any exception)
Res(T, fam, op) ==
  IF op.k = "render" THEN "ok"
  ELSE IF ClassOnly(op.set) /\ ~IsClass(T, op.n) THEN "rejected"
  ELSE IF op.k = "unset" THEN (IF HasUnset(op.set) THEN "ok" ELSE "rejected")
  ELSE IF Valid(fam, op.set, op.a) THEN "ok"
  ELSE IF op.set = "rm" THEN (IF op.a.t # "str" THEN "TypeError" ELSE "ValueError")
  ELSE "rejected"

ResMatches(exp, got) == exp = got \/ (exp = "rejected" /\ got # "ok")

Apply(T, fam, S, op) ==
  IF op.k = "render" \/ Res(T, fam, op) # "ok" THEN S
  ELSE [S EXCEPT ![op.set][Slot(T, op.set, op.n)] = IF op.k = "set" THEN op.a ELSE Unset]

\* the render method a render call uses: the per-call override, else the effective one
Used(T, S, op) == IF op.a # Unset THEN op.a.s ELSE Eff(T, S, "rm", op.n).s

\* what a render looks like: LINES = one graphics command per line, otherwise (WHOLE, and
\* ANIM on a non-animated image: "the WHOLE render method is used instead") exactly one
FrameOf(m) == IF m = "lines" THEN "lines" ELSE "whole"

\* --- pixel size of the data a render transmits --------------------------------------
\* geometry g = [cw, ch] cell size px, [rw, rh] rendered size in cells, [ow, oh] source size px.
\* LINES: every strip is the full render width and one cell high ("the image is evenly split
\* across the number of lines"); WHOLE: the minimal render size - the source size when it has
\* no more pixels than the render size, else the render size.  ANIM on a non-animated image
\* is documented as "the WHOLE render method is used instead" without fixing the data size:
\* either size is accepted.
RenderPx(g) == [w |-> g.rw * g.cw, h |-> g.rh * g.ch]
MinimalPx(g) ==
  IF RenderPx(g).w * RenderPx(g).h < g.ow * g.oh THEN RenderPx(g) ELSE [w |-> g.ow, h |-> g.oh]
PxStr(p) == ToString(p.w) \o "x" \o ToString(p.h)
PxSet(g, m) ==
  IF m = "lines" THEN {PxStr([w |-> RenderPx(g).w, h |-> RenderPx(g).h \div g.rh])}
  ELSE IF m = "whole" THEN {PxStr(MinimalPx(g))}
  ELSE {PxStr(MinimalPx(g)), PxStr(RenderPx(g))}
WellFormedGeo(g) ==
  /\ g.cw >= 1 /\ g.ch >= 1 /\ g.rw >= 1 /\ g.rh >= 2 /\ g.ow >= 1 /\ g.oh >= 1
  /\ g.rw * g.cw * g.rh * g.ch <= 100000 /\ g.ow * g.oh <= 100000

\* the observable projection of the effective value (the render method has no getter:
\* it is observed through the framing of an actual render without override)
\* forced_support applies everywhere; the other settings at the style class and below
Applies(T, fam, set, n) ==
  set \in SettingsOf(fam) /\ (set = "fs" \/ n = StyleNode(T) \/ StyleNode(T) \in Anc(T, n))

ObsEff(T, fam, S, set, n) ==
  IF ~Applies(T, fam, set, n) THEN NA
  ELSE IF set = "rm" THEN StrV(FrameOf(Eff(T, S, set, n).s))
  ELSE Eff(T, S, set, n)

ObsDefault(fam, set) ==
  IF set \notin SettingsOf(fam) THEN NA
  ELSE IF set = "rm" THEN StrV(FrameOf(Default(set).s)) ELSE Default(set)

\* forced support observed through its effect: can the class be instantiated when the
\* active terminal does not support the style?
Gate(T, S, n) ==
  IF ~IsClass(T, n) \/ Abstract(T, n) THEN "na"
  ELSE IF Eff(T, S, "fs", n) = BoolV(TRUE) THEN "open" ELSE "shut"

\* ... and through clear() of the invoking class on such a terminal: KittyImage.clear() "does
\* nothing if the render style is not supported" unless support is forced for THAT class;
\* ITerm2Image.clear() "works only on Konsole" whatever is forced
OtherFam(fam) == IF fam = "kitty" THEN "iterm2" ELSE "kitty"
ClearObs(T, fam, S, n) ==
  IF ~IsClass(T, n) \/ Abstract(T, n) THEN "na"
  ELSE LET f == IF T.real[n] = "other" THEN OtherFam(fam) ELSE fam IN
       IF f = "kitty" /\ Eff(T, S, "fs", n) = BoolV(TRUE) THEN "emits" ELSE "silent"

Weight(S, set) == Cardinality({n \in DOMAIN S[set] : S[set][n] # Unset})
=============================================================================
