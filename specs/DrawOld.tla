------------------------------- MODULE DrawOld -------------------------------
(***************************************************************************)
(* The draw procedure of the image API (BaseImage.draw / _display_animated  *)
(* / ImageIterator._animate) as a PROGRAM over the operations it issues,    *)
(* for a text (block) image whose formatted frame i is abstracted to the    *)
(* single token FRAME(i).  Consecutive writes are merged (print() issues    *)
(* one write per argument, separator and terminator).                       *)
(*                                                                         *)
(*   still:  [W(hide) F]  R  W(FRAME 0) F          | W(SGR0 [show] LF)       *)
(*   anim:   [W(hide) F]  R W(FRAME 0) F                                     *)
(*           { R S W(CR [CUU lines-1] FRAME i) F }*  | W(SGR0 [show] LF)     *)
(*                                                                         *)
(* The end of a pass is DISCOVERED by a render attempt that runs off the    *)
(* last frame (R, no output).  Without caching every pass renders every     *)
(* frame again; with caching (repeat >= 2) passes after the first issue no  *)
(* render at all.  The next frame is always rendered BEFORE the sleep that  *)
(* finishes the current frame's duration (render-ahead).                    *)
(* MC_DrawOld composes the program with Terminal.tla (every frame is drawn  *)
(* over the first, the cursor ends on the line below) and dumps it; the     *)
(* operation log of the REAL draw() must be exactly the program.            *)
(***************************************************************************)
EXTENDS Terminal

Tok(k, n, m, g, p, x) == [k |-> k, n |-> n, m |-> m, g |-> g, p |-> p, x |-> x]
Simple(k) == Tok(k, -1, -1, "", <<>>, 0)
Num(k, n) == Tok(k, n, -1, "", <<>>, 0)
Frame(i) == Tok("print", 1, 57344 + i, "ch", <<>>, 0)      \* placeholder U+E000+i
Hide == Tok("decrst", 25, -1, "", <<25>>, 0)
Show == Tok("decset", 25, -1, "", <<25>>, 0)
Sgr0 == Tok("sgr", -1, -1, "", <<0>>, 0)

W(toks) == [op |-> "W", toks |-> toks]
Op(k) == [op |-> k, toks |-> <<>>]
Opt(c, s) == IF c THEN s ELSE <<>>

Rewrite(c, i) == <<Simple("cr")>> \o (IF c.lines > 1 THEN <<Num("cuu", c.lines - 1)>> ELSE <<>>) \o <<Frame(i)>>

\* one pass over frames from..(frames-1) with a render per frame (first pass, or no cache)
RECURSIVE RenderedPass(_, _)
RenderedPass(c, i) ==
  IF i >= c.frames THEN <<>>
  ELSE <<Op("R"), Op("S"), W(Rewrite(c, i)), Op("F")>> \o RenderedPass(c, i + 1)

\* one pass served from the cache: no render
RECURSIVE CachedPass(_, _)
CachedPass(c, i) ==
  IF i >= c.frames THEN <<>>
  ELSE <<Op("S"), W(Rewrite(c, i)), Op("F")>> \o CachedPass(c, i + 1)

Cached(c) == c.cached /\ c.repeat # 1

RECURSIVE LaterPasses(_, _)
LaterPasses(c, p) ==
  \* p = passes still to do after the first; each non-cached pass starts with the failed
  \* render attempt (R) that discovered the end of the previous one
  IF p <= 0 THEN <<>>
  ELSE IF Cached(c) THEN CachedPass(c, 0) \o LaterPasses(c, p - 1)
  ELSE RenderedPass(c, 0) \o <<Op("R")>> \o LaterPasses(c, p - 1)

Animation(c) ==
  <<Op("R"), W(<<Frame(0)>>), Op("F")>> \o RenderedPass(c, 1) \o <<Op("R")>>   \* first pass + EOF attempt
  \o LaterPasses(c, c.repeat - 1)

Body(c) ==
  Opt(c.tty, <<W(<<Hide>>), Op("F")>>)
  \o (IF c.frames > 1 THEN Animation(c) ELSE <<Op("R"), W(<<Frame(0)>>), Op("F")>>)

Cleanup(c) == <<W(<<Sgr0>> \o Opt(c.tty, <<Show>>) \o <<Simple("lf")>>)>>
Prog(c) == Body(c) \o Cleanup(c)

RECURSIVE Flat(_, _)
Flat(prog, i) == IF i > Len(prog) THEN <<>> ELSE prog[i].toks \o Flat(prog, i + 1)
=============================================================================
