---------------------------- MODULE AttrDispatch ----------------------------
(***************************************************************************)
(* X07: state machine over AttrDispatchCore for one world (class tree).     *)
(* State = what is stored at every class and instance, per property kind.   *)
(* One named action per API operation and documented branch; rejected        *)
(* operations change nothing.  TLC explores every state with at most         *)
(* MaxWeight stored values and ALL transitions among them, prints every edge *)
(* (spec -> code replay) and, once per state, what the real objects must     *)
(* show in that state.                                                      *)
(***************************************************************************)
EXTENDS AttrDispatchCore, TLC, Json

CONSTANTS
  World,       \* the class tree (see AttrDispatchCore)
  OpKinds,     \* property kinds the operations of this run address (the others are only observed)
  MaxWeight    \* bound on the number of stored values

ASSUME WellFormedWorld(World)
MT == MroTable(World)
ASSUME WellFormedMro(World, MT)

VARIABLES S, out
vars == <<S, out>>
View == S

Op(k, p, n, a) == [k |-> k, p |-> p, n |-> n, a |-> a]
NoLog == <<>>
Out(op, val, log) == [op |-> op, res |-> Res(World, op), msg |-> Msg(World, op), val |-> val, log |-> log,
                      cls |-> IF op.k = "err" THEN ErrClass(op.p) ELSE ""]

Init == S = Clean(World) /\ out = Out(Op("get", "ro", 1, 0), 50, NoLog)

Do(op, val, log) == S' = Apply(World, S, op) /\ out' = Out(op, val, log)

Props == OpKinds \cap {"cip", "cp", "ro"}
Writable == OpKinds \cap {"cip", "cp"}
NodesOf == Nodes(World)

\* --- properties: one named action per operation / documented branch ------------------------
\* GET: "Returns the effective [value] of the invoker (class or instance)"
PropGet == \E p \in Props, n \in NodesOf : p \in Kinds /\ Do(Op("get", p, n, 0), Eff(World, MT, S, p, n), NoLog)

\* SET via a class: class-wide; via an instance: instance-specific
PropSet == \E p \in Writable, n \in NodesOf, v \in Vals :
             Settable(World, p, n) /\ Do(Op("set", p, n, v), 0, NoLog)

PropSetInvalidType == \E p \in Writable, n \in NodesOf :
             Settable(World, p, n) /\ Do(Op("set", p, n, BadType), 0, NoLog)

PropSetOutOfRange == \E p \in Writable, n \in NodesOf :
             Settable(World, p, n) /\ Do(Op("set", p, n, BadRange), 0, NoLog)

\* DELETE: that level is unset and shows the next level again
PropDelete == \E p \in Writable, n \in NodesOf :
             Settable(World, p, n) /\ S[p][n] # Unset /\ Do(Op("del", p, n, 0), 0, NoLog)

\* deleting what is not set at that level is accepted and changes nothing (in particular it
\* does not reach through to the level that provides the value)
PropDeleteUnset == \E p \in Writable, n \in NodesOf :
             Settable(World, p, n) /\ S[p][n] = Unset /\ Do(Op("del", p, n, 0), 0, NoLog)

\* ClassProperty on an instance is a read-only shadow: "Can not be set on an instance"
ShadowSet == \E n \in Instances(World), v \in Vals \cup {BadType} :
             "cp" \in OpKinds /\ Do(Op("set", "cp", n, v), 0, NoLog)
ShadowDelete == \E n \in Instances(World) : "cp" \in OpKinds /\ Do(Op("del", "cp", n, 0), 0, NoLog)

\* a property without setter / deleter rejects both, on the class and on the instance
\* (these operations do not depend on what is stored: explored from the lightest states only)
Light == Weight(S) <= 1
ReadOnlySet == \E n \in NodesOf, v \in Vals : "ro" \in OpKinds /\ Light /\ Do(Op("set", "ro", n, v), 0, NoLog)
ReadOnlyDelete == \E n \in NodesOf : "ro" \in OpKinds /\ Light /\ Do(Op("del", "ro", n, 0), 0, NoLog)

\* --- ClassInstanceMethod ---------------------------------------------------------------------
MethodOn == "m" \in OpKinds
MethodSetViaClass == \E n \in Classes(World), v \in Vals :
             MethodOn /\ Do(Op("call", "m", n, v), 0, CallLog(World, MT, n))
MethodSetViaInstance == \E n \in Instances(World), v \in Vals :
             MethodOn /\ Do(Op("call", "m", n, v), 0, CallLog(World, MT, n))
MethodUnsetViaClass == \E n \in Classes(World) :
             MethodOn /\ Do(Op("call", "m", n, Unset), 0, CallLog(World, MT, n))
MethodUnsetViaInstance == \E n \in Instances(World) :
             MethodOn /\ Do(Op("call", "m", n, Unset), 0, CallLog(World, MT, n))
MethodInvalid == \E n \in NodesOf, b \in {BadType, BadRange} :
             MethodOn /\ Do(Op("call", "m", n, b), 0, CallLog(World, MT, n))
MethodLook == \E n \in NodesOf :
             MethodOn /\ Do(Op("look", "m", n, 0), Eff(World, MT, S, "m", n), LookLog(World, n))

\* --- facts about the descriptor objects themselves (see the harness for the list) --------------
Introspect == Weight(S) = 0 /\ Do(Op("static", "ro", 1, 0), 1, NoLog)

\* --- the argument-error helpers called directly: they RETURN the exception ---------------------
ErrorHelper == \E h \in Helpers, x \in {0, 1} : Weight(S) = 0 /\ Do(Op("err", h, 1, x), 0, NoLog)

Next == \/ PropGet \/ PropSet \/ PropSetInvalidType \/ PropSetOutOfRange \/ PropDelete \/ PropDeleteUnset
        \/ ShadowSet \/ ShadowDelete \/ ReadOnlySet \/ ReadOnlyDelete
        \/ MethodSetViaClass \/ MethodSetViaInstance \/ MethodUnsetViaClass \/ MethodUnsetViaInstance
        \/ MethodInvalid \/ MethodLook \/ Introspect \/ ErrorHelper
Spec == Init /\ [][Next]_vars

Bound == Weight(S) <= MaxWeight

\* --- invariants ----------------------------------------------------------------------------
TypeOK ==
  /\ \A k \in StoredKinds, n \in NodesOf : S[k][n] \in {Unset} \cup Vals
  /\ out.res \in {"ok", "AttributeError", "TypeError", "ValueError"}

\* instance -> nearest class that has a value -> default, said two ways
EffectiveIsNearestValue ==
  \A k \in StoredKinds, n \in NodesOf :
    LET first == LookupChain(World, MT, k, n)[1] IN
    Eff(World, MT, S, k, n) = IF S[k][first] # Unset THEN S[k][first] ELSE EffBelow(World, MT, S, k, n)

ShadowHasNoStorage == \A n \in Instances(World) : S["cp"][n] = Unset
ShadowShowsItsClass == \A n \in Instances(World) : Eff(World, MT, S, "cp", n) = Eff(World, MT, S, "cp", World.cls[n])
ReadOnlyIsConstant == \A n \in NodesOf : Eff(World, MT, S, "ro", n) = 50
OnlyAddressedKindsTouched == \A k \in StoredKinds \ OpKinds : S[k] = Clean(World)[k]

\* a property defined by a derived metaclass / subclass does not disturb the parent's: a class
\* outside the redefinition keeps the parent's default, whatever is stored below it
ParentDefaultUndisturbed ==
  \A c \in Classes(World) :
    MetaOf(World, MT, c) = 1 /\ (\A a \in Range(MT[c]) : S["cip"][a] = Unset) => Eff(World, MT, S, "cip", c) = 10

\* --- action properties ---------------------------------------------------------------------
Accepted == out'.res = "ok" /\ out'.op.k \in {"set", "del", "call"}
KindOf(op) == IF op.k = "call" THEN "m" ELSE op.p

RejectedChangesNothing == [][out'.res # "ok" => S' = S]_vars
ReadsChangeNothing == [][out'.op.k \in {"get", "look", "static", "err"} => S' = S /\ out'.res = "ok"]_vars

\* an operation on a class addresses class-level storage, on an instance instance-level storage:
\* exactly the addressed slot may change
OnlyAddressedSlotChangesStep ==
  Accepted => \A k \in StoredKinds, n \in NodesOf :
                 (k # KindOf(out'.op) \/ n # out'.op.n) => S'[k][n] = S[k][n]
OnlyAddressedSlotChanges == [][OnlyAddressedSlotChangesStep]_vars

SetTakesEffectStep ==
  Accepted /\ out'.op.a # Unset /\ out'.op.k # "del" =>
    LET k == KindOf(out'.op) IN
    \A n \in {out'.op.n} \cup InheritsThrough(World, MT, S, k, out'.op.n) : Eff(World, MT, S', k, n) = out'.op.a
SetTakesEffect == [][SetTakesEffectStep]_vars

\* deletion at one level re-exposes the next level
DeleteReexposesNextStep ==
  Accepted /\ (out'.op.k = "del" \/ out'.op.a = Unset) =>
    LET k == KindOf(out'.op) IN
    Eff(World, MT, S', k, out'.op.n) = EffBelow(World, MT, S', k, out'.op.n)
DeleteReexposesNext == [][DeleteReexposesNextStep]_vars

\* ancestors, siblings and unrelated instances never see a change
LocalEffectStep ==
  Accepted =>
    LET k == KindOf(out'.op)
        x == out'.op.n IN
    \A kk \in Kinds, n \in NodesOf :
       (kk # k \/ (n # x /\ n \notin InheritsThrough(World, MT, S, k, x))) =>
          Eff(World, MT, S', kk, n) = Eff(World, MT, S, kk, n)
LocalEffect == [][LocalEffectStep]_vars

\* a ClassInstanceMethod invoked on a class gets the class, on an instance the instance
ReceiverIsInvokerStep ==
  out'.op.k \in {"call", "look"} =>
    /\ Len(out'.log) >= 1
    /\ \A i \in 1..Len(out'.log) : out'.log[i].r = out'.op.n /\ out'.log[i].lvl = Level(World, out'.op.n)
ReceiverIsInvoker == [][ReceiverIsInvokerStep]_vars

\* the function that runs first is the variant registered on the nearest descriptor; super()
\* walks the remaining descriptors in MRO order and ends in the root's function
DispatchFollowsMroStep ==
  out'.op.k = "call" =>
    LET mro == MT[ClassOf(World, out'.op.n)]
        lg == out'.log
        lvl == Level(World, out'.op.n)
        first == mro[Min({i \in 1..Len(mro) : World.decl[mro[i]].own})] IN
    /\ lg[1].d = VariantOwner(World, first, lvl)
    /\ lg[Len(lg)].d = 1
    /\ \A i \in 1..Len(lg) : lg[i].d \in Range(mro)
    /\ \A i \in 1..(Len(lg) - 1) : IndexOf(mro, lg[i].d) < IndexOf(mro, lg[i + 1].d)
DispatchFollowsMro == [][DispatchFollowsMroStep]_vars

\* --- dumps (spec -> code replay) -----------------------------------------------------------
Key(s) == [c |-> s["cip"], p |-> s["cp"], m |-> s["m"]]
Dump == PrintT(<<"EDGE", ToJson([from |-> Key(S), op |-> out', to |-> Key(S')])>>)
StateDump == PrintT(<<"STATE", ToJson([k |-> Key(S), obs |-> Obs(World, MT, S)])>>)
InitDump ==
  TLCGet("level") = 1 =>
    /\ PrintT(<<"INIT", ToJson(Key(S))>>)
    /\ PrintT(<<"WORLD", ToJson([w |-> World, mro |-> MT])>>)
=============================================================================
