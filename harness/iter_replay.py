"""Spec -> code replay of RenderIter.tla behaviours into the real RenderIterator."""

from __future__ import annotations

from . import graph, iterkit, tlc
from .core import Report

CONFIGS = {
    # name: (cfg file, N, K)
    "A": ("MC_RenderIter_A.cfg", 2, 0),
    "B": ("MC_RenderIter_B.cfg", 3, 0),
    "C": ("MC_RenderIter_C.cfg", 0, 3),
    # C09: render-argument values that cannot be hashed (a list / a dict in a field), 2 frames
    "D": ("MC_RenderIter_D.cfg", 2, 0),
}

PROPS = [
    "SeekNoLoop", "RejectedChangesNothing", "SettingsOnlyBySetter", "FrameMatchesSettings",
    "NoRerender", "EqualArgsChangeNothing", "ClosedIsTerminal", "LoopCountdown", "PendingSeekOnce",
]


def model_check(rep: Report, name: str, depth: int, timeout=900):
    cfg, n, k = CONFIGS[name]
    text = (tlc.SPECS / cfg).read_text().replace("MaxDepth = 5", f"MaxDepth = {depth}")
    gen = tlc.OUT / "cfg" / str(__import__("os").getpid())
    gen.mkdir(parents=True, exist_ok=True)
    path = gen / f"RI_{name}_{depth}.cfg"
    path.write_text(text)
    res = tlc.run("MC_RenderIter", str(path), workers=1, timeout=timeout, coverage=False)
    rep.add_tlc(res)
    if res.violated:
        rep.violation(
            f"design:RenderIter:{res.violated}",
            f"RenderIter.tla ({cfg}) violates {res.violated}:\n{res.error_text[:1500]}",
            {"kind": "design", "cfg": cfg},
        )
        return None
    g = graph.from_result(res)
    if not g.edges:
        raise tlc.MachineryError(f"no EDGE lines from {cfg}")
    names = {e["op"]["op"]["name"] for e in g.edges}
    need = {"next", "seek", "set_frame_duration", "set_padding", "set_render_args",
            "set_render_size", "close", "drop", "next_fails", "next_reclose"}
    if cfg.endswith("_A.cfg"):
        need |= {"resize"}
    if not need <= names:
        raise tlc.MachineryError(f"vacuous model: actions never taken in {cfg}: {need - names}")
    return g


def init_of(state: dict, n: int, k: int) -> dict:
    return {"n": n, "k": k, "loops": state["loops"], "cached": state["cached"], "own": state["own"]}


def run_ops(init: dict, steps: list[dict], variant: int, pair: bool):
    """Execute ``steps`` (each {"op":..., "r": expected result, "to": expected state}) on a fresh
    real iterator.  Returns (index of failing step or None, clause, message)."""
    it = iterkit.RealIter(init, variant)
    shadow = iterkit.RealIter(init, variant, cache_override=False) if pair else None
    for i, st in enumerate(steps):
        op, exp, to = st["op"], st["r"], st.get("to")
        real = it.apply(op)
        sreal = shadow.apply(op) if shadow is not None else None
        if sreal is not None and exp["res"] == "frame" == sreal["res"] != real["res"]:
            return (i, f"{op['name']}:cached-fails-where-uncached-yields",
                    f"spec and uncached iterator: a frame; cached iterator: {real['res']} {real.get('msg', '')}")
        msg = iterkit.compare(exp, real)
        if msg:
            return i, f"{op['name']}:{msg.split(':')[0]}", msg
        if shadow is not None:
            a = {k: v for k, v in real.items() if k not in ("rendered", "msg")}
            b = {k: v for k, v in sreal.items() if k not in ("rendered", "msg")}
            if a != b:
                return i, f"{op['name']}:cached-differs-from-uncached", f"cached {a!r} vs uncached {b!r}"
        if to is not None:
            if not it.dropped and it.loop() != to["loop"]:
                return i, f"{op['name']}:loop", f"iterator.loop: spec {to['loop']}, code {it.loop()}"
            if it.fin() != to["fin"]:
                return (
                    i,
                    f"{op['name']}:finalize-count",
                    f"render data finalized {it.fin()} times, spec says {to['fin']} "
                    f"(owner={init['own']}, closed={to['closed']})",
                )
        if it.probe.tell() != it.tell0:
            return i, f"{op['name']}:renderable-frame-moved", f"renderable.tell() {it.tell0} -> {it.probe.tell()}"
        if it.finalized_data_used():
            return i, f"{op['name']}:render-with-finalized-data", "a frame was rendered with finalized render data"
    return None, "", ""


def replay(rep: Report, name: str, g: graph.Graph, pair: bool = False, max_walks=None, probe=3):
    import gc

    cfg, n, k = CONFIGS[name]
    walks = g.walks(max_len=30)
    gc.collect()
    gc.freeze()  # the edge graph is huge: keep it out of the collections that "drop" triggers
    if g.unreachable_edges:
        raise tlc.MachineryError(f"{g.unreachable_edges} edges of {cfg} unreachable from INIT states")
    nxt = {}
    for e in g.edges:
        if e["op"]["op"]["name"] == "next":
            nxt[graph.key(e["from"])] = e
    if max_walks:
        walks = walks[:max_walks]
    for wi, walk in enumerate(walks):
        steps = [{"op": e["op"]["op"], "r": e["op"]["r"], "to": e["to"]} for e in walk]
        # probe suffix: follow the spec's next() edges to expose hidden-state divergence
        cur = graph.key(walk[-1]["to"])
        for _ in range(probe):
            e = nxt.get(cur)
            if not e:
                break
            steps.append({"op": e["op"]["op"], "r": e["op"]["r"], "to": e["to"]})
            cur = graph.key(e["to"])
        init = init_of(walk[0]["from"], n, k)
        rep.evaluations += len(steps)
        rep.traces_validated += 1
        i, clause, msg = run_ops(init, steps, wi, pair)
        rep.distinct.add((name, wi))
        if i is not None:
            ops = steps[: i + 1]
            rep.violation(
                f"RenderIterator:{clause}",
                f"{msg}\nconfig {cfg} (N={n}, K={k}), init={init}, after ops: "
                + " ; ".join(_fmt(s["op"]) for s in ops),
                {"kind": "replay", "init": init, "steps": ops, "variant": wi, "pair": pair},
            )
        if wi < 2:
            rep.sample({"config": cfg, "init": init, "ops": [_fmt(s["op"]) for s in steps][:14]})
    rep.extra.setdefault("walks", {})[name] = len(walks)
    rep.extra.setdefault("edges", {})[name] = len(g.edges)
    rep.extra.setdefault("nodes", {})[name] = g.nodes


def _fmt(op: dict) -> str:
    a = ",".join(f"{k}={v}" for k, v in op.items() if k != "name")
    return f"{op['name']}({a})"


def replay_scenario(rep: Report, sc: dict):
    i, clause, msg = run_ops(sc["init"], sc["steps"], sc.get("variant", 0), sc.get("pair", False))
    rep.evaluations += len(sc["steps"])
    if i is not None:
        rep.violation(f"RenderIterator:{clause}", msg, sc)
