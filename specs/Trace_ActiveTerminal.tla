------------------------ MODULE Trace_ActiveTerminal ------------------------
(***************************************************************************)
(* X07: code -> spec.  One trace = one REAL process: its standard streams    *)
(* and controlling terminal are real pseudo-terminals (or not terminals) as  *)
(* `conf` says, it loads term_image.utils and then answers                   *)
(* get_terminal_size() after every change made from outside (window sizes    *)
(* set with TIOCSWINSZ on the pty masters, COLUMNS / LINES, masters closed). *)
(*   trace = [conf, size0, ev]; event = [op = [k, t, c, l], r = [cols, lines,*)
(*   act, via, warned]]                                                       *)
(***************************************************************************)
EXTENDS ActiveTerminalCore, TLC, Json, IOUtils

Traces == JsonDeserialize(IOEnv.TRACE_FILE)
VARIABLES tid, l, loaded, active, alive, size, env, verdict, at
vars == <<tid, l, loaded, active, alive, size, env, verdict, at>>
Tr == Traces[tid]
Conf == Tr.conf
NE == Len(Tr.ev)

WFTrace(tr) == WFConf(tr.conf) /\ Len(tr.size0) = 4 /\ \A t \in 1..4 : Len(tr.size0[t]) = 2
WFEvent(e) ==
  /\ e.op.k \in {"load", "resize", "env", "hangup", "query"}
  /\ e.op.k = "load" <=> ~loaded
  /\ e.op.k \in {"resize", "hangup"} => e.op.t \in Used(Conf) /\ alive[e.op.t]

Clause(e, act2, alive2, size2, env2) ==
  LET ans == Answer(Conf, act2, alive2, size2, env2)
      viaStream == \E i \in 1..3 : Order(Conf)[i] # 0 IN
  IF ~WFEvent(e) THEN "trace-malformed"
  ELSE IF e.op.k = "load" /\ e.r.act # act2 THEN
     (IF act2 = 0 THEN "terminal-adopted-though-none-available"
      ELSE IF e.r.act = 0 THEN "no-terminal-adopted-though-one-available"
      ELSE "wrong-stream-priority")
  ELSE IF e.op.k = "load" /\ (e.r.via = 4) # (DiscoveredVia(Conf) = 4) THEN "controlling-terminal-used-out-of-turn"
  ELSE IF e.op.k = "load" /\ e.r.warned # (act2 = 0) THEN
     (IF act2 = 0 THEN "no-warning-without-terminal" ELSE "warning-despite-terminal")
  ELSE IF e.r.act # act2 THEN "active-terminal-changed-after-load"
  ELSE IF <<e.r.cols, e.r.lines>> = ans THEN "ok"
  ELSE IF act2 # 0 /\ alive2[act2] THEN
     (IF <<e.r.cols, e.r.lines>> = Fallback(Conf, alive2, size2, env2) THEN "environment-or-stdout-believed-instead-of-active-terminal"
      ELSE IF \E t \in Used(Conf) \ {act2} : <<e.r.cols, e.r.lines>> = size2[t] THEN "size-of-another-terminal"
      ELSE "stale-or-wrong-size")
  ELSE "fallback-wrong"

Init ==
  /\ tid \in 1..Len(Traces)
  /\ l = 0 /\ loaded = FALSE /\ active = 0
  /\ alive = [t \in Ttys |-> TRUE]
  /\ size = IF WFTrace(Traces[tid]) THEN [t \in Ttys |-> <<Traces[tid].size0[t][1], Traces[tid].size0[t][2]>>]
            ELSE [t \in Ttys |-> <<0, 0>>]
  /\ env = NoEnv
  /\ verdict = IF WFTrace(Traces[tid]) THEN "ok" ELSE "trace-malformed"
  /\ at = 0

Step ==
  /\ l < NE
  /\ l' = l + 1
  /\ LET e == Tr.ev[l + 1]
         usable == verdict # "trace-malformed" /\ WFEvent(e)
         k == e.op.k
         act2 == IF usable /\ k = "load" THEN Discover(Conf) ELSE active
         alive2 == IF usable /\ k = "hangup" THEN [alive EXCEPT ![e.op.t] = FALSE] ELSE alive
         size2 == IF usable /\ k = "resize" THEN [size EXCEPT ![e.op.t] = <<e.op.c, e.op.l>>] ELSE size
         env2 == IF usable /\ k = "env" THEN [c |-> e.op.c, l |-> e.op.l] ELSE env
         v == IF verdict # "ok" THEN verdict ELSE Clause(e, act2, alive2, size2, env2)
     IN /\ active' = act2 /\ alive' = alive2 /\ size' = size2 /\ env' = env2
        /\ loaded' = (loaded \/ (usable /\ k = "load"))
        /\ verdict' = v
        /\ at' = IF verdict = "ok" /\ v # "ok" THEN l + 1 ELSE at
  /\ UNCHANGED tid
Finish == l = NE /\ l' = NE + 1 /\ UNCHANGED <<tid, loaded, active, alive, size, env, verdict, at>>
Next == Step \/ Finish
Spec == Init /\ [][Next]_vars
Done == l = NE + 1
Report == Done => PrintT(<<"VERDICT", ToJson([tid |-> tid, verdict |-> verdict, at |-> at, events |-> NE])>>)
=============================================================================
