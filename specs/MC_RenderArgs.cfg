\* C16 quick: chain of 3 + fork of 3 x owner sets, histories of 3 operations, heap <= 6
SPECIFICATION Spec
CONSTANTS
  TreeSel = "quick"
  Part = 0
  NParts = 1
  Sub = 0
  NSub = 1
  MaxOps = 3
  MaxHeap = 6
  MaxNss = 2
  DumpEdges = TRUE
  UvalOps = {"NsNew"}
VIEW View
ACTION_CONSTRAINT Dump
INVARIANT StateDump
INVARIANT HeapWellFormed
INVARIANT DefaultsPristine
INVARIANT FoldAgrees
INVARIANT ResultClass
INVARIANT OperandsContained
INVARIANT HeldIsGiven
INVARIANT RejectionDocumented
INVARIANT EqIsEquivalence
INVARIANT EqualHashEqual
INVARIANT NeutralOps
PROPERTY HeapImmutable
CHECK_DEADLOCK FALSE
