SPECIFICATION Spec
CONSTANTS
  Times = {1, 4, 5}
  MaxChunks = 2
  MaxChunk = 3
  MaxBytes = 3
  Scheds <- AllScheds
  Ttys = {TRUE, FALSE}
  TermEchos = {TRUE, FALSE}
  Mins = {0, 3}
  Tmos <- TmosQuick
  Echos = {TRUE, FALSE}
  Mores <- MoresQuick
  TermBytes <- Terms2
  Datas <- DatasRead
  Plans <- PlansNone
  Horizon = 9
  MaxWire = 0
  Variant = "code"
VIEW View
INVARIANT TypeOK
INVARIANT PendFuture
INVARIANT NoTerminalNothing
INVARIANT NothingLostOrDuplicated
INVARIANT ResultArrivedInTime
INVARIANT MinBytes
INVARIANT NonBlocking
INVARIANT WaitBounded
INVARIANT ReturnReason
INVARIANT StopsWhenToldTo
INVARIANT NeverWaitsInVain
INVARIANT EchoDuringReadOnly
INVARIANT ConsultsSeeBuffer
INVARIANT WriteInOrder
INVARIANT WriteComplete
INVARIANT BlocksOnlyWhenDocumented
PROPERTY NoTerminalNone
PROPERTY LeftoverStaysQueued
PROPERTY TimePasses
PROPERTY ReadTouchesOnlyInput
PROPERTY WriteTouchesOnlyOutput
CHECK_DEADLOCK FALSE
