"""Conformance of harness/lexer.py to specs/VT.tla (spec -> code).

TLC enumerates every byte-class string up to length L with the parser state and event
sequence the specification assigns to it (MC_VT); each string is instantiated with one
representative byte per class, lexed, and the lexer's event sequence and end state must be
identical.  The lexer is thus itself a conformance-checked implementation of the spec; a
disagreement is a machinery failure (exit 2), not a property verdict.
"""

from __future__ import annotations

from . import lexer, tlc
from .core import Report

REP = {
    "ESC": "\x1b", "C0": "\n", "CAN": "\x18", "BEL": "\x07", "LB": "[", "RB": "]", "US": "_",
    "DP": "P", "BSL": "\\", "PAR": "1", "INT": "(", "FIN": "D", "PR": "é",
}

STR_KINDS = {"kitty", "iterm", "osc", "apc", "dcs", "pm", "sos"}
EXEC = {"lf", "cr", "bs", "nul", "bel", "tab", "shift"}


def events_of(stream: lexer.Stream) -> list[str]:
    out = []
    for t in stream.toks:
        k = t["k"]
        if k == "print":
            out += ["print"] * t["n"]
        elif k in EXEC:
            out.append("exec")
        elif k == "unknown":
            g = t["g"]
            if g.startswith("C0 "):
                out.append("exec")
            elif g.startswith("CSI byte") or g.startswith("ESC "):
                out.append("bad")
            elif g.startswith("CSI "):
                out.append("csid")
            else:
                out.append("unknown:" + g)
        elif k == "esc":
            out.append("escd")
        elif k in ("abort", "st", "scs"):
            out.append(k)
        elif k in STR_KINDS:
            out.append("strend")
        elif k == "partial":
            pass
        else:
            out.append("csid")
    return out


def check(rep: Report, length: int | None = None) -> None:
    length = length or (4 if rep.tier == "quick" else 5)
    gen = tlc.OUT / "cfg" / str(__import__("os").getpid())
    gen.mkdir(parents=True, exist_ok=True)
    cfg = gen / f"MC_VT_{length}.cfg"
    cfg.write_text((tlc.SPECS / "MC_VT.cfg").read_text().replace("L = 4", f"L = {length}"))
    res = tlc.run("MC_VT", str(cfg), workers=4, timeout=900)
    rep.add_tlc(res)
    if res.violated:
        raise tlc.MachineryError(f"VT.tla violates {res.violated}:\n{res.error_text[:1500]}")
    rows = res.tagged("VT")
    if len(rows) < 13**length:
        raise tlc.MachineryError(f"MC_VT dumped only {len(rows)} strings")
    bad = 0
    for row in rows:
        text = "".join(REP[c] for c in row["s"])
        st = lexer.lex(text)
        ev = events_of(st)
        end = st.end_state
        kind = st.str_kind if end in ("str", "stresc") else ""
        if ev != list(row["ev"]) or end != row["st"] or kind != row["k"]:
            bad += 1
            if bad <= 3:
                print(f"lexer/VT.tla disagreement on {row['s']}: spec {row['ev']} {row['st']}/{row['k']}, "
                      f"lexer {ev} {end}/{kind}")
    if bad:
        raise tlc.MachineryError(f"harness/lexer.py disagrees with specs/VT.tla on {bad} of {len(rows)} class strings")
    rep.extra["vt_conformance"] = {"class_strings": len(rows), "max_length": length}
    rep.traces_validated += len(rows)
