SPECIFICATION Spec
CONSTANTS
  MaxW = 3
  MaxH = 3
  Margin = 1
INVARIANT RectangleClauses
INVARIANT CursorAlwaysOnScreen
INVARIANT PlacementsNeverChangeCells
CHECK_DEADLOCK FALSE
