------------------------------ MODULE MC_Tty ------------------------------
(***************************************************************************)
(* C12, exhaustive: every scenario = (operation, library settings, facts    *)
(* of the terminal incl. the subset of supported queries and terminators,   *)
(* partition of each reply stream into bursts of whole replies, delays,     *)
(* junk already queued before the call, ioctl window size).  The library    *)
(* machine of Tty.tla runs against the virtual-time device of Tty.tla, one   *)
(* system call per step; the clauses of C12 are invariants.  Every finished  *)
(* behaviour prints a SCEN line (schedule + expected observations) that the  *)
(* harness replays into the real functions on harness/env/vtty.py.          *)
(***************************************************************************)
EXTENDS Tty, Json

CONSTANTS MaxDelay,   \* delay before each burst: 0..MaxDelay ticks
          Tmo,        \* query timeout in ticks
          Table       \* include the identity x version table (Support / AutoStyle)

VARIABLES par, m, e
vars == <<par, m, e>>

W0 == [icanon |-> TRUE, echo |-> TRUE, vmin |-> 1, vtime |-> 0, rest |-> 0]
Win(x, y) == [cols |-> 80, rows |-> 24, xpx |-> x, ypx |-> y]

BaseTerm ==
  [sup |-> {},
   fg |-> [c |-> << <<99>>, <<48>>, <<102>> >>, st |-> "st"],                  \* rgb:c/0/f
   bg |-> [c |-> << <<99, 99>>, <<48, 48>>, <<70, 70>> >>, st |-> "st"],       \* rgb:cc/00/FF
   name |-> <<75, 99>>, ver |-> <<49, 46, 99>>, form |-> "paren", xst |-> "st",  \* Kc(1.c)
   cell |-> <<20, 10>>, area |-> <<480, 800>>,
   kid |-> 31, kmsg |-> MsgOK, da1 |-> <<54>>, envName |-> <<>>, envVer |-> <<>>]

\* ---- partitions of a reply stream into bursts (each reply a unit) and their delays ----
RECURSIVE Groupings(_)
Groupings(rs) ==
  IF rs = <<>> THEN {<<>>}
  ELSE UNION {{<<Cat(SubSeq(rs, 1, k))>> \o g : g \in Groupings(SubSeq(rs, k + 1, Len(rs)))} : k \in 1..Len(rs)}
RECURSIVE Sum(_, _)
Sum(d, i) == IF i = 0 THEN 0 ELSE d[i] + Sum(d, i - 1)
Scheds(rs) ==
  UNION {{[i \in 1..Len(g) |-> [delay |-> Sum(d, i), data |-> g[i]]] : d \in [1..Len(g) -> 0..MaxDelay]}
         : g \in Groupings(rs)}
OneBurst(rs) == IF rs = <<>> THEN <<>> ELSE <<[delay |-> 0, data |-> Cat(rs)]>>

P(op, enabled, swap, t, win, iof, pre, sched) ==
  [op |-> op, inner |-> "always", enabled |-> enabled, swap |-> swap, term |-> t, win |-> win, ioctlFails |-> iof,
   preload |-> pre, sched |-> sched, attr0 |-> W0]

Preloads == {<<>>, <<120, 27>>}      \* junk typed before the query: must be discarded

ColorTerms ==
  {t \in {[BaseTerm EXCEPT !.sup = s, !.fg.st = a, !.bg.st = b] :
            s \in SUBSET {"fg", "bg", "da1"}, a \in {"st", "bel"}, b \in {"st", "bel"}} :
     ("fg" \notin t.sup => t.fg.st = "st") /\ ("bg" \notin t.sup => t.bg.st = "st")}
ColorPars ==
  UNION {{P("colors", TRUE, FALSE, t, Win(0, 0), FALSE, pre, <<sc>>) :
            sc \in Scheds(Replies(t, ReqColors)), pre \in {<<120, 27>>}} : t \in ColorTerms}

NameTerms ==
  {t \in {[BaseTerm EXCEPT !.sup = s, !.form = f, !.xst = x] :
            s \in SUBSET {"xtv", "da1"}, f \in {"paren", "space"}, x \in {"st", "bel"}} :
     "xtv" \notin t.sup => (t.form = "paren" /\ t.xst = "st")}
NamePars ==
  UNION {{P("namever", TRUE, FALSE, t, Win(0, 0), FALSE, pre, <<sc>>) :
            sc \in Scheds(Replies(t, ReqNameVer)), pre \in Preloads} : t \in NameTerms}

CellTerms == {[BaseTerm EXCEPT !.sup = s] : s \in SUBSET {"cell", "area", "da1"}}
CellPars ==
  UNION {{P("cellsize", TRUE, sw, t, w, iof, <<>>, <<sc>>) :
            sc \in Scheds(Replies(t, ReqCell)), sw \in BOOLEAN,
            w \in {Win(0, 0), Win(800, 0)}, iof \in {FALSE}} : t \in CellTerms}
  \cup {P("cellsize", TRUE, sw, [BaseTerm EXCEPT !.sup = {"area", "da1"}], Win(0, 0), TRUE, <<>>,
          <<OneBurst(Replies([BaseTerm EXCEPT !.sup = {"area", "da1"}], ReqCell))>>) : sw \in BOOLEAN}
  \* ioctl answers: pixel size present / smaller than the cell count (-> undetermined)
  \cup {P("cellsize", en, sw, [BaseTerm EXCEPT !.sup = {"cell", "area", "da1"}], w, FALSE, <<>>, <<>>) :
          en \in BOOLEAN, sw \in BOOLEAN, w \in {Win(800, 480), Win(40, 12), Win(800, 12), Win(480, 800)}}

NmK == <<107, 105, 116, 116, 121>>
V0200 == <<48, 46, 50, 48, 46, 48>>
KittyTerms == {[BaseTerm EXCEPT !.sup = s, !.name = NmK, !.ver = V0200] : s \in SUBSET {"xtv", "kitty", "da1"}}
KittyPars ==
  UNION {{P("kitty", TRUE, FALSE, t, Win(0, 0), FALSE, <<>>, <<s1, s2>>) :
            s1 \in Scheds(Replies(t, ReqNameVer)), s2 \in Scheds(Replies(t, ReqKitty))} : t \in KittyTerms}

\* queries disabled: defaults, and nothing is written or read
DisabledPars ==
  {P(op, FALSE, FALSE, [BaseTerm EXCEPT !.sup = {"fg", "bg", "xtv", "cell", "area", "kitty", "da1"}],
     Win(0, 0), FALSE, <<120>>, <<>>) : op \in {"colors", "namever", "cellsize", "kitty", "iterm2", "auto"}}

\* environment fallback: XTVERSION answered / unanswered / queries disabled  x  $TERM_PROGRAM unset /
\* lower-case / mixed-case  x  $TERM_PROGRAM_VERSION unset / set.  The name is always reported in
\* lower case; an answered XTVERSION wins over the environment.
EnvNames == {<<>>, <<119, 101, 122, 116, 101, 114, 109>> (* wezterm *), <<87, 101, 122, 84, 101, 114, 109>> (* WezTerm *),
             <<105, 84, 101, 114, 109, 46, 97, 112, 112>> (* iTerm.app *)}
EnvVers == {<<>>, <<51, 46, 52>> (* 3.4 *)}
NameEnvPars ==
  {P(op, en, FALSE, t, Win(0, 0), FALSE, <<>>, <<OneBurst(Replies(t, ReqNameVer)), OneBurst(Replies(t, ReqKitty))>>) :
     op \in {"namever", "iterm2", "auto"}, en \in BOOLEAN,
     t \in {[BaseTerm EXCEPT !.sup = s, !.envName = n, !.envVer = v] :
              s \in {{"xtv", "da1"}, {"da1"}, {}}, n \in EnvNames, v \in EnvVers}}

\* histories: disable_queries(); op(); enable_queries(); op() - the second call must reach the
\* terminal and report what it says (nothing learnt while disabled may survive)
FullTerm == [BaseTerm EXCEPT !.sup = {"fg", "bg", "xtv", "cell", "area", "kitty", "da1"}]
HistoryPars ==
  UNION {{[P("history", TRUE, sw, FullTerm, w, FALSE, <<>>, <<sc>>) EXCEPT !.inner = o] :
            sc \in Scheds(Replies(FullTerm, IF o = "colors" THEN ReqColors ELSE IF o = "namever" THEN ReqNameVer ELSE ReqCell)),
            sw \in IF o = "cellsize" THEN BOOLEAN ELSE {FALSE},
            w \in IF o = "cellsize" THEN {Win(0, 0), Win(800, 0), Win(800, 480)} ELSE {Win(0, 0)}}
         : o \in {"colors", "namever", "cellsize"}}

\* ---- identities x versions around the thresholds (no timing variation) ----
Versions == {<<48, 46, 49, 57, 46, 57>> (* 0.19.9 *),
             <<48, 46, 50, 48, 46, 48>> (* 0.20.0 *),
             <<48, 46, 50, 48>> (* 0.20 *),
             <<48, 46, 50, 48, 46, 48, 46, 49>> (* 0.20.0.1 *),
             <<48, 46, 50, 49, 46, 48>> (* 0.21.0 *),
             <<49, 46, 48, 46, 48>> (* 1.0.0 *),
             <<48, 46, 57, 46, 51, 48>> (* 0.9.30 *),
             <<50, 50, 46, 48, 51, 46, 57>> (* 22.03.9 *),
             <<50, 50, 46, 48, 52, 46, 48>> (* 22.04.0 *),
             <<50, 50, 46, 52, 46, 48>> (* 22.4.0 *),
             <<50, 50, 46, 48, 52>> (* 22.04 *),
             <<50, 50, 46, 49, 50, 46, 51>> (* 22.12.3 *),
             <<50, 51, 46, 48, 46, 48>> (* 23.0.0 *),
             <<48, 46, 50, 48, 46, 120>> (* 0.20.x *),
             <<50, 50, 46, 48, 52, 46, 120>> (* 22.04.x *),
             <<50, 48, 50, 51, 48, 55, 49, 50>> (* 20230712 *),
             <<51, 46, 52, 46, 49, 57>> (* 3.4.19 *)}
Names == {<<107, 105, 116, 116, 121>> (* kitty *),
          <<107, 111, 110, 115, 111, 108, 101>> (* konsole *),
          <<105, 116, 101, 114, 109, 50>> (* iterm2 *),
          <<119, 101, 122, 116, 101, 114, 109>> (* wezterm *),
          <<120, 116, 101, 114, 109>> (* xterm *),
          <<75, 105, 116, 116, 121>> (* Kitty *),
          <<105, 84, 101, 114, 109, 50>> (* iTerm2 *)}
KittyAnswers == {[sup |-> TRUE, kid |-> 31, kmsg |-> MsgOK], [sup |-> FALSE, kid |-> 31, kmsg |-> MsgOK],
                 [sup |-> TRUE, kid |-> 32, kmsg |-> MsgOK],
                 [sup |-> TRUE, kid |-> 31, kmsg |-> <<69, 78, 79, 69, 78, 84>>]}   \* ENOENT
TableTerms ==
  {[BaseTerm EXCEPT !.sup = {"xtv", "da1"} \cup (IF k.sup THEN {"kitty"} ELSE {}),
                    !.name = n, !.ver = v, !.kid = k.kid, !.kmsg = k.kmsg, !.form = f] :
     n \in Names, v \in Versions, k \in KittyAnswers, f \in {"paren"}}
  \cup {[BaseTerm EXCEPT !.sup = {"da1"} \cup (IF k.sup THEN {"kitty"} ELSE {}), !.kid = k.kid, !.kmsg = k.kmsg] :
          k \in KittyAnswers}
TablePars ==
  {P("auto", TRUE, FALSE, t, Win(0, 0), FALSE, <<>>,
     <<OneBurst(Replies(t, ReqNameVer)), OneBurst(Replies(t, ReqKitty))>>) : t \in TableTerms}
  \cup {P("iterm2", TRUE, FALSE, t, Win(0, 0), FALSE, <<>>, <<OneBurst(Replies(t, ReqNameVer))>>) :
          t \in {u \in TableTerms : u.kid = 31 /\ u.kmsg = MsgOK /\ "kitty" \in u.sup}}

Params == ColorPars \cup NamePars \cup CellPars \cup KittyPars \cup DisabledPars \cup HistoryPars \cup NameEnvPars
          \cup (IF Table THEN TablePars ELSE {})

Cfg(p) == [enabled |-> p.enabled, qtmo |-> Tmo, swap |-> p.swap, term |-> p.term]
Op(p) == [NoOp EXCEPT !.name = p.op, !.more = p.inner]
EOp == EffName(Op(par))

Init ==
  /\ par \in Params
  /\ m = Start(Cfg(par), Op(par))
  /\ e = NewEnv(par.attr0, par.win, par.ioctlFails, par.preload, par.sched, [stop |-> 0, raiseAt |-> 0])

Sys(call) ==
  /\ m.status = "run" /\ ~e.hung
  /\ Pending(m).call = call
  /\ LET r == Respond(e, Pending(m)) IN
       /\ m' = Feed(m, r.res)
       /\ e' = [r.env EXCEPT !.nsys = @ + 1]
  /\ UNCHANGED par

Tcgetattr == Sys("tcgetattr")
Tcsetattr == Sys("tcsetattr")
Write == Sys("write")
Tcdrain == Sys("tcdrain")
Select == Sys("select")
Read == Sys("read")
Monotonic == Sys("monotonic")
Termsize == Sys("termsize")
Ioctl == Sys("ioctl")
Next == Tcgetattr \/ Tcsetattr \/ Write \/ Tcdrain \/ Select \/ Read \/ Monotonic \/ Termsize \/ Ioctl
Spec == Init /\ [][Next]_vars

Done == m.status # "run" \/ e.hung

\* ---- the clauses of C12 ----
AllSched == Cat([i \in 1..Len(par.sched) |-> par.sched[i]])      \* every burst of every write
InTime == \A i \in 1..Len(AllSched) : AllSched[i].delay < Tmo
Queried ==      \* the operation actually sends a query
  par.enabled /\ ~(EOp = "cellsize" /\ IoctlGood(par.win, par.ioctlFails))
ReqOf(op) == IF op = "colors" THEN ReqColors ELSE IF op = "namever" THEN ReqNameVer
             ELSE IF op = "cellsize" THEN ReqCell ELSE ReqKitty

\* result = concatenation of the sent replies (two-phase reads: up to the CSI of the DA1
\* reply, the rest is drained by the second read)
ResultIsReplies ==
  (Done /\ InTime /\ Queried /\ EOp \in {"colors", "namever", "cellsize", "kitty"}) =>
    LET t == par.term
        req == ReqOf(EOp)
        all == Cat(Replies(t, req)) IN
    IF EOp \in {"colors", "namever"}
      THEN /\ m.rb \o m.drained = all
           /\ m.rb = IF "da1" \in t.sup THEN Before(t, QueriesOf(req), "da1") \o CSIb ELSE all
      ELSE ~m.rnone /\ m.rb = all
\* parsed values = the replied ones
ReportedIsReplied ==
  (Done /\ InTime) =>
    m.val = ExpectedVal(EOp, par.enabled, par.swap, par.term, par.win, par.ioctlFails)
\* nothing is left unread, nothing is still under way
QueueEmpty == (Done /\ InTime /\ Queried) => (e.inq = <<>> /\ e.pend = <<>>)
\* never waits beyond the timeout of the query under way, never blocks for ever
ElapsedWithinTimeout == e.now <= e.tw + Tmo
NeverSelectNone == Pending(m).call = "select" => Pending(m).a >= 0
NeverHangs == ~e.hung
\* nothing is written when queries are disabled; otherwise exactly the documented requests
ExpectedWrites ==
  IF ~Queried THEN <<>>
  ELSE CASE EOp = "colors" -> <<ReqColors>>
         [] EOp \in {"namever", "iterm2"} -> <<ReqNameVer>>
         [] EOp = "cellsize" -> <<ReqCell>>
         [] OTHER -> IF ~m.nvNone /\ m.nvName = NmITerm2 THEN <<ReqNameVer>> ELSE <<ReqNameVer, ReqKitty>>
Requests == Done => e.wlog = ExpectedWrites
\* C13 on the fault-free paths: the attribute word is put back
AttrRestored == Done => e.attr = par.attr0
Terminates == Done => m.status = "returned"

Residual == e.inq \o Cat([i \in 1..Len(e.pend) |-> e.pend[i].data])
Report ==
  Done => PrintT(<<"SCEN", ToJson(
    [op |-> par.op, inner |-> par.inner, enabled |-> par.enabled, swap |-> par.swap, win |-> par.win,
     ioctlFails |-> par.ioctlFails, preload |-> par.preload, sched |-> par.sched, attr0 |-> par.attr0,
     tmo |-> Tmo, intime |-> InTime,
     term |-> par.term,
     exp |-> [status |-> m.status, val |-> m.val, elapsed |-> e.now, residual |-> Residual,
              wlog |-> e.wlog, nsys |-> e.nsys, attr |-> e.attr]])>>)
=============================================================================
