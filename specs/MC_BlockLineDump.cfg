INIT InitDump
NEXT Next
CONSTANTS
  Colours <- MC_Colours
  TColours <- MC_TColours
  TermBgs <- MC_TermBgs
  AlphaModes = {TRUE, FALSE}
  KittyModes = {TRUE, FALSE}
  SplitModes = {TRUE, FALSE}
  W = 2
  Variant = "code"
INVARIANT RunUniform
INVARIANT Painted
INVARIANT Conservation
INVARIANT LineShape
INVARIANT SgrResetAtLineEnd
INVARIANT TerminalSane
CHECK_DEADLOCK FALSE
INVARIANT DumpLine
