"""C06 stage "termsize": specs/TermSizeEnv.tla enumerated by TLC, every environment arranged
for a real process (harness/termenv_worker.py) and the observations compared with the spec's."""

from __future__ import annotations

import fcntl
import json
import os
import shutil
import signal
import select
import struct
import subprocess
import sys
import termios
import threading
import uuid
from pathlib import Path

from . import tlc
from .core import Report

VERIF = Path(__file__).resolve().parent.parent
FIELDS = ("size", "new_fit", "new_over", "old_fit", "old_over")


def _probe(rows: list[dict], src: str, timeout: float = 180) -> list[dict]:
    outdir = VERIF / "out" / "termenv" / uuid.uuid4().hex[:10]
    outdir.mkdir(parents=True, exist_ok=True)
    ptys, procs, out = [], [], []
    masters: list[int] = []
    stop = threading.Event()

    def drain():
        # a terminal reads what is written to it: never let a draw() block on a full pty
        while not stop.is_set():
            try:
                ready, _, _ = select.select(list(masters), [], [], 0.05)
            except (OSError, ValueError):
                return
            for fd in ready:
                try:
                    os.read(fd, 65536)
                except OSError:
                    pass

    drainer = threading.Thread(target=drain, daemon=True)
    drainer.start()
    env = dict(os.environ, PYTHONPATH=f"{src}:{VERIF}", PYTHONHASHSEED="0")
    try:
        for i, row in enumerate(rows):
            e = row["env"]
            master, slave = os.openpty()  # one pty per session (controlling terminal of one only)
            ptys += [master, slave]
            masters.append(master)
            cols, lines = e["tty"]
            fcntl.ioctl(master, termios.TIOCSWINSZ, struct.pack("HHHH", lines, cols, 0, 0))
            job = dict(src=src, slave=os.ttyname(slave), out=e["out"], inp=e["inp"], err=e["err"],
                       ctty=e["ctty"], decoy=list(e["decoy"]), tty=list(e["tty"]),
                       expect_cols=row["expect"]["size"][0], result_file=str(outdir / f"r{i}.json"))
            (outdir / f"j{i}.json").write_text(json.dumps(job))
            p = subprocess.Popen(
                [sys.executable, "-m", "harness.termenv_worker", str(outdir / f"j{i}.json")],
                cwd=VERIF, env=env, stdin=subprocess.DEVNULL, stdout=subprocess.DEVNULL,
                stderr=open(outdir / f"e{i}.txt", "w"), start_new_session=True,
            )
            procs.append((i, p, job))
            if len(procs) % 12 == 0:  # bounded fan-out
                for _, q, _ in procs[-12:]:
                    try:
                        q.wait(timeout=timeout)
                    except subprocess.TimeoutExpired:
                        raise tlc.MachineryError("TermSizeEnv probe timed out")
        for i, p, job in procs:
            try:
                p.wait(timeout=timeout)
            except subprocess.TimeoutExpired:
                raise tlc.MachineryError(f"TermSizeEnv probe {job} timed out")
            rf = outdir / f"r{i}.json"
            if p.returncode != 0 or not rf.exists():
                raise tlc.MachineryError(
                    f"TermSizeEnv probe {job} failed (rc={p.returncode}): {(outdir / f'e{i}.txt').read_text()[-1500:]}")
            r = json.loads(rf.read_text())
            if r["has_ctty"] != job["ctty"]:
                raise tlc.MachineryError(f"TermSizeEnv probe could not arrange {job}")
            out.append(r)
        return out
    finally:
        stop.set()
        drainer.join(timeout=2)
        for _, p, _ in procs:
            try:
                os.killpg(p.pid, signal.SIGKILL)
            except (ProcessLookupError, PermissionError):
                pass
            try:
                p.wait(timeout=5)
            except Exception:
                pass
        for fd in ptys:
            os.close(fd)
        shutil.rmtree(outdir, ignore_errors=True)


def env_name(e: dict) -> str:
    where = "+".join(k for k in ("out", "inp", "err", "ctty") if e[k]) or "no-terminal"
    return where + (":decoy" if list(e["decoy"]) != [0, 0] else "")


def run(rep: Report, only: dict | None = None) -> None:
    res = tlc.run("MC_TermSizeEnv", "MC_TermSizeEnv.cfg", workers=1, timeout=300, deadlock=False)
    rep.add_tlc(res)
    if res.violated:
        rep.violation(f"design:TermSizeEnv:{res.violated}", res.error_text[:1200], {"kind": "design"})
        return
    rows = res.tagged("ENV")
    if len(rows) < 48:
        raise tlc.MachineryError(f"TermSizeEnv: {len(rows)} environments dumped, 48 expected")
    if only is not None:
        rows = [r for r in rows if r["env"] == only]
    src = str(Path(os.environ.get("VERIF_REPO") or "/repo") / "src")
    obs = _probe(rows, src)
    saw_decoy_with_tty = 0
    for row, o in zip(rows, obs):
        e, exp = row["env"], row["expect"]
        rep.evaluations += 1
        rep.distinct.add(("termenv", env_name(e), tuple(e["decoy"])))
        if (e["out"] or e["inp"] or e["err"] or e["ctty"]) and list(e["decoy"]) != [0, 0]:
            saw_decoy_with_tty += 1
        for f in FIELDS:
            want = list(exp[f]) if f == "size" else exp[f]
            if o[f] != want:
                rep.violation(
                    f"env:get_terminal_size:{env_name(e)}:{f}",
                    f"environment {e}: {f} observed {o[f]!r}, TermSizeEnv.tla expects {want!r} "
                    f"(terminal window {e['tty']}, COLUMNS/LINES {e['decoy']})",
                    {"kind": "termenv", "env": e},
                )
                break
    if only is None and not saw_decoy_with_tty:
        raise tlc.MachineryError("TermSizeEnv: no environment with a terminal AND COLUMNS/LINES set was probed")
    rep.extra["termsize_environments"] = len(rows)
