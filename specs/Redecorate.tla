----------------------------- MODULE Redecorate -----------------------------
(***************************************************************************)
(* X07: state machine for no_redecorate over two independent functions.     *)
(***************************************************************************)
EXTENDS RedecorateCore, TLC, Json

CONSTANTS MaxLayers     \* bound on the total number of layers

Fns == {1, 2}
VARIABLES L, out
vars == <<L, out>>
View == L

Op(k, d, f) == [k |-> k, d |-> d, f |-> f]
Out(op, same, ok) == [op |-> op, same |-> same, ok |-> ok]

Init == L = [f \in Fns |-> <<>>] /\ out = Out(Op("call", "", 1), FALSE, TRUE)

Apply(f, d, k) ==
  /\ L' = [L EXCEPT ![f] = Decorate(L[f], d)]
  /\ out' = Out(Op(k, d, f), Blocked(L[f], d), TRUE)

\* first application of a guarded decorator: it decorates
DecorateFirst == \E f \in Fns, d \in Guarded : Count(L[f], d) = 0 /\ Apply(f, d, "decorate")
\* re-application while the earlier application is visible: the SAME object comes back
RedecorateBlocked == \E f \in Fns, d \in Guarded : Blocked(L[f], d) /\ Apply(f, d, "decorate")
\* named deviation: above an opaque layer the marker is hidden and the decorator decorates again
RedecorateAboveOpaque == \E f \in Fns, d \in Guarded :
                           Count(L[f], d) > 0 /\ ~Blocked(L[f], d) /\ Apply(f, d, "decorate")
DecorateUnguarded == \E f \in Fns : Len(L[f]) >= 0 /\ Apply(f, "r", "decorate")
DecorateOpaque == \E f \in Fns : Len(L[f]) >= 0 /\ Apply(f, "q", "decorate")
\* no_redecorate(no_redecorate(d)) is no_redecorate(d)
Rewrap == \E d \in Guarded : L' = L /\ out' = Out(Op("rewrap", d, 1), TRUE, TRUE)
\* the guarded decorator keeps the decorator's __name__ / __doc__ and exposes it as __wrapped__
DecoratorMeta == \E d \in Guarded : L' = L /\ out' = Out(Op("decmeta", d, 1), FALSE, TRUE)
Call == \E f \in Fns : L' = L /\ out' = Out(Op("call", "", f), FALSE, TRUE)

Next == DecorateFirst \/ RedecorateBlocked \/ RedecorateAboveOpaque \/ DecorateUnguarded \/ DecorateOpaque
        \/ Rewrap \/ DecoratorMeta \/ Call
Spec == Init /\ [][Next]_vars
Bound == Len(L[1]) + Len(L[2]) <= MaxLayers

TypeOK == \A f \in Fns : \A i \in 1..Len(L[f]) : L[f][i] \in Decorators
\* the documented law
AtMostOnce == \A f \in Fns, d \in Guarded : LastOpaque(L[f]) = 0 => Count(L[f], d) <= 1
\* ... and what remains of it with opaque layers in between
AtMostOncePerVisibleStretch ==
  \A f \in Fns, d \in Guarded : \A i, j \in 1..Len(L[f]) :
     i < j /\ L[f][i] = d /\ L[f][j] = d => \E k \in (i + 1)..(j - 1) : L[f][k] = "q"
MarksAreVisibleGuardedLayers ==
  \A f \in Fns, d \in Guarded : d \in Marks(L[f]) <=> \E i \in (LastOpaque(L[f]) + 1)..Len(L[f]) : L[f][i] = d

BlockedReturnsSameObject == [][out'.same => L' = L]_vars
DecoratingAddsOneLayer ==
  [][out'.op.k = "decorate" /\ ~out'.same =>
       L'[out'.op.f] = Append(L[out'.op.f], out'.op.d)]_vars
OtherFunctionUntouched == [][\A f \in Fns : f # out'.op.f => L'[f] = L[f]]_vars
OnlyDecoratingChanges == [][out'.op.k # "decorate" => L' = L]_vars

Key(l) == [a |-> l[1], b |-> l[2]]
Dump == PrintT(<<"EDGE", ToJson([from |-> Key(L), op |-> out', to |-> Key(L')])>>)
StateDump == PrintT(<<"STATE", ToJson([k |-> Key(L), obs |-> [f \in Fns |-> ObsFn(L[f])]])>>)
InitDump == TLCGet("level") = 1 => PrintT(<<"INIT", ToJson(Key(L))>>)
=============================================================================
