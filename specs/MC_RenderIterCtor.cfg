SPECIFICATION Spec
INVARIANT IndefiniteSane
INVARIANT FitsIrrelevant
CHECK_DEADLOCK FALSE
