------------------------------ MODULE DrawCache ------------------------------
(***************************************************************************)
(* C09: draw() as a transition system over DrawCacheCore.tla (the decision  *)
(* table): frame writes and Ctrl-C, with render counters per frame.         *)
(***************************************************************************)
EXTENDS DrawCacheCore

CONSTANTS DrawLoops,    \* loop counts given to draw() (negative = infinite)
          DrawArgs,     \* cache arguments: [kind |-> "bool" | "int", b |-> BOOLEAN, n |-> Nat]
          MaxWrites     \* bound on the number of frame writes explored

VARIABLES d,     \* [loops, arg, dec]: what draw() was called with and the decision taken
          rc,    \* rc[f] = number of times frame f was rendered
          wr,    \* number of frame writes
          st     \* "running" | "interrupted" | "returned"
dvars == <<s, out, d, rc, wr, st>>

DInit ==
  /\ \E l \in DrawLoops, a \in DrawArgs : \E c \in DrawCacheDecisions(l, a) :
       /\ d = [loops |-> l, arg |-> a, dec |-> c]
       /\ s = DrawIter(l, c)
  /\ out = [op |-> [name |-> "init"], r |-> [res |-> "ok"]]
  /\ rc = [f \in Frames |-> 0]
  /\ wr = 0
  /\ st = "running"

\* the next frame is obtained from the iterator and written
WriteFrame ==
  /\ st = "running"
  /\ Next_
  /\ IF out'.r.res = "frame"
       THEN /\ wr' = wr + 1
            /\ rc' = [rc EXCEPT ![out'.r.num] = @ + (IF out'.r.rendered THEN 1 ELSE 0)]
            /\ st' = st
       ELSE /\ UNCHANGED <<wr, rc>>
            /\ st' = "returned"
  /\ UNCHANGED d

\* Ctrl-C (while a frame is written / during a frame's duration): the animation ends silently
Interrupt ==
  /\ st = "running"
  /\ Close
  /\ st' = "interrupted"
  /\ UNCHANGED <<d, rc, wr>>

DNext == WriteFrame \/ Interrupt
DSpec == DInit /\ [][DNext]_dvars
DBound == wr <= MaxWrites
DView == <<s, d, rc, wr, st>>

RECURSIVE SumTo(_, _)
SumTo(f, k) == IF k < 0 THEN 0 ELSE f[k] + SumTo(f, k - 1)
Renders == SumTo(rc, N - 1)

\* the property's last clause at the level of draw(): however many loops, a frame is rendered
\* once when caching was requested
RenderOncePerFrame == CacheRequested(d.arg) => \A f \in Frames : rc[f] <= 1
\* ... and rendered for every write when it was not
UncachedRendersEveryWrite == ~CacheRequested(d.arg) => Renders = wr
\* both hold for BOTH decisions when loops = 1: the decision is unobservable there
SingleLoopAlwaysRenders ==
  [][(d.loops = 1 /\ out'.r.res = "frame" /\ st = "running" /\ st' = "running") => out'.r.rendered]_dvars
\* draw() returns by itself exactly after loops x N writes; an infinite animation never does
ReturnsAfterAllLoops == st = "returned" => d.loops > 0 /\ wr = d.loops * N
NeverTooManyWrites == d.loops > 0 => wr <= d.loops * N
\* the caller's render data is not finalized by the animation
DataNotFinalized == s.fin = 0
=============================================================================
