----------------------------- MODULE DrawValidate -----------------------------
(***************************************************************************)
(* C06, size validation: the documented accept / reject table of draw().    *)
(*                                                                         *)
(* New API (Renderable.draw):  with (pw, ph) the PADDED render size,        *)
(*   if check_size or it is an animation:                                   *)
(*     pw > terminal width                      -> RenderSizeOutofRangeError *)
(*     ph > terminal height, unless allow_scroll (ignored for animations)   *)
(*                                              -> RenderSizeOutofRangeError *)
(* Old API (BaseImage.draw), fixed image size (rw, rh):                     *)
(*   pad_width  > terminal width (absolute values only)       -> ValueError  *)
(*   animation and pad_height > terminal height               -> ValueError  *)
(*   if check_size or animation:                                             *)
(*     rw > terminal width                             -> InvalidSizeError   *)
(*     rh > terminal height unless scroll (ignored for animations)           *)
(*                                                     -> InvalidSizeError   *)
(* A rejected draw writes nothing.  MC_DrawValidate enumerates the table     *)
(* (TABLE lines) which is replayed into the real draw() of both APIs.        *)
(***************************************************************************)
EXTENDS Naturals, Integers, TLC, Json

MaxI(a, b) == IF a > b THEN a ELSE b

\* "an animation": the image / renderable has several frames (multi) AND animate is true; an
\* animated source drawn with animate = FALSE is a still draw of its current frame and is
\* validated like one (in particular pad_height is not limited)
Anim(c) == c.multi /\ c.animate

\* The padded size is judged whatever kind of padding produced it: "exact" margins, or an
\* AlignedPadding with ONE terminal-relative dimension (relw: width 0 = the terminal's width,
\* absolute height ph; relh: absolute width pw, height 0 = the terminal's height) - a relative
\* dimension fits by construction, the absolute one next to it still has to be validated
EffPW(c) == IF c.pad = "relw" THEN c.cols ELSE c.pw
EffPH(c) == IF c.pad = "relh" THEN c.rows ELSE c.ph
NewVerdict(c) ==
  \* c: [pw, ph, cols, rows, multi, animate, check, scroll, pad]
  IF (c.check \/ Anim(c)) /\ EffPW(c) > c.cols THEN "RenderSizeOutofRangeError"
  ELSE IF (c.check \/ Anim(c)) /\ ~(c.scroll /\ ~Anim(c)) /\ EffPH(c) > c.rows THEN "RenderSizeOutofRangeError"
  ELSE "ok"

OldVerdict(c) ==
  \* c: [rw, rh, padw, padh, cols, rows, multi, animate, check, scroll]   (padw/padh as given: <= 0 relative)
  IF c.padw > c.cols THEN "ValueError"
  ELSE IF Anim(c) /\ c.padh > c.rows THEN "ValueError"
  ELSE IF (c.check \/ Anim(c)) /\ c.rw > c.cols THEN "InvalidSizeError"
  ELSE IF (c.check \/ Anim(c)) /\ ~(c.scroll /\ ~Anim(c)) /\ c.rh > c.rows THEN "InvalidSizeError"
  ELSE "ok"
=============================================================================
