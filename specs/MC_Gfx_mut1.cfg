SPECIFICATION Spec
CONSTANTS
  ChunkSize = 16
  Variant = "m-by-full-chunk"
INVARIANT ReceiverAccepts
INVARIANT ReassembledLength
INVARIANT NothingLost
INVARIANT ChunkBound
INVARIANT FirstHasControl
INVARIANT ChunkCount
INVARIANT Report
CHECK_DEADLOCK FALSE
