SPECIFICATION Spec
CONSTANTS
  NT = 3
  Prog <- CachedProg
  Kind = "cached"
  Sizes = {80, 100}
  MaxResize = 0
  Variant = "code"
INVARIANT BodyOnce
INVARIANT BodyExclusive
VIEW View
CHECK_DEADLOCK FALSE
ACTION_CONSTRAINT Dump
