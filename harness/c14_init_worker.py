"""C14 / TtyInit: import term_image in a chosen initialisation environment and report.

Run as ``python -m harness.c14_init_worker <job.json>`` in a NEW SESSION (no controlling
terminal).  ``job``: ``slave`` (path of a pty slave whose master the driver holds), ``out`` /
``inp`` / ``err`` / ``ctty`` (which of stdout, stdin, stderr, /dev/tty shall be a terminal),
``src``, ``result_file``.  The process arranges its descriptors, acquires (or not) the pty as
controlling terminal, imports ``term_image`` and records what the module's initialisation did.
"""

from __future__ import annotations

import json
import os
import signal
import sys


def main():
    job = json.load(open(sys.argv[1]))
    for sig in (signal.SIGHUP, signal.SIGTTOU, signal.SIGTTIN):
        signal.signal(sig, signal.SIG_IGN)
    null = os.open(os.devnull, os.O_RDWR)
    if job["ctty"]:
        # a session leader without a controlling terminal acquires the first tty it opens
        fd = os.open(job["slave"], os.O_RDWR)
        os.close(fd)
    tty = os.open(job["slave"], os.O_RDWR | os.O_NOCTTY)
    for fdnum, key in ((0, "inp"), (1, "out"), (2, "err")):
        os.dup2(tty if job[key] else null, fdnum)
    os.close(tty)
    res = {k: job[k] for k in ("out", "inp", "err", "ctty")}
    try:
        os.close(os.open("/dev/tty", os.O_RDWR | os.O_NOCTTY))
        res["has_ctty"] = True
    except OSError:
        res["has_ctty"] = False
    sys.path.insert(0, job["src"])
    import warnings

    warnings.simplefilter("ignore")
    import multiprocessing

    from term_image import utils

    res["found"] = utils._tty_fd != -1
    res["start"] = getattr(multiprocessing.Process.start, "__wrapped__", None) is not None and (
        multiprocessing.Process.start is utils._process_start_wrapper)
    res["run"] = getattr(multiprocessing.Process.run, "__wrapped__", None) is not None and (
        multiprocessing.Process.run is utils._process_run_wrapper)
    with open(job["result_file"], "w") as f:
        json.dump(res, f)
    os._exit(0)


if __name__ == "__main__":
    main()
