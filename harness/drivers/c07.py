"""C07 - an interrupted draw() still restores the terminal and the image.

model:   specs/Draw.tla with the Interrupt action (design level) and the FaultEnd clauses of
         specs/Trace_Draw.tla judged on Terminal.tla + the VT parser rules of the lexer.
binding: code -> spec with fault enumeration: for each base scenario the clean run is recorded
         to count the write / flush / sleep / render operations draw() issues before its own
         clean-up; the scenario is then re-run once per (operation k, delivered prefix p, kind in
         {KeyboardInterrupt, Exception}) with a faulting stdout (isatty, fileno = slave of a real
         pty so that the termios calls are real), and every delivered byte stream + the
         observations around the call are validated by TLC.
"""

from __future__ import annotations

import base64
import json
import random
import re

from .. import drawkit, tlc, vt_conf
from ..core import Report
from . import c06

ASSUMPTIONS = c06.ASSUMPTIONS + [
    "string-type control sequences (APC/OSC/DCS) end only at ST (BEL for OSC): a terminal keeps "
    "consuming output after a cut-off graphics command until ST is written (the library's own "
    "documentation of the hazard); CSI sequences are aborted by ESC (VT500 parser)",
    "crash points range over every operation issued before draw()'s own clean-up starts; a "
    "Ctrl-C that arrives before the animation proper has started (while the cursor is being "
    "hidden) may propagate - only restoration is required there",
    "'the render data is finalized' is read off the live RenderData instance(s) generated for the "
    "call (the probe keeps them referenced) at the moment draw() returns / raises: finalization by "
    "RenderData.__del__ when the garbage collector reaches the object is not draw()'s doing",
    "kitty transmissions: the grid payload class (1 / 2 / 3+ chunks x raw payload within / beyond "
    "one chunk) x cut class (after which symbol of which chunk the write stops) of KittyCut.tla is "
    "realised with noise images (incompressible) whose pixel size is set through the cell size; "
    "a cell that cannot be realised is a machinery error, not a pass",
]

# candidate cell sizes (w, h) for a 3x2-cell render: raw RGB payloads from ~0.9 kB to ~9.5 kB per
# transmission for both render methods (WHOLE: one transmission per frame, LINES: one per line)
KITTY_CELL_SIZES = [(8, 12), (12, 18), (12, 30), (14, 21), (14, 40), (16, 33), (16, 66), (10, 15), (13, 20), (20, 90)]
_KITTY_CMD = re.compile(r"\x1b_G([^;\x1b]*)(?:;([^\x1b]*))?\x1b\\")


def kitty_transmissions(data: str):
    """Image transmissions in one write: [[chunk, ...], ...]; chunk = offsets of the symbols of
    KittyCut.tla within ``data`` (dumb scanning, no judgement)."""
    out, cur = [], None
    for mt in _KITTY_CMD.finditer(data):
        control, payload = mt.group(1), mt.group(2) or ""
        keys = dict(item.partition("=")[::2] for item in control.split(",") if item)
        if keys.get("a") == "d":
            continue
        start, st = mt.start(), mt.end() - 2
        ctl0 = start + 3
        semi = ctl0 + len(control)
        only_m = set(keys) <= {"m", "q"}
        mpos = control.rfind("m=")
        chunk = {"nothing": start, "apc": ctl0, "keys": ctl0 + max(mpos - 1, 0), "m": semi,
                 "pay1": semi + 1 + len(payload) // 2, "pay2": st, "esc": st + 1, "bsl": st + 2,
                 "mval": keys.get("m"), "payload": payload}
        if not only_m:
            cur = [chunk]
            out.append(cur)
        elif cur is not None:
            cur.append(chunk)
        if keys.get("m") != "1":
            cur = None
    return out


def kitty_class(chunks) -> tuple:
    raw = len(base64.b64decode("".join(c["payload"] for c in chunks)))
    return min(len(chunks), 3), raw <= 4096


def kitty_grid(rep: Report) -> list:
    """The (payload class x cut class) cells of KittyCut.tla, checked at the design level."""
    res = tlc.run("MC_KittyCut", "MC_KittyCut.cfg", workers=2, timeout=300, coverage=True)
    rep.add_tlc(res)
    if not res.violated and res.coverage.get("Receive", (0, 0))[0] < 1000:
        raise tlc.MachineryError(f"MC_KittyCut: action Receive is vacuous: {res.coverage}")
    if res.violated:
        rep.violation(f"design:KittyCut:{res.violated}", res.error_text[:1500], {"kind": "design"})
        return []
    cells = {}
    for c in res.tagged("CELL"):
        cells[(c["n"], c["fits"], c["role"], c["after"])] = c
    if len(cells) < 50 or not any(c["open"] for c in cells.values()):
        raise tlc.MachineryError(f"only {len(cells)} CELL lines from MC_KittyCut")
    rep.extra["kitty_cut_grid"] = len(cells)
    return [cells[k] for k in sorted(cells)]


def kitty_cut_jobs(rep: Report, cells: list) -> list:
    """spec -> code: every cell of the grid realised against the real KittyImage.draw() for both
    render methods, with and without compression (still; animated for two of the four)."""
    if not cells:
        return []
    configs = [(m, c, 1) for m in ("whole", "lines") for c in (0, None)]
    configs += [("whole", None, 2), ("lines", 0, 2)]
    if rep.tier == "thorough":
        configs += [("whole", 0, 2), ("lines", None, 2)]
    wanted = sorted({(c["n"], c["fits"]) for c in cells})
    jobs, realised = [], {}
    for method, compress, frames in configs:
        done = set()
        for cw, ch in KITTY_CELL_SIZES:
            if len(done) == len(wanted) and rep.tier == "quick":
                break
            case = dict(api="old", style="kitty", ident="kitty", frames=frames, rw=3, rh=2,
                        h_align="<", pad_width=3, v_align="^", pad_height=2, repeat=1, cached=False,
                        cols=8, rows=6, tty=True, r0=0, method=method, cell=[cw, ch],
                        src=[3 * cw, 2 * ch], noise=True,
                        style_args={} if compress is None else {"compress": compress})
            clean = c06.run_case(case)
            if clean["outcome"] != "ok":
                raise tlc.MachineryError(f"clean run of a C07 kitty case failed: {clean['outcome']} {case}")
            ops = clean["ops"]
            boundary = drawkit.cleanup_boundary(ops)
            frames_written = []  # (operation number, first transmission of that write)
            for i, (kind, data) in enumerate(ops[:boundary], 1):
                if kind == "write" and data:
                    t = kitty_transmissions(data)
                    if t:
                        frames_written.append((i, t[0]))
            if not frames_written:
                raise tlc.MachineryError(f"no kitty transmission in the output of {case}")
            for k, tx in reversed(frames_written):  # (animations: later frames first)
                cls = kitty_class(tx)
                if cls in done and rep.tier == "quick":
                    continue
                done.add(cls)
                for cell in cells:
                    if (cell["n"], cell["fits"]) != cls:
                        continue
                    chunk = tx[0] if cell["role"] in ("only", "first") else tx[1] if cell["role"] == "mid" else tx[-1]
                    for fk in ("kbint", "exc") if cell["open"] else ("kbint",):
                        f = dict(k=k, p=chunk[cell["after"]], kind=fk,
                                 cell=[cell["n"], cell["fits"], cell["role"], cell["after"]])
                        jobs.append((case, f, expected(case, f, k, ops)))
            realised[f"{method}/{'default' if compress is None else compress}/{frames}"] = sorted(done)
        missing = [w for w in wanted if w not in done]
        if missing:
            raise tlc.MachineryError(
                f"payload classes {missing} of KittyCut.tla not realised for method={method} "
                f"compress={compress} frames={frames} (candidates {KITTY_CELL_SIZES})")
    rep.extra["kitty_cut_realised"] = realised
    rep.extra["kitty_cut_jobs"] = len(jobs)
    return jobs


def base_cases(rng, tier):
    new = []
    for frames, loops, cache, pad, tty, hide, echo in [
        (1, 1, False, {"kind": "exact", "l": 1, "t": 1, "r": 0, "b": 1}, True, True, False),
        (1, 1, False, {"kind": "aligned", "w": 0, "h": -2, "ha": 1, "va": 1}, True, False, False),
        (1, 1, False, {"kind": "exact", "l": 0, "t": 0, "r": 0, "b": 0}, False, True, True),
        (2, 1, False, {"kind": "exact", "l": 1, "t": 0, "r": 1, "b": 1}, True, True, False),
        (3, 2, True, {"kind": "aligned", "w": 5, "h": 4, "ha": 2, "va": 0}, True, True, True),
        (2, 2, False, {"kind": "exact", "l": 0, "t": 0, "r": 0, "b": 0}, True, False, False),
        (2, 1, False, {"kind": "exact", "l": 0, "t": 1, "r": 0, "b": 0}, False, True, False),
    ]:
        new.append(dict(api="new", rw=2, rh=2, frames=frames, loops=loops, cache=cache, pad=pad,
                        cols=7, rows=5, tty=tty, r0=0, animate=True, hide_cursor=hide, echo_input=echo))
    # an ANIMATED renderable drawn as a still (animate=False): a still draw of its current frame -
    # Ctrl-C propagates like for any still image (only real animations end silently)
    new.append(dict(api="new", rw=2, rh=2, frames=3, loops=1, cache=False, seek=1,
                    pad={"kind": "exact", "l": 1, "t": 0, "r": 0, "b": 1}, cols=7, rows=5, tty=True,
                    r0=0, animate=False, hide_cursor=True, echo_input=False))
    new.append(dict(api="new", rw=2, rh=1, frames=2, loops=1, cache=False,
                    pad={"kind": "exact", "l": 0, "t": 0, "r": 0, "b": 0}, cols=7, rows=5, tty=False,
                    r0=0, animate=False, hide_cursor=True, echo_input=True))
    # initial terminal attribute sets other than "canonical with echo": draw() must put back
    # exactly what it found
    for mode in ("noecho", "raw", "cbreak05"):
        new.append(dict(api="new", rw=2, rh=1, frames=2, loops=1, cache=False, tty_mode=mode,
                        pad={"kind": "exact", "l": 0, "t": 0, "r": 0, "b": 0}, cols=7, rows=5,
                        tty=True, r0=0, animate=True, hide_cursor=mode != "raw", echo_input=False))
        new.append(dict(api="new", rw=2, rh=1, frames=1, loops=1, cache=False, tty_mode=mode,
                        pad={"kind": "exact", "l": 0, "t": 0, "r": 0, "b": 0}, cols=7, rows=5,
                        tty=True, r0=0, animate=True, hide_cursor=True, echo_input=False))
    old = []
    for style, ident, method in [("block", "other", None), ("kitty", "kitty", "lines"),
                                 ("kitty", "kitty-old", "whole"), ("kitty", "konsole", "lines"),
                                 ("iterm2", "iterm2", "whole"), ("iterm2", "wezterm", "lines"),
                                 ("iterm2", "konsole", "whole")]:
        for frames, repeat, tty in [(1, 1, True), (2, 2, True), (2, 1, False)]:
            if tier == "quick" and not tty and style != "block":
                continue
            old.append(dict(api="old", style=style, ident=ident, frames=frames, rw=2, rh=2,
                            h_align="|", pad_width=4, v_align="-", pad_height=3, repeat=repeat,
                            cached=False, cols=8, rows=6, tty=tty, r0=0, method=method,
                            cell=None if style == "block" else [3, 5]))
    # dynamic image size + a current frame other than 0: both must survive an interrupted draw
    old.append(dict(api="old", style="block", ident="other", frames=3, rw=2, rh=2, h_align=None,
                    pad_width=0, v_align=None, pad_height=-2, repeat=1, cached=False, cols=8, rows=6,
                    tty=True, r0=0, method=None, cell=None, dynamic="FIT", seek=1))
    old.append(dict(api="old", style="kitty", ident="kitty", frames=2, rw=2, rh=2, h_align=None,
                    pad_width=0, v_align=None, pad_height=-2, repeat=1, cached=False, cols=8, rows=6,
                    tty=True, r0=0, method="lines", cell=[3, 5], dynamic="AUTO", seek=1))
    # kitty payloads spanning several chunks (compress=0, big cells): the interrupted-draw
    # handler must both terminate the open command and close the chunked transfer
    for frames in (1, 2):
        old.append(dict(api="old", style="kitty", ident="kitty", frames=frames, rw=3, rh=2,
                        h_align="<", pad_width=3, v_align="^", pad_height=2, repeat=1, cached=False,
                        cols=8, rows=6, tty=True, r0=0, method="lines", cell=[16, 33],
                        style_args={"compress": 0}))
    new.append(dict(api="new", rw=2, rh=1, frames=3, loops=1, cache=False, seek=2,
                    pad={"kind": "exact", "l": 0, "t": 0, "r": 0, "b": 0},
                    cols=7, rows=5, tty=True, r0=0, animate=True, hide_cursor=True, echo_input=False))
    return new + old


def animation_started_at(case, ops) -> int:
    """Index (1-based) of the first operation that belongs to the animation proper / the render."""
    for i, (kind, _d) in enumerate(ops, 1):
        if kind == "render":
            return i
    return len(ops) + 1


def expected(case, fault, k, ops):
    if fault["kind"] == "exc":
        return "InjectedError"
    animated = case["frames"] > 1 and case.get("animate", True)
    if animated and k >= animation_started_at(case, ops):
        return "ok"
    return "KeyboardInterrupt"


def plans(case, ops, boundary, tier, rng):
    out = []
    every = tier == "thorough"
    for k in range(1, boundary + 1):
        kind, data = ops[k - 1]
        for fk in ("kbint", "exc"):
            if kind == "write":
                cuts = drawkit.cut_positions(data or "", every and len(data or "") <= 600)
                if tier == "quick" and len(cuts) > 9:
                    keep = {0, 1, len(data) - 1, len(data)}
                    cuts = sorted(keep | set(rng.sample(cuts, 5)))
                if fk == "exc":
                    cuts = cuts[:: max(1, len(cuts) // 3)]  # fewer prefixes for plain exceptions
                for p in cuts:
                    out.append(dict(k=k, p=p, kind=fk))
            else:
                out.append(dict(k=k, p=0, kind=fk))
    return out


def main(rep: Report, replay: dict | None) -> None:
    from ..env import stubs

    stubs.install()
    rep.level = "fault_enumeration"
    rep.assumptions += ASSUMPTIONS
    rep.rule = (
        "fault enumeration: base scenarios (both APIs, still/animated, tty/non-tty, hide_cursor/"
        "echo_input, block/kitty/iterm2 x terminal identity) x every pre-clean-up operation k x "
        "delivered-prefix classes (quick) or every character position (thorough) x "
        "{KeyboardInterrupt, Exception}; kitty: every cell of KittyCut.tla's grid (payload class: "
        "1/2/3+ chunks x raw within/beyond one chunk; cut class: after each symbol of the first / a "
        "middle / the last chunk) x {whole, lines} x {compress=0, default}; each faulted run "
        "validated by TLC; distinct = distinct (scenario, k, prefix, kind) whose fault actually fired"
    )
    rng = random.Random(rep.seed * 613 + 11)
    if not replay:
        vt_conf.check(rep)  # cut-off sequences are judged by the parser rules of VT.tla
        from .. import draw_model

        draw_model.check(rep, "interrupted")  # Draw.tla: clean-up programs after a Ctrl-C
    if replay:
        sc = replay["scenario"]
        jobs = [(sc["case"], sc["fault"], sc["expect"])]
    else:
        jobs = []
        for case in base_cases(rng, rep.tier):
            clean = c06.run_case(case)
            if clean["outcome"] != "ok":
                raise tlc.MachineryError(f"clean run of C07 base case failed: {clean['outcome']} {case}")
            ops = clean["ops"]
            boundary = drawkit.cleanup_boundary(ops)
            if boundary < 1:
                raise tlc.MachineryError(f"no pre-clean-up operation found for {case}")
            for f in plans(case, ops, boundary, rep.tier, rng):
                jobs.append((case, f, expected(case, f, f["k"], ops)))
            if case["api"] == "new":
                # a raising finalizer hook of the renderable (runs at the very end of draw()'s
                # clean-up): the exception reaches the caller, the terminal is restored all the same
                jobs.append((case, dict(k=0, p=0, kind="exc", hook="finalize"), "InjectedError"))
                if case["tty"] and not case.get("echo_input", False):
                    # the attribute set-up (first tcsetattr: after the hide-cursor write, before the
                    # first render) fails or is interrupted: a crash point before any frame exists
                    for fk in ("kbint", "exc"):
                        f = dict(k=0, p=0, kind=fk, hook="tcsetattr")
                        jobs.append((case, f, expected(case, f, 0, ops)))
            rep.sample({"case": case, "ops_before_cleanup": boundary,
                        "ops": [o[0] for o in ops][:40]})
        jobs += kitty_cut_jobs(rep, kitty_grid(rep))
    traces, owners = [], []
    for case, fault, expect in jobs:
        rep.evaluations += 1
        res = c06.run_case(case, fault)
        if not res["fired"]:
            continue  # the operation count changed under this fault plan: nothing to judge
        tr = c06.make_trace(case, res)
        tr["mode"] = "fault"
        tr["expect"] = expect
        traces.append(tr)
        owners.append((case, fault, expect, res))
        rep.distinct.add(json.dumps([case, fault], sort_keys=True))
    if not traces:
        raise tlc.MachineryError("no fault plan fired")
    verdicts, st, trn = tlc.validate_traces("Trace_Draw", "Trace_Draw.cfg", traces, batch=400,
                                            parallel=8, workers=2, name="c07")
    rep.states += st
    rep.transitions += trn
    rep.traces_validated += len(traces)
    for (case, fault, expect, res), v in zip(owners, verdicts):
        if v["verdict"] != "ok":
            clause = v["verdict"].split(":")[0]
            api = case["api"]
            kind = "anim" if case["frames"] > 1 else "still"
            style = case.get("style", "probe")
            op = fault.get("hook") or res["ops"][fault["k"] - 1][0]
            rep.violation(
                f"{api}-api:{style}:{kind}:{fault['kind']}@{op}:{clause}",
                f"{v['verdict']}; fault {fault} (operation #{fault['k']} = {op}"
                f"{', data ' + repr(res['ops'][fault['k'] - 1][1][:40]) if op == 'write' and not fault.get('hook') else ''}), "
                f"caller saw {res['outcome']}; delivered {res['text'][-80:]!r}; case={json.dumps(case)}",
                {"kind": "fault", "case": case, "fault": fault, "expect": expect},
            )
    rep.extra["fault_runs"] = len(traces)
