--------------------------- MODULE CtlSeqsPatterns ---------------------------
(***************************************************************************)
(* X05, second half: what the terminal ANSWERS to the requests of the       *)
(* vocabulary, and the compiled patterns (`*_re`) that take the answers      *)
(* apart.                                                                   *)
(*                                                                         *)
(* Documented answers (xterm ctlseqs, XParseColor(3), kitty graphics doc):  *)
(*   CSI 14 t  ->  CSI 4 ; height ; width t        (report = request - 10)  *)
(*   CSI 16 t  ->  CSI 6 ; height ; width t                                 *)
(*   OSC Ps ; ? ST  ->  OSC Ps ; rgb:<r>/<g>/<b> ST|BEL, <r> = 1-4 hex digits*)
(*   CSI > q   ->  DCS > | name(version) ST   or   DCS > | name version ST  *)
(*   APC G ..,i=<id>.. ST  ->  APC G i=<id>[,I=<number>] ; OK|<error> ST    *)
(*                                                                         *)
(* For every pattern P:                                                     *)
(*   Doc(P, s)      s is a documented answer of P's kind                    *)
(*   DocGroups(P,s) the fields the callers take from it                     *)
(*   Match(P, s)    the LANGUAGE of the pattern (re.fullmatch) and its       *)
(*                  groups; Match is Doc generalised by the NAMED deviations *)
(*                  Dev(P, s) (strings no terminal sends; accepting them is  *)
(*                  harmless)                                               *)
(* and x_parse_color: a component of n hex digits with value v denotes the  *)
(* fraction v / (16^n - 1) of full intensity; as 8 bits that is 255 times   *)
(* the fraction, exact at both ends, less than 1 away everywhere.           *)
(***************************************************************************)
EXTENDS CtlSeqs

Yes(g) == [m |-> TRUE, g |-> g]
No == [m |-> FALSE, g |-> <<>>]
Absent == <<"<none>">>           \* an optional group that did not take part

PatNames == <<"RGB_SPEC_re", "XTVERSION_re", "TEXT_AREA_SIZE_PX_re", "CELL_SIZE_PX_re",
              "KITTY_RESPONSE_re">>

\* length of the string terminator a string ends with (0 = none)
TermLen(s) ==
  LET n == Len(s) IN
  IF n >= 1 /\ s[n] = "BEL" THEN 1
  ELSE IF n >= 2 /\ s[n - 1] = "ESC" /\ s[n] = "\\" THEN 2
  ELSE 0

AllIn(q, S) == \A i \in 1..Len(q) : q[i] \in S
LeadIn(q, S) == IF \E i \in 1..Len(q) : q[i] \notin S
                  THEN (CHOOSE i \in 1..Len(q) : q[i] \notin S /\ \A j \in 1..(i - 1) : q[j] \in S) - 1
                  ELSE Len(q)

(* ---- the answers --------------------------------------------------------- *)
\* the report number of an XTWINOPS request: 14 -> 4, 16 -> 6, 18 -> 8
ReportOf(request) == request - 10
RespWinops(request, h, w) ==
  CSIb \o Dec(ReportOf(request)) \o <<";">> \o Dec(h) \o <<";">> \o Dec(w) \o <<"t">>
RgbText(r, g, b) == <<"r", "g", "b", ":">> \o r \o <<"/">> \o g \o <<"/">> \o b
RespColour(ps, spec, term) == OSCb \o Dec(ps) \o <<";">> \o spec \o term
RespVersion(name, ver, paren) ==
  DCSb \o <<">", "|">> \o name \o (IF paren THEN <<"(">> \o ver \o <<")">> ELSE <<" ">> \o ver) \o STb
RespKitty(id, number, msg) ==
  APCb \o <<"G", "i", "=">> \o Dec(id)
       \o (IF number >= 0 THEN <<",", "I", "=">> \o Dec(number) ELSE <<>>) \o <<";">> \o msg \o STb

(* ---- XTWINOPS reports:  CSI <k> ; digits ; digits t ------------------------ *)
MatchWinops(s, k) ==
  LET n == Len(s) IN
  IF n >= 8 /\ s[1] = "ESC" /\ s[2] = "[" /\ s[3] = k /\ s[4] = ";" /\ s[n] = "t" THEN
    LET parts == Split(SubSeq(s, 5, n - 1), {";"}) IN
    IF Len(parts) = 2 /\ AllDigits(parts[1]) /\ AllDigits(parts[2]) THEN Yes(<<parts[1], parts[2]>>) ELSE No
  ELSE No

(* ---- colour reports:  OSC digits ; rgb:... ST|BEL --------------------------- *)
RgbShape(spec) ==       \* rgb:<r>/<g>/<b>, 1 to 4 hex digits each (XParseColor)
  /\ HasPrefix(spec, <<"r", "g", "b", ":">>)
  /\ LET comps == Split(SubSeq(spec, 5, Len(spec)), {"/"}) IN
       /\ Len(comps) = 3
       /\ \A i \in 1..3 : Len(comps[i]) \in 1..4 /\ AllIn(comps[i], HexDigit)

ColourParts(s) ==
  LET n == Len(s)
      t == TermLen(s)
      inner == IF t > 0 /\ n >= 2 + t THEN SubSeq(s, 3, n - t) ELSE <<>>
  IN [ok |-> t > 0 /\ n >= 2 + t /\ s[1] = "ESC" /\ s[2] = "]" /\ Has(inner, ";") /\ AllDigits(Before(inner, ";")),
      ps |-> Before(inner, ";"), spec |-> After(inner, ";")]

DocColour(s) == LET p == ColourParts(s) IN p.ok /\ RgbShape(p.spec)
MatchColour(s) ==
  LET p == ColourParts(s) IN
  IF p.ok /\ Len(p.spec) >= 5 /\ HasPrefix(p.spec, <<"r", "g", "b", ":">>)
     /\ AllIn(SubSeq(p.spec, 5, Len(p.spec)), HexDigit \cup {"/"})
    THEN Yes(<<p.ps, p.spec>>) ELSE No

(* ---- XTVERSION reports:  DCS > | name ( version ) ST --------------------------- *)
VersionParts(s) ==
  LET n == Len(s)
      t == TermLen(s)
      body == IF t > 0 /\ n >= 4 + t THEN SubSeq(s, 5, n - t) ELSE <<>>
      k == LeadIn(body, WordCh)
      sepOK == k >= 1 /\ Len(body) >= k + 2 /\ body[k + 1] \in {"(", " "}
      rest == IF sepOK THEN SubSeq(body, k + 2, Len(body)) ELSE <<>>
      closed == rest # <<>> /\ rest[Len(rest)] = ")"
  IN [ok |-> t > 0 /\ n >= 4 + t /\ s[1] = "ESC" /\ s[2] = "P" /\ s[3] = ">" /\ s[4] = "|" /\ sepOK,
      t |-> t, name |-> SubSeq(body, 1, k), sep |-> IF sepOK THEN body[k + 1] ELSE "",
      closed |-> closed, ver |-> IF closed THEN SubSeq(rest, 1, Len(rest) - 1) ELSE rest]

MatchVersion(s) ==
  LET p == VersionParts(s) IN
  IF p.ok /\ p.ver # <<>> /\ ~Has(p.ver, ")") /\ ~Has(p.ver, "ESC")
    THEN Yes(<<p.name, p.ver>>) ELSE No
DocVersion(s) ==
  LET p == VersionParts(s) IN
  /\ p.ok /\ p.t = 2 /\ p.ver # <<>>
  /\ AllIn(p.ver, Printable \ {"(", ")"})
  /\ (p.sep = "(") <=> p.closed
DevVersion(s) ==
  LET p == VersionParts(s) IN
  IF p.t = 1 THEN "dcs-ended-by-bel"
  ELSE IF (p.sep = "(") # p.closed THEN "unbalanced-parenthesis"
  ELSE "odd-character-in-version"

(* ---- kitty graphics responses:  APC G i=<id>[,I=<n>] ; message ST ------------------ *)
KittyParts(s) ==
  LET n == Len(s)
      okEnds == n >= 9 /\ SubSeq(s, 1, 5) = <<"ESC", "_", "G", "i", "=">> /\ s[n - 1] = "ESC" /\ s[n] = "\\"
      inner == IF okEnds THEN SubSeq(s, 6, n - 2) ELSE <<>>
      head == Split(Before(inner, ";"), {","})
      one == Len(head) = 1 /\ AllDigits(head[1])
      two == Len(head) = 2 /\ AllDigits(head[1]) /\ Len(head[2]) >= 3 /\ head[2][1] = "I" /\ head[2][2] = "="
             /\ AllDigits(SubSeq(head[2], 3, Len(head[2])))
  IN [ok |-> okEnds /\ Has(inner, ";") /\ (one \/ two),
      id |-> head[1], number |-> IF two THEN SubSeq(head[2], 3, Len(head[2])) ELSE Absent,
      msg |-> After(inner, ";")]

MatchKitty(s) ==
  LET p == KittyParts(s) IN
  IF p.ok /\ p.msg # <<>> /\ ~Has(p.msg, "LF") THEN Yes(<<p.id, p.number, p.msg>>) ELSE No
DocKitty(s) == LET p == KittyParts(s) IN p.ok /\ p.msg # <<>> /\ AllIn(p.msg, Printable)

(* ---- the three views of every pattern --------------------------------------------- *)
Match(P, s) ==
  CASE P = "TEXT_AREA_SIZE_PX_re" -> MatchWinops(s, "4")
    [] P = "CELL_SIZE_PX_re" -> MatchWinops(s, "6")
    [] P = "RGB_SPEC_re" -> MatchColour(s)
    [] P = "XTVERSION_re" -> MatchVersion(s)
    [] P = "KITTY_RESPONSE_re" -> MatchKitty(s)

Doc(P, s) ==
  CASE P = "TEXT_AREA_SIZE_PX_re" -> MatchWinops(s, "4").m
    [] P = "CELL_SIZE_PX_re" -> MatchWinops(s, "6").m
    [] P = "RGB_SPEC_re" -> DocColour(s)
    [] P = "XTVERSION_re" -> DocVersion(s)
    [] P = "KITTY_RESPONSE_re" -> DocKitty(s)

\* why a string the pattern accepts is not a documented answer
Dev(P, s) ==
  CASE P = "RGB_SPEC_re" -> "colour-body-not-three-components-of-1-to-4-hex-digits"
    [] P = "XTVERSION_re" -> DevVersion(s)
    [] P = "KITTY_RESPONSE_re" -> "control-character-in-message"
    [] OTHER -> "unnamed"
Deviations == {"colour-body-not-three-components-of-1-to-4-hex-digits", "dcs-ended-by-bel",
               "unbalanced-parenthesis", "odd-character-in-version", "control-character-in-message"}

AllMatches(s) == [i \in 1..Len(PatNames) |-> Match(PatNames[i], s)]

\* which pattern takes apart the answer to which request of the vocabulary
PatternFor(request) ==
  CASE request = "TEXT_AREA_SIZE_PX" -> "TEXT_AREA_SIZE_PX_re"
    [] request = "CELL_SIZE_PX" -> "CELL_SIZE_PX_re"
    [] request \in {"TEXT_FG_QUERY", "TEXT_BG_QUERY"} -> "RGB_SPEC_re"
    [] request = "XTVERSION" -> "XTVERSION_re"
    [] request = "KITTY_SUPPORT_QUERY" -> "KITTY_RESPONSE_re"

(* ---- x_parse_color ------------------------------------------------------------------ *)
HexVal(c) ==
  CASE c \in Digit -> DigitVal(c)
    [] c \in {"a", "A"} -> 10 [] c \in {"b", "B"} -> 11 [] c \in {"c", "C"} -> 12
    [] c \in {"d", "D"} -> 13 [] c \in {"e", "E"} -> 14 [] c \in {"f", "F"} -> 15
RECURSIVE HexNat(_)
HexNat(q) == IF q = <<>> THEN 0 ELSE HexNat(SubSeq(q, 1, Len(q) - 1)) * 16 + HexVal(q[Len(q)])
FullScale(len) == CASE len = 1 -> 15 [] len = 2 -> 255 [] len = 3 -> 4095 [] len = 4 -> 65535
Components(spec) == Split(After(spec, ":"), {"/"})
\* channel value x is a faithful 8-bit rendering of component q
ChannelOK(q, x) ==
  LET v == HexNat(q)
      full == FullScale(Len(q)) IN
  /\ x \in 0..255
  /\ (x - 1) * full < v * 255
  /\ v * 255 < (x + 1) * full
ChannelLo(q) == CHOOSE x \in 0..255 : ChannelOK(q, x) /\ (x = 0 \/ ~ChannelOK(q, x - 1))
ChannelHi(q) == CHOOSE x \in 0..255 : ChannelOK(q, x) /\ (x = 255 \/ ~ChannelOK(q, x + 1))
ColourOK(spec, rgb) ==
  /\ Len(rgb) = 3
  /\ \A i \in 1..3 : ChannelOK(Components(spec)[i], rgb[i])
=============================================================================
