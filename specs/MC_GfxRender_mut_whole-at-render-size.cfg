SPECIFICATION Spec
CONSTANTS
  ChunkSize = 16
  RV = "whole-at-render-size"
INVARIANT JudgeAccepts
INVARIANT AllRowsSent
INVARIANT ReceiverIdleBetweenStrips
CHECK_DEADLOCK FALSE
