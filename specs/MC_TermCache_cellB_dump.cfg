SPECIFICATION Spec
CONSTANTS
  Sizes <- S3
  Pixels <- P1
  Ratios <- R1
  XtModes = {"cell", "none"}
  IoPx = {TRUE, FALSE}
  Ops = {"cell"}
  Faults = {}
  Variant = "code"
INVARIANT TypeOK
INVARIANT CellFresh
INVARIANT RatioFresh
INVARIANT FixedSnapshot
INVARIANT MemoFresh
INVARIANT FaultFresh
INVARIANT BodyOnce
VIEW View
CHECK_DEADLOCK FALSE
ACTION_CONSTRAINT Dump
