"""Seeded mutations for C03 (same record format as selftest/mutations.py; kept in a file of its
own so that concurrent builders do not edit the shared registry - merge at will).

    /venv/bin/python -m selftest.mutations_c03 [id ...]     # runs ./check C03 on each mutant

``nth`` selects the n-th (0-based) occurrence of ``old`` when the text occurs more than once.
A mutant counts as caught iff the quick check exits 1 (VIOLATION lines).
"""

from __future__ import annotations

import os
import re
import shutil
import subprocess
import sys
from pathlib import Path

VERIF = Path(__file__).resolve().parent.parent

MUTATIONS = {
    # ---- DESIGN.md "Must catch" -----------------------------------------------------------
    "c03-chunk-size-4095": dict(
        file="image/kitty.py", props=["C03"],
        old="def get_chunks(self, size: int = 4096)",
        new="def get_chunks(self, size: int = 4095)",
    ),
    "c03-m-by-full-chunk": dict(  # m inverted on exact multiples of the chunk size
        file="image/kitty.py", props=["C03"],
        old="m={bool(next_chunk):d}",
        new="m={len(chunk) == size:d}",
    ),
    "c03-m-tail-by-full-chunk": dict(
        file="image/kitty.py", props=["C03"],
        old='yield KITTY_TRANSMISSION % ("m=0", chunk)',
        new='yield KITTY_TRANSMISSION % ("m=%d" % (len(chunk) == size), chunk)',
    ),
    "c03-cell-height-ceil": dict(  # EQUIVALENT: LINES height is always rendered_height * cell height
        file="image/kitty.py", props=["C03"], equivalent=True,
        old="cell_height = height // r_height",
        new="cell_height = -(-height // r_height)",
    ),
    "c03-cell-height-plus-1": dict(
        file="image/kitty.py", props=["C03"],
        old="cell_height = height // r_height",
        new="cell_height = height // r_height + 1",
    ),
    "c03-bytes-per-line-format-plus-1": dict(
        file="image/kitty.py", props=["C03"],
        old="bytes_per_line = width * cell_height * (format // 8)",
        new="bytes_per_line = width * cell_height * (format // 8 + 1)",
    ),
    "c03-iterm-size-off-by-one-lines": dict(
        file="image/iterm2.py", props=["C03"],
        old='buffer.write(f"size={compressed_image.tell()}")',
        new='buffer.write(f"size={compressed_image.tell() + 1}")',
    ),
    "c03-iterm-size-off-by-one-whole": dict(
        file="image/iterm2.py", props=["C03"], nth=1,
        old='f"size={compressed_image.tell()};width={r_width}"',
        new='f"size={compressed_image.tell() + 1};width={r_width}"',
    ),
    "c03-gate-ignores-palette": dict(
        file="image/iterm2.py", props=["C03"],
        old='or (isinstance(alpha, float) and img.mode not in {"P", "PA"})',
        new="or isinstance(alpha, float)",
    ),
    # ---- own ------------------------------------------------------------------------------
    "c03-minimal-size-le": dict(  # manifests only when areas are equal and shapes differ
        file="image/common.py", props=["C03"],
        old="if mul(*render_size) < mul(*self._original_size)",
        new="if mul(*render_size) <= mul(*self._original_size)",
    ),
    "c03-o-key-dropped": dict(
        file="image/kitty.py", props=["C03"],
        old="            self.control.o = o.ZLIB\n",
        new="            pass\n",
    ),
    "c03-box-to-bilinear": dict(
        file="image/common.py", props=["C03"],
        old="img = img.resize(size, Image.Resampling.BOX)",
        new="img = img.resize(size, Image.Resampling.BILINEAR)",
    ),
    "c03-z-dropped": dict(
        file="image/kitty.py", props=["C03"],
        old="ControlData(f=format, s=width, c=r_width, z=z_index)",
        new="ControlData(f=format, s=width, c=r_width)",
    ),
    "c03-iterm-lines-bytes-per-line": dict(  # needs an RGBA render with the LINES method
        file="image/iterm2.py", props=["C03"],
        old="bytes_per_line = width * cell_height * (len(img.mode))",
        new="bytes_per_line = width * cell_height * 3",
    ),
    "c03-jpeg-ignores-mode": dict(
        file="image/iterm2.py", props=["C03"],
        old='if self.jpeg_quality >= 0 and img.mode == "RGB":',
        new="if self.jpeg_quality >= 0:",
    ),
    "c03-gate-area-dropped": dict(  # needs an original larger than the render size, WHOLE, file source
        file="image/iterm2.py", props=["C03"],
        old="and mul(*self._original_size) <= mul(*self._get_render_size())\n",
        new="\n",
    ),
    "c03-iterm-lines-second-cell-read": dict(  # seeded/C03-s2: needs a cell size change mid-render
        file="image/iterm2.py", props=["C03"],
        old="            cell_height = height // r_height\n            bytes_per_line = width * cell_height * (len(img.mode))",
        new="            cell_height = self._pixels_lines(lines=1)\n            bytes_per_line = width * cell_height * (len(img.mode))",
    ),
    "c03-kitty-lines-second-cell-read": dict(
        file="image/kitty.py", props=["C03"],
        old="            cell_height = height // r_height\n",
        new="            cell_height = self._pixels_lines(lines=1)\n",
    ),
    "c03-stale-frame-on-rewind": dict(  # seeded/C03-u2: needs a PIL-sourced animation rendered twice
        file="image/common.py", props=["C03"],
        old="        if self._is_animated:\n            img.seek(self._seek_position)\n        if not size:",
        new="        if self._is_animated and (frame or self._seek_position):\n"
            "            img.seek(self._seek_position)\n        if not size:",
    ),
    "c03-kitty-lines-shared-buffer": dict(  # seeded/C03-w2: needs two overlapping kitty LINES renders
        props=["C03"],
        edits=[
            dict(file="image/kitty.py",
                 old="            with io.StringIO() as buffer, io.BytesIO(raw_image) as raw_image:\n",
                 new="            buffer = _lines_buffer\n            buffer.seek(0)\n            buffer.truncate()\n\n"
                     "            with io.BytesIO(raw_image) as raw_image:\n"),
            dict(file="image/kitty.py",
                 old="_stdout_write = sys.stdout.write\n",
                 new="_stdout_write = sys.stdout.write\n_lines_buffer = io.StringIO()\n"),
        ],
    ),
    "c03-terminal-bg-hex-unpadded": dict(  # seeded/X9-s3: needs alpha "#" and a background component < 0x10
        file="image/common.py", props=["C03"],
        old='                    alpha = get_fg_bg_colors(hex=True)[1] or "#000000"\n',
        new='                    _bg = get_fg_bg_colors()[1]\n'
            '                    alpha = "#%x%x%x" % _bg if _bg else "#000000"\n',
    ),
    "c03-jpeg-enabled-unless-minus-1": dict(  # seeded/C03-y1: needs jpeg_quality < -1
        file="image/iterm2.py", props=["C03"],
        old='if self.jpeg_quality >= 0 and img.mode == "RGB":',
        new='if self.jpeg_quality != -1 and img.mode == "RGB":',
    ),
    # ---- payload size classes (round 7, seeded/C03-z2): payloads encoded block by block ----------
    "c03-iterm-anim-encode-1mib-blocks": dict(  # native ANIM payload, blocks of 2**20 bytes
        file="image/iterm2.py", props=["C03"], nth=0,
        old="standard_b64encode(compressed_image.read()).decode(),",
        new='"".join(standard_b64encode(b).decode() for b in iter(lambda: compressed_image.read(2**20), b"")),',
    ),
    "c03-iterm-whole-encode-64k-blocks": dict(  # WHOLE payload (file / re-encoded), blocks of 2**16 bytes
        file="image/iterm2.py", props=["C03"], nth=1,
        old="standard_b64encode(compressed_image.read()).decode(),",
        new='"".join(standard_b64encode(b).decode() for b in iter(lambda: compressed_image.read(2**16), b"")),',
    ),
    "c03-iterm-whole-encode-768k-blocks": dict(  # CORRECT alternative: 3 * 2**18 is a multiple of 3
        file="image/iterm2.py", props=["C03"], nth=1, equivalent=True,
        old="standard_b64encode(compressed_image.read()).decode(),",
        new='"".join(standard_b64encode(b).decode() for b in iter(lambda: compressed_image.read(3 * 2**18), b"")),',
    ),
    "c03-iterm-lines-encode-64k-blocks": dict(  # LINES strips, blocks of 2**16 bytes
        file="image/iterm2.py", props=["C03"],
        old="standard_b64encode(compressed_image.getvalue()).decode()",
        new='"".join(standard_b64encode(compressed_image.getvalue()[i : i + 2**16]).decode() '
            'for i in range(0, compressed_image.tell(), 2**16))',
    ),
    "c03-kitty-encode-1mib-blocks": dict(  # kitty payload, blocks of 2**20 bytes
        file="image/kitty.py", props=["C03"],
        old="return standard_b64encode(self.payload)",
        new='return b"".join(standard_b64encode(self.payload[i : i + 2**20]) '
            'for i in range(0, len(self.payload), 2**20))',
    ),
    "c03-kitty-whole-at-render-size": dict(
        file="image/kitty.py", props=["C03"],
        old="self._get_minimal_render_size()\n            if render_method == WHOLE",
        new="self._get_render_size()\n            if render_method == WHOLE",
    ),
}


def apply(mid: str) -> Path:
    m = MUTATIONS[mid]
    root = Path(f"/tmp/verif-selftest-{mid}")
    shutil.rmtree(root, ignore_errors=True)
    root.mkdir(parents=True)
    subprocess.run(["rsync", "-a", "/repo/src", str(root) + "/"], check=True)
    for e in m.get("edits", [m]):
        f = root / "src" / "term_image" / e["file"]
        text = f.read_text()
        nth = e.get("nth")
        if nth is None:
            if text.count(e["old"]) != 1:
                raise SystemExit(f"{mid}: pattern occurs {text.count(e['old'])} times in {e['file']}")
            text = text.replace(e["old"], e["new"])
        else:
            pos = [x.start() for x in re.finditer(re.escape(e["old"]), text)]
            if len(pos) <= nth:
                raise SystemExit(f"{mid}: occurrence {nth} of the pattern not found in {e['file']}")
            text = text[: pos[nth]] + e["new"] + text[pos[nth] + len(e["old"]):]
        f.write_text(text)
    return root


def main() -> int:
    ids = sys.argv[1:] or list(MUTATIONS)
    bad = 0
    for mid in ids:
        root = apply(mid)
        try:
            env = dict(os.environ, VERIF_REPO=str(root))
            p = subprocess.run([str(VERIF / "check"), "C03"], env=env, cwd=VERIF, stdout=subprocess.PIPE,
                               stderr=subprocess.STDOUT, text=True, timeout=1200)
        finally:
            shutil.rmtree(root, ignore_errors=True)
        sigs = sorted({l.strip()[len("signature: "):] for l in p.stdout.splitlines()
                       if l.strip().startswith("signature:")})
        equivalent = MUTATIONS[mid].get("equivalent", False)
        want = 0 if equivalent else 1
        status = ("caught" if p.returncode == 1 else "MACHINERY" if p.returncode == 2 else
                  "not detected (equivalent mutant)" if equivalent else "MISSED")
        bad += p.returncode != want
        print(f"MUT {mid} C03 exit={p.returncode} {status} {sigs[:4]}", flush=True)
    return 1 if bad else 0


if __name__ == "__main__":
    sys.exit(main())
