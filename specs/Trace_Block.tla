----------------------------- MODULE Trace_Block -----------------------------
(***************************************************************************)
(* C02: code -> spec.  Each trace is the token stream of one REAL block     *)
(* render (str / format / _renderer of BlockImage) of rw x rh cells plus    *)
(* the pixels the image has at render resolution (rw x 2rh), computed by    *)
(* the driver from the source with the DOCUMENTED conversion / compositing  *)
(* arguments.  The stream is folded through Terminal!Apply from (0, 0) of a *)
(* (rw+1) x (rh+1) screen and the FINAL cell grid is compared cell for      *)
(* cell, half for half (BlockSem: upper half = foreground if the glyph is   *)
(* the upper block, else background; lower half analogously).               *)
(*                                                                         *)
(* Header fields of a trace:                                               *)
(*   rw, rh    size in cells                                               *)
(*   kitty     the terminal identifies as kitty                            *)
(*   tbg       terminal background <<r,g,b>>, <<>> = unknown               *)
(*   thr       the alpha threshold as the decimal digits after the point   *)
(*             of its repr (0.25 -> <<2, 5>>, 0.0 -> <<0>>): transparency   *)
(*             enabled;  <<>>: every pixel is opaque (alpha disabled, no    *)
(*             alpha channel, or composited over a background colour)      *)
(*   uniform   the source is uniformly coloured                            *)
(*   exp       rows of cells <<ur,ug,ub,ua, lr,lg,lb,la>>: RGB a pixel      *)
(*             shows IF it is opaque, and its alpha (0..255)                *)
(*   srcb      <<w, h, mode>> of the image as handed over (a FRESH copy of  *)
(*             the source at the frame rendered)                            *)
(*   srca      <<w, h, mode>> of the caller's PIL image after the render    *)
(*             (rendering must not reconfigure the caller's image)          *)
(*   toks, gfx the lexed output                                            *)
(*                                                                         *)
(* Transparency of a pixel with alpha a (0..255) under threshold t          *)
(* (documented: "alpha ratio above which pixels are taken as opaque"):      *)
(*   transparent iff a/255 < t, opaque iff a/255 > t, exactly a/255 = t is  *)
(*   accepted either way (DESIGN C02).  Exact integer arithmetic: t is the  *)
(*   decimal fraction 0.d1...dk of the threshold's repr; Level computes     *)
(*   255 * t by long multiplication as integer part + fractional digits,    *)
(*   so a < 255 t  <=>  a < int \/ (a = int /\ frac # 0).  No floats, no     *)
(*   number above 255 * 9 + 254.                                            *)
(* A transparent pixel drawn opaque is reported under a clause of its own   *)
(* when it lies less than / exactly half an 8-bit level below the           *)
(* threshold (the library quantises the threshold with round()), so that    *)
(* this input class has a stable signature distinct from any other          *)
(* misclassification.                                                      *)
(***************************************************************************)
EXTENDS BlockSem, Json, IOUtils

Traces == JsonDeserialize(IOEnv.TRACE_FILE)

VARIABLES tid, l, T, verdict, at
vars == <<tid, l, T, verdict, at>>

Tr == Traces[tid]
Toks == Tr.toks
N == Len(Toks)

\* 255 * 0.d1...dk: [int |-> integer part, frac |-> fractional digits]
RECURSIVE Mul255(_, _, _, _)
Mul255(ds, i, carry, acc) ==
  IF i = 0 THEN [int |-> carry, frac |-> acc]
  ELSE LET v == ds[i] * 255 + carry IN Mul255(ds, i - 1, v \div 10, <<v % 10>> \o acc)

Level(thr) == Mul255(thr, Len(thr), 0, <<>>)
FracZero(f) == \A i \in DOMAIN f : f[i] = 0
\* the fraction 0.f compared with 1/2: -1, 0, 1
FracVsHalf(f) ==
  IF f = <<>> \/ f[1] < 5 THEN -1
  ELSE IF f[1] > 5 THEN 1
  ELSE IF \A i \in DOMAIN f : i = 1 \/ f[i] = 0 THEN 0 ELSE 1

\* [c |-> "opaque" | "transparent" | "either", m |-> how far below the threshold a transparent
\*  pixel is: "under-half" / "half" an 8-bit level, else ""]
Class(a, thr) ==
  IF thr = <<>> THEN [c |-> "opaque", m |-> ""]
  ELSE LET L == Level(thr) IN
       IF a > L.int THEN [c |-> "opaque", m |-> ""]                    \* a >= int + 1 > 255 t
       ELSE IF a = L.int /\ FracZero(L.frac) THEN [c |-> "either", m |-> ""]   \* a = 255 t
       ELSE IF a < L.int THEN [c |-> "transparent", m |-> ""]
       ELSE [c |-> "transparent",                                       \* a = int < 255 t
             m |-> CASE FracVsHalf(L.frac) = -1 -> "under-half"
                     [] FracVsHalf(L.frac) = 0 -> "half"
                     [] OTHER -> ""]

RoundingClauses ==
  {"threshold-rounded-down: pixel less than half an 8-bit level below the alpha threshold is drawn opaque",
   "threshold-tie-rounded-down: pixel exactly half an 8-bit level below the alpha threshold is drawn opaque"}

\* "ok" or the name of the clause a half-cell fails
HalfClause(tr, cell, half, rgb, a) ==
  LET k == Class(a, tr.thr)
      cls == k.c
      asOpaque == HalfShows(tr.kitty, tr.tbg, cell, half, rgb)
      asTransp == HalfShows(tr.kitty, tr.tbg, cell, half, DefaultColor)
      shown == HalfColour(cell, half)
  IN
  IF cell.g \notin BlockGlyphs THEN "glyph: cell holds something else than space / half block"
  ELSE IF (cls = "opaque" /\ asOpaque) \/ (cls = "transparent" /\ asTransp)
          \/ (cls = "either" /\ (asOpaque \/ asTransp)) THEN "ok"
  ELSE IF cls = "transparent" /\ asOpaque /\ k.m = "under-half"
    THEN "threshold-rounded-down: pixel less than half an 8-bit level below the alpha threshold is drawn opaque"
  ELSE IF cls = "transparent" /\ asOpaque /\ k.m = "half"
    THEN "threshold-tie-rounded-down: pixel exactly half an 8-bit level below the alpha threshold is drawn opaque"
  ELSE IF cls = "transparent"
    THEN "transparent-not-default: pixel below the alpha threshold does not show the terminal's own background"
  ELSE IF cls = "either"
    THEN "threshold-pixel: pixel at the alpha threshold shows neither its colour nor the terminal background"
  ELSE IF ~ViaFg(cell.g, half) /\ tr.kitty /\ rgb = tr.tbg /\ shown = rgb
    THEN "kitty-workaround-missing: background equal to the terminal background emitted unchanged on kitty"
  ELSE IF ~ViaFg(cell.g, half) /\ ~tr.kitty /\ rgb = tr.tbg /\ shown = KittyAdjust(rgb)
    THEN "kitty-workaround-off-kitty: background colour altered although the terminal is not kitty"
  ELSE IF ~ViaFg(cell.g, half) /\ shown = DefaultColor
    THEN "opaque-shown-transparent: opaque pixel shows the terminal's own background"
  ELSE "opaque-colour: opaque pixel is not shown with its RGB value"

CellClause(tr, S, i, j) ==
  LET cell == CellAt(S, i, j)
      e == tr.exp[i + 1][j + 1]
      cu == HalfClause(tr, cell, "u", <<e[1], e[2], e[3]>>, e[4])
      cl == HalfClause(tr, cell, "l", <<e[5], e[6], e[7]>>, e[8])
  IN IF cu # "ok" /\ (cu \notin RoundingClauses \/ cl = "ok" \/ cl \in RoundingClauses)
       THEN [v |-> cu, half |-> "upper"]
       ELSE [v |-> cl, half |-> "lower"]

Positions(tr) == {<<i, j>> : i \in 0..(tr.rh - 1), j \in 0..(tr.rw - 1)}
Before(p, q) == p[1] < q[1] \/ (p[1] = q[1] /\ p[2] < q[2])

Uniform(tr, S) ==
  LET ref == HalfColour(CellAt(S, 0, 0), "u") IN
  \A p \in Positions(tr) : \A h \in {"u", "l"} : HalfColour(CellAt(S, p[1], p[2]), h) = ref

OkRec == [v |-> "ok", row |-> 0, col |-> 0, half |-> ""]

EndClause(tr, S) ==
  IF S.err # "" THEN [OkRec EXCEPT !.v = "terminal: " \o S.err]
  ELSE IF S.wraps > 0 \/ S.scrolls > 0
    THEN [OkRec EXCEPT !.v = "wrap-or-scroll: output left its columns x lines rectangle"]
  ELSE
    LET bad == {p \in Positions(tr) : CellClause(tr, S, p[1], p[2]).v # "ok"} IN
    IF bad # {}
      THEN LET severe == {p \in bad : CellClause(tr, S, p[1], p[2]).v \notin RoundingClauses}
               pool == IF severe # {} THEN severe ELSE bad     \* rounding clauses are reported last
               p == CHOOSE x \in pool : \A y \in pool : x = y \/ Before(x, y)
               c == CellClause(tr, S, p[1], p[2])
           IN [v |-> c.v, row |-> p[1], col |-> p[2], half |-> c.half]
    ELSE IF tr.uniform /\ ~Uniform(tr, S)
      THEN [OkRec EXCEPT !.v = "uniform: a uniformly coloured image is not rendered uniformly"]
    ELSE IF tr.srca # tr.srcb
      THEN [OkRec EXCEPT !.v = "source-mutated: the caller's PIL image changed size or mode during the render"]
    ELSE OkRec

Init ==
  /\ tid \in 1..Len(Traces)
  /\ l = 0
  /\ T = NewTerminal(Traces[tid].rw + 1, Traces[tid].rh + 1, 0, 0)
  /\ verdict = OkRec
  /\ at = 0

Consume ==
  /\ l < N
  /\ l' = l + 1
  /\ T' = Apply(T, Toks[l + 1], Tr.gfx)
  /\ UNCHANGED <<tid, verdict, at>>

Finish ==
  /\ l = N
  /\ l' = N + 1
  /\ verdict' = EndClause(Tr, T)
  /\ at' = N
  /\ UNCHANGED <<tid, T>>

Next == Consume \/ Finish
Spec == Init /\ [][Next]_vars

Done == l = N + 1
Report ==
  Done => PrintT(<<"VERDICT", ToJson([tid |-> tid, verdict |-> verdict.v, row |-> verdict.row,
                                      col |-> verdict.col, half |-> verdict.half, at |-> at])>>)
=============================================================================
