------------------------ MODULE Trace_StyleSettings ------------------------
(***************************************************************************)
(* C20: code -> spec.  Each trace is one history of set / unset / render    *)
(* operations executed on REAL style classes (a tree of `type(...)`          *)
(* subclasses under KittyImage / ITerm2Image, plus instances), recorded with *)
(* the result of every operation and, after EVERY operation, the effective   *)
(* value of EVERY setting read at EVERY class and instance (the render       *)
(* method through the framing of an actual render, forced support also       *)
(* through the instantiation gate).                                          *)
(*                                                                         *)
(*   trace = [fam, par, nc, dm, fl, real, geo, init, ev]   (dm: derived-metaclass      *)
(*           flags, fl: classes whose instances are falsy)                    *)
(*   geo   = [cw, ch, rw, rh, ow, oh]: cell px, rendered cells, source px     *)
(*   init  = override maps the history starts from (all unset for recorded   *)
(*           histories; the spec state for replayed edges, see the driver)   *)
(*   event = [k, set, n, a, res, eff, px, gate, clr, used, usedpx]; px[n] = pixel  *)
(*           size ("WxH") of the data the no-override render of node n        *)
(*           transmitted, usedpx = same for a render op; observed values are  *)
(*           sent in the compact text form Show(v), "skip:0" = not observed   *)
(*                                                                         *)
(* Steps are total: S' = Apply(S, op) whatever was observed; the verdict     *)
(* names the first failing clause and the event index.                       *)
(*                                                                         *)
(* Two *diagnostic* shadow states follow the history under a defect          *)
(* hypothesis ("an unset at a class / at an instance writes the documented   *)
(* default instead of removing the override").  They never make a verdict    *)
(* pass; when an observation contradicts the model but is exactly what the   *)
(* hypothesis predicts, the clause is named after the hypothesis, so that    *)
(* the direct and the latent manifestation of that defect get one signature. *)
(***************************************************************************)
EXTENDS StyleSettingsCore, TLC, Json, IOUtils

Traces == JsonDeserialize(IOEnv.TRACE_FILE)

VARIABLES tid, l, S, Hc, Hi, verdict, at, vset
vars == <<tid, l, S, Hc, Hi, verdict, at, vset>>

Tr == Traces[tid]
T == [par |-> Tr.par, nc |-> Tr.nc, dm |-> Tr.dm, fl |-> Tr.fl, real |-> Tr.real]
Fam == Tr.fam
G == Tr.geo
NE == Len(Tr.ev)

WFTrace(tr) ==
  /\ tr.fam \in {"kitty", "iterm2"}
  /\ WellFormedTree([par |-> tr.par, nc |-> tr.nc, dm |-> tr.dm, fl |-> tr.fl, real |-> tr.real])
  /\ \A set \in Settings : Len(tr.init[set]) = Len(tr.par)
  /\ WellFormedGeo(tr.geo)

OpOf(e) == [k |-> e.k, set |-> e.set, n |-> e.n, a |-> e.a]

WFEvent(e) ==
  /\ e.k \in {"set", "unset", "render"}
  /\ e.set \in SettingsOf(Fam)
  /\ e.n \in Nodes(T)
  /\ Applies(T, Fam, e.set, e.n)      \* forced_support anywhere, the rest at / below the style class
  /\ Len(e.clr) = Len(T.par)
  /\ e.k = "unset" => e.a = Unset
  /\ e.k = "render" => e.set = "rm" /\ (e.a = Unset \/ (e.a.t = "str" /\ e.a.s \in Methods(Fam)))
  /\ \A set \in Settings : Len(e.eff[set]) = Len(T.par)
  /\ Len(e.gate) = Len(T.par)
  /\ Len(e.px) = Len(T.par)

\* defect hypothesis: an accepted unset at a class (kind = "class") / instance writes the default
ApplyH(kind, H, op) ==
  IF /\ op.k = "unset" /\ Res(T, Fam, op) = "ok" /\ ~Global(op.set)
     /\ IsClass(T, op.n) = (kind = "class")
  THEN [H EXCEPT ![op.set][op.n] = Default(op.set)]
  ELSE Apply(T, Fam, H, op)

\* a value the driver did not observe at this step is sent as "skip": not observed, not judged
Diff(e, S2, set) ==
  {n \in Nodes(T) : e.eff[set][n] # "skip:0" /\ e.eff[set][n] # Show(ObsEff(T, Fam, S2, set, n))}
GateDiff(e, S2) == {n \in Nodes(T) : e.gate[n] # "skip" /\ e.gate[n] # Gate(T, S2, n)}
\* clear() of the invoking class on a terminal without graphics support
ClrDiff(e, S2) == {n \in Nodes(T) : e.clr[n] # "skip" /\ e.clr[n] # ClearObs(T, Fam, S2, n)}
\* nodes whose no-override render transmitted data of a size the effective method does not dictate
PxDiff(e, S2) == {n \in Nodes(T) : e.px[n] # "skip" /\ e.px[n] \notin PxSet(G, Eff(T, S2, "rm", n).s)}
MatchesAll(e, S2) ==
  /\ \A set \in Settings : Diff(e, S2, set) = {}
  /\ GateDiff(e, S2) = {} /\ ClrDiff(e, S2) = {} /\ PxDiff(e, S2) = {}

\* every setting whose observation contradicts the model shows exactly what hypothesis H predicts
ExplainedBy(e, S2, H) ==
  LET bad == {set \in Settings : Diff(e, S2, set) # {}} IN
  bad # {} /\ GateDiff(e, S2) = {} /\ ClrDiff(e, S2) = {} /\ PxDiff(e, H) = {} /\ \A set \in bad : Diff(e, H, set) = {}

\* first failing clause of event e; S1 = state before, S2 = state after (model), Hc2/Hi2 = hypotheses after
Clause(e, S1, S2, Hc2, Hi2) ==
  LET op == OpOf(e)
      exp == Res(T, Fam, op)
      x == Slot(T, op.set, op.n)
      isC == IsClass(T, op.n)
      kind == IF isC THEN "class-" ELSE "instance-"
      D == Diff(e, S2, op.set)
  IN
  IF ~WFEvent(e) THEN "unsupported-event"
  ELSE IF ~ResMatches(exp, e.res) THEN
    kind \o (IF exp # "ok" /\ e.res = "ok"
             THEN (IF ClassOnly(op.set) /\ ~isC THEN "write-to-class-only-setting-accepted"
                   ELSE IF op.k = "unset" THEN "undocumented-unset-accepted"
                   ELSE "invalid-value-accepted")
             ELSE IF exp = "ok" THEN op.k \o "-valid-operation-rejected"
             ELSE "wrong-exception-class")
  ELSE IF op.k = "render" /\ e.used # FrameOf(Used(T, S1, op)) THEN
    kind \o (IF op.a # Unset THEN "render-ignores-method-override"
             ELSE "render-not-using-effective-method")
  ELSE IF op.k = "render" /\ e.usedpx \notin PxSet(G, Used(T, S1, op)) THEN
    kind \o (IF op.a # Unset THEN "render-override-data-not-sized-for-used-method"
             ELSE "render-data-not-sized-for-effective-method")
  ELSE IF MatchesAll(e, S2) THEN "ok"
  ELSE IF ExplainedBy(e, S2, Hc2) THEN "class-unset-writes-default"
  ELSE IF ExplainedBy(e, S2, Hi2) THEN "instance-unset-writes-default"
  ELSE IF exp # "ok" THEN kind \o "rejected-operation-changed-state"
  ELSE IF op.k = "render" THEN kind \o "render-changed-state"
  ELSE IF Global(op.set) /\ D # {} THEN kind \o op.k \o "-global-value-not-shared-by-all-classes-and-instances"
  ELSE IF x \in D THEN
    kind \o (IF op.k = "unset" THEN "unset-not-following-next-level" ELSE "set-not-effective")
  ELSE IF D \cap InheritsThrough(T, S1, op.set, x) # {} THEN
    kind \o op.k \o "-not-seen-by-inheriting-node"
  ELSE IF D # {} THEN kind \o op.k \o "-changed-unrelated-node"
  ELSE IF \E set \in Settings : Diff(e, S2, set) # {} THEN kind \o op.k \o "-changed-other-setting"
  ELSE IF PxDiff(e, S2) # {} THEN kind \o op.k \o "-render-data-not-sized-for-effective-method"
  ELSE IF GateDiff(e, S2) # {} THEN kind \o op.k \o "-instantiation-gate-disagrees-with-forced-support"
  ELSE kind \o op.k \o "-clear-disagrees-with-forced-support-of-invoking-class"

\* the setting a failing clause is about
ClauseSetting(e, S2) ==
  LET bad == {i \in 1..Len(SettingSeq) : Diff(e, S2, SettingSeq[i]) # {}} IN
  IF ~WFEvent(e) THEN "none"
  ELSE IF bad = {} /\ GateDiff(e, S2) = {} /\ ClrDiff(e, S2) = {} /\ PxDiff(e, S2) # {} THEN "rm"
  ELSE IF bad = {} /\ GateDiff(e, S2) \cup ClrDiff(e, S2) # {} THEN "fs"
  ELSE IF bad = {} \/ Diff(e, S2, e.set) # {} THEN e.set
  ELSE SettingSeq[CHOOSE i \in bad : \A j \in bad : i <= j]

Init ==
  /\ tid \in 1..Len(Traces)
  /\ l = 0
  /\ S = [set \in Settings |-> [n \in 1..Len(Traces[tid].par) |-> Traces[tid].init[set][n]]]
  /\ Hc = S
  /\ Hi = S
  /\ verdict = IF WFTrace(Traces[tid]) THEN "ok" ELSE "unsupported-trace"
  /\ at = 0
  /\ vset = "none"

Step ==
  /\ l < NE
  /\ l' = l + 1
  /\ LET e == Tr.ev[l + 1]
         ok == verdict # "unsupported-trace" /\ WFEvent(e)
         S2 == IF ok THEN Apply(T, Fam, S, OpOf(e)) ELSE S
         Hc2 == IF ok THEN ApplyH("class", Hc, OpOf(e)) ELSE Hc
         Hi2 == IF ok THEN ApplyH("instance", Hi, OpOf(e)) ELSE Hi
         v == IF verdict # "ok" THEN verdict ELSE Clause(e, S, S2, Hc2, Hi2)
     IN
       /\ S' = S2 /\ Hc' = Hc2 /\ Hi' = Hi2
       /\ verdict' = v
       /\ at' = IF verdict = "ok" /\ v # "ok" THEN l + 1 ELSE at
       /\ vset' = IF verdict = "ok" /\ v # "ok" THEN ClauseSetting(e, S2) ELSE vset
  /\ UNCHANGED tid

Finish ==
  /\ l = NE
  /\ l' = NE + 1
  /\ UNCHANGED <<tid, S, Hc, Hi, verdict, at, vset>>

Next == Step \/ Finish
Spec == Init /\ [][Next]_vars

Done == l = NE + 1
Report ==
  Done => PrintT(<<"VERDICT", ToJson([tid |-> tid, verdict |-> verdict, at |-> at, set |-> vset,
                                      judged |-> IF verdict = "ok" THEN NE ELSE at,
                                      events |-> NE])>>)
=============================================================================
