SPECIFICATION Spec
CONSTANTS
  Rich = FALSE
  ClsSet = {"KittyImage"}
VIEW View
ACTION_CONSTRAINT Dump
INVARIANT InitDump
INVARIANT StateDump
CHECK_DEADLOCK FALSE
