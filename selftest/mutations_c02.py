"""Seeded mutations for C02 (same record format as selftest/mutations.py; kept in a file of its own so
that concurrent builders do not edit the shared registry - merge at will).

    /venv/bin/python -m selftest.mutations_c02 [id ...] [--tier quick]    # runs ./check C02 on each mutant

Result lines:  MUT <id> C02 exit=<rc> caught|MISSED|MACHINERY <first signature>
All 19 were caught by the quick tier (notes/C02.md); two need the multi-render histories, one the
boundary pixel style, the last one the interleaved renders.

The three threshold mutations are written against the F18 fix (`alpha = alpha * 255`, no rounding).
"""

from __future__ import annotations

import os
import shutil
import subprocess
import sys
from pathlib import Path

VERIF = Path(__file__).resolve().parent.parent

MUTATIONS = {
    # DESIGN
    'c02-drop-transparent-to-opaque-lower': dict(
        file='image/block.py', props=["C02"],
        old='                        or 0 == a_cluster2 != a2\n',
        new='',
    ),
    # own
    'c02-drop-transparent-to-opaque-upper': dict(
        file='image/block.py', props=["C02"],
        old='                        or 0 == a_cluster1 != a1\n',
        new='                        or False\n',
    ),
    # own
    'c02-drop-opaque-to-transparent-lower': dict(
        file='image/block.py', props=["C02"],
        old='                        or a_cluster2 != a2 == 0\n',
        new='',
    ),
    # DESIGN
    'c02-blank-without-bg': dict(
        file='image/block.py', props=["C02"],
        old='                buf_write(SGR_BG_DIRECT % (r, g, b))\n                if cluster1 == cluster2:\n                    buf_write(blank * n)\n                else:\n',
        new='                if cluster1 == cluster2:\n                    buf_write(blank * n)\n                else:\n                    buf_write(SGR_BG_DIRECT % (r, g, b))\n',
    ),
    # DESIGN
    'c02-kitty-workaround-off-kitty': dict(
        file='image/block.py', props=["C02"],
        old='if is_on_kitty and cluster2 == bg_color:',
        new='if cluster2 == bg_color:',
    ),
    # DESIGN
    'c02-threshold-plus-2': dict(
        file='image/common.py', props=["C02"],
        old='                        alpha = alpha * 255\n',
        new='                        alpha = alpha * 255 + 2\n',
    ),
    # DESIGN
    'c02-n-not-reset': dict(
        file='image/block.py', props=["C02"],
        old='                        a_cluster2 = a2\n                    n = 0\n',
        new='                        a_cluster2 = a2\n',
    ),
    # own
    'c02-threshold-composite-over-black': dict(
        file='image/common.py', props=["C02"],
        old='                    bg = Image.new(\n                        "RGBA", img.size, get_fg_bg_colors(hex=True)[1] or "#000000"\n                    )',
        new='                    bg = Image.new(\n                        "RGBA", img.size, "#000000"\n                    )',
    ),
    # own
    'c02-hash-composite-over-black': dict(
        file='image/common.py', props=["C02"],
        old='                    alpha = get_fg_bg_colors(hex=True)[1] or "#000000"\n',
        new='                    alpha = "#000000"\n',
    ),
    # own
    'c02-split-trailing-nul-kept': dict(
        file='image/block.py', props=["C02"],
        old='                buffer.seek(buffer.tell() - 1)\n',
        new='                pass\n',
    ),
    # own
    'c02-kitty-adjust-overflows-255': dict(
        file='image/block.py', props=["C02"],
        old='r += r < 255 or -1',
        new='r += 1',
    ),
    # own
    'c02-nearest-instead-of-box': dict(
        file='image/common.py', props=["C02"],
        old='img = img.resize(size, Image.Resampling.BOX)',
        new='img = img.resize(size, Image.Resampling.NEAREST)',
    ),
    # own
    'c02-lower-glyph-for-upper-pixel': dict(
        file='image/block.py', props=["C02"],
        old='                    buf_write(SGR_FG_DIRECT % cluster1)\n                    buf_write(upper_pixel * n)\n                else:\n                    no_alpha = True',
        new='                    buf_write(SGR_FG_DIRECT % cluster1)\n                    buf_write(lower_pixel * n)\n                else:\n                    no_alpha = True',
    ),
    # own
    'c02-threshold-off-by-one': dict(
        file='image/common.py', props=["C02"],
        # (`val <= alpha` differs from the unrounded comparison only exactly AT the threshold, which the
        # property leaves open; one level too high is the nearest observable off-by-one)
        old='a = [0 if val < alpha else 255 for val in a]',
        new='a = [0 if val < alpha + 1 else 255 for val in a]',
    ),
    # own
    'c02-kitty-test-on-upper-pixel': dict(
        file='image/block.py', props=["C02"],
        old='if is_on_kitty and cluster2 == bg_color:',
        new='if is_on_kitty and cluster1 == bg_color:',
    ),
    # seeded/C02-w1 (needs a multi-render history on ONE image object: unloaded PIL JPEG, small then large)
    'c02-draft-before-resize': dict(
        file='image/common.py', props=["C02"],
        old='            nonlocal img\n\n            if img.mode != mode:\n',
        new='            nonlocal img\n\n            if img.size != size:\n                img.draft(None, size)\n\n            if img.mode != mode:\n',
    ),
    # own (history): a reused PIL GIF keeps its last frame position when the seek to frame 0 is skipped
    'c02-skip-seek-to-frame-zero': dict(
        file='image/common.py', props=["C02"],
        old='        frame_img = img if frame else None\n        if self._is_animated:\n            img.seek(self._seek_position)\n        if not size:\n',
        new='        frame_img = img if frame else None\n        if self._is_animated and self._seek_position:\n            img.seek(self._seek_position)\n        if not size:\n',
    ),
    # seeded/X9-s2 (needs a threshold whose product with 255 has a fractional part >= .5 and a pixel whose
    # alpha is floor(threshold * 255): the "boundary" pixel style)
    'c02-threshold-int-instead-of-round': dict(
        file='image/common.py', props=["C02"],
        old='                        alpha = alpha * 255\n',
        new='                        alpha = int(alpha * 255)  # 8-bit alpha level\n',
    ),
    # seeded/C02-y2 (needs two OVERLAPPING renders: the interleaved renders at a seam inside _render_image)
    'c02-shared-render-buffer': dict(
        props=["C02"],
        edits=[
            dict(file='image/block.py',
                 old='UPPER_PIXEL = "\\u2580"  # upper-half block element\n',
                 new='UPPER_PIXEL = "\\u2580"  # upper-half block element\n_render_buffer = io.StringIO()\n'),
            dict(file='image/block.py',
                 old='        buffer = io.StringIO()\n',
                 new='        buffer = _render_buffer\n        buffer.seek(0)\n        buffer.truncate()\n'),
            dict(file='image/block.py',
                 old='        with buffer:\n            return buffer.getvalue()\n',
                 new='        return buffer.getvalue()\n'),
        ],
    ),
}


def apply(mid: str) -> Path:
    m = MUTATIONS[mid]
    root = Path(f"/tmp/verif-selftest-{mid}")
    shutil.rmtree(root, ignore_errors=True)
    root.mkdir(parents=True)
    subprocess.run(["rsync", "-a", "/repo/src", str(root) + "/"], check=True)
    for e in m["edits"] if "edits" in m else [m]:
        f = root / "src" / "term_image" / e["file"]
        text = f.read_text()
        if text.count(e["old"]) != 1:
            raise SystemExit(f"{mid}: pattern occurs {text.count(e['old'])} times in {e['file']}")
        f.write_text(text.replace(e["old"], e["new"]))
        subprocess.run([sys.executable, "-m", "py_compile", str(f)], check=True)
    return root


def run(mid: str, tier: str = "quick") -> int:
    root = apply(mid)
    try:
        env = dict(os.environ, VERIF_REPO=str(root))
        p = subprocess.run([str(VERIF / "check"), "C02", "--tier", tier], env=env, cwd=VERIF,
                           stdout=subprocess.PIPE, stderr=subprocess.STDOUT, text=True, timeout=3600)
    finally:
        shutil.rmtree(root, ignore_errors=True)
    sig = [l.strip()[len("signature: "):] for l in p.stdout.splitlines() if l.strip().startswith("signature:")]
    own = sig
    status = "MACHINERY" if p.returncode == 2 else ("caught" if p.returncode == 1 else "MISSED")
    print(f"MUT {mid} C02 exit={p.returncode} {status} {own[0] if own else ''}", flush=True)
    if p.returncode == 2:
        print("\n".join(p.stdout.splitlines()[-15:]))
    return 1 if status == "caught" else (2 if status == "MACHINERY" else 0)


def main() -> None:
    args = sys.argv[1:]
    tier = "quick"
    if "--tier" in args:
        i = args.index("--tier")
        tier = args[i + 1]
        del args[i : i + 2]
    ids = args or list(MUTATIONS)
    missed = sum(run(mid, tier) != 1 for mid in ids)
    sys.exit(1 if missed else 0)


if __name__ == "__main__":
    main()
