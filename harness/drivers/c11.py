"""C11 - image iteration matches frame-by-frame rendering and leaks nothing
(also the image-iterator clause of C09: cached and uncached iterators yield identical frames).

model:    specs/ImageIterCore.tla (functional core) + specs/ImageIter.tla (named actions,
          invariants, action properties); exhaustive (MC_ImageIter.cfg) + simulation
          (Sim_ImageIter.cfg) for depth.
spec->code: every edge of a small instance (Dump_ImageIter.cfg) and deep simulated behaviours
          of the full instance (SimDump_ImageIter.cfg) are executed on REAL Block/Kitty/ITerm2
          images (files, caller-supplied PIL images, URLs on a loopback HTTP server), with the
          injected failures, recording what is observable after every operation.
code->spec: seeded random histories generated on the Python side are executed the same way.
judgement: every recorded history (from either direction) is validated by TLC against
          specs/Trace_ImageIter.tla; Python only drives, records, decodes and reports.
"""

from __future__ import annotations

import copy
import json
import os
import random
import re
import time
from collections import Counter, defaultdict, deque
from pathlib import Path

from .. import c11_world as W
from .. import graph, tlc
from ..core import Report

SPECS = tlc.SPECS
OUTDIR = tlc.OUT / "c11"
WORKERS = int(os.environ.get("VERIF_WORKERS", "16"))

ASSUMPTIONS = [
    "quiescence reading (DESIGN 2.5): open files / temp files are observed after the call "
    "returned or its exception was handled and gc.collect() ran, the image and the iterator "
    "still referenced by the caller",
    "prompt-close clause: a call that returns normally, and the close/exhaustion/failure of a "
    "STARTED iterator, must close their files themselves (no ResourceWarning); tolerated "
    "collector-closed files (at most one per call): W1 an animated draw() (its ImageIterator "
    "opens a second copy that is replaced before use), W2 closing/dropping an iterator that "
    "never started, W3 a call that failed at an injected fault",
    "a live iterator MAY hold one open file (Pillow closes some formats itself after decoding): "
    "fewer open files than modelled is never a violation",
    "the caller's PIL image counts as closed when Image.load() raises afterwards "
    "(Image.close() was called); its file object alone does not tell (WebP)",
    "after a failed next() the frame the image is left at is unspecified until it is set again "
    "(image.seek / a new iteration)",
    "faults are injected into seeks to existing frames only (the end-of-pass probe beyond the "
    "last frame raises EOFError by itself and is handled by the library)",
    "operations on an iterator / seeks after image.close() other than closing or dropping the "
    "iterator are outside the modelled histories",
    "format specifiers use absolute padding (relative padding is resolved against the terminal "
    "size when the iterator is created, format() resolves it at call time)",
    "native-animation specifier (+A, iterm2): iterator frames are identified structurally "
    "(payload decoded, nearest source frame; cell size from the control keys); "
    "format(image, '+A') itself is frame independent and not used as a per-frame reference",
    "frames drawn by an animated draw() are not decoded here (C06); draw() is checked for "
    "tell / size / files only",
    "animated fixtures are GIF and WebP (Pillow 11.1 cannot rewind an APNG from a middle frame)",
]

TIERS = {
    "quick": dict(mc_depth=8, cov_depth=4, sim_inv=150, sim_inv_depth=30, dump_depth=4, dump_sizes_depth=3, dump_peer_depth=4,
                  max_walk=120, step_budget=8000, sim_walks=60, sim_depth=18, hist=70, hist_len=24,
                  tlc_timeout=900),
    "thorough": dict(mc_depth=12, cov_depth=5, sim_inv=8000, sim_inv_depth=40, dump_depth=5, dump_sizes_depth=4, dump_peer_depth=5,
                     max_walk=200, step_budget=60000, sim_walks=1200, sim_depth=30, hist=2000,
                     hist_len=40, tlc_timeout=2400),
}

_COV = re.compile(r"^<(\w+) line \d+, col \d+ to line \d+, col \d+ of module ImageIter(?: \([\d ]+\))?>: (\d+):(\d+)", re.M)
ACTIONS = ["Open", "Format", "Str", "Draw", "Iter", "Next_", "IterSeek", "ImageSeek", "NFrames",
           "SetSize", "Resize", "CloseIter", "DropIter", "CloseImage", "DropImage",
           "PeerOpen", "PeerFormat", "PeerClose", "PeerDrop"]


# ------------------------------------------------------------------------------- TLC side
def _cfg(name: str, **subst) -> str:
    """Derive a config from specs/<name> with constants replaced; returns an absolute path."""
    text = (SPECS / name).read_text()
    for k, v in subst.items():
        text, n = re.subn(rf"^(\s*{k}\s*=).*$", rf"\1 {v}", text, flags=re.M)
        if n != 1:
            raise tlc.MachineryError(f"{name}: constant {k} not found")
    OUTDIR.mkdir(parents=True, exist_ok=True)
    p = OUTDIR / f"{name[:-4]}-{'-'.join(f'{k}{v}' for k, v in subst.items())}.cfg".replace(" ", "")
    p = Path(re.sub(r"[{}\",]", "", str(p)))
    p.write_text(text)
    return str(p)


def model_check(rep: Report, T: dict) -> None:
    res = tlc.run("ImageIter", _cfg("MC_ImageIter.cfg", MaxDepth=T["mc_depth"]), workers=WORKERS,
                  timeout=T["tlc_timeout"])
    rep.add_tlc(res)
    rep.extra["mc"] = dict(states=res.distinct, generated=res.generated, depth=res.depth,
                           wall_s=round(res.wall_s, 1), max_depth=T["mc_depth"] - 1)
    if res.violated:
        rep.violation(f"design:ImageIter:{res.violated}",
                      "the model itself violates " + res.violated + "\n" + res.error_text[:1500],
                      {"kind": "design"})
    cov = tlc.run("ImageIter", _cfg("MC_ImageIter.cfg", MaxDepth=T["cov_depth"]), workers=WORKERS,
                  timeout=T["tlc_timeout"], coverage=True)
    rep.add_tlc(cov)
    counts = {m.group(1): int(m.group(3)) for m in _COV.finditer(cov.stdout)}
    vac = [a for a in ACTIONS if counts.get(a, 0) == 0]
    if vac:
        raise tlc.MachineryError(f"vacuous actions in ImageIter (coverage): {vac}; parsed {counts}")
    rep.extra["mc_action_coverage"] = {a: counts[a] for a in ACTIONS}
    sim = tlc.run("ImageIter", "Sim_ImageIter.cfg", workers=min(WORKERS, 8), timeout=T["tlc_timeout"],
                  simulate=f"num={T['sim_inv']}", depth=T["sim_inv_depth"], seed=rep.seed + 1)
    rep.add_tlc(sim)
    rep.extra["mc_simulation"] = dict(behaviours=T["sim_inv"], depth=T["sim_inv_depth"],
                                      states=sim.generated)
    if sim.violated:
        rep.violation(f"design:ImageIter:{sim.violated}",
                      "the model itself violates (simulation) " + sim.violated + "\n" + sim.error_text[:1500],
                      {"kind": "design"})


def dump_edges(rep: Report, T: dict, cfg: str = "Dump_ImageIter.cfg", depth_key: str = "dump_depth") -> graph.Graph:
    res = tlc.run("ImageIter", _cfg(cfg, MaxDepth=T[depth_key]), workers=1,
                  timeout=T["tlc_timeout"])
    if res.violated:
        raise tlc.MachineryError(f"edge dump run failed: {res.violated}\n{res.error_text[:800]}")
    rep.add_tlc(res)
    g = graph.from_result(res)
    if not g.edges or not g.inits:
        raise tlc.MachineryError("edge dump produced no edges / no initial states")
    return g


def sim_behaviours(rep: Report, T: dict) -> list[list[dict]]:
    """Deep behaviours of the full instance: TLC simulation prints the candidate transitions
    of every state it visits; a behaviour is any chain through consecutive levels."""
    res = tlc.run("ImageIter", "SimDump_ImageIter.cfg", workers=1, timeout=T["tlc_timeout"],
                  simulate=f"num={T['sim_walks']}", depth=T["sim_depth"], seed=rep.seed + 7)
    if res.violated:
        raise tlc.MachineryError(f"simulation dump failed: {res.violated}\n{res.error_text[:800]}")
    rep.add_tlc(res)
    rng = random.Random(rep.seed * 31 + 5)
    edges = res.tagged("EDGE")
    # group consecutive edges by (level, from)
    groups: list[tuple[int, str, list[dict]]] = []
    for e in edges:
        k = graph.key(e["from"])
        if groups and groups[-1][0] == e["lvl"] and groups[-1][1] == k:
            groups[-1][2].append(e)
        else:
            groups.append((e["lvl"], k, [e]))
    behaviours: list[list[dict]] = []
    cur: list[list[dict]] = []

    def flush():
        if not cur:
            return
        walk = []
        for i, cands in enumerate(cur):
            if i + 1 < len(cur):
                nxt = graph.key(cur[i + 1][0]["from"])
                cands = [c for c in cands if graph.key(c["to"]) == nxt]
                if not cands:
                    break
            walk.append(rng.choice(cands))
        if len(walk) >= 2:
            behaviours.append(walk)

    prev_lvl = 0
    for lvl, _k, cands in groups:
        if lvl <= prev_lvl:
            flush()
            cur = []
        if lvl == len(cur) + 1:
            cur.append(cands)
        prev_lvl = lvl
    flush()
    if len(behaviours) < max(3, T["sim_walks"] // 4):
        raise tlc.MachineryError(
            f"could not reconstruct simulated behaviours ({len(behaviours)} from {len(edges)} edges)")
    return behaviours


# ------------------------------------------------------------------------------- covering
class Cover:
    """Online edge cover: plan a walk to the nearest node with an edge still to cover, follow
    uncovered edges; edges on which the real code diverged are marked bad and avoided."""

    def __init__(self, g: graph.Graph):
        self.edges = g.edges
        self.frm = [graph.key(e["from"]) for e in g.edges]
        self.to = [graph.key(e["to"]) for e in g.edges]
        self.out: dict[str, list[int]] = defaultdict(list)
        for i, k in enumerate(self.frm):
            self.out[k].append(i)
        self.inits = g.inits
        self.covered: set[int] = set()
        self.bad: set[int] = set()
        self.gaveup: set[int] = set()
        self.claimed: set[int] = set()
        self.tries: Counter = Counter()

    def wanted(self, i: int) -> bool:
        return i not in self.covered and i not in self.bad and i not in self.gaveup and i not in self.claimed

    def remaining(self) -> int:
        return sum(1 for i in range(len(self.edges)) if i not in self.covered and i not in self.bad
                   and i not in self.gaveup)

    def plan(self, max_len: int) -> list[int] | None:
        prev: dict[str, tuple[str, int] | None] = {k: None for k in self.inits}
        dq = deque(self.inits)
        target = None
        while dq:
            u = dq.popleft()
            if any(self.wanted(i) for i in self.out.get(u, ())):
                target = u
                break
            for i in self.out.get(u, ()):
                if i in self.bad or i in self.gaveup:
                    continue
                v = self.to[i]
                if v not in prev:
                    prev[v] = (u, i)
                    dq.append(v)
        if target is None:
            return None
        path: list[int] = []
        u = target
        while prev[u] is not None:
            pu, i = prev[u]  # type: ignore[misc]
            path.append(i)
            u = pu
        path.reverse()
        u = target
        while len(path) < max_len:
            cands = [i for i in self.out.get(u, ()) if self.wanted(i)]
            if not cands:
                break
            # stay at the node as long as it has uncovered self-loops, then move on
            loops = [i for i in cands if self.to[i] == u]
            i = (loops or cands)[0]
            self.claimed.add(i)
            path.append(i)
            u = self.to[i]
        return path


def init_of(node: dict) -> dict:
    return dict(kind=node["kind"], anim=node["anim"], size=node["size"], term=node["term"])


def exec_walk(world_args, walk: list[dict], stop_on_unfired: bool) -> tuple[dict, int, list[int]]:
    """Execute the operations of ``walk`` (edges) on a fresh world.  Returns the trace, the
    number of edges executed as planned and the indexes whose planned fault did not fire."""
    cfg, server, rng = world_args
    init = init_of(walk[0]["from"])
    world = W.World(cfg, init, server, rng)
    unfired: list[int] = []
    done = 0
    try:
        for j, e in enumerate(walk):
            if world.init_failed:  # the construction itself failed: that event is the history
                break
            a = dict(e["op"]["a"])
            hint = None
            if a["op"] == "next" and a["fault"] != "none":
                hint = {"frame": e["from"]["it"]["n"] % W.NFRAMES}
            fault = world.pick_fault(a, hint) if a["fault"] != "none" else None
            ev = world.execute(a, fault=fault)
            if a["fault"] != "none" and ev["a"]["fault"] == "none":
                unfired.append(j)
                if stop_on_unfired:
                    break
            done = j + 1
        trace = world.trace()
    finally:
        world.close()
        W.refreeze()
    return trace, done, unfired


# ------------------------------------------------------------------------------- code -> spec
class Tracker:
    """What the generator needs to know to stay inside the modelled histories (which
    operations make sense next); it never judges an outcome."""

    def __init__(self, init):
        self.kind, self.anim, self.size, self.term = init["kind"], init["anim"], init["size"], init["term"]
        self.closed = False
        self.it = "none"
        self.faulted = False
        self.tell_known = True
        self.peer = "none"

    def update(self, a, res):
        op = a["op"]
        if a["fault"] != "none":
            self.faulted = True
        if op == "open" and res == "ok":
            self.kind, self.anim, self.size = a["kind"], a["anim"], a["size"]
            self.closed, self.it, self.tell_known = False, "none", True
        elif op == "iter" and res == "ok":
            self.it = "fresh"
        elif op == "next":
            if res == "frame":
                self.it, self.tell_known = "live", True
            elif res == "stop":
                if self.it != "closed":
                    self.tell_known = True
                self.it = "closed"
            else:
                self.it, self.tell_known = "closed", False
        elif op == "imageseek" and res == "ok":
            self.tell_known = True
        elif op == "setsize":
            self.size = a["size"]
        elif op == "draw" and a.get("during") and res == "ok":
            self.size = a["during"]
        elif op == "resize":
            self.term = a["term"]
        elif op == "closeiter":
            self.it = "closed"
        elif op == "dropiter":
            self.it = "none"
        elif op == "peeropen" and res == "ok":
            self.peer = "open"
        elif op == "peerclose":
            self.peer = "closed"
        elif op == "peerdrop":
            self.peer = "none"
        elif op == "closeimage":
            self.closed = True
        elif op == "dropimage":
            self.kind, self.anim, self.closed, self.tell_known = "none", False, False, True

    def choose(self, rng: random.Random, native: bool) -> dict:
        A = W.new_action
        # a second URL image alive at the same time (same file name in its URL)
        if self.peer != "none" and rng.random() < 0.22:
            return A(rng.choice(["peerformat", "peerformat", "peerclose", "peerdrop"]))
        if self.kind == "url" and self.peer == "none" and rng.random() < 0.15:
            return A("peeropen", pvar=rng.choice(["same", "other"]))
        if self.kind == "none":
            kind = rng.choice(["path", "pil", "url", "url"])
            oc = rng.choice(["ok"] * 5 + ["ctorFails"] + (["404", "notImage"] if kind == "url" else []))
            a = A("open", kind=kind, anim=rng.random() < 0.85, size=rng.choice(["A", "dyn"]), outcome=oc)
            if kind == "path" and oc == "ok" and not self.faulted and rng.random() < 0.1:
                a["fault"] = "open"
            return a
        file_backed = self.kind in ("path", "url")
        live = self.it in ("fresh", "live")
        opts: list[tuple[float, str]] = [(1.0, "closeimage"), (0.7, "resize")]
        if self.closed or self.tell_known:
            opts += [(2.0, "format"), (1.0, "str"), (1.5, "draw")]
        elif self.anim:
            opts += [(1.0, "drawanim")]
        if self.it in ("none", "closed"):
            opts += [(4.0, "iter")]
        if self.it != "none":
            opts += [(1.2, "closeiter"), (0.8, "dropiter")]
            if not (live and self.closed):
                opts += [(14.0 if live else 1.0, "next")]
            if not self.closed:
                opts += [(3.0, "iterseek")]
        else:
            opts += [(0.5, "dropimage")]
        if not self.closed:
            opts += [(1.5, "imageseek"), (0.5, "nframes"), (2.0, "setsize")]
        op = rng.choices([o for _, o in opts], [w for w, _ in opts])[0]
        can_fault = not self.faulted and not self.closed and rng.random() < 0.18
        steps = [s for s in W.STEPS if (s != "open" or file_backed) and (s != "seek" or self.anim)]
        if op == "format":
            a = A("format", spec="s1" if native else rng.choice(["s1", "s2"]))
            if can_fault:
                a["fault"] = rng.choice(steps)
            return a
        if op == "str":
            a = A("str")
            if can_fault:
                a["fault"] = rng.choice(steps)
            return a
        if op in ("draw", "drawanim"):
            animated = op == "drawanim" or rng.random() < 0.6
            a = A("draw", animated=animated)
            if animated:
                a.update(rep=rng.choice([1, 2]), cached=rng.random() < 0.5)
            if (animated and self.anim and not self.closed and self.size != "dyn"
                    and rng.random() < 0.6):
                # the user sets another size while the animation is running
                a["during"] = rng.choice([s for s in ("A", "B", "dyn") if s != self.size])
                return a
            if can_fault:
                a["fault"] = rng.choice(steps)
            return a
        if op == "iter":
            a = A("iter", rep=rng.choice([-1, 1, 2, 2, 3]), spec=rng.choice(["s1", "s2"]),
                  cached=rng.random() < 0.6)
            if can_fault and file_backed and self.anim and rng.random() < 0.3:
                a["fault"] = "open"
            return a
        if op == "next":
            a = A("next")
            if can_fault and live and rng.random() < 0.5:
                a["fault"] = rng.choice([s for s in steps if s != "open"])
            return a
        if op in ("iterseek", "imageseek"):
            return A(op, pos=rng.choice([0, 0, 1, 2, 2, 3]))
        if op == "setsize":
            return A("setsize", size=rng.choice([s for s in ("A", "B", "dyn") if s != self.size] * 2))
        if op == "resize":
            return A("resize", term=3 - self.term)
        return A(op)


def random_history(world_args, rng: random.Random, length: int) -> dict:
    cfg, server, wrng = world_args
    native = cfg["s2"].endswith("+A")
    if rng.random() < 0.2:
        init = dict(kind="none", anim=False, size="dyn", term=1)
    else:
        init = dict(kind=rng.choice(["path", "pil", "url"]), anim=native or rng.random() < 0.85,
                    size=rng.choice(["A", "dyn"]), term=1)
    world = W.World(cfg, init, server, wrng)
    tr = Tracker(world.trace_init)
    try:
        for _ in range(length):
            a = tr.choose(rng, native)
            ev = world.execute(a)
            tr.update(ev["a"], ev["o"]["res"])
        return world.trace()
    finally:
        world.close()
        W.refreeze()


# ------------------------------------------------------------------------------- verdicts
def signature(trace: dict, at: int, verdict: str) -> str:
    ev = trace["events"][at - 1]
    kind, closed, peer = trace["init"]["kind"], False, ""
    for e in trace["events"][: at - 1]:
        a, res = e["a"], e["o"]["res"]
        if a["op"] == "peeropen" and res == "ok":
            peer = "+peer-" + a["pvar"]
        elif a["op"] in ("peerclose", "peerdrop") and peer:
            peer = "+peer-gone"
        if a["op"] == "open" and res == "ok":
            kind, closed = a["kind"], False
        elif a["op"] == "closeimage":
            closed = True
        elif a["op"] == "dropimage":
            kind, closed = "none", False
    a, o = ev["a"], ev["o"]
    if a["op"] == "open":
        kind = a["kind"] + "-" + a["outcome"]
    if a["op"] == "peeropen":
        peer = "-" + a["pvar"]
    ctx = kind + ("+image-closed" if closed else "") + ("+fault" if a["fault"] != "none" else "") + peer
    op = a["op"] + ("-animated" if a["op"] == "draw" and a["animated"] else "")
    clause = verdict.split(":")[0]
    # an exception the specification does not allow here is named in the signature
    if clause == "result" and o["res"] not in ("ok", "frame", "stop", "fault"):
        clause = f"raises:{o['res']}"
    elif clause == "cache-visible" and "raised" in o.get("pairErr", ""):
        clause = "cache-visible:twin-raises-" + o["pairErr"].split("raised ", 1)[1].split(":")[0]
    elif clause.startswith("frame-") and o.get("refErr", "").startswith("reference format() raised"):
        clause += ":reference-raises-" + o["refErr"].split("raised ", 1)[1].split(":")[0]
    return f"{op}:{clause}:{ctx}"


def scenario_of(trace: dict, upto: int) -> dict:
    acts = []
    for e in trace["events"][:upto]:
        a = dict(e["a"])
        a.pop("unfired", None)
        if "during_unfired" in a:
            a["during"] = a.pop("during_unfired")
        acts.append(a)
    return {"cfg": trace["cfg"], "init": trace["init"], "actions": acts}


def validate(rep: Report, traces: list[dict], name: str, stats: Counter) -> list[dict]:
    if not traces:
        return []
    payload = [{"init": t["init"], "events": t["events"]} for t in traces]
    verdicts, st, tr = tlc.validate_traces("Trace_ImageIter", "Trace_ImageIter.cfg", payload,
                                           batch=250, parallel=4, workers=2, timeout=600, name=name)
    rep.states += st
    rep.transitions += tr
    rep.traces_validated += len(traces)
    for t, v in zip(traces, verdicts):
        stats["hits_expected"] += v["hits"]
        stats["hits_observed"] += v["hitsObs"]
        if v["verdict"].startswith("unsupported"):
            ev = t["events"][v["at"] - 1]
            raise tlc.MachineryError(
                f"{name}: operation outside the modelled histories at event {v['at']}: "
                f"{json.dumps(ev)}\nprefix: {[e['a']['op'] for e in t['events'][:v['at']]]}")
    return verdicts


def report_failures(rep: Report, traces, verdicts, origin: str) -> int:
    n = 0
    for t, v in zip(traces, verdicts):
        if v["verdict"] == "ok":
            continue
        n += 1
        at = v["at"]
        ev = t["events"][at - 1]
        rep.violation(
            signature(t, at, v["verdict"]),
            f"{v['verdict']}\n"
            + "".join(f"{k}: {ev['o'][k]}\n" for k in ("raised", "pairErr", "refErr") if k in ev["o"])
            + f"at event {at}: {json.dumps(ev['a'])}\nobserved: {json.dumps(ev['o'])}\n"
            f"history: {' '.join(e['a']['op'] + ('!' + e['a']['fault'] if e['a']['fault'] != 'none' else '') for e in t['events'][:at])}\n"
            f"config: {json.dumps(t['cfg'])} init: {json.dumps(t['init'])} ({origin})",
            scenario_of(t, at),
        )
    return n


def tampered(traces: list[dict]) -> list[tuple[dict, str]]:
    """Corrupted copies of recorded histories that TLC must reject (self-check of the binding)."""
    out = []
    for t in traces:
        idx = [i for i, e in enumerate(t["events"]) if e["o"]["res"] == "frame"]
        if idx and len(out) == 0:
            c = copy.deepcopy(t)
            e = c["events"][idx[-1]]["o"]
            e["fi"] = (e["fi"] + 1) % W.NFRAMES
            e["tell"] = e["fi"]
            out.append((c, "frame-index"))
        if t["events"] and len(out) == 1:
            c = copy.deepcopy(t)
            c["events"][-1]["o"]["callH"] += 1
            out.append((c, "handles-leak"))
        idx = [i for i, e in enumerate(t["events"]) if e["a"]["op"] == "draw" and e["a"]["animated"]
               and e["o"]["res"] == "ok"]
        if idx and len(out) == 2:
            c = copy.deepcopy(t)
            c["events"][idx[0]]["o"]["tellSame"] = False
            out.append((c, "tell-draw"))
        if len(out) == 3:
            break
    return out


def account(stats: Counter, rep: Report, trace: dict) -> None:
    for e in trace["events"]:
        a, o = e["a"], e["o"]
        rep.evaluations += 1
        stats["op:" + a["op"]] += 1
        if a["fault"] != "none":
            stats[f"fault:{a['op']}:{a['fault']}"] += 1
            stats["faultstep:" + a["fault"]] += 1
        if "unfired" in a:
            stats["unfired"] += 1
        if a.get("during"):
            stats["resize-during-draw"] += 1
        if o["pair"] != "na":
            stats["pairs"] += 1
        if o["gc"]:
            stats[f"gc-closed:{a['op']}" + ("+fault" if a["fault"] != "none" else "")] += o["gc"]
        if a["op"] == "open":
            stats[f"open:{a['kind']}:{a['outcome']}:{o['res']}"] += 1
        rep.distinct.add((a["op"], a["fault"], a["spec"], a["rep"], a["cached"], a["pos"], a["size"],
                          a["animated"], a["kind"], a["outcome"], o["res"], o["fi"], o["frs"], o["tell"],
                          o["iterH"], o["temp"], trace["cfg"]["style"], trace["cfg"]["anim_fx"]))


# ------------------------------------------------------------------------------- main
def main(rep: Report, replay: dict | None) -> None:
    T = TIERS[rep.tier]
    rep.assumptions += ASSUMPTIONS
    rep.rule = (
        "distinct_nontrivial = distinct (operation with arguments, injected step, observed result, "
        "decoded frame, tell, open files, temp files, style, file format) tuples executed on real "
        "images; traces = recorded real-code histories validated by TLC (replayed TLC paths covering "
        "every edge of the dump instance, simulated deep behaviours, seeded random histories)"
    )
    import signal

    def _watchdog(*_):
        raise tlc.MachineryError("C11 watchdog: the check did not finish in time (hung request / op?)")

    signal.signal(signal.SIGALRM, _watchdog)
    signal.alarm(1200 if rep.tier == "quick" else 5400)
    t0 = time.time()
    if not replay and not os.environ.get("VERIF_C11_NOMC"):  # development aid only
        model_check(rep, T)
    rep.extra["t_model_s"] = round(time.time() - t0, 1)
    server = W.setup(rep.seed)
    stats: Counter = Counter()
    try:
        if replay:
            run_replay(rep, replay, server, stats)
        else:
            run_all(rep, T, server, stats)
    finally:
        signal.alarm(0)
        W.teardown()
    rep.extra["stats"] = dict(sorted(stats.items()))


def run_replay(rep: Report, replay: dict, server, stats: Counter) -> None:
    sc = replay["scenario"]
    if sc.get("kind") == "design":
        model_check(rep, TIERS[rep.tier])
        return
    rng = random.Random(rep.seed)
    world = W.World(sc["cfg"], sc["init"], server, rng)
    try:
        for a in sc["actions"]:
            if world.init_failed:
                break
            a = dict(a)
            a.setdefault("during", "")
            a.setdefault("pvar", "")
            fault = (a["fault"], a.pop("k", 1)) if a["fault"] != "none" else None
            world.execute(a, fault=fault)
        trace = world.trace()
    finally:
        world.close()
    account(stats, rep, trace)
    verdicts = validate(rep, [trace], "c11-replay", stats)
    report_failures(rep, [trace], verdicts, "replay")
    rep.sample({"replayed": [e["a"]["op"] for e in trace["events"]], "verdict": verdicts[0]})


def replay_edges(rep: Report, T: dict, server, stats: Counter, rng: random.Random, ok_traces: list,
                 cfg: str, depth_key: str, name: str, budget: int) -> bool:
    """Execute every edge of one dump instance on real code; returns True when all were covered."""
    styles = ["block", "kitty", "iterm2"]
    t0 = time.time()
    g = dump_edges(rep, T, cfg, depth_key)
    cover = Cover(g)
    W.refreeze()
    steps = rounds = failures = 0
    while cover.remaining() and rounds < 5 and steps < budget:
        rounds += 1
        cover.claimed = set()
        batch: list[tuple[dict, list[int], int]] = []
        while steps < budget:
            path = cover.plan(T["max_walk"])
            if not path:
                break
            walk = [cover.edges[i] for i in path]
            wcfg = W.make_config(rng, styles[len(batch) % 3])
            trace, done, unfired = exec_walk((wcfg, server, rng), walk, stop_on_unfired=True)
            steps += len(trace["events"])
            for j in unfired:
                cover.tries[path[j]] += 1
                if cover.tries[path[j]] >= 3:
                    cover.gaveup.add(path[j])
            batch.append((trace, path, done))
        if not batch:
            break
        traces = [b[0] for b in batch]
        verdicts = validate(rep, traces, f"c11-{name}{rounds}", stats)
        for (trace, path, done), v in zip(batch, verdicts):
            account(stats, rep, trace)
            off = trace.get("offset", 0)  # 1: the failed initial construction is event 1
            good = done if v["verdict"] == "ok" else max(0, min(done, v["at"] - 1 - off))
            cover.covered.update(path[:good])
            if v["verdict"] != "ok" and 0 <= v["at"] - 1 - off < len(path):
                cover.bad.add(path[v["at"] - 1 - off])
            elif v["verdict"] == "ok":
                ok_traces.append(trace)
        failures += report_failures(rep, traces, verdicts, f"edge replay ({name})")
        for tr_ in traces[:2]:
            rep.sample({"origin": f"edge replay ({name})", "cfg": tr_["cfg"]["style"] + "/" + tr_["cfg"]["anim_fx"],
                        "ops": [e["a"]["op"] for e in tr_["events"]][:20]})
    rep.extra[f"edge_replay_{name}"] = dict(
        edges=len(g.edges), nodes=g.nodes, inits=len(g.inits),
        covered=len(cover.covered), diverged=len(cover.bad), fault_never_fired=len(cover.gaveup),
        not_reached=cover.remaining(), rounds=rounds, steps=steps, wall_s=round(time.time() - t0, 1))
    if cover.remaining() and not failures and not rep.violations:
        frac = cover.remaining() / len(cover.edges)
        if steps < budget or frac > 0.5:
            raise tlc.MachineryError(
                f"edge replay ({name}) left {cover.remaining()} of {len(cover.edges)} edges uncovered "
                f"without any divergence (steps={steps})")
        rep.notes.append(f"edge replay ({name}) stopped at the step budget with {cover.remaining()} edges uncovered")
    if len(cover.gaveup) > 0.05 * len(cover.edges) and not rep.violations:
        raise tlc.MachineryError(f"{len(cover.gaveup)} fault edges never fired ({name})")
    return cover.remaining() == 0 and not cover.gaveup and not cover.bad


def run_all(rep: Report, T: dict, server, stats: Counter) -> None:
    rng = random.Random(rep.seed * 7919 + 11)
    styles = ["block", "kitty", "iterm2"]
    all_ok_traces: list[dict] = []

    # ---- spec -> code: every edge of the two dump instances (operations x failures on a
    #      dynamic size; sizes incl. "the user resizes while draw() runs", without failures)
    full = replay_edges(rep, T, server, stats, rng, all_ok_traces, "Dump_ImageIter.cfg", "dump_depth",
                        "main", T["step_budget"])
    sizes = replay_edges(rep, T, server, stats, rng, all_ok_traces, "DumpSizes_ImageIter.cfg",
                         "dump_sizes_depth", "sizes", T["step_budget"] // 2)
    peers = replay_edges(rep, T, server, stats, rng, all_ok_traces, "DumpPeer_ImageIter.cfg",
                         "dump_peer_depth", "peer", T["step_budget"] // 2)
    rep.exhaustive = full and sizes and peers

    # ---- spec -> code: deep simulated behaviours of the full instance
    t0 = time.time()
    behaviours = sim_behaviours(rep, T)
    W.refreeze()
    traces = []
    for i, walk in enumerate(behaviours):
        cfg = W.make_config(rng, styles[i % 3])
        # a planned fault that does not fire ends the behaviour (the rest was planned for the
        # state after the failure)
        trace, _done, _unf = exec_walk((cfg, server, rng), walk, stop_on_unfired=True)
        traces.append(trace)
    verdicts = validate(rep, traces, "c11-sim", stats)
    for tr_, v in zip(traces, verdicts):
        account(stats, rep, tr_)
        if v["verdict"] == "ok":
            all_ok_traces.append(tr_)
    report_failures(rep, traces, verdicts, "simulated behaviour")
    rep.extra["sim_replay"] = dict(behaviours=len(traces), steps=sum(len(t["events"]) for t in traces),
                                   wall_s=round(time.time() - t0, 1))

    # ---- code -> spec: seeded random histories (paired cached / uncached iterators)
    t0 = time.time()
    hrng = random.Random(rep.seed * 104729 + 3)
    traces = []
    for i in range(T["hist"]):
        cfg = W.make_config(hrng, styles[i % 3], native_anim=(i % 9 == 4))
        traces.append(random_history((cfg, server, hrng), hrng, T["hist_len"]))
    tam = tampered(all_ok_traces)
    verdicts = validate(rep, traces + [c for c, _ in tam], "c11-hist", stats)
    tv = verdicts[len(traces):]
    verdicts = verdicts[: len(traces)]
    rep.traces_validated -= len(tam)
    for tr_, v in zip(traces, verdicts):
        account(stats, rep, tr_)
    report_failures(rep, traces, verdicts, "random history")
    for tr_ in traces[:2]:
        rep.sample({"origin": "random history", "cfg": tr_["cfg"]["style"] + "/" + tr_["cfg"]["s2"],
                    "ops": [e["a"]["op"] + ("!" + e["a"]["fault"] if e["a"]["fault"] != "none" else "")
                            for e in tr_["events"]]})
    rep.extra["histories"] = dict(n=len(traces), steps=sum(len(t["events"]) for t in traces),
                                  wall_s=round(time.time() - t0, 1))

    # ---- the alarm rings: corrupted histories must be rejected; nothing vacuous
    problems = []
    if len(tam) < 3:
        problems.append(f"could not build the corrupted-history self-check ({len(tam)} of 3)")
    for (c, want), v in zip(tam, tv):
        if not v["verdict"].startswith(want):
            problems.append(f"corrupted history not rejected as {want}: verdict {v['verdict']!r}")
    rep.extra["corrupted_histories_rejected"] = len(tam) - sum("not rejected" in p for p in problems)
    missing = [s for s in W.STEPS if not stats.get("faultstep:" + s)]
    if missing:
        problems.append(f"no injected failure ever fired at step(s) {missing}")
    if stats.get("hits_expected") and not stats.get("hits_observed"):
        rep.notes.append("the cached iterators never reused a stored frame (speed only, no clause)")
    for need in ("pairs", "hits_expected", "op:draw", "resize-during-draw", "op:peeropen",
                 "op:peerformat", "op:peerclose", "open:url:ok:ok",
                 "open:url:404:URLNotFoundError", "open:url:notImage:UnidentifiedImageError",
                 "open:url:ctorFails:ValueError", "open:pil:ok:ok"):
        if not stats.get(need):
            problems.append(f"vacuous run: nothing counted for {need!r}")
    if problems:
        if rep.violations:  # the code under test misbehaves: report that, keep the rest as notes
            rep.notes += problems
        else:
            raise tlc.MachineryError("; ".join(problems))
