SPECIFICATION Spec
CONSTANTS
  NT = 3
  Prog <- TscProg
  Kind = "tsc"
  Sizes = {80, 100}
  MaxResize = 2
  Variant = "code"
INVARIANT BodyOnce
INVARIANT BodyExclusive
VIEW View
CHECK_DEADLOCK FALSE
ACTION_CONSTRAINT Dump
