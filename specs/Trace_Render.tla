---------------------------- MODULE Trace_Render ----------------------------
(***************************************************************************)
(* C01: code -> spec.  Each trace is the token stream of one REAL render    *)
(* output (block / kitty / iterm2, any method / quirk) written at start     *)
(* position (r0, c0) of a cols x rows terminal, together with the size the  *)
(* library advertised for it (rw x rh).  The stream is folded through       *)
(* Terminal!Apply; the rectangle clauses are evaluated after EVERY token    *)
(* and the end clauses after the last one.  Steps are total: the verdict    *)
(* names the first failing clause and the token index.                      *)
(***************************************************************************)
EXTENDS RenderShape, Json, IOUtils

Traces == JsonDeserialize(IOEnv.TRACE_FILE)

VARIABLES tid, l, T, verdict, at
vars == <<tid, l, T, verdict, at>>

Tr == Traces[tid]
Toks == Tr.toks
N == Len(Toks)

Rect(tr) == {<<rr, cc>> : rr \in tr.r0..(tr.r0 + tr.rh - 1), cc \in tr.c0..(tr.c0 + tr.rw - 1)}

StepClause(tr, S) ==
  IF S.err # "" THEN S.err
  ELSE IF S.wraps > 0 THEN "wrap: output wrapped at the right margin"
  ELSE IF S.scrolls > 0 THEN "scroll: output scrolled the screen"
  ELSE IF ~(Touched(S) \subseteq Rect(tr)) THEN "touched-outside: a cell outside the advertised rectangle changed"
  ELSE IF ~(S.r \in tr.r0..(tr.r0 + tr.rh - 1)) THEN "cursor-row-outside"
  ELSE IF ~(S.c \in tr.c0..Min(tr.c0 + tr.rw, tr.cols - 1)) THEN "cursor-col-outside"
  ELSE "ok"

\* spec -> code binding of RenderShape.tla: the real output must be an instance of the
\* choreography specified for its parameters (same skeleton)
ShapeParams(tr) ==
  [style |-> tr.shape.style, method |-> tr.shape.method, quirk |-> tr.shape.quirk,
   mix |-> tr.shape.mix, blend |-> tr.shape.blend, nch |-> 1, split |-> FALSE,
   rw |-> tr.rw, rh |-> tr.rh]
ShapeOK(tr) == tr.shape.style = "none" \/ Skeleton([toks |-> tr.toks, gfx |-> tr.gfx]) = Skeleton(Shape(ShapeParams(tr)))

EndClause(tr, S) ==
  IF ~ShapeOK(tr) THEN "choreography: the output is not an instance of the sequence specified in RenderShape.tla"
  ELSE IF Touched(S) # Rect(tr) THEN "not-covered: some cell of the advertised rectangle was not written"
  ELSE IF S.r # tr.r0 + tr.rh - 1 THEN "cursor-end-row: cursor not on the last line"
  ELSE IF S.c # Min(tr.c0 + tr.rw, tr.cols - 1) THEN "cursor-end-col: cursor not just past the last column"
  ELSE IF ~SgrDefault(S) THEN "sgr-not-reset: text attributes not reset at the end"
  ELSE IF S.lfs # tr.rh - 1 THEN "newline-count: not exactly rendered_height-1 newlines"
  ELSE IF N > 0 /\ Toks[N].k = "lf" THEN "ends-with-newline"
  ELSE IF N > 0 /\ Toks[N].k = "partial" THEN "incomplete-sequence: output ends inside a control sequence"
  ELSE IF S.rx # 0 THEN "kitty-chunking-open: chunked transfer not finished (no m=0 chunk)"
  ELSE IF ~S.vis THEN "cursor-hidden"
  ELSE IF S.sync # 0 THEN "synchronized-update-open"
  ELSE "ok"

Init ==
  /\ tid \in 1..Len(Traces)
  /\ l = 0
  /\ T = NewTerminal(Traces[tid].cols, Traces[tid].rows, Traces[tid].r0, Traces[tid].c0)
  /\ verdict = "ok"
  /\ at = 0

Consume ==
  /\ l < N
  /\ l' = l + 1
  /\ T' = Apply(T, Toks[l + 1], Tr.gfx)
  /\ LET v == IF verdict # "ok" THEN verdict ELSE StepClause(Tr, T') IN
       /\ verdict' = v
       /\ at' = IF verdict = "ok" /\ v # "ok" THEN l + 1 ELSE at
  /\ UNCHANGED tid

Finish ==
  /\ l = N
  /\ l' = N + 1
  /\ LET v == IF verdict # "ok" THEN verdict ELSE EndClause(Tr, T) IN
       /\ verdict' = v
       /\ at' = IF verdict = "ok" /\ v # "ok" THEN N + 1 ELSE at
  /\ UNCHANGED <<tid, T>>

Next == Consume \/ Finish
Spec == Init /\ [][Next]_vars

Done == l = N + 1
Report == Done => PrintT(<<"VERDICT", ToJson([tid |-> tid, verdict |-> verdict, at |-> at])>>)
=============================================================================
