----------------------------- MODULE RenderShape -----------------------------
(***************************************************************************)
(* The choreography every render style / method / terminal quirk emits,     *)
(* as a generator of token sequences (payloads and colours abstracted).     *)
(* This is the design-level statement of C01: MC_RenderShape folds every    *)
(* shape through Terminal!Apply for every size and start position and       *)
(* checks the rectangle clauses of Trace_Render after every token.          *)
(*                                                                          *)
(*  block          per line:  (SGR+ glyph^k)+  SGR0 [LF];  SGR0 at the end    *)
(*  kitty LINES    per line:  [delC] APC(c=rw,r=1,C=1)+ [ECH rw] CUF rw [LF]  *)
(*  kitty WHOLE    [delC] APC(c=rw,r=rh,C=1)+ ([ECH] CUF LF)^(rh-1) [ECH] CUF *)
(*  iterm2 LINES   per line:  [ECH rw]wez OSC(w=rw,h=1[,dnmc]) [CUF]kon [LF]  *)
(*  iterm2 WHOLE / ANIM                                                       *)
(*     non-konsole ([ECH] CUF rw LF)^(rh-1) [ECH] [CUU rh-1] OSC(w,h)         *)
(*     konsole     OSC(w,h,dnmc) (CUF rw LF)^(rh-1) CUF rw                    *)
(***************************************************************************)
EXTENDS Terminal

Tok(k, n, m, g, p, x) == [k |-> k, n |-> n, m |-> m, g |-> g, p |-> p, x |-> x]
Simple(k) == Tok(k, -1, -1, "", <<>>, 0)
Num(k, n) == Tok(k, n, -1, "", <<>>, 0)

GfxNone ==
  [proto |-> "", a |-> "", C |-> -1, c |-> -1, r |-> -1, z |-> 0, m |-> -1, q |-> -1,
   d |-> "", x0 |-> 0, keys |-> <<>>, nkeys |-> 0, inline |-> -1, wcells |-> -1,
   hcells |-> -1, dnmc |-> -1]

KittyFirst(c, r, more) ==
  [GfxNone EXCEPT !.proto = "kitty", !.a = "T", !.C = 1, !.c = c, !.r = r,
                  !.m = IF more THEN 1 ELSE 0,
                  !.keys = <<"a", "f", "t", "s", "v", "z", "C", "c", "r", "m">>, !.nkeys = 10]
KittyCont(more) ==
  [GfxNone EXCEPT !.proto = "kitty", !.m = IF more THEN 1 ELSE 0, !.keys = <<"m">>, !.nkeys = 1]
KittyDelC ==
  [GfxNone EXCEPT !.proto = "kitty", !.a = "d", !.d = "C", !.keys = <<"a", "d">>, !.nkeys = 2]
ITermImg(w, h, dnmc) ==
  [GfxNone EXCEPT !.proto = "iterm2", !.inline = 1, !.wcells = w, !.hcells = h,
                  !.dnmc = IF dnmc THEN 1 ELSE -1, !.nkeys = 5]

Sgr0 == Tok("sgr", -1, -1, "", <<0>>, 0)
SgrBg == Tok("sgr", -1, -1, "", <<48, 2, 0, 0, 0>>, 0)
SgrFg == Tok("sgr", -1, -1, "", <<38, 2, 0, 0, 0>>, 0)
Glyphs(g, n) == Tok("print", n, 9600, g, <<>>, 0)

(* A shape is a record [toks, gfx]; gfx[1] is the dummy entry (index 0 on the *)
(* Python side).                                                               *)
Empty == [toks |-> <<>>, gfx |-> <<GfxNone>>]
AddT(S, t) == [S EXCEPT !.toks = Append(@, t)]
AddG(S, kind, g) ==
  [toks |-> Append(S.toks, Tok(kind, -1, -1, "", <<>>, Len(S.gfx))), gfx |-> Append(S.gfx, g)]

RECURSIVE KittyChunks(_, _, _, _, _)
KittyChunks(S, c, r, n, i) ==
  \* n chunks in total, emitting chunk i
  IF i > n THEN S
  ELSE KittyChunks(AddG(S, "kitty", IF i = 1 THEN KittyFirst(c, r, n > 1) ELSE KittyCont(i < n)),
                   c, r, n, i + 1)

(* ---- block ---- *)
BlockLine(S, rw, split) ==
  LET S1 == IF split /\ rw > 1
              THEN AddT(AddT(AddT(AddT(S, SgrBg), Glyphs("sp", 1)), Sgr0), SgrFg)
              ELSE AddT(AddT(S, SgrBg), SgrFg)
      k == IF split /\ rw > 1 THEN rw - 1 ELSE rw
  IN AddT(S1, Glyphs("up", k))

RECURSIVE BlockLines(_, _, _, _, _)
BlockLines(S, rw, rh, split, i) ==
  IF i > rh THEN AddT(S, Sgr0)
  ELSE LET S1 == BlockLine(S, rw, split)
           S2 == IF i < rh THEN AddT(AddT(S1, Sgr0), Simple("lf")) ELSE S1
       IN BlockLines(S2, rw, rh, split, i + 1)

(* ---- kitty ---- *)
KFill(S, rw, mix) == AddT(IF mix THEN S ELSE AddT(S, Num("ech", rw)), Num("cuf", rw))

RECURSIVE KittyLines(_, _, _, _, _, _, _)
KittyLines(S, rw, rh, mix, blend, nch, i) ==
  IF i > rh THEN S
  ELSE LET S0 == IF blend THEN S ELSE AddG(S, "kitty", KittyDelC)
           S1 == KFill(KittyChunks(S0, rw, 1, nch, 1), rw, mix)
           S2 == IF i < rh THEN AddT(S1, Simple("lf")) ELSE S1
       IN KittyLines(S2, rw, rh, mix, blend, nch, i + 1)

RECURSIVE FillLines(_, _, _, _, _)
FillLines(S, rw, rh, mix, i) ==
  IF i > rh THEN S
  ELSE LET S1 == KFill(S, rw, mix) IN
       FillLines(IF i < rh THEN AddT(S1, Simple("lf")) ELSE S1, rw, rh, mix, i + 1)

KittyWhole(rw, rh, mix, blend, nch) ==
  LET S0 == IF blend THEN Empty ELSE AddG(Empty, "kitty", KittyDelC) IN
  FillLines(KittyChunks(S0, rw, rh, nch, 1), rw, rh, mix, 1)

(* ---- iterm2 ---- *)
RECURSIVE ITermLines(_, _, _, _, _, _)
ITermLines(S, rw, rh, erase, konsole, i) ==
  IF i > rh THEN S
  ELSE LET S0 == IF erase THEN AddT(S, Num("ech", rw)) ELSE S
           S1 == AddG(S0, "iterm", ITermImg(rw, 1, konsole))
           S2 == IF konsole THEN AddT(S1, Num("cuf", rw)) ELSE S1
           S3 == IF i < rh THEN AddT(S2, Simple("lf")) ELSE S2
       IN ITermLines(S3, rw, rh, erase, konsole, i + 1)

RECURSIVE PreFill(_, _, _, _, _)
PreFill(S, rw, rh, erase, i) ==
  \* ([ECH] CUF rw LF)^(rh-1)
  IF i >= rh THEN S
  ELSE LET S0 == IF erase THEN AddT(S, Num("ech", rw)) ELSE S IN
       PreFill(AddT(AddT(S0, Num("cuf", rw)), Simple("lf")), rw, rh, erase, i + 1)

RECURSIVE PostFill(_, _, _, _)
PostFill(S, rw, rh, i) ==
  IF i > rh THEN S
  ELSE LET S1 == AddT(S, Num("cuf", rw)) IN
       PostFill(IF i < rh THEN AddT(S1, Simple("lf")) ELSE S1, rw, rh, i + 1)

ITermWhole(rw, rh, erase, konsole) ==
  IF konsole THEN PostFill(AddG(Empty, "iterm", ITermImg(rw, rh, TRUE)), rw, rh, 1)
  ELSE LET S1 == PreFill(Empty, rw, rh, erase, 1)
           S2 == IF erase THEN AddT(S1, Num("ech", rw)) ELSE S1
           S3 == IF rh > 1 THEN AddT(S2, Num("cuu", rh - 1)) ELSE S2
       IN AddG(S3, "iterm", ITermImg(rw, rh, FALSE))

(* ---- skeleton of a token stream: what a choreography IS, independent of colours, ---- *)
(* ---- run lengths and the number of payload chunks                                ---- *)
RECURSIVE SkelFrom(_, _, _, _)
SkelFrom(toks, gfx, i, acc) ==
  \* acc = number of glyphs printed since the last structural token
  LET Flush == IF acc > 0 THEN <<<<"text", acc, 0, 0>>>> ELSE <<>> IN
  IF i > Len(toks) THEN Flush
  ELSE LET t == toks[i] IN
    CASE t.k = "print" -> SkelFrom(toks, gfx, i + 1, acc + t.n)
      [] t.k = "sgr" -> SkelFrom(toks, gfx, i + 1, acc)
      [] t.k = "lf" -> Flush \o <<<<"lf", 0, 0, 0>>>> \o SkelFrom(toks, gfx, i + 1, 0)
      [] t.k \in {"ech", "cuf", "cuu"} -> Flush \o <<<<t.k, t.n, 0, 0>>>> \o SkelFrom(toks, gfx, i + 1, 0)
      [] t.k = "kitty" ->
           LET g == gfx[t.x + 1] IN
           IF g.a = "d" THEN Flush \o <<<<"kdel", 0, 0, 0>>>> \o SkelFrom(toks, gfx, i + 1, 0)
           ELSE IF g.a = "T" THEN Flush \o <<<<"kimg", g.c, g.r, g.C>>>> \o SkelFrom(toks, gfx, i + 1, 0)
           ELSE SkelFrom(toks, gfx, i + 1, acc)          \* continuation chunk
      [] t.k = "iterm" ->
           LET g == gfx[t.x + 1] IN
           Flush \o <<<<"iimg", g.wcells, g.hcells, g.dnmc>>>> \o SkelFrom(toks, gfx, i + 1, 0)
      [] OTHER -> Flush \o <<<<t.k, 0, 0, 0>>>> \o SkelFrom(toks, gfx, i + 1, 0)

Skeleton(S) == SkelFrom(S.toks, S.gfx, 1, 0)

(* ---- the shape of a render, by parameters ---- *)
Shape(p) ==
  CASE p.style = "block" -> BlockLines(Empty, p.rw, p.rh, p.split, 1)
    [] p.style = "kitty" /\ p.method = "lines" ->
         KittyLines(Empty, p.rw, p.rh, p.mix, p.blend, p.nch, 1)
    [] p.style = "kitty" /\ p.method = "whole" -> KittyWhole(p.rw, p.rh, p.mix, p.blend, p.nch)
    [] p.style = "iterm2" /\ p.method = "lines" ->
         ITermLines(Empty, p.rw, p.rh, p.quirk = "wezterm" /\ ~p.mix, p.quirk = "konsole", 1)
    [] p.style = "iterm2" /\ p.method = "whole" ->
         ITermWhole(p.rw, p.rh, p.quirk = "wezterm" /\ ~p.mix, p.quirk = "konsole")
=============================================================================
