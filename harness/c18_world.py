"""C18 - drive the REAL UrwidImageScreen and record what it writes (no judgement here).

A :class:`World` is one history: a fresh ``UrwidImageScreen`` writing into a captured text
stream, a set of real ``UrwidImage`` widgets (kitty / iterm2 / block) and the operations of
``specs/UrwidScreen.tla``: start, stop, clear, redraw (a real urwid widget tree built from a
layout description), same (the canvas object drawn last), bad (size mismatch -> urwid raises),
release (the application drops its reference to the canvas it passed last: canvas LIFETIME),
new / drop (``del`` + ``gc.collect()``) / inval (``widget._invalidate()``).

Every operation appends one event to ``world.events`` holding the lexed bytes of exactly that
call, the exception class if one escaped, and dumb observations of process state afterwards
(widget table with z-indexes as limbs, ``_ti_image_cviews`` projected to plain tuples, disguise
counters, allocator fields).  ``world.trace()`` is the JSON object handed to TLC
(``specs/Trace_UrwidScreen.tla``), which does all the judging.
"""

from __future__ import annotations

import gc
import io
import os
import random
import re
import weakref

from . import lexer
from .env import stubs
from .tlc import MachineryError

CELL = (2, 4)  # pixels per cell: a source of (2*nw) x (4*nh) pixels is nw x nh cells at ORIGINAL size
I31 = 2**31 - 1

_devnull = None
HPR_SEEN = [0]  # number of "CSI n a" sequences met in screen output (see World._lex)


def setup() -> None:
    """Install the scripted terminal environment (before term_image.image is imported)."""
    stubs.install()
    import urwid  # noqa: F401

    import term_image.widget  # noqa: F401

    # every event ends with gc.collect() (widget finalizers must have run before the allocator is
    # observed); freezing what exists now keeps those collections proportional to the history
    gc.collect()
    gc.freeze()


def _devnull_file():
    global _devnull
    if _devnull is None:
        _devnull = open(os.devnull)
    return _devnull


_KEEP_GFX = (
    "proto", "a", "C", "c", "r", "z", "m", "q", "d", "x0", "keys", "nkeys", "inline",
    "wcells", "hcells", "dnmc",
)


def _slim(g: dict) -> dict:
    out = {k: g[k] for k in _KEEP_GFX}
    out.update(wid=0, strip=-1, zid=0)
    return out


class World:
    def __init__(self, ident: str, cols: int, rows: int, *, bits: int = 8, base: int = 0,
                 seed: int = 0, full_paint: bool = True):
        import urwid
        from term_image.widget import UrwidImage, UrwidImageCanvas, UrwidImageScreen

        self.urwid = urwid
        self.UrwidImage = UrwidImage
        self.UrwidImageCanvas = UrwidImageCanvas
        self.ident, self.cols, self.rows = ident, cols, rows
        self.bits, self.base = bits, base
        self.rng = random.Random(seed)
        self.full_paint = full_paint
        # process-global library state: flush pending finalizers first, then reset
        gc.collect()
        urwid.CanvasCache.clear()
        gc.collect()
        gc.freeze()  # what earlier histories left behind is plain data: keep it out of the per-event collections
        stubs.set_term(size=(cols, rows), cell=CELL)
        # "forced": a terminal that is neither kitty nor Konsole (identifies as WezTerm, does not answer the
        # kitty graphics query) used with KittyImage.forced_support = True
        from term_image.image import KittyImage

        KittyImage.forced_support = ident == "forced"
        stubs.set_identity("wezterm" if ident == "forced" else ident)
        for name in ("_ti_free_z_indexes", "_ti_next_z_index", "_ti_get_z_index"):
            if not hasattr(UrwidImage, name):
                raise MachineryError(f"seam UrwidImage.{name} is missing")
        UrwidImage._ti_free_z_indexes.clear()
        UrwidImage._ti_next_z_index = base + 1
        UrwidImage._ti_disguise_state = 0
        UrwidImageCanvas._ti_disguise_state = 0
        self.buf = io.StringIO()
        self.screen = UrwidImageScreen(_devnull_file(), self.buf)
        # clear_images(now=True) writes straight to the tty: captured in the same stream, in order
        import term_image.widget._urwid as _u

        if not hasattr(_u, "write_tty"):
            raise MachineryError("seam term_image.widget._urwid.write_tty is missing")
        _u.write_tty = lambda data: self.buf.write(data.decode())
        # user-defined subclasses of the widget class (the allocator is shared by all of them);
        # every history starts like a fresh process: nothing an earlier history may have left on
        # the subclasses shadows the allocator fields of UrwidImage
        self.classes = _widget_classes(UrwidImage)
        for c in self.classes[1:]:
            for name in ("_ti_next_z_index", "_ti_free_z_indexes", "_ti_disguise_state"):
                if name in vars(c):
                    delattr(c, name)
        if not hasattr(self.screen, "_ti_image_cviews"):
            raise MachineryError("seam UrwidImageScreen._ti_image_cviews is missing")
        self.widgets: dict[int, object] = {}  # wid -> widget (the only strong reference we hold)
        self.refs: dict[int, weakref.ref] = {}
        self.meta: dict[int, dict] = {}  # wid -> style, nw, nh, z, gen
        self.wid_of: dict[int, int] = {}  # id(widget) -> wid, for live widgets
        self.payloads: dict[str, tuple[int, int]] = {}
        self.zids: dict[int, int] = {}
        self.gfx: list[dict] = [_slim(lexer.GFX_NONE)]
        self.events: list[dict] = []
        self.last_canvas = None
        self.released = False  # the application has let go of last_canvas (see release())
        self.invalid: set[int] = set()
        self.started = False

    # ------------------------------------------------------------------ helpers
    def zid(self, z) -> int:
        if z not in self.zids:
            self.zids[z] = len(self.zids) + 1
        return self.zids[z]

    def zm(self, z: int) -> int:
        """Real z-index -> the model's small index space (0 = outside)."""
        a = abs(z) - self.base
        lim = 2 ** (self.bits - 1)
        if 1 <= a <= lim and abs(z) <= 2**31:
            return a if z > 0 else -a
        return 0

    def _lex(self, text: str) -> list[dict]:
        st = lexer.lex(text, keep_payloads=True)
        # urwid's bottom-right-corner handling can cut the final byte off a trailing CUF (CSI n C)
        # of an image line and print the next cell's character in its place: "CSI n a" is HPR,
        # which moves the cursor exactly like CUF (ECMA-48).  Not a placement matter: rewritten
        # to cuf and counted (reported in the evidence), never silently dropped.
        for i, t in enumerate(st.toks):
            if t["k"] == "unknown":
                m = re.fullmatch(r"CSI (\d*)a", t["g"])
                if m:
                    st.toks[i] = lexer.tok("cuf", n=int(m.group(1)) if m.group(1) else -1)
                    HPR_SEEN[0] += 1
        unk = lexer.unknowns(st)
        if unk:
            raise MachineryError(f"lexer does not know {unk[:3]} in the screen's output")
        if st.end_state != lexer.GROUND:
            raise MachineryError("screen output ends inside a control sequence")
        off = len(self.gfx) - 1
        pending = None  # (gfx record of the first chunk, payload parts)
        for i in range(1, len(st.gfx)):
            g = st.gfx[i]
            rec = _slim(g)
            pay = st.payloads[i]  # type: ignore[attr-defined]
            if g["proto"] == "kitty":
                if g["zset"]:
                    rec["zid"] = self.zid(g["z"] if g["zok"] else "bad")
                only_chunk = all(k in ("m", "q") for k in g["keys"])
                if pending is not None and only_chunk:
                    pending[1].append(pay)
                    if g["m"] != 1:
                        self._identify(pending[0], "".join(pending[1]))
                        pending = None
                elif g["a"] in ("T", "t"):
                    if g["m"] == 1:
                        pending = (rec, [pay])
                    else:
                        self._identify(rec, pay)
            elif g["proto"] == "iterm2":
                self._identify(rec, pay)
            self.gfx.append(rec)
        toks = []
        for t in st.toks:
            if t["k"] in ("kitty", "iterm"):
                t = dict(t, x=t["x"] + off)
            toks.append(t)
        return toks

    def _identify(self, rec: dict, payload: str) -> None:
        hit = self.payloads.get(payload)
        if hit:
            rec["wid"], rec["strip"] = hit

    def _take(self) -> list[dict]:
        text = self.buf.getvalue()
        self.buf.seek(0)
        self.buf.truncate()
        return self._lex(text)

    def _observe(self) -> dict:
        UI = self.UrwidImage
        wd = []
        for wid in sorted(self.meta):
            m = self.meta[wid]
            obj = self.refs[wid]()
            z = m["z"]
            wd.append({
                "style": m["style"], "nw": m["nw"], "nh": m["nh"],
                "z": self.zid(z) if m["style"] == "kitty" else 0,
                "gen": 1 if wid in self.invalid else 0,
                "alive": obj is not None,
                "zm": self.zm(z) if m["style"] == "kitty" else 0,
                "zneg": 1 if z < 0 else 0, "zhi": abs(z) >> 16, "zlo": abs(z) & 0xFFFF,
            })
        cviews = []
        for cv in self.screen._ti_image_cviews:
            canv, rest = cv[0], tuple(cv[1:])
            if len(rest) != 6 or not all(isinstance(x, int) for x in rest):
                rest = (-1,) * 6  # not the documented (row, col, trim_left, trim_top, cols, rows): judged as a mismatch
            row, col, tl, tt, cols, rows = rest
            try:
                w = self.wid_of.get(id(canv.widget_info[0]), 0)
            except Exception:
                w = 0
            cviews.append({"w": w, "row": row, "col": col, "tl": tl, "tt": tt, "cols": cols, "rows": rows})
        dis_w = []
        for wid in sorted(self.meta):
            obj = self.refs[wid]()
            dis_w.append(getattr(obj, "_ti_disguise_state", 0) if obj is not None else 0)
        nxt = UI._ti_next_z_index
        nm = abs(nxt) - self.base
        nm = nm if nxt > 0 else -nm
        if not -(2**15) < nm < 2**15:
            nm = 0
        return {
            "wd": wd,
            "cviews": cviews,
            "dis": {"c": self.UrwidImageCanvas._ti_disguise_state, "w": dis_w},
            "free": sorted(self.zm(z) for z in UI._ti_free_z_indexes),
            "next": nm,
        }

    def _event(self, op, *, lay=None, exc="", toks=None, full=None, w=0, style="", now=False) -> dict:
        gc.collect()
        for wid, ref in self.refs.items():
            if ref() is None:
                self.wid_of = {k: v for k, v in self.wid_of.items() if v != wid}
        ev = {"op": op, "lay": lay or {"k": "txt", "ch": 32}, "exc": exc,
              "toks": toks if toks is not None else self._take(), "full": full or [],
              "w": w, "style": style, "now": bool(now)}
        ev.update(self._observe())
        self.events.append(ev)
        return ev

    # --------------------------------------------------------------- operations
    def new(self, style: str, nw: int, nh: int, sub: int = 0, fs: str = "") -> int:
        """fs: extra style fields of the widget's format spec (z<index>, m<mix>, c<compress>); the
        z field is documented as ignored by UrwidImage."""
        from PIL import Image
        from term_image.exceptions import UrwidImageError
        from term_image.image import BlockImage, ITerm2Image, KittyImage

        cls = {"kitty": KittyImage, "iterm2": ITerm2Image, "block": BlockImage}[style]
        pw, ph = (nw, nh * 2) if style == "block" else (nw * CELL[0], nh * CELL[1])
        rng = self.rng
        im = Image.new("RGB", (pw, ph))
        im.putdata([(rng.randrange(256), rng.randrange(256), rng.randrange(256)) for _ in range(pw * ph)])
        image = cls(im)
        try:
            widget = self.classes[sub](image, "" if style == "block" else "+L" + fs)
        except UrwidImageError as e:
            self._event("new", exc=type(e).__name__, style=style)
            return 0
        wid = len(self.meta) + 1
        self.widgets[wid] = widget
        self.refs[wid] = weakref.ref(widget)
        self.wid_of[id(widget)] = wid
        self.meta[wid] = {"style": style, "nw": nw, "nh": nh, "z": getattr(widget, "_ti_z_index", 0)}
        if style != "block":
            self._learn(wid, widget, nw, nh)
        del widget
        self._event("new", w=wid, style=style)
        return wid

    def _learn(self, wid, widget, nw, nh) -> None:
        """Which payload is which line of which widget (dumb lookup table for the lexer)."""
        canv = widget.render((nw, nh))
        if tuple(canv._ti_image_size) != (nw, nh):
            raise MachineryError(f"widget {wid}: natural size {canv._ti_image_size} != {(nw, nh)}")
        rows = list(canv.content())
        del canv
        if len(rows) != nh:
            raise MachineryError("unexpected number of canvas rows while learning payloads")
        for strip, row in enumerate(rows):
            text = b"".join(seg[2] for seg in row).decode()
            st = lexer.lex(text, keep_payloads=True)
            recs = list(zip(st.gfx[1:], st.payloads[1:]))  # type: ignore[attr-defined]
            heads = [g for g, _ in recs if (g["proto"] == "kitty" and g["a"] == "T") or g["proto"] == "iterm2"]
            pay = "".join(p for g, p in recs if g["proto"] == "iterm2" or (g["proto"] == "kitty" and g["a"] != "d"))
            if len(heads) != 1 or not pay:
                raise MachineryError(f"widget {wid} line {strip}: no single transmission found")
            if pay in self.payloads:
                raise MachineryError("two image lines share a payload: cannot tell strips apart")
            self.payloads[pay] = (wid, strip)
        self.urwid.CanvasCache.invalidate(widget)

    def clear_images(self, wid: int, now: bool) -> None:
        """Direct user call of screen.clear_images([widget], now=now)."""
        args = (self.widgets[wid],) if wid else ()
        exc = self._call(lambda: self.screen.clear_images(*args, now=now))
        self._event("climg", exc=exc, w=wid, now=now)

    def drop(self, wid: int) -> None:
        del self.widgets[wid]
        self._event("drop", w=wid)

    def inval(self, wid: int) -> None:
        self.widgets[wid]._invalidate()
        self.invalid.add(wid)
        self._event("inval", w=wid)

    def _call(self, fn, *args) -> str:
        try:
            fn(*args)
        except Exception as e:  # recorded, judged by the Trace spec
            return type(e).__name__
        return ""

    def start(self):
        exc = self._call(self.screen.start)
        self.started = exc == ""
        self._event("start", exc=exc)

    def stop(self):
        exc = self._call(self.screen.stop)
        self.started = False
        self._event("stop", exc=exc)

    def clear(self):
        exc = self._call(self.screen.clear)
        self._event("clear", exc=exc)

    def build(self, n: dict, w: int, h: int, flow: bool = False):
        """Layout description -> real urwid widget tree for a w x h box (flow: w columns)."""
        u = self.urwid
        k = n["k"]
        if k == "txt":
            return u.Divider(chr(n["ch"])) if flow else u.SolidFill(chr(n["ch"]))
        if k == "img":
            return self.widgets[n["wid"]]
        if k == "pile":
            return u.Pile([(it["n"], self.build(it["c"], w, it["n"])) for it in n["items"]])
        if k == "cols":
            return u.Columns([(it["n"], self.build(it["c"], it["n"], h)) for it in n["items"]],
                             dividechars=0, box_columns=list(range(len(n["items"]))))
        if k == "over":
            return u.Overlay(self.build(n["top"], n["ow"], n["oh"]), self.build(n["bot"], w, h),
                             "left", n["ow"], "top", n["oh"], left=n["ox"], top=n["oy"])
        if k == "fill":
            return u.Filler(self.build(n["c"], w, h, flow=True), n["va"])
        if k == "list":
            items = [self.build(c, w, h, flow=True) for c in n["items"]]
            heights = [it.rows((w,)) for it in items]
            lb = u.ListBox(u.SimpleListWalker(items))
            off, vs, i = n["off"], 0, 0
            for i, ih in enumerate(heights):
                if vs + ih > off:
                    break
                vs += ih
            lb.set_focus(i)
            lb.calculate_visible((w, h), True)
            lb.shift_focus((w, h), -(off - vs))
            return lb
        raise MachineryError(f"unknown layout node {k}")

    def _paint_full(self, canvas) -> list[dict]:
        parts = []
        for y, row in enumerate(canvas.content()):
            parts.append(f"\x1b[{y + 1};1H")
            parts.append(b"".join(seg[2] for seg in row).decode())
        return self._lex("".join(parts))

    def winch(self) -> None:
        """The terminal was resized: urwid's SIGWINCH handler (sets _resized, drops the line cache)."""
        exc = self._call(self.screen._sigwinch_handler, 28, None)
        if not exc and not getattr(self.screen, "_resized", False):
            raise MachineryError("seam: urwid's _sigwinch_handler did not set _resized")
        self._event("winch", exc=exc)

    def handled(self) -> None:
        """The resize is handled (what urwid's input parsing does when it reports 'window resize');
        the size in cells is unchanged."""
        exc = self._call(self.screen.parse_input, None, None, [], False)
        if getattr(self.screen, "_resized", False):
            self.screen._resized = False
        self._event("handled", exc=exc)

    def release(self) -> None:
        """The application drops its reference to the canvas it passed to draw_screen last (urwid's
        MainLoop.draw_screen does so on return).  Whoever else holds the canvas keeps it alive (urwid holds
        the canvas it painted last); a frame that was dropped or that failed is held by nobody.
        The harness's own reference goes when the next frame is rendered (see redraw): nothing of the
        screen runs in between that could tell the difference, and the next canvas is then allocated
        right after the old one was freed - the situation in which CPython reuses the address."""
        if self.last_canvas is None:
            raise MachineryError("release without a canvas")
        self.released = True
        self._event("release")

    def _let_go(self) -> None:
        if self.released:
            self.released = False
            gc.collect()  # garbage first: the canvas itself goes by reference count, last
            self.last_canvas = None

    def redraw(self, lay: dict, *, bad: bool = False, lost: bool = False) -> str:
        size = (self.cols, self.rows)
        tree = self.build(lay, *size)
        self._let_go()
        canvas = tree.render(size, focus=True)
        del tree
        maxres = (self.cols, self.rows + 1) if bad else size
        exc = self._call(self.screen.draw_screen, maxres, canvas)
        toks = self._take()
        full = self._paint_full(canvas) if (self.full_paint and not bad and not lost and not exc) else []
        self.last_canvas = canvas
        del canvas
        self._event("bad" if bad else "lost" if lost else "redraw", lay=lay, exc=exc, toks=toks, full=full)
        self.invalid.clear()
        return exc

    def same(self, lay: dict) -> str:
        if self.last_canvas is None or self.released:
            raise MachineryError("same without a previous canvas (or after the application released it)")
        exc = self._call(self.screen.draw_screen, (self.cols, self.rows), self.last_canvas)
        toks = self._take()
        full = self._paint_full(self.last_canvas) if (self.full_paint and not exc) else []
        self._event("same", lay=lay, exc=exc, toks=toks, full=full)
        return exc

    def close(self) -> None:
        if self.started:
            try:
                self.screen.stop()
            except Exception:
                pass
        try:
            from term_image.image import KittyImage

            KittyImage.forced_support = False
        except Exception:
            pass
        self.last_canvas = None
        self.widgets.clear()
        self.screen = None
        gc.collect()

    def trace(self) -> dict:
        return {"ident": self.ident, "cols": self.cols, "rows": self.rows, "bits": self.bits,
                "next0": 1, "gfx": self.gfx, "events": self.events}


_CLASSES: dict = {}


def _widget_classes(base):
    """UrwidImage, a user subclass of it and a subclass of that subclass (created once per base)."""
    if base not in _CLASSES:
        sub1 = type("MyImage", (base,), {"__doc__": "an application-defined image widget"})
        sub2 = type("MyThumbnail", (sub1,), {})
        _CLASSES[base] = (base, sub1, sub2)
    return _CLASSES[base]
