"""X02 - real-code side: one image object (and the caller's PIL image) driven through the public
API of ``term_image.image``; records what every call did and what every plain attribute reads
afterwards.  No judgement here: results are classified (exception class name, return-value
token), observations are encoded for TLA+ (specs/ImageLifeCore.tla: ``LObs``).

Operations are the records of the specification: ``{op, a, b, c, x, y, z}`` with values
``{t, i, s, e}`` (see ``py()``).
"""

from __future__ import annotations

import gc
import io
import os
import random
import sys
import weakref
from pathlib import Path

from . import imgs
from .env import stubs

NATIVE = {"KittyImage": "kitty", "ITerm2Image": "wezterm", "BlockImage": "other", "SubKittyImage": "kitty"}
FOREIGN = {"KittyImage": "other", "ITerm2Image": "other", "BlockImage": "kitty", "SubKittyImage": "other"}
_SUBCLASSES: dict = {}


def real_class(name: str):
    """The real class for a configuration's class name ("Sub<Style>": a user-defined subclass)."""
    import term_image.image as TI

    if not name.startswith("Sub"):
        return getattr(TI, name)
    if name not in _SUBCLASSES:
        _SUBCLASSES[name] = type(name, (getattr(TI, name[3:]),), {})
    return _SUBCLASSES[name]

TERMKIND = {"kitty": ["kitty", "kitty-old"], "iterm2": ["wezterm", "iterm2"], "both": ["konsole"],
            "neither": ["other", "none"]}
URLS = {
    "nonstr": [3, None, b"http://example.com/a.png", ["http://example.com/a.png"]],
    "noscheme": ["//example.com/a.png", "example.com/a.png", "abc", ""],
    "nonetloc": ["http:///a.png", "file:///a.png", "http:a.png"],
    "nopath": ["http://example.com", "https://example.com"],
    "full": ["http://example.com/a.png", "https://h.example/dir/b.gif", "ftp://h/p"],
}
OK = ("ok", "propagated", "network")

_ABSENT = object()


class _Boom(Exception):
    pass


class _Network(Exception):
    pass


# ------------------------------------------------------------------ values
def py(v):
    t = v["t"]
    if t == "none":
        return None
    if t == "absent":
        return _ABSENT
    if t == "int":
        return v["i"]
    if t == "float":
        return float(v["s"])
    if t == "str":
        return v["s"]
    if t == "size":
        from term_image.image import Size
        return Size[v["s"]]
    if t == "obj":
        return object()
    if t == "tuple":
        return tuple(py(dict(e, e=[])) for e in v["e"])
    if t == "list":
        return [py(dict(e, e=[])) for e in v["e"]]
    raise ValueError(f"x02: unknown value tag {t!r}")


def V(t, i=0, s="", e=()):
    return {"t": t, "i": i, "s": s, "e": list(e)}


NONE = V("none")
ABSENT = V("absent")


def fl(x: float):
    return V("float", (x > 0) - (x < 0), repr(float(x)))


def E(t, i=0, s=""):
    return {"t": t, "i": i, "s": s}


def mkop(op, a=NONE, b=NONE, c=NONE, x="", y="", z=""):
    return {"op": op, "a": a, "b": b, "c": c, "x": x, "y": y, "z": z}


# ------------------------------------------------------------------ process-wide seams
_STATE = {"installed": False, "real_open": None, "count": 0, "watch": None, "unr": []}


def install():
    """Terminal stubs, the Image.open counter, the network seam, the unraisable hook (once)."""
    if _STATE["installed"]:
        return
    stubs.install()
    import PIL.Image
    import term_image
    import term_image.image.common as C

    term_image.set_cell_ratio(0.5)
    real_open = PIL.Image.open
    if C.Image.open is not real_open:
        raise RuntimeError("x02: seam PIL.Image.open is not what term_image.image.common uses")

    def counting_open(fp, *a, **k):
        w = _STATE["watch"]
        if w is not None:
            try:
                if os.fspath(fp) == w:
                    _STATE["count"] += 1
            except TypeError:
                pass
        return real_open(fp, *a, **k)

    PIL.Image.open = counting_open
    _STATE["real_open"] = real_open

    if not hasattr(C, "requests") or not hasattr(C.requests, "get"):
        raise RuntimeError("x02: seam term_image.image.common.requests.get is missing")

    def no_network(*a, **k):
        raise _Network()

    C.requests.get = no_network
    sys.unraisablehook = lambda a: _STATE["unr"].append(f"{getattr(a.exc_type, '__name__', a.exc_type)}: {a.exc_value}")
    _STATE["installed"] = True


_FIXDIR: Path | None = None
_FIX: dict = {}


def fixture(c: dict) -> str:
    """Path of the source file for configuration ``c`` (made once per process)."""
    global _FIXDIR
    if _FIXDIR is None:
        _FIXDIR = imgs.tmpdir("x02")
        (_FIXDIR / "junk.png").write_bytes(b"this is not an image")
        (_FIXDIR / "adir").mkdir()
    k = (c["anim"], c["n"], c["ow"], c["oh"], c["dur0"])
    if k not in _FIX:
        rng = random.Random(hash(k) & 0xFFFF)
        if c["anim"]:
            p = _FIXDIR / f"a{len(_FIX)}.gif"
            frames = []
            from PIL import Image
            for i in range(c["n"]):
                f = Image.new("RGB", (c["ow"], c["oh"]), ((70 * i + 10) % 256, (200 - 60 * i) % 256, (90 * i + 17) % 256))
                f.putpixel((0, 0), ((i * 83 + 5) % 256, (i * 151) % 256, (i * 211) % 256))
                frames.append(f)
            kw = {}
            if c["meta_ms"] is not None:
                kw["duration"] = c["meta_ms"]
            frames[0].save(p, "GIF", save_all=True, append_images=frames[1:], loop=0, **kw)
        else:
            p = _FIXDIR / f"s{len(_FIX)}.png"
            imgs.make_image(rng, "RGB", c["ow"], c["oh"]).save(p)
        _FIX[k] = str(p)
    return _FIX[k]


def meta_ms(dur0: str):
    """Milliseconds written into the GIF metadata for a duration token (None: no metadata)."""
    return None if dur0 in ("0.1", "none") else round(float(dur0) * 1000)


# ------------------------------------------------------------------ the world
class World:
    def __init__(self, c: dict, seed: int = 0, pt0: int = 0):
        install()
        import term_image.image as TI

        self.TI = TI
        self.c = dict(c)
        self.c["meta_ms"] = meta_ms(c["dur0"])
        self.rng = random.Random(seed)
        self.cls = real_class(c["cls"])
        self.path = fixture(self.c)
        stubs.set_term(size=(c["tc"], c["tl"]), cell=(c["cw"], c["ch"]))
        stubs.set_identity(NATIVE[c["cls"]])
        self.pil = None
        if c["src"] == "pil":
            self.pil = _STATE["real_open"](self.path)
            if c["anim"] and pt0:
                self.pil.seek(pt0)
        self.img = None

    def close(self):
        self.img = None
        if self.pil is not None:
            self.pil.close()
            self.pil = None

    # -------------------------------------------------------------- observation
    def observe(self) -> dict:
        c = self.c
        pilok, pt = True, 0
        if self.pil is not None:
            try:
                self.pil.load()
                pt = self.pil.tell() if c["anim"] else 0
            except Exception:
                pilok = False
        blank = {"ph": "unborn", "closed": False, "tell": 0, "size": {"k": "dyn", "w": 0, "h": 0, "m": "FIT"},
                 "width": "", "height": "", "rsize": [0, 0], "rw": 0, "rh": 0, "fd": "", "anim": c["anim"],
                 "ow": c["ow"], "oh": c["oh"], "stype": "", "repr": "", "pilok": pilok, "pt": pt, "fs": False,
                 "anom": ""}
        img = self.img
        if img is None:
            return blank
        Size = self.TI.Size
        anom = []

        def get(name, f, okp, enc, dflt):
            try:
                v = f()
            except Exception as e:
                anom.append(f"{name}-raises-{type(e).__name__}")
                return dflt
            if not okp(v):
                anom.append(f"{name}-returns-{type(v).__name__}")
                return dflt
            return enc(v)

        isint = lambda v: type(v) is int
        ispair = lambda v: type(v) is tuple and len(v) == 2 and all(type(x) is int for x in v)

        def enc_size(v):
            if isinstance(v, Size):
                return {"k": "dyn", "w": 0, "h": 0, "m": v.name}
            return {"k": "fixed", "w": v[0], "h": v[1], "m": ""}

        dim = lambda v: v.name if isinstance(v, Size) else str(v)
        o = dict(blank)
        o["ph"] = "live"
        o["closed"] = get("closed", lambda: img.closed, lambda v: type(v) is bool, bool, False)
        o["tell"] = get("tell", img.tell, isint, int, -1)
        o["size"] = get("size", lambda: img.size, lambda v: isinstance(v, Size) or ispair(v), enc_size,
                        {"k": "other", "w": 0, "h": 0, "m": ""})
        o["width"] = get("width", lambda: img.width, lambda v: isinstance(v, Size) or isint(v), dim, "?")
        o["height"] = get("height", lambda: img.height, lambda v: isinstance(v, Size) or isint(v), dim, "?")
        o["rsize"] = get("rendered_size", lambda: img.rendered_size, ispair, list, [0, 0])
        o["rw"] = get("rendered_width", lambda: img.rendered_width, isint, int, -1)
        o["rh"] = get("rendered_height", lambda: img.rendered_height, isint, int, -1)
        o["fd"] = get("frame_duration", lambda: img.frame_duration, lambda v: v is None or type(v) is float,
                      lambda v: "None" if v is None else repr(v), "?")
        o["anim"] = get("is_animated", lambda: img.is_animated, lambda v: type(v) is bool, bool, False)
        osz = get("original_size", lambda: img.original_size, ispair, list, [0, 0])
        o["ow"], o["oh"] = osz
        o["stype"] = get("source_type", lambda: img.source_type, lambda v: isinstance(v, self.TI.ImageSource),
                         lambda v: v.name, "?")
        o["repr"] = get("repr", lambda: repr(img), lambda v: type(v) is str, str, "?")
        o["fs"] = get("forced_support", lambda: img.forced_support, lambda v: type(v) is bool, bool, False)
        o["anom"] = anom[0] if anom else ""
        return o

    # -------------------------------------------------------------- operations
    def do(self, o: dict) -> dict:
        """Execute one operation; returns the event (without the observation)."""
        _STATE["count"] = 0
        _STATE["unr"].clear()
        _STATE["watch"] = self.path if o["op"] not in ("new", "new_url", "auto") else None
        ret = "-"
        try:
            r = getattr(self, "op_" + o["op"].replace("=", "_eq"))(o)
            if isinstance(r, tuple):
                res, ret = r
            else:
                res, ret = "ok", (r if r is not None else "-")
        except _Network:
            res = "network"
        except Exception as e:  # the result of the operation, not a harness failure
            res = type(e).__name__
        finally:
            _STATE["watch"] = None
        return {"o": o, "res": res, "ret": ret if res in OK else "-", "opens": _STATE["count"],
                "unr": len(_STATE["unr"])}

    def step(self, o: dict) -> dict:
        ev = self.do(o)
        ev["obs"] = self.observe()
        if o["op"] in ("new", "new_url", "auto"):
            ev["opens"] = -1  # not judged (the caller's own opening of the file is part of these)
        return ev

    def _src(self, x: str):
        p = self.path
        return {
            "good": self.pil if self.pil is not None else p,
            "pathlike": Path(p),
            "notimage": p,
            "null": None,  # built below
            "nonstr": self.rng.choice([3, p.encode(), None]),
            "missing": p + ".nope",
            "dir": str(_FIXDIR / "adir"),
            "junk": str(_FIXDIR / "junk.png"),
        }[x]

    def op_new(self, o):
        kw = {}
        for name, v in (("width", o["a"]), ("height", o["b"])):
            if v["t"] == "none":
                if self.rng.random() < 0.3:
                    kw[name] = None  # None given explicitly == not given
            elif v["t"] != "absent":
                kw[name] = py(v)
        src = self._src(o["x"])
        if o["x"] == "null":
            from PIL import Image
            src = Image.new("RGB", (0, 5))
        frompil = self.c["src"] == "pil"
        foreign = o["z"] == "foreign"
        if foreign:
            stubs.set_identity(FOREIGN[self.c["cls"]])
        try:
            if o["y"] == "factory":
                obj = self.TI.AutoImage(src, **kw) if frompil else self.TI.from_file(src, **kw)
            else:
                obj = self.cls(src, **kw) if frompil else self.cls.from_file(src, **kw)
        finally:
            if foreign:
                stubs.set_identity(NATIVE[self.c["cls"]])
        self.img = obj
        return type(obj).__name__ if isinstance(obj, self.TI.BaseImage) else f"other:{type(obj).__name__}"

    def op_new_url(self, o):
        url = self.rng.choice(URLS[o["x"]])
        obj = self.TI.from_url(url) if o["y"] == "factory" else self.cls.from_url(url)
        self.img = obj  # not reachable without a network
        return "ok", "-"

    def op_auto(self, o):
        stubs.set_identity(self.rng.choice(TERMKIND[o["z"]]))
        try:
            r = self.TI.auto_image_class()
        finally:
            stubs.set_identity(NATIVE[self.c["cls"]])
        return getattr(r, "__name__", repr(r))

    def op_close(self, o):
        r = self.img.close()
        return "-" if r is None else f"other:{r!r}"

    def op_with(self, o):
        img = self.img
        same = None
        try:
            with img as w:
                same = w is img
                if o["x"] == "raise":
                    raise _Boom()
        except _Boom:
            return "propagated", "self" if same else "other"
        return "ok", "self" if same else "other"

    def op_drop(self, o):
        ref = weakref.ref(self.img)
        self.img = None
        if ref() is not None:
            gc.collect()
        return "-"

    def op_seek(self, o):
        r = self.img.seek(py(o["a"]))
        return "-" if r is None else f"other:{r!r}"

    def op_n_frames(self, o):
        v = self.img.n_frames
        return str(v) if type(v) is int else f"other:{v!r}"

    def op_source(self, o):
        v = self.img.source
        if self.pil is not None:
            return "pil-object" if v is self.pil else f"other:{type(v).__name__}"
        return "abspath" if type(v) is str and v == os.path.abspath(self.path) else f"other:{v!r}"

    def op_set_fd(self, o):
        self.img.frame_duration = py(o["a"])

    def op_size_eq(self, o):
        self.img.size = py(o["a"])

    def op_width_eq(self, o):
        self.img.width = py(o["a"])

    def op_height_eq(self, o):
        self.img.height = py(o["a"])

    def op_set_size(self, o):
        a, b, f = py(o["a"]), py(o["b"]), py(o["c"])
        kw = {}
        if f is not _ABSENT:
            kw["frame_size"] = f
        style = self.rng.randrange(3)
        if style == 0:
            self.img.set_size(None if a is _ABSENT else a, None if b is _ABSENT else b, **kw)
        else:
            if a is not _ABSENT and (a is not None or style == 1):
                kw["width"] = a
            if b is not _ABSENT and (b is not None or style == 1):
                kw["height"] = b
            self.img.set_size(**kw)

    def op_str(self, o):
        r = str(self.img)
        return "-" if type(r) is str and r else "other:empty"

    def op_format(self, o):
        r = format(self.img, o["x"])
        return "-" if type(r) is str and r else "other:empty"

    def op_draw(self, o):
        buf = io.StringIO()
        old = sys.stdout
        sys.stdout = buf
        try:
            self.img.draw(animate=False)
        finally:
            sys.stdout = old
        return "-" if buf.getvalue() else "other:nothing-written"

    def op_iter(self, o):
        it = iter(self.img)
        ok = isinstance(it, self.TI.ImageIterator)
        it.close()
        return "-" if ok else "other:not-an-ImageIterator"

    def op_set_ro(self, o):
        setattr(self.img, o["x"], self.rng.choice([None, 1, True, (3, 4)]))

    def op_del_attr(self, o):
        delattr(self.img, o["x"])

    def op_set_fs(self, o):
        self.img.forced_support = True

    def op_pilseek(self, o):
        self.pil.seek(o["a"]["i"])


def run_history(task: dict) -> dict:
    """Execute ``task['ops']`` on a fresh world; returns the trace (header + events)."""
    w = World(task["c"], task.get("wseed", 0), task.get("pt0", 0))
    try:
        ev = [w.step(o) for o in task["ops"]]
    finally:
        w.close()
    return {"c": task["c"], "pt0": task.get("pt0", 0), "ev": ev}
