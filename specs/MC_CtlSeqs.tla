------------------------------ MODULE MC_CtlSeqs ------------------------------
(***************************************************************************)
(* X05: the vocabulary WRITTEN TO A TERMINAL.  State = a Terminal.tla        *)
(* terminal (cursor, pending wrap, colours, cells, placements, visibility,   *)
(* synchronized-update depth, open chunked transfer) reached by writing       *)
(* operations of the vocabulary one after the other; one named action per    *)
(* name of the Python module (plus Type: the host prints a character).       *)
(* The invariants are the laws of notes/X05.md (law 1, dynamic part); they   *)
(* quantify over the operations at EVERY reachable terminal state.           *)
(* With ACTION_CONSTRAINT Dump every edge is printed for the replay.         *)
(***************************************************************************)
EXTENDS CtlSeqs, Json

CONSTANTS COLS, ROWS, MaxWeight, Ns, Zs, NColours

VARIABLES T, out
vars == <<T, out>>

Red == <<255, 7, 0>>
Blue == <<0, 0, 255>>
Colours == IF NColours = 1 THEN {Red} ELSE {Red, Blue}

CursorTemplates == {"CURSOR_UP", "CURSOR_DOWN", "CURSOR_FORWARD", "CURSOR_BACKWARD"}
DirectTemplates == {"SGR_FG_DIRECT", "SGR_BG_DIRECT", "SGR_FG_DIRECT_2", "SGR_BG_DIRECT_2"}
Requests == {"DA1", "XTVERSION", "TEXT_AREA_SIZE_PX", "CELL_SIZE_PX", "TEXT_FG_QUERY", "TEXT_BG_QUERY"}
PlainSgr == {i \in 1..Len(SgrTexts) : \A j \in 1..Len(SgrTexts[i].p) : SgrTexts[i].p[j] # 5}

ModelOps ==
       {OpN(b, <<k>>) : b \in Builders, k \in Ns \cup {-1}}
  \cup {OpN(t, <<k>>) : t \in CursorTemplates \cup {"ERASE_CHARS"}, k \in Ns}
  \cup {OpN(t, c) : t \in DirectTemplates, c \in Colours}
  \cup {Op0(c) : c \in Constants \cup {"BEL", "ST", "type"}}
  \cup {OpS("SGR", <<SgrTexts[i].s>>) : i \in PlainSgr}
  \cup {OpN(t, <<m>>) : t \in {"DECSET", "DECRST"}, m \in {25, 1049, 2026}}
  \cup {OpN("XTWINOPS_1", <<14>>), OpN("TEXT_PARAM_QUERY", <<10>>)}
  \cup {Op("TEXT_PARAM_SET", <<SetTexts[i].n>>, <<SetTexts[i].s>>) : i \in 1..Len(SetTexts)}
  \cup {KittyRows[i].op : i \in {j \in 1..Len(KittyRows) : KittyRows[j].g.z \in Zs \cup {0}}}
  \cup {OpS("KITTY_DELETE", <<<<c>>>>) : c \in {"A", "a", "C", "c"}}
  \cup {DeleteExtraRows[i].op : i \in {j \in 1..Len(DeleteExtraRows) : DeleteExtraRows[j].g.d \in {"Z", "z"}}}
  \cup {OpN("KITTY_DELETE_Z_INDEX", <<z>>) : z \in Zs}

Named(nm) == {op \in ModelOps : op.name = nm}

Init == T = Norm(NewTerminal(COLS, ROWS, 0, 0)) /\ out = Op0("init")

\* nothing more is written to a terminal that met a protocol error
Do(op) == T' = Run(T, op) /\ out' = op
(* one action per name of the module ------------------------------------------ *)
Type == \E op \in Named("type") : T.err = "" /\ Do(op)
Bel == \E op \in Named("BEL") : T.err = "" /\ Do(op)
St == \E op \in Named("ST") : T.err = "" /\ Do(op)
CursorUpFn == \E op \in Named("cursor_up") : T.err = "" /\ Do(op)
CursorDownFn == \E op \in Named("cursor_down") : T.err = "" /\ Do(op)
CursorForwardFn == \E op \in Named("cursor_forward") : T.err = "" /\ Do(op)
CursorBackwardFn == \E op \in Named("cursor_backward") : T.err = "" /\ Do(op)
CursorUp == \E op \in Named("CURSOR_UP") : T.err = "" /\ Do(op)
CursorDown == \E op \in Named("CURSOR_DOWN") : T.err = "" /\ Do(op)
CursorForward == \E op \in Named("CURSOR_FORWARD") : T.err = "" /\ Do(op)
CursorBackward == \E op \in Named("CURSOR_BACKWARD") : T.err = "" /\ Do(op)
EraseChars == \E op \in Named("ERASE_CHARS") : T.err = "" /\ Do(op)
SgrGeneric == \E op \in Named("SGR") : T.err = "" /\ Do(op)
SgrDefaultC == \E op \in Named("SGR_DEFAULT") : T.err = "" /\ Do(op)
SgrFgDirect == \E op \in Named("SGR_FG_DIRECT") : T.err = "" /\ Do(op)
SgrBgDirect == \E op \in Named("SGR_BG_DIRECT") : T.err = "" /\ Do(op)
SgrFgDirect2 == \E op \in Named("SGR_FG_DIRECT_2") : T.err = "" /\ Do(op)
SgrBgDirect2 == \E op \in Named("SGR_BG_DIRECT_2") : T.err = "" /\ Do(op)
DecSet == \E op \in Named("DECSET") : T.err = "" /\ Do(op)
DecRst == \E op \in Named("DECRST") : T.err = "" /\ Do(op)
ShowCursor == \E op \in Named("SHOW_CURSOR") : T.err = "" /\ Do(op)
HideCursor == \E op \in Named("HIDE_CURSOR") : T.err = "" /\ Do(op)
BeginSyncedUpdate == \E op \in Named("BEGIN_SYNCED_UPDATE") : T.err = "" /\ Do(op)
EndSyncedUpdate == \E op \in Named("END_SYNCED_UPDATE") : T.err = "" /\ Do(op)
XtWinops1 == \E op \in Named("XTWINOPS_1") : T.err = "" /\ Do(op)
TextAreaSizePx == \E op \in Named("TEXT_AREA_SIZE_PX") : T.err = "" /\ Do(op)
CellSizePx == \E op \in Named("CELL_SIZE_PX") : T.err = "" /\ Do(op)
Da1 == \E op \in Named("DA1") : T.err = "" /\ Do(op)
XtVersion == \E op \in Named("XTVERSION") : T.err = "" /\ Do(op)
TextParamSet == \E op \in Named("TEXT_PARAM_SET") : T.err = "" /\ Do(op)
TextParamQuery == \E op \in Named("TEXT_PARAM_QUERY") : T.err = "" /\ Do(op)
TextFgQuery == \E op \in Named("TEXT_FG_QUERY") : T.err = "" /\ Do(op)
TextBgQuery == \E op \in Named("TEXT_BG_QUERY") : T.err = "" /\ Do(op)
KittyTransmission == \E op \in Named("KITTY_TRANSMISSION") : T.err = "" /\ Do(op)
KittyDeleteC == \E op \in Named("KITTY_DELETE") : T.err = "" /\ Do(op)
KittyDeleteExtra == \E op \in Named("KITTY_DELETE_EXTRA") : T.err = "" /\ Do(op)
KittySupportQuery == \E op \in Named("KITTY_SUPPORT_QUERY") : T.err = "" /\ Do(op)
KittyEndChunked == \E op \in Named("KITTY_END_CHUNKED") : T.err = "" /\ Do(op)
KittyDeleteAll == \E op \in Named("KITTY_DELETE_ALL") : T.err = "" /\ Do(op)
KittyDeleteCursor == \E op \in Named("KITTY_DELETE_CURSOR") : T.err = "" /\ Do(op)
KittyDeleteZIndex == \E op \in Named("KITTY_DELETE_Z_INDEX") : T.err = "" /\ Do(op)

Next ==
  \/ Type \/ Bel \/ St
  \/ CursorUpFn \/ CursorDownFn \/ CursorForwardFn \/ CursorBackwardFn
  \/ CursorUp \/ CursorDown \/ CursorForward \/ CursorBackward \/ EraseChars
  \/ SgrGeneric \/ SgrDefaultC \/ SgrFgDirect \/ SgrBgDirect \/ SgrFgDirect2 \/ SgrBgDirect2
  \/ DecSet \/ DecRst \/ ShowCursor \/ HideCursor \/ BeginSyncedUpdate \/ EndSyncedUpdate
  \/ XtWinops1 \/ TextAreaSizePx \/ CellSizePx \/ Da1 \/ XtVersion
  \/ TextParamSet \/ TextParamQuery \/ TextFgQuery \/ TextBgQuery
  \/ KittyTransmission \/ KittyDeleteC \/ KittyDeleteExtra \/ KittySupportQuery \/ KittyEndChunked
  \/ KittyDeleteAll \/ KittyDeleteCursor \/ KittyDeleteZIndex

Spec == Init /\ [][Next]_vars

\* The bound of the model: the number of things that distinguish the terminal from a fresh one
\* (written cells, placements, an open transfer, open synchronized updates, a non-default
\* colour per layer, attributes, a hidden cursor); the cursor position and the pending-wrap
\* flag are free.  The laws are evaluated at every state within the bound and look one or two
\* operations beyond it.
Weight(S) ==
  Cardinality(DOMAIN S.cells) + Len(S.pl) + S.rx + S.sync + Cardinality(S.attrs)
  + (IF S.fg = DefaultColor THEN 0 ELSE 1) + (IF S.bg = DefaultColor THEN 0 ELSE 1)
  + (IF S.vis THEN 0 ELSE 1)
Bounded == T.top = 0 /\ Weight(T) <= MaxWeight

View == T

(* ======================================================================= *)
(* the laws (notes/X05.md, law 1, dynamic part).  Laws about ONE operation   *)
(* are action properties, checked on every transition  T --out'--> T'  of    *)
(* the model; laws about two operations in sequence are invariants that      *)
(* look ahead from every reachable state.                                    *)
(* ======================================================================= *)
SameExcept(A, B, F) == \A f \in DOMAIN A : f \in F \/ A[f] = B[f]
Ok == T.err = ""
Idle == T.err = "" /\ T.rx = 0          \* no chunked transfer open
Wrote(names) == out'.name \in names
Arg == out'.n[1]

\* L1e  the tokens of every operation have exactly the documented effect
TokensHaveTheDocumentedEffect == [][T' = Norm(Effect(out', T))]_vars

\* L1f  a builder moves the cursor by exactly its count, clamped at the margin, and changes
\*      nothing else; with a count <= 0 it writes nothing (not even the pending wrap is lost)
BuildersMoveExactly ==
  [][Wrote(Builders) =>
       IF Arg <= 0 THEN T' = T
       ELSE /\ SameExcept(T', T, {"r", "c", "pw"}) /\ ~T'.pw
            /\ Wrote({"cursor_up"}) => T'.c = T.c /\ T'.r = Max(T.r - Arg, 0)
            /\ Wrote({"cursor_down"}) => T'.c = T.c /\ T'.r = Min(T.r + Arg, T.rows - 1)
            /\ Wrote({"cursor_forward"}) => T'.r = T.r /\ T'.c = Min(T.c + Arg, T.cols - 1)
            /\ Wrote({"cursor_backward"}) => T'.r = T.r /\ T'.c = Max(T.c - Arg, 0)]_vars

\* L1g  away from the margins up-then-down and forward-then-backward are the identity
\*      (up to the pending-wrap flag, which every cursor movement clears): whenever a movement
\*      by k was not clamped, the opposite movement by k leads back
Opposite(nm) ==
  CASE nm = "cursor_up" -> "cursor_down" [] nm = "cursor_down" -> "cursor_up"
    [] nm = "cursor_forward" -> "cursor_backward" [] nm = "cursor_backward" -> "cursor_forward"
    [] nm = "CURSOR_UP" -> "CURSOR_DOWN" [] nm = "CURSOR_DOWN" -> "CURSOR_UP"
    [] nm = "CURSOR_FORWARD" -> "CURSOR_BACKWARD" [] nm = "CURSOR_BACKWARD" -> "CURSOR_FORWARD"
Travelled == (IF T'.r > T.r THEN T'.r - T.r ELSE T.r - T'.r) + (IF T'.c > T.c THEN T'.c - T.c ELSE T.c - T'.c)
MovesAreInverse ==
  [][Wrote(Builders \cup CursorTemplates) /\ Arg > 0 /\ Travelled = Arg =>
       Run(T', OpN(Opposite(out'.name), <<Arg>>)) = [T EXCEPT !.pw = FALSE]]_vars

\* L1h  in the raw templates a count of 0 means 1 (ECMA-48) - the reason the builders exist;
\*      for positive counts builder and template agree
TemplateZeroMeansOne ==
  [][Wrote(CursorTemplates \cup {"ERASE_CHARS"}) /\ Arg = 0 => T' = Run(T, OpN(out'.name, <<1>>))]_vars
BuilderIsTemplateForPositive ==
  [][Wrote(Builders) /\ Arg > 0 =>
       T' = Run(T, OpN(CASE out'.name = "cursor_up" -> "CURSOR_UP" [] out'.name = "cursor_down" -> "CURSOR_DOWN"
                         [] out'.name = "cursor_forward" -> "CURSOR_FORWARD" [] OTHER -> "CURSOR_BACKWARD",
                       <<Arg>>))]_vars

\* L1i  ERASE_CHARS % n blanks exactly the n cells from the cursor on (not past the margin),
\*      in the current background, and touches nothing else - the cursor included
EraseExactly ==
  [][Wrote({"ERASE_CHARS"}) =>
       /\ SameExcept(T', T, {"cells"})
       /\ \A rr \in 0..(T.rows - 1), cc \in 0..(T.cols - 1) :
            CellAt(T', T.top + rr, cc) =
              IF rr = T.r /\ cc >= T.c /\ cc < T.c + AtLeast1(Arg) THEN BlankCell(T.bg)
              ELSE CellAt(T, T.top + rr, cc)]_vars

\* L1j  a colour template sets its own layer and nothing else; both spellings are one colour
ColourTemplatesSetOneLayer ==
  [][/\ Wrote({"SGR_FG_DIRECT", "SGR_FG_DIRECT_2"}) => T' = [T EXCEPT !.fg = out'.n]
     /\ Wrote({"SGR_BG_DIRECT", "SGR_BG_DIRECT_2"}) => T' = [T EXCEPT !.bg = out'.n]]_vars
\* L1k  SGR_DEFAULT clears whatever the colour templates (and the generic SGR) set, only that
ResetClears ==
  Ok => LET U == Run(T, Op0("SGR_DEFAULT")) IN
        /\ SgrDefault(U) /\ SameExcept(U, T, {"fg", "bg", "attrs"})
        /\ \A c \in Colours :
             SgrDefault(Run(Run(Run(T, OpN("SGR_FG_DIRECT", c)), OpN("SGR_BG_DIRECT_2", c)), Op0("SGR_DEFAULT")))

\* L1l  hide / show toggle the visibility of the cursor and nothing else
HideShowOnlyVisibility ==
  [][/\ Wrote({"HIDE_CURSOR"}) => T' = [T EXCEPT !.vis = FALSE]
     /\ Wrote({"SHOW_CURSOR"}) => T' = [T EXCEPT !.vis = TRUE]]_vars
HideThenShow ==
  Ok => /\ Run(Run(T, Op0("HIDE_CURSOR")), Op0("SHOW_CURSOR")) = [T EXCEPT !.vis = TRUE]
        /\ Run(Run(T, Op0("SHOW_CURSOR")), Op0("HIDE_CURSOR")) = [T EXCEPT !.vis = FALSE]

\* L1m  begin / end of a synchronized update are brackets: they nest, change nothing else,
\*      and an end without a begin is an error
SyncBracketsNest ==
  Ok => /\ Run(Run(T, Op0("BEGIN_SYNCED_UPDATE")), Op0("END_SYNCED_UPDATE")) = T
        /\ SameExcept(Run(T, Op0("BEGIN_SYNCED_UPDATE")), T, {"sync"})
        /\ (T.sync = 0 => Run(T, Op0("END_SYNCED_UPDATE")).err # "")
        /\ (T.sync > 0 => Run(T, Op0("END_SYNCED_UPDATE")) = [T EXCEPT !.sync = @ - 1])

\* L1n  the delete commands remove exactly the placements they address, keep the others in
\*      order, and touch nothing else
Removed(S, U, Addressed(_)) ==
  /\ SameExcept(U, S, {"pl"})
  /\ LET Keep(p) == ~Addressed(p) IN U.pl = SelectSeq(S.pl, Keep)
  /\ \A i \in DOMAIN S.pl : Addressed(S.pl[i]) <=> ~(\E j \in DOMAIN U.pl : U.pl[j] = S.pl[i])
  /\ Len(U.pl) = Cardinality({i \in DOMAIN S.pl : ~Addressed(S.pl[i])})
DeletesRemoveExactlyTheAddressed ==
  [][T.rx = 0 =>
       /\ Wrote({"KITTY_DELETE_ALL"}) => (LET All(p) == TRUE IN Removed(T, T', All)) /\ T'.pl = <<>>
       /\ Wrote({"KITTY_DELETE_CURSOR"}) => LET AtCursor(p) == Covers(p, CursorCell(T)) IN Removed(T, T', AtCursor)
       /\ Wrote({"KITTY_DELETE_Z_INDEX"}) => LET OnLayer(p) == p.proto = "kitty" /\ p.z = Arg IN Removed(T, T', OnLayer)]_vars

\* L1o  requests (and BEL, ST, text parameters) change nothing the terminal shows
Invisible == Requests \cup {"BEL", "ST", "XTWINOPS_1", "TEXT_PARAM_QUERY", "TEXT_PARAM_SET"}
RequestsAreInvisible ==
  [][/\ Wrote(Invisible) => T' = T
     /\ Wrote({"KITTY_SUPPORT_QUERY"}) /\ T.rx = 0 => T' = T]_vars

\* L1p  KITTY_END_CHUNKED always leaves no transfer open: it completes an open one (which
\*      then shows its image) and is nothing otherwise
EndChunkedCloses ==
  [][Wrote({"KITTY_END_CHUNKED"}) =>
       /\ T'.rx = 0 /\ T'.err = ""
       /\ (T.rx = 0 => T' = T)
       /\ (T.rx = 1 => Len(T'.pl) = Len(T.pl) + 1 /\ SameExcept(T', T, {"pl", "rx", "rxctl", "pw"}))]_vars

\* L1q  an error state is only ever entered by a documented misuse
Misuse ==
  \/ out.name \in {"END_SYNCED_UPDATE", "DECRST"}                 \* end without begin
  \/ out.name \in {"KITTY_TRANSMISSION", "KITTY_DELETE", "KITTY_DELETE_EXTRA", "KITTY_SUPPORT_QUERY",
                   "KITTY_DELETE_ALL", "KITTY_DELETE_CURSOR", "KITTY_DELETE_Z_INDEX"}   \* inside a transfer
ErrorsOnlyByMisuse == T.err # "" => Misuse

OnScreen == CursorOnScreen(T)

(* ======================================================================= *)
(* edge dump                                                               *)
(* ======================================================================= *)
Dump == PrintT(<<"EDGE", ToJson([from |-> Obs(T), op |-> out', to |-> Obs(T')])>>)
ASSUME PrintT(<<"GEOM", ToJson([cols |-> COLS, rows |-> ROWS])>>)
ASSUME PrintT(<<"INIT", ToJson(Obs(Norm(NewTerminal(COLS, ROWS, 0, 0))))>>)
=============================================================================
