--------------------------- MODULE TermCacheCore ---------------------------
(***************************************************************************)
(* C15, constant-free core shared by the model (TermCache.tla) and the      *)
(* trace monitor (Trace_TermCache.tla).                                     *)
(*                                                                         *)
(* Environment record `e`:                                                 *)
(*   cols, rows   terminal size in cells (TIOCGWINSZ ws_col / ws_row)      *)
(*   xpx, ypx     text area size in pixels, as the terminal knows it       *)
(*   iopx         TIOCGWINSZ carries the pixel fields (else they are 0)    *)
(*   xt           what the terminal answers to the XTWINOPS queries:       *)
(*                "cell" (CSI 6;h;w t to CSI 16 t), "text" (only CSI 4;h;w  *)
(*                t to CSI 14 t) or "none" (only DA1)                       *)
(* Settings: swap (win-size-swap workaround), queries (enabled).            *)
(*                                                                         *)
(* A cell size is <<w, h>>; <<0, 0>> stands for None (undetermined).        *)
(***************************************************************************)
EXTENDS Integers, Sequences, FiniteSets

None == <<0, 0>>
HasZero(p) == p[1] = 0 \/ p[2] = 0
Norm(p) == IF HasZero(p) THEN None ELSE p
Rev(p) == <<p[2], p[1]>>

\* utils.get_cell_size() without its cache, statement by statement
Compute(e, swap, queries) ==
  LET io == IF e.iopx THEN <<e.xpx, e.ypx>> ELSE <<0, 0>>
      gotIo == ~HasZero(io)
      asks == ~gotIo /\ queries
      cellRep == asks /\ e.xt = "cell"
      textRep == asks /\ e.xt = "text"
      text == IF gotIo THEN io ELSE IF textRep THEN <<e.xpx, e.ypx>> ELSE <<0, 0>>
      gotText == gotIo \/ textRep
      t2 == IF swap THEN Rev(text) ELSE text
      cell == IF cellRep THEN <<e.xpx \div e.cols, e.ypx \div e.rows>>   \* what the terminal reports as its cell size
              ELSE IF gotText THEN <<t2[1] \div e.cols, t2[2] \div e.rows>>
              ELSE <<0, 0>>
  IN [cell |-> Norm(cell), asked |-> asks]

\* `basis` = <<cols, rows, xpx, ypx>> of the last required (re-)determination, or <<>>:
\* a determination is required at the first call, when the size in cells differs from the
\* one at the previous call, and after a toggle (swap on/off, queries re-enabled)
\* afterFail: the previous look-up of the cell size was cut short by an exception and none has returned since.
\* An implementation may then keep what it knew (basis[3..4]) or drop it and determine again: the pixel size at
\* this look-up becomes a second admissible reference (basis[5..6]); nothing is *required* to be noticed
BasisAfterLookup(basis, e, afterFail) ==
  IF basis # <<>> /\ basis[1] = e.cols /\ basis[2] = e.rows
    THEN (IF afterFail /\ <<e.xpx, e.ypx>> # <<basis[3], basis[4]>>
            THEN <<basis[1], basis[2], basis[3], basis[4], e.xpx, e.ypx>> ELSE basis)
    ELSE <<e.cols, e.rows, e.xpx, e.ypx>>
BasisAfterGet(basis, e) == BasisAfterLookup(basis, e, FALSE)

\* the pixel size a correct answer may be based on: a pixel-only change at an unchanged
\* size in cells need not be noticed (caching per terminal size is documented)
RefEnv(basis, e) ==
  IF basis # <<>> /\ basis[1] = e.cols /\ basis[2] = e.rows
    THEN [e EXCEPT !.xpx = basis[3], !.ypx = basis[4]]
    ELSE e
RefEnv2(basis, e) ==
  IF basis # <<>> /\ Len(basis) = 6 /\ basis[1] = e.cols /\ basis[2] = e.rows
    THEN [e EXCEPT !.xpx = basis[5], !.ypx = basis[6]]
    ELSE e

\* the cell sizes get_cell_size() may return in environment e (basis already updated):
\*  - what a cache-less computation gives now, from the current pixel size or (exemption) from the
\*    pixel size of the last required determination, or
\*  - with queries disabled: the (positive) fact established while they were enabled, which is
\*    still true of this terminal size and swap setting
\* a None obtained while queries were disabled is NOT in the set once they are enabled again
Candidates(x, swap, queries) ==
  LET now == Compute(x, swap, queries).cell
      known == Compute(x, swap, TRUE).cell
  IN {now} \cup (IF ~queries /\ known # None THEN {known} ELSE {})

AllowedCells(basis, e, swap, queries) ==
  Candidates(e, swap, queries) \cup Candidates(RefEnv(basis, e), swap, queries)
    \cup Candidates(RefEnv2(basis, e), swap, queries)

\* ratios are compared as fractions
SameRatio(a, b) == a[1] * b[2] = a[2] * b[1]
RatioOf(cell) == IF cell = None THEN <<1, 2>> ELSE cell
AllowedRatios(basis, e, swap, queries) == {RatioOf(c) : c \in AllowedCells(basis, e, swap, queries)}
=============================================================================
