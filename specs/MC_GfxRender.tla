--------------------------- MODULE MC_GfxRender ---------------------------
(***************************************************************************)
(* C03 (c)(d)(e) at design level: the render loops of                      *)
(* KittyImage._render_image and ITerm2Image._render_image transcribed      *)
(* (size selection, cell_height = height // r_height, bytes_per_line,      *)
(* sequential raw_image.read(bytes_per_line), read-from-file gate and      *)
(* JPEG/PNG choice exactly as the code writes them) and composed with      *)
(*   - the chunk producer and the kitty receiver of Gfx (ChunkSize = 16),  *)
(*   - the SAME judges that validate recorded traces (KittyDoneClause,     *)
(*     ITermClause, EndClause), which are written from the protocol and    *)
(*     the documentation, not from the code.                               *)
(* The raw picture is abstract: only byte counts and row alignment are     *)
(* modelled; "pix" holds iff the bytes read are exactly whole rows         *)
(* [lo, hi) of the picture at the transmitted width.                       *)
(* RV selects the code as written or a regression (invariants must bite).  *)
(***************************************************************************)
EXTENDS Gfx

CONSTANT RV   \* "code" | "cell-height-plus-1" | "bpp-plus-1" | "gate-ignores-palette" | "whole-at-render-size"
              \* | "second-cell-read" (iTerm2 LINES: strip height from a later get_cell_size() read)
              \* | "encode-in-blocks" (iTerm2 WHOLE / ANIM payloads read and base64-encoded 1024 bytes at a
              \*   time, the pieces concatenated; 1024 is not a multiple of 3)

\* block size of the payload encoder (Gfx (f)): 0 = standard_b64encode(stream.read()) in one piece
EncBlock(lines) == IF RV = "encode-in-blocks" /\ ~lines THEN 1024 ELSE 0

VARIABLES job, k, pos, R, verdict, out
vars == <<job, k, pos, R, verdict, out>>

Opaque == {"1", "L", "RGB", "HSV", "CMYK"}
Modes == {"L", "RGB", "RGBA", "LA", "P"}
ModeClass(m) == IF m \in Opaque THEN "opaque" ELSE IF m \in {"P", "PA"} THEN "palette" ELSE "alpha"

Geo == [rw : 1..2, rh : 1..3, cell : {<<1, 2>>, <<2, 4>>, <<3, 5>>}, orig : {<<1, 1>>, <<3, 5>>, <<9, 20>>}]

\* cell2 = what a SECOND get_cell_size() read returns (unstable environment: the cell size
\* changed after the read that sized the pixel buffer); equal to the first read for most jobs
Ext(j, c) == [style |-> j.style, method |-> j.method, geo |-> j.geo, mode |-> j.mode, alpha |-> j.alpha,
              compress |-> j.compress, rff |-> j.rff, readable |-> j.readable, animated |-> j.animated,
              jpeg |-> j.jpeg, cell2 |-> c]

JobsBase ==
  [style : {"kitty"}, method : {"lines", "whole"}, geo : Geo, mode : Modes,
   alpha : {"none", "float", "bghex"}, compress : {0, 4}, rff : {TRUE}, readable : {TRUE},
   animated : {FALSE}, jpeg : {-1}]
  \cup
  [style : {"iterm2"}, method : {"lines", "whole", "anim"},
   geo : {g \in Geo : g.rw = 1 /\ g.rh # 2 /\ g.cell # <<2, 4>>}, mode : Modes,
   alpha : {"none", "float", "bghex"}, compress : {4}, rff : BOOLEAN, readable : BOOLEAN,
   animated : BOOLEAN, jpeg : {-1, 50}]

Jobs ==
  {Ext(j, j.geo.cell) : j \in JobsBase}
  \cup {Ext(j, c) : j \in {x \in JobsBase : x.geo.cell = <<3, 5>> /\ x.geo.orig = <<3, 5>> /\ x.alpha = "float"},
                    c \in {<<2, 4>>, <<4, 7>>}}

\* header of the judge, derived from the job (what the driver derives from a real case)
Hdr(j) ==
  [style |-> j.style, method |-> j.method, rw |-> j.geo.rw, rh |-> j.geo.rh,
   cw |-> j.geo.cell[1], ch |-> j.geo.cell[2], ow |-> j.geo.orig[1], oh |-> j.geo.orig[2],
   compress |-> j.compress, z |-> 0, blend |-> TRUE, jpeg |-> j.jpeg, rff |-> j.rff,
   animated |-> j.animated, frame |-> FALSE, readable |-> j.readable,
   modeclass |-> ModeClass(j.mode), alphakind |-> j.alpha,
   unstable |-> j.cell2 # j.geo.cell, cw2 |-> j.cell2[1], ch2 |-> j.cell2[2]]

(* --- the code, transcribed ------------------------------------------------*)
RSize(j) == <<j.geo.rw * j.geo.cell[1], j.geo.rh * j.geo.cell[2]>>          \* _get_render_size
MinSize(j) == IF Area(RSize(j)) < Area(j.geo.orig) THEN RSize(j) ELSE j.geo.orig  \* _get_minimal_render_size
Size(j) == IF j.method = "whole" /\ RV # "whole-at-render-size" THEN MinSize(j) ELSE RSize(j)

\* mode of the image returned by _get_render_data
OutMode(j) ==
  IF j.alpha = "none" \/ j.mode \in Opaque THEN "RGB"
  ELSE IF j.alpha = "float" THEN "RGBA" ELSE "RGB"
Bpp(j) == IF OutMode(j) = "RGBA" THEN 4 ELSE 3

CellHeight(j) ==
  IF RV = "second-cell-read" /\ j.style = "iterm2" THEN j.cell2[2]     \* self._pixels_lines(lines=1)
  ELSE (Size(j)[2] \div j.geo.rh) + (IF RV = "cell-height-plus-1" THEN 1 ELSE 0)
BytesPerLine(j) == Size(j)[1] * CellHeight(j) * (Bpp(j) + (IF RV = "bpp-plus-1" THEN 1 ELSE 0))
RawLen(j) == Size(j)[1] * Size(j)[2] * Bpp(j)
RowBytes(j) == Size(j)[1] * Bpp(j)

NativeAnimCode(j) == j.method = "anim" /\ j.animated
CodeGate(j) ==
  /\ j.rff /\ ~j.animated /\ j.readable /\ j.method = "whole"
  /\ Area(j.geo.orig) <= Area(RSize(j))
  /\ (j.mode \in Opaque \/ (j.alpha = "float" /\ (RV = "gate-ignores-palette" \/ j.mode \notin {"P", "PA"})))

Strips(j) == IF j.method = "lines" THEN j.geo.rh ELSE 1

\* lengths a zlib stream / PNG of n raw bytes may have (abstract: a few representatives)
PackedLens(n) == {1, (n \div 2) + 1, n + 11}

NoProj == [tb64 |-> 0, pad |-> 0, pad1 |-> -1, dlen |-> -1, ilen |-> -1, rows_lo |-> -1, rows_hi |-> -1, pix |-> -1]

Init ==
  /\ job \in Jobs
  /\ k = 0 /\ pos = 0 /\ R = RxInit /\ verdict = "ok" /\ out = "init"

Judge(v) == IF verdict # "ok" THEN verdict ELSE v

\* one Transmission(control_data, raw_image.read(bytes_per_line), compress).get_chunks()
KittyStrip ==
  /\ job.style = "kitty" /\ k < Strips(job)
  /\ LET lines == job.method = "lines"
         want == IF lines THEN BytesPerLine(job) ELSE RawLen(job)
         n == Min(want, RawLen(job) - pos)
         rec == [NoRec EXCEPT !.a = "T", !.f = 8 * Bpp(job), !.t = "d", !.s = Size(job)[1],
                              !.v = (IF lines THEN CellHeight(job) ELSE Size(job)[2]),
                              !.z = 0, !.zset = TRUE, !.o = (IF job.compress > 0 THEN "z" ELSE ""),
                              !.C = 1, !.c = job.geo.rw, !.r = (IF lines THEN 1 ELSE job.geo.rh)]
     IN \E plen \in (IF job.compress > 0 THEN PackedLens(n) ELSE {n}) :
          LET t == Transmit(R, PInit(B64Len(plen)), rec, "code", "ok")
              e == [NoProj EXCEPT !.tb64 = t.R.last, !.pad = B64Pad(plen), !.pad1 = Stream(plen, 0).pad1,
                                  !.dlen = plen,
                                  !.ilen = (IF job.compress > 0 THEN n ELSE -1),
                                  !.rows_lo = pos \div RowBytes(job),
                                  !.rows_hi = (pos + n) \div RowBytes(job),
                                  \* the reference is the source resized to s x v*strips: it is the
                                  \* picture the bytes were read from only if those heights agree
                                  !.pix = (IF n > 0 /\ pos % RowBytes(job) = 0 /\ n % RowBytes(job) = 0
                                              /\ rec.v * Strips(job) = Size(job)[2] THEN 1 ELSE 0)]
              v == IF t.verdict # "ok" THEN t.verdict
                   ELSE KittyDoneClause(Hdr(job), k, rec, t.R.last, e, (IF k = 0 THEN NoFirst ELSE <<rec.s, rec.v>>))
          IN /\ R' = t.R
             /\ verdict' = Judge(v)
             /\ pos' = pos + n
             /\ k' = k + 1
             /\ out' = "kitty-strip"
  /\ UNCHANGED job

\* the payload is what the encoder (block size blk) makes of len bytes; a strict decoder
\* obtains len bytes iff the stream is ONE base64 string
ITermEvent(kind, isfile, w, h, mode, lo, hi, pix, len, rw, hc, blk) ==
  LET st == Stream(len, blk) IN
  [proto |-> "iterm2", keys |-> <<"size", "width", "height", "preserveAspectRatio", "inline">>,
   inline |-> 1, par |-> 0, b64ok |-> (st.pad1 = -1 \/ st.pad1 = st.len - st.pad),
   b64len |-> st.len, tb64 |-> st.len, pad |-> st.pad, pad1 |-> st.pad1,
   dlen |-> (IF st.pad1 = -1 \/ st.pad1 = st.len - st.pad THEN len ELSE -1),
   size |-> len, wcells |-> rw, hcells |-> hc,
   isfile |-> isfile, kind |-> kind, imgw |-> w, imgh |-> h, imgmode |-> mode,
   rows_lo |-> lo, rows_hi |-> hi, pix |-> pix]

\* native animation / read-from-file: the file goes out untouched
ITermFile ==
  /\ job.style = "iterm2" /\ k = 0
  /\ (NativeAnimCode(job) /\ job.readable) \/ (~NativeAnimCode(job) /\ CodeGate(job))
  /\ \E len \in {1, 3000} :
       LET e == ITermEvent("png", 1, job.geo.orig[1], job.geo.orig[2], job.mode, -1, -1, -1, len,
                           job.geo.rw, job.geo.rh, EncBlock(FALSE))
       IN verdict' = Judge(ITermClause(Hdr(job), k, e, NoFirst))
  /\ k' = Strips(job) /\ out' = "iterm-file"
  /\ UNCHANGED <<job, pos, R>>

\* native animation of a PIL image whose file cannot be read: re-saved with save_all
ITermResave ==
  /\ job.style = "iterm2" /\ k = 0
  /\ NativeAnimCode(job) /\ ~job.readable
  /\ LET e == ITermEvent("gif", 0, job.geo.orig[1], job.geo.orig[2], job.mode, -1, -1, -1, 3000,
                         job.geo.rw, job.geo.rh, EncBlock(FALSE))
     IN verdict' = Judge(ITermClause(Hdr(job), k, e, NoFirst))
  /\ k' = Strips(job) /\ out' = "iterm-resave"
  /\ UNCHANGED <<job, pos, R>>

\* re-encoded picture: one command per line (LINES) or one for the whole picture
ITermReenc ==
  /\ job.style = "iterm2" /\ k < Strips(job)
  /\ ~NativeAnimCode(job) /\ ~CodeGate(job)
  /\ LET lines == job.method = "lines"
         want == IF lines THEN BytesPerLine(job) ELSE RawLen(job)
         n == Min(want, RawLen(job) - pos)
         kind == IF job.jpeg >= 0 /\ OutMode(job) = "RGB" THEN "jpeg" ELSE "png"
         hpx == IF lines THEN CellHeight(job) ELSE Size(job)[2]
         \* PIL.Image.frombytes needs exactly width*cell_height*bands bytes
         okbytes == n = Size(job)[1] * hpx * Bpp(job)
     IN \E len \in ({1, n + 11} \cup (IF lines THEN {} ELSE {3000})) :
          LET e == ITermEvent(kind, 0, Size(job)[1], hpx, OutMode(job), pos \div RowBytes(job),
                              (pos + n) \div RowBytes(job),
                              (IF okbytes /\ pos % RowBytes(job) = 0 /\ hpx * Strips(job) = Size(job)[2]
                                 THEN 1 ELSE 0), len,
                              job.geo.rw, (IF lines THEN 1 ELSE job.geo.rh), EncBlock(lines))
          IN verdict' = Judge(IF okbytes THEN ITermClause(Hdr(job), k, e, (IF k = 0 THEN NoFirst ELSE <<Size(job)[1], hpx>>))
                              ELSE "render-raises: frombytes gets the wrong number of bytes")
       /\ pos' = pos + n
  /\ k' = k + 1 /\ out' = "iterm-reenc"
  /\ UNCHANGED <<job, R>>

Finish ==
  /\ k = Strips(job) /\ out # "done"
  /\ verdict' = Judge(IF job.style = "kitty" THEN EndClause(Hdr(job), R)
                      ELSE IF pos # RawLen(job) /\ out = "iterm-reenc" THEN "strip-count: rows left over" ELSE "ok")
  /\ out' = "done"
  /\ UNCHANGED <<job, k, pos, R>>

Next == KittyStrip \/ ITermFile \/ ITermResave \/ ITermReenc \/ Finish
Spec == Init /\ [][Next]_vars

JudgeAccepts == verdict = "ok"
AllRowsSent == (out = "done" /\ job.style = "kitty") => pos = RawLen(job)
ReceiverIdleBetweenStrips == R.rx = "idle"
=============================================================================
