SPECIFICATION Spec
CONSTANTS
  ChunkSize = 16
  RV = "cell-height-plus-1"
INVARIANT JudgeAccepts
INVARIANT AllRowsSent
INVARIANT ReceiverIdleBetweenStrips
CHECK_DEADLOCK FALSE
