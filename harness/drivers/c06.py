"""C06 - draw() leaves the picture in place and the cursor on the line below it.

model:   specs/Draw.tla (choreography of both draw procedures composed with Terminal.tla:
         SamePlaceEveryFrame, EndsBelow - MC_Draw.cfg) and specs/DrawValidate.tla (the
         documented accept/reject table).
binding: code -> spec: the bytes real draw() calls deliver to a captured stdout (tty and
         non-tty) are lexed and validated by TLC against Trace_Draw.tla (Terminal.tla in
         absolute line coordinates) for an instrumented renderable (new API, frame i filled
         with letter i) and for Block/Kitty/ITerm2 images on generated animated files (old
         API); spec -> code: the validation table enumerated by TLC is replayed into the
         real draw() of both APIs (verdict class and "nothing written before rejection").
"""

from __future__ import annotations

import itertools
import json
import random

from .. import drawkit, lexer, tlc
from ..core import Report

ASSUMPTIONS = [
    "terminal semantics of specs/Terminal.tla; LF interpreted with ONLCR; the cursor is at "
    "column 0 of row r0 when draw() starts",
    "stdout is replaced by a capturing stream (isatty() true/false; fileno() = slave of a real "
    "pty for termios); time.sleep / perf_counter-driven waits are virtual",
    "old API: expected colours of a frame are read back from the generated file with Pillow",
    "the terminal size is a substituted get_terminal_size() in the draw traces; the real one is bound "
    "separately (TermSizeEnv.tla: 48 process environments - which std stream is the terminal, "
    "controlling terminal or not, COLUMNS/LINES exported or not - each arranged with a pty)",
]


def pad_dims(p, size, term):
    if p["kind"] == "exact":
        return p["l"], p["t"], p["r"], p["b"]

    def res(d, t):
        return d if d > 0 else max(t + d, 1)

    pw = max(res(p["w"], term[0]) - size[0], 0)
    ph = max(res(p["h"], term[1]) - size[1], 0)
    lead = lambda tot, a: 0 if a == 0 else tot // 2 if a == 1 else tot  # noqa: E731
    l, t = lead(pw, p["ha"]), lead(ph, p["va"])
    return l, t, pw - l, ph - t


def new_cases(rng, tier):
    pads = [
        {"kind": "exact", "l": 0, "t": 0, "r": 0, "b": 0},
        {"kind": "exact", "l": 1, "t": 0, "r": 0, "b": 1},
        {"kind": "exact", "l": 0, "t": 1, "r": 1, "b": 0},
        {"kind": "exact", "l": 1, "t": 1, "r": 1, "b": 1},
        {"kind": "exact", "l": 2, "t": 0, "r": 0, "b": 2},
        {"kind": "aligned", "w": 0, "h": -2, "ha": 1, "va": 1},  # the default of draw()
        {"kind": "aligned", "w": 5, "h": 4, "ha": 2, "va": 2},
        {"kind": "aligned", "w": 0, "h": 0, "ha": 0, "va": 0},
    ]
    sizes = [(w, h) for w in (1, 2, 3) for h in (1, 2, 3)]
    cols, rows = 7, 5
    out = []
    for (rw, rh), pad in itertools.product(sizes, pads):
        l, t, r, b = pad_dims(pad, (rw, rh), (cols, rows))
        pw, ph = l + rw + r, t + rh + b
        if pw > cols or ph > rows:
            continue
        for frames, loops, cache in [(1, 1, False), (2, 1, False), (3, 2, False), (2, 2, True), (3, 3, 2)]:
            for tty in (True, False):
                r0s = sorted({0, max(rows - ph - 1, 0), max(rows - ph, 0), rows - 1})
                if tier == "quick":
                    r0s = rng.sample(r0s, min(2, len(r0s)))
                for r0 in r0s:
                    out.append(dict(api="new", rw=rw, rh=rh, frames=frames, loops=loops, cache=cache,
                                    pad=pad, cols=cols, rows=rows, tty=tty, r0=r0,
                                    animate=True if frames > 1 else rng.random() < 0.5,
                                    hide_cursor=rng.random() < 0.8, echo_input=rng.random() < 0.3))
    # empty fill: the padding only moves the cursor, every frame still lands on the same cells
    for pad in ({"kind": "exact", "l": 2, "t": 1, "r": 1, "b": 1, "fill": ""},
                {"kind": "aligned", "w": 6, "h": 4, "ha": 2, "va": 1, "fill": ""},
                {"kind": "aligned", "w": 5, "h": 3, "ha": 1, "va": 2, "fill": ""}):
        for frames, loops in ((1, 1), (2, 1), (3, 2)):
            for r0 in (0, 2):
                out.append(dict(api="new", rw=2, rh=2, frames=frames, loops=loops, cache=False, pad=pad,
                                cols=7, rows=5, tty=True, r0=r0, animate=True, hide_cursor=True,
                                echo_input=True))
    # a still taller than the screen with allow_scroll
    out.append(dict(api="new", rw=2, rh=3, frames=1, loops=1, cache=False,
                    pad={"kind": "exact", "l": 0, "t": 2, "r": 0, "b": 2}, cols=7, rows=5, tty=True,
                    r0=2, animate=True, allow_scroll=True, hide_cursor=True, echo_input=False))
    return out


def old_cases(rng, tier):
    out = []
    cols, rows = 8, 6
    styles = [("block", "other"), ("block", "kitty"), ("kitty", "kitty"), ("kitty", "kitty-old"),
              ("kitty", "kitty-0250"),
              ("kitty", "konsole"), ("iterm2", "iterm2"), ("iterm2", "wezterm"), ("iterm2", "konsole")]
    for style, ident in styles:
        for rw, rh in [(1, 1), (2, 1), (3, 2), (2, 3), (4, 4)]:
            for padw, padh, ha, va in [(0, -2, None, None), (rw, rh, "<", "^"), (6, 5, ">", "_"),
                                       (rw + 1, rh + 2, "|", "-"), (1, 1, None, None), (0, 0, "<", "_"),
                                       # narrower than the render, taller than it: vertical padding only
                                       (1, rh + 2, None, "_"), (max(rw - 1, 1), rh + 1, ">", "^")]:
                pw = max(rw, padw if padw > 0 else max(cols + padw, 1))
                ph = max(rh, padh if padh > 0 else max(rows + padh, 1))
                if pw > cols or ph > rows:
                    continue
                for frames, repeat, cached in [(1, 1, False), (2, 1, False), (3, 2, True), (2, 2, False)]:
                    methods = [None] if style == "block" else ["lines", "whole"]
                    for method in methods:
                        if tier == "quick" and rng.random() < 0.55:
                            continue
                        r0 = rng.choice(sorted({0, max(rows - ph, 0), rows - 1, max(rows - ph - 1, 0)}))
                        case = dict(api="old", style=style, ident=ident, frames=frames, rw=rw, rh=rh,
                                    h_align=ha, pad_width=padw, v_align=va, pad_height=padh,
                                    repeat=repeat, cached=cached, cols=cols, rows=rows,
                                    tty=rng.random() < 0.7, r0=r0, method=method,
                                    cell=None if style == "block" else [2, 4])
                        if style == "kitty" and rng.random() < 0.4:
                            # style-specific draw() arguments of the caller: whatever z-index /
                            # compression is asked for, animation frames must still replace
                            # each other (the per-frame clearing addresses the frames' z-index)
                            case["style_args"] = rng.choice([{"z_index": 5}, {"z_index": -7},
                                                             {"z_index": 5, "compress": 0}])
                        out.append(case)
    return out


def header(case, res):
    cols, rows = case["cols"], case["rows"]
    rw, rh = case["rw"], case["rh"]
    if case["api"] == "new":
        l, t, r, b = pad_dims(case["pad"], (rw, rh), (cols, rows))
        pw, ph = l + rw + r, t + rh + b
        frames = case["frames"]
        animated = frames > 1 and case.get("animate", True)
        last = (frames - 1) if animated else (case.get("seek", 0) if frames > 1 else 0)
        inner = dict(inner="letter", last=65 + last, color=[0, 0, 0])
    else:
        padw, padh = case["pad_width"], case["pad_height"]
        pw = max(rw, padw if padw > 0 else max(cols + padw, 1))
        ph = max(rh, padh if padh > 0 else max(rows + padh, 1))
        ha, va = case["h_align"], case["v_align"]
        l = 0 if ha == "<" else (pw - rw) if ha == ">" else (pw - rw) // 2
        t = 0 if va == "^" else (ph - rh) if va == "_" else (ph - rh) // 2
        last = case["frames"] - 1
        if case["style"] == "block":
            inner = dict(inner="color", last=0, color=drawkit.frame_color(res["path"], last))
        else:
            inner = dict(inner="gfx", last=0, color=[0, 0, 0])
    fill_empty = case["api"] == "new" and case["pad"].get("fill", " ") == ""
    nostack = case["api"] == "old" and case.get("style") == "kitty" and case["ident"].startswith("kitty")
    return dict(cols=cols, rows=rows, r0=case["r0"], pw=pw, ph=ph, l=l, t=t, rw=rw, rh=rh,
                fill_empty=fill_empty, nostack=nostack, mode="clean", outcome=res["outcome"], expect="ok", attrs_equal=res["attrs_equal"],
                wrong_stream=bool(res.get("stale_out")),
                fin=res["fin"], fin_live=bool(res.get("fin_live", True)), state_same=res["state_same"], **inner)


def strip_gfx(stream):
    gfx = []
    for g in stream.gfx:
        gg = dict(g)
        gg["b64len"] = 0
        gfx.append(gg)
    return gfx


def make_trace(case, res):
    st = lexer.lex(res["text"])
    unk = lexer.unknowns(st)
    if unk:
        raise tlc.MachineryError(f"lexer does not know {unk[:3]} in draw() output of {case}")
    h = header(case, res)
    h["toks"] = st.toks or [lexer.tok("nul")]
    h["gfx"] = strip_gfx(st)
    return h


def signature(case, verdict):
    clause = verdict.split(":")[0]
    api = case["api"]
    if api == "new":
        kind = "anim" if case["frames"] > 1 and case.get("animate", True) else "still"
        return f"new-api:{kind}:{clause}"
    kind = "anim" if case["frames"] > 1 else "still"
    return f"old-api:{case['style']}:{kind}:{clause}"


def run_case(case, fault=None):
    return drawkit.run_new(case, fault) if case["api"] == "new" else drawkit.run_old(case, fault)


def validation_table(rep: Report):
    res = tlc.run("MC_DrawValidate", "MC_DrawValidate.cfg", workers=1, timeout=300)
    rep.add_tlc(res)
    if res.violated:
        rep.violation(f"design:DrawValidate:{res.violated}", res.error_text[:1500], {"kind": "design"})
        return
    table = res.tagged("TABLE")
    if len(table) < 2000:
        raise tlc.MachineryError("DrawValidate table not dumped")
    rng = random.Random(rep.seed + 17)
    if rep.tier == "quick":
        old = [t for t in table if t["case"]["api"] == "old"]
        table = [t for t in table if t["case"]["api"] == "new"] + rng.sample(old, 500)
    for row in table:
        c, want = row["case"], row["verdict"]
        rep.evaluations += 1
        if c["api"] == "new":
            # padded size pw x ph realised as render 1x1 + exact padding
            pad = {"kind": "exact", "l": 0, "t": 0, "r": c["pw"] - 1, "b": c["ph"] - 1}
            if c.get("pad") == "relw":    # terminal-relative width, absolute height
                pad = {"kind": "aligned", "w": 0, "h": c["ph"], "ha": 0, "va": 0}
            elif c.get("pad") == "relh":  # absolute width, terminal-relative height
                pad = {"kind": "aligned", "w": c["pw"], "h": 0, "ha": 0, "va": 0}
            case = dict(api="new", rw=1, rh=1, frames=2 if c["multi"] else 1, loops=1, cache=False,
                        pad=pad,
                        cols=c["cols"], rows=c["rows"], tty=False, r0=0, animate=c["animate"],
                        check_size=c["check"], allow_scroll=c["scroll"])
        else:
            case = dict(api="old", style="block", ident="other", frames=2 if c["multi"] else 1,
                        rw=c["rw"], rh=c["rh"], h_align=None, pad_width=c["padw"], v_align=None,
                        pad_height=c["padh"], repeat=1, cached=False, cols=c["cols"], rows=c["rows"],
                        tty=False, r0=0, method=None, animate=c["animate"], scroll=c["scroll"],
                        check_size=c["check"])
        r = run_case(case)
        rep.distinct.add(("table", json.dumps(c, sort_keys=True)))
        got = r["outcome"]
        api = c["api"]
        if got != want:
            rep.violation(
                f"{api}-api:validation:verdict",
                f"draw() size validation: documented {want}, real {got} for {c}",
                {"kind": "table", "case": case, "want": want},
            )
        elif want != "ok" and r["text"]:
            rep.violation(
                f"{api}-api:validation:wrote-before-rejecting",
                f"draw() wrote {r['text']!r} before rejecting with {got} for {c}",
                {"kind": "table", "case": case, "want": want},
            )
    rep.sample({"validation_row": table[0]})


def main(rep: Report, replay: dict | None) -> None:
    from ..env import stubs

    stubs.install()
    rep.assumptions += ASSUMPTIONS
    rep.rule = (
        "clean draws over (render size, padding/alignment, frames, loops/repeat, cache, start row incl. "
        "forced scrolling, tty/non-tty, style x terminal identity x method) each validated token by "
        "token by TLC; validation table enumerated by TLC and replayed; distinct = distinct cases"
    )
    if replay:
        sc = replay["scenario"]
        if sc.get("kind") == "termenv":
            from .. import termenv

            termenv.run(rep, only=sc["env"])
            return
        if sc.get("kind") == "table":
            r = run_case(sc["case"])
            rep.evaluations += 1
            if r["outcome"] != sc["want"] or (sc["want"] != "ok" and r["text"]):
                rep.violation(f"{sc['case']['api']}-api:validation:verdict",
                              f"documented {sc['want']}, real {r['outcome']}, wrote {r['text']!r}", sc)
            return
        cases = [sc["case"]]
    else:
        from .. import draw_model

        draw_model.check(rep)
        draw_model.check_old(rep)
        validation_table(rep)
        # where the terminal size all of the above is validated against comes from: the real
        # get_terminal_size() / draw() in every process environment of TermSizeEnv.tla
        from .. import termenv

        termenv.run(rep)
        rng = random.Random(rep.seed * 977 + 3)
        cases = new_cases(rng, rep.tier) + old_cases(rng, rep.tier)
    traces, owners = [], []
    for case in cases:
        rep.evaluations += 1
        res = run_case(case)
        traces.append(make_trace(case, res))
        owners.append(case)
        rep.distinct.add(json.dumps(case, sort_keys=True))
    verdicts, st, tr = tlc.validate_traces("Trace_Draw", "Trace_Draw.cfg", traces, batch=300,
                                           parallel=8, workers=2, name="c06")
    rep.states += st
    rep.transitions += tr
    rep.traces_validated += len(traces)
    for case, v, trc in zip(owners, verdicts, traces):
        if v["verdict"] != "ok":
            if v["verdict"].startswith("unsupported"):
                raise tlc.MachineryError(f"Terminal.tla: {v['verdict']} for {case}")
            rep.violation(
                signature(case, v["verdict"]),
                f"{v['verdict']} (token {v['at']} of {len(trc['toks'])}); geometry: screen "
                f"{trc['cols']}x{trc['rows']}, start row {trc['r0']}, padded {trc['pw']}x{trc['ph']}, "
                f"render {trc['rw']}x{trc['rh']} at offset ({trc['t']},{trc['l']}); case={json.dumps(case)}",
                {"kind": "draw", "case": case},
            )
    for case in cases[:2] + cases[-2:]:
        rep.sample({"case": case})
