SPECIFICATION Spec
CONSTANTS
  Profiles <- ProfRatioThorough
  Floats <- F2
  Tmos <- T1
  DefaultTmo <- Default
  NonPos = {"zero", "negative"}
  WrongTypes = {"str", "none"}
  TtyWorlds = {TRUE, FALSE}
  ProgWorlds = {FALSE}
  Ops <- OpsRatio
  Variant = "code"
VIEW View
ACTION_CONSTRAINT Dump
INVARIANT InitDump
CHECK_DEADLOCK FALSE
