SPECIFICATION Spec
CONSTANTS
  ChunkSize = 16
  RV = "gate-ignores-palette"
INVARIANT JudgeAccepts
INVARIANT AllRowsSent
INVARIANT ReceiverIdleBetweenStrips
CHECK_DEADLOCK FALSE
