"""C14 / LockOrder: record the lock programs of the public entry points from the REAL code, and
confirm a deadlock schedule on the REAL code.

Run as ``python -m harness.c14_lockorder_worker <job.json>``.  Before ``term_image`` is imported
the process adopts a pty and replaces ``threading.RLock`` / ``threading.Lock`` by a factory that
hands out the instrumented stand-ins of ``env/sched.py`` to callers inside ``term_image`` (every
other caller gets the real thing).  Lock identity = the object: two memoized functions sharing one
lock object get one id.

``record``: every entry point of the table below is run single-threaded in the stated cache
state (cold / warm) and the sequence of acquire / release operations on the library's locks is
its *program* (code -> spec; the programs become the constants of ``specs/LockOrder.tla``).

``confirm``: two entry points are run in two managed threads under the cooperative scheduler,
following a schedule TLC found (one lock operation per step); at its end both threads must be
parked at an acquire of a lock the other one owns.
"""

from __future__ import annotations

import json
import os
import sys
import threading


def main():
    job = json.load(open(sys.argv[1]))
    sys.path.insert(0, job["src"])
    for k in ("TERM_PROGRAM", "TERM_PROGRAM_VERSION"):
        os.environ.pop(k, None)
    from harness.env import c15_pty, sched

    master = c15_pty.become_pty_process(80, 24, 0, 0)

    def answer(kind, m):
        if kind == "winop":
            return b"\x1b[4;384;640t" if m.group("winop") == b"4" else b""
        if kind == "osc":
            return b"\x1b]%d;rgb:1212/3434/5656\x1b\\" % int(m.group("osc"))
        if kind == "xtversion":
            return b"\x1bP>|konsole(22.12.3)\x1b\\"
        if kind == "da1":
            return c15_pty.DA1_REPLY
        return b""

    resp = c15_pty.Responder(master, answer)
    resp.start()

    ctl = sched.Controller(groups=["lo"])
    locks: list = []
    real_rlock, real_lock = threading.RLock, threading.Lock

    def factory(reentrant):
        def make(*a, **k):
            f = sys._getframe(1)
            mod = f.f_globals.get("__name__", "")
            if not mod.startswith("term_image"):
                return (real_rlock if reentrant else real_lock)(*a, **k)
            lk = sched.SThreadLock(ctl, "lo", reentrant, f"{mod.split('.')[-1]}.{f.f_code.co_name}:{f.f_lineno}")
            lk.lid = len(locks) + 1
            locks.append(lk)
            return lk

        return make

    threading.RLock = factory(True)
    threading.Lock = factory(False)
    import warnings

    warnings.simplefilter("ignore")
    import PIL.Image
    import urwid

    import term_image
    from term_image import utils
    from term_image.image import BlockImage, ITerm2Image, KittyImage, TextImage
    from term_image.widget import UrwidImage, UrwidImageScreen

    threading.RLock, threading.Lock = real_rlock, real_lock
    if utils._tty_fd == -1:
        raise SystemExit("term_image did not adopt the pty")
    if not isinstance(utils._tty_lock, sched.SLock):
        raise SystemExit("instrumentation lost: utils._tty_lock is not an instrumented lock")
    term_image.set_query_timeout(5.0)
    tty_id, cell_id = utils._tty_lock.lid, utils._cell_size_lock.lid
    # name the cache locks after the memoized function that owns them (closure cell `lock`)
    names = {tty_id: "tty", cell_id: "cell"}
    for label, fn in (("fg", utils.get_fg_bg_colors), ("name", utils.get_terminal_name_version),
                      ("isk", TextImage._is_on_kitty)):
        for cell in fn.__closure__ or ():
            try:
                v = cell.cell_contents
            except ValueError:
                continue
            if isinstance(v, sched.SLock):
                names.setdefault(v.lid, "cache:" + label)
    for name in ("_cache_lock",):
        v = getattr(utils, name, None)
        if isinstance(v, sched.SLock):
            names.setdefault(v.lid, "cache:shared")
    for lk in locks:
        names.setdefault(lk.lid, lk.label)

    KittyImage._supported = True
    ITerm2Image._supported = True
    ITerm2Image._TERM = "konsole"
    utils.get_terminal_name_version()
    screen = UrwidImageScreen()
    screen.start()
    img = PIL.Image.new("RGB", (8, 8), (10, 20, 30))
    widget = UrwidImage(ITerm2Image(img))
    canvas = widget.render((80, 24))
    solid = urwid.SolidFill("x").render((80, 24))
    more_c = lambda s: not s.endswith(b"c")  # noqa: E731

    def warm(fg=True, name=True, isk=True, toggle=False):
        for want, fn in ((fg, utils.get_fg_bg_colors), (name, utils.get_terminal_name_version),
                         (isk, TextImage._is_on_kitty)):
            fn._invalidate_cache()
        # order matters: _is_on_kitty computes the name
        if name:
            utils.get_terminal_name_version()
        if isk:
            TextImage._is_on_kitty()
            if not name:
                utils.get_terminal_name_version._invalidate_cache()
        if fg:
            utils.get_fg_bg_colors()
        if toggle:  # public API only: this is how the facts get cold again while a screen is running
            term_image.disable_queries()
            term_image.enable_queries()
        utils._cell_size_cache[:] = [0] * 4
        screen._ti_screen_canv = None

    def draw():
        screen.draw_screen((80, 24), canvas)

    # entry point -> (cache state before the call, callable, role)
    entries = {
        "get_fg_bg_colors[cold]": (dict(fg=False), utils.get_fg_bg_colors, "law"),
        "get_fg_bg_colors[warm]": (dict(), utils.get_fg_bg_colors, "law"),
        "get_terminal_name_version[warm]": (dict(), utils.get_terminal_name_version, "law"),
        "TextImage._is_on_kitty[cold]": (dict(isk=False), TextImage._is_on_kitty, "law"),
        "TextImage._is_on_kitty[warm]": (dict(), TextImage._is_on_kitty, "law"),
        "get_cell_size": (dict(), utils.get_cell_size, "law"),
        "query_terminal": (dict(), lambda: utils.query_terminal(b"\x1b[c", more_c, 5.0), "law"),
        "read_tty": (dict(), utils.read_tty, "law"),
        "UrwidImageScreen.draw_screen[image canvas, facts warm]": (dict(), draw, "law"),
        "UrwidImageScreen.clear_images(now=True)": (dict(), lambda: screen.clear_images(now=True), "law"),
        "UrwidImageScreen.get_available_raw_input": (dict(), screen.get_available_raw_input, "law"),
        # the same fact cold on both sides: outside the law (recorded as an observation)
        "get_terminal_name_version[cold]": (dict(name=False), utils.get_terminal_name_version, "observation"),
        "UrwidImageScreen.draw_screen[image canvas, name cold]": (dict(name=False), draw, "observation"),
        # the same, reached through the public API only
        "UrwidImage(KittyImage(img))[after disable_queries(); enable_queries()]":
            (dict(toggle=True), lambda: UrwidImage(KittyImage(img)), "observation"),
        "UrwidImageScreen.draw_screen[ITerm2Image canvas, after disable_queries(); enable_queries()]":
            (dict(toggle=True), draw, "observation"),
    }

    result: dict = {"locks": {str(k): v for k, v in names.items()}, "tty": tty_id, "cell": cell_id}
    rec: list = []
    ctl.on_lock_op = lambda kind, lk: rec.append([kind, lk.lid])  # type: ignore[attr-defined]

    if job["mode"] == "record":
        programs = {}
        for name, (state, call, role) in entries.items():
            warm(**state)
            del rec[:]
            call()
            programs[name] = {"role": role, "steps": [list(x) for x in rec]}
        result["programs"] = programs
    else:
        a, b = job["pair"]
        state = dict(entries[a][0])
        state.update(entries[b][0])
        warm(**state)
        del rec[:]
        ctl.on_lock_op = None  # type: ignore[attr-defined]
        progs = job["programs"]
        pos = {1: 0, 2: 0}
        ctl.spawn(1, entries[a][1])
        ctl.spawn(2, entries[b][1])
        log = []
        ok = True
        for t in (1, 2):
            ctl.resume(t)  # from the initial park to the first lock operation
        for t in job["schedule"]:
            mt = ctl.threads[t]
            want = progs[t - 1][pos[t]]
            at = mt.at
            have = [{"acquire": "acq", "release": "rel"}.get(at[0], at[0]), getattr(at[1], "lid", None)] if at else None
            if mt.done or have != want:
                ok = False
                log.append(f"thread {t}: recorded step {want}, real thread at {have}")
                break
            pos[t] += 1
            ctl.resume(t)
        blocked = {}
        if ok:
            for t, mt in ctl.threads.items():
                at = mt.at
                if at and at[0] in ("acquire", "blocked") and not at[1].free_for(mt):
                    owner = at[1].owner
                    blocked[t] = {"waits_for": at[1].lid, "held_by": getattr(owner, "tid", None)}
        result["confirm"] = {"followed": ok, "log": log, "blocked": blocked,
                             "deadlock": ok and set(blocked) == {1, 2} and all(
                                 blocked[t]["held_by"] == 3 - t for t in blocked)}
    with open(job["result_file"], "w") as f:
        json.dump(result, f)
    os._exit(0)


if __name__ == "__main__":
    main()
