----------------------------- MODULE TermCache -----------------------------
(***************************************************************************)
(* C15: cached terminal facts never outlive the condition they were         *)
(* computed under.                                                         *)
(*                                                                         *)
(* Model of the caches of term_image (utils._cell_size_cache keyed by the   *)
(* terminal size in cells, the `cached` memo tables of get_fg_bg_colors /   *)
(* get_terminal_name_version, the FIXED / DYNAMIC / float cell ratio,       *)
(* AutoCellRatio.is_supported) under every history of terminal resizes      *)
(* (cells and / or pixels), swap toggles, query enabling / disabling and    *)
(* ratio mode changes.  The invariants do not mention the caches: they      *)
(* compare every returned value with what TermCacheCore allows for the      *)
(* current terminal and settings.                                           *)
(***************************************************************************)
EXTENDS TermCacheCore, TLC

CONSTANTS
  Sizes,     \* set of <<cols, rows>>
  Pixels,    \* set of <<xpx, ypx>>
  Ratios,    \* set of <<num, den>> (explicit float ratios)
  XtModes,   \* subset of {"cell", "text", "none"}
  IoPx,      \* subset of BOOLEAN: does TIOCGWINSZ carry pixel sizes
  Ops,       \* subset of {"cell", "memo"}: which groups of operations are explored
  Faults,    \* subset of {"kbd", "exc"}: exceptions (KeyboardInterrupt / an Exception subclass) that may be
             \* raised out of a terminal query during a cache-miss look-up
  Variant    \* "code" or a seeded regression of the model

Nil == <<>>
MemoKeys == {"colors", "colorshex", "name"}

VARIABLES
  env,      \* environment record (TermCacheCore)
  swap, queries,
  cr,       \* term_image._cell_ratio: <<n, d>> or Nil (DYNAMIC)
  isSup,    \* AutoCellRatio.is_supported: "unknown" | "yes" | "no"
  cache,    \* utils._cell_size_cache: <<cols, rows, cw, ch>>
  memo,     \* memo[k] \in {"miss", "real", "none"}: memo tables of the `cached` query functions
  bodies,   \* bodies[k]: body executions of memoized function k since its last invalidation
  basis,    \* history variable of the specification (TermCacheCore!BasisAfterGet)
  pend,     \* history variable: the facts ("cell" or a memo key) whose last look-up was cut short by an
            \* exception and for which no look-up has completed (and no toggle has discarded them) since
  out       \* last operation, arguments, result, number of query round trips it made;
            \* fault = the exception raised out of the query ("" = none), aff = the operation looked up a
            \* fact that was in `pend` (it ran After a Failed look-up of the same Fact)

vars == <<env, swap, queries, cr, isSup, cache, memo, bodies, basis, pend, out>>
View == <<env, swap, queries, cr, isSup, cache, memo, bodies, basis, pend>>

NoQ == [winops |-> 0, colors |-> 0, name |-> 0]
OutA(op, arg, res, q, aff) == [op |-> op, arg |-> arg, res |-> res, q |-> q, err |-> FALSE, fault |-> "", aff |-> aff]
Out(op, arg, res, q) == OutA(op, arg, res, q, FALSE)
\* the exception `f` propagated out of the operation: no result
OutF(op, arg, q, f, aff) == [op |-> op, arg |-> arg, res |-> <<>>, q |-> q, err |-> TRUE, fault |-> f, aff |-> aff]

-----------------------------------------------------------------------------
(* the library's get_cell_size(): returns [cell, cache', asked] *)
CacheHit ==
  IF Variant = "colsonly" THEN cache[1] = env.cols
  ELSE cache[1] = env.cols /\ cache[2] = env.rows

GetCell(c) ==  \* c = the cache the call starts from
  LET hit == IF Variant = "colsonly" THEN c[1] = env.cols ELSE c[1] = env.cols /\ c[2] = env.rows IN
  IF hit THEN [cell |-> Norm(<<c[3], c[4]>>), cache |-> c, asked |-> FALSE]
  ELSE LET r == Compute(env, swap, queries) IN
       [cell |-> r.cell, cache |-> <<env.cols, env.rows, r.cell[1], r.cell[2]>>, asked |-> r.asked]

Zero == <<0, 0, 0, 0>>

Init ==
  /\ env \in [cols : {s[1] : s \in Sizes}, rows : {s[2] : s \in Sizes}, xpx : {p[1] : p \in Pixels},
              ypx : {p[2] : p \in Pixels}, iopx : IoPx, xt : XtModes]
  /\ <<env.cols, env.rows>> \in Sizes /\ <<env.xpx, env.ypx>> \in Pixels
  /\ swap = FALSE /\ queries = TRUE
  /\ cr = <<1, 2>>
  /\ isSup = "unknown"
  /\ cache = Zero
  /\ memo = [k \in MemoKeys |-> "miss"]
  /\ bodies = [k \in MemoKeys |-> 0]
  /\ basis = Nil
  /\ pend = {}
  /\ out = Out("init", <<>>, <<>>, NoQ)

(* ---- environment ---- *)
Resize ==
  /\ "cell" \in Ops
  /\ \E s \in Sizes, p \in Pixels :
       /\ <<s, p>> # <<<<env.cols, env.rows>>, <<env.xpx, env.ypx>>>>
       /\ env' = [env EXCEPT !.cols = s[1], !.rows = s[2], !.xpx = p[1], !.ypx = p[2]]
       /\ out' = Out("Resize", <<s[1], s[2], p[1], p[2]>>, <<>>, NoQ)
  /\ UNCHANGED <<swap, queries, cr, isSup, cache, memo, bodies, basis, pend>>

(* ---- settings ---- *)
EnableSwap ==
  /\ "cell" \in Ops
  /\ swap' = TRUE
  /\ cache' = IF ~swap /\ Variant # "noswapclear" THEN Zero ELSE cache
  /\ basis' = IF ~swap THEN Nil ELSE basis
  /\ pend' = IF ~swap THEN pend \ {"cell"} ELSE pend
  /\ out' = Out("EnableSwap", <<>>, <<>>, NoQ)
  /\ UNCHANGED <<env, queries, cr, isSup, memo, bodies>>

DisableSwap ==
  /\ "cell" \in Ops
  /\ swap' = FALSE
  /\ cache' = IF swap THEN Zero ELSE cache
  /\ basis' = IF swap THEN Nil ELSE basis
  /\ pend' = IF swap THEN pend \ {"cell"} ELSE pend
  /\ out' = Out("DisableSwap", <<>>, <<>>, NoQ)
  /\ UNCHANGED <<env, queries, cr, isSup, memo, bodies>>

EnableQueries ==
  /\ queries' = TRUE
  /\ IF ~queries
       THEN /\ memo' = IF Variant = "noqueryinval" THEN [memo EXCEPT !["name"] = "miss"] ELSE [k \in MemoKeys |-> "miss"]
            /\ bodies' = IF Variant = "noqueryinval" THEN [bodies EXCEPT !["name"] = 0] ELSE [k \in MemoKeys |-> 0]
            /\ cache' = IF Variant = "noquerycellclear" THEN cache ELSE Zero
            /\ basis' = Nil
            /\ pend' = {}
       ELSE UNCHANGED <<memo, bodies, cache, basis, pend>>
  /\ out' = Out("EnableQueries", <<>>, <<>>, NoQ)
  /\ UNCHANGED <<env, swap, cr, isSup>>

DisableQueries ==
  /\ queries' = FALSE
  /\ out' = Out("DisableQueries", <<>>, <<>>, NoQ)
  /\ UNCHANGED <<env, swap, cr, isSup, cache, memo, bodies, basis, pend>>

(* ---- cell size and ratio ---- *)
GetCellSize ==
  /\ "cell" \in Ops
  /\ LET g == GetCell(cache) IN
       /\ cache' = g.cache
       /\ out' = OutA("GetCellSize", <<>>, g.cell, [NoQ EXCEPT !.winops = IF g.asked THEN 1 ELSE 0], "cell" \in pend)
  /\ basis' = BasisAfterLookup(basis, env, "cell" \in pend)
  /\ pend' = pend \ {"cell"}
  /\ UNCHANGED <<env, swap, queries, cr, isSup, memo, bodies>>

GetRatio ==
  /\ "cell" \in Ops
  /\ IF cr # Nil
       THEN /\ out' = Out("GetRatio", <<>>, cr, NoQ)
            /\ UNCHANGED <<cache, basis, pend>>
       ELSE LET g == GetCell(cache) IN
            /\ cache' = g.cache
            /\ basis' = BasisAfterLookup(basis, env, "cell" \in pend)
            /\ pend' = pend \ {"cell"}
            /\ out' = OutA("GetRatio", <<>>, RatioOf(g.cell), [NoQ EXCEPT !.winops = IF g.asked THEN 1 ELSE 0], "cell" \in pend)
  /\ UNCHANGED <<env, swap, queries, cr, isSup, memo, bodies>>

SetRatioFloat ==
  /\ "cell" \in Ops
  /\ \E r \in Ratios :
       /\ cr' = r
       /\ out' = Out("SetRatio", r, <<>>, NoQ)
  /\ UNCHANGED <<env, swap, queries, isSup, cache, memo, bodies, basis, pend>>

\* set_cell_ratio(AutoCellRatio.FIXED | DYNAMIC)
SetRatioAuto ==
  /\ "cell" \in Ops
  /\ \E m \in {"FIXED", "DYNAMIC"} :
       LET g1 == GetCell(cache)                        \* support check (only while is_supported is None)
           c1 == IF isSup = "unknown" THEN g1.cache ELSE cache
           a1 == isSup = "unknown" /\ g1.asked
           sup == IF isSup = "unknown" THEN (IF g1.cell # None THEN "yes" ELSE "no") ELSE isSup
           g2 == GetCell(c1)                           \* FIXED: the snapshot
           doFixed == sup = "yes" /\ m = "FIXED"
           nq == (IF a1 THEN 1 ELSE 0) + (IF doFixed /\ g2.asked THEN 1 ELSE 0)
           looked == isSup = "unknown" \/ doFixed     \* get_cell_size() was called
       IN
       /\ isSup' = sup
       /\ cache' = IF doFixed THEN g2.cache ELSE c1
       /\ basis' = IF looked THEN BasisAfterLookup(basis, env, "cell" \in pend) ELSE basis
       /\ pend' = IF looked THEN pend \ {"cell"} ELSE pend
       /\ cr' = IF sup = "no" THEN cr ELSE IF m = "FIXED" THEN RatioOf(g2.cell) ELSE Nil
       /\ out' = [op |-> "SetRatio", arg |-> <<m>>, res |-> <<>>, q |-> [NoQ EXCEPT !.winops = nq], err |-> sup = "no",
                  fault |-> "", aff |-> looked /\ "cell" \in pend]
  /\ UNCHANGED <<env, swap, queries, memo, bodies>>

(* ---- memoized query functions ---- *)
Memoized(k, op) ==
  /\ "memo" \in Ops
  /\ IF memo[k] = "miss"
       THEN LET v == IF queries THEN "real" ELSE "none" IN
            /\ memo' = [memo EXCEPT ![k] = v]
            /\ bodies' = [bodies EXCEPT ![k] = @ + 1]
            /\ out' = OutA(op, <<k>>, <<v>>, [NoQ EXCEPT ![IF k = "name" THEN "name" ELSE "colors"] = IF queries THEN 1 ELSE 0], k \in pend)
       ELSE /\ out' = OutA(op, <<k>>, <<memo[k]>>, NoQ, k \in pend)
            /\ UNCHANGED <<memo, bodies>>
  /\ pend' = pend \ {k}
  /\ UNCHANGED <<env, swap, queries, cr, isSup, cache, basis>>

GetColors == \E k \in {"colors", "colorshex"} : Memoized(k, "GetColors")
GetName == Memoized("name", "GetName")

(* ---- faults: an exception (Ctrl-C => KeyboardInterrupt, termios.error, ...) is raised out of the   ---- *)
(* ---- terminal query of a cache-miss look-up and propagates to the caller.  No look-up completed:   ---- *)
(* ---- nothing is memoized, no setting changes; the history variable `basis` does not move either   ---- *)
(* ---- (no determination took place).  The seeded regressions of the model leave an interim entry.  ---- *)
W1 == [NoQ EXCEPT !.winops = 1]

\* get_cell_size() / DYNAMIC get_cell_ratio(): the XTWINOPS query is cut short
CellFault ==
  /\ "cell" \in Ops
  /\ GetCell(cache).asked
  /\ \E f \in Faults, op \in {"GetCellSize", "GetRatio"} :
       /\ op = "GetRatio" => cr = Nil
       /\ out' = OutF(op, <<>>, W1, f, "cell" \in pend)
  /\ cache' = IF Variant = "interimcell" THEN <<env.cols, env.rows, 0, 0>> ELSE cache
  /\ pend' = pend \cup {"cell"}
  /\ UNCHANGED <<env, swap, queries, cr, isSup, memo, bodies, basis>>

\* set_cell_ratio(FIXED | DYNAMIC): the query of the one-time support check, or of the FIXED snapshot, is
\* cut short: neither the support status nor the ratio changes
SetRatioFault ==
  /\ "cell" \in Ops
  /\ GetCell(cache).asked
  /\ \E f \in Faults, m \in {"FIXED", "DYNAMIC"} :
       /\ isSup = "unknown" \/ (isSup = "yes" /\ m = "FIXED")
       /\ out' = OutF("SetRatio", <<m>>, W1, f, "cell" \in pend)
  /\ cache' = IF Variant = "interimcell" THEN <<env.cols, env.rows, 0, 0>> ELSE cache
  /\ pend' = pend \cup {"cell"}
  /\ UNCHANGED <<env, swap, queries, cr, isSup, memo, bodies, basis>>

\* a memoized query function: the body raises (failed executions do not count for BodyOnce, as in Memo!BodyFail)
MemoFault ==
  /\ "memo" \in Ops
  /\ queries
  /\ \E f \in Faults, k \in MemoKeys :
       /\ memo[k] = "miss"
       /\ out' = OutF(IF k = "name" THEN "GetName" ELSE "GetColors", <<k>>,
                      [NoQ EXCEPT ![IF k = "name" THEN "name" ELSE "colors"] = 1], f, k \in pend)
       /\ memo' = IF Variant = "interimmemo" THEN [memo EXCEPT ![k] = "none"] ELSE memo
       /\ pend' = pend \cup {k}
  /\ UNCHANGED <<env, swap, queries, cr, isSup, cache, bodies, basis>>

Next ==
  \/ Resize \/ EnableSwap \/ DisableSwap \/ EnableQueries \/ DisableQueries
  \/ SetRatioFloat \/ SetRatioAuto \/ GetCellSize \/ GetRatio \/ GetColors \/ GetName
  \/ CellFault \/ SetRatioFault \/ MemoFault

Spec == Init /\ [][Next]_vars

-----------------------------------------------------------------------------
(* Properties: no mention of `cache` / `memo` *)

\* (each clause below is stated for an operation that returned; the same clause for an operation that
\* ran after a failed look-up of the same fact - out.aff - is FaultFresh)
CellOK == out.res \in AllowedCells(basis, env, swap, queries)
RatioOK == \E a \in AllowedRatios(basis, env, swap, queries) : SameRatio(out.res, a)
FixedOK == \E a \in AllowedRatios(basis, env, swap, queries) : SameRatio(cr, a)
MemoOK == /\ (queries => out.res = <<"real">>)
          /\ (out.res = <<"none">> => ~queries)
Returned == ~out.err

CellFresh == out.op = "GetCellSize" /\ Returned /\ ~out.aff => CellOK

\* the DYNAMIC ratio follows the terminal; an explicit or FIXED ratio is what was set
RatioFresh == out.op = "GetRatio" /\ cr = Nil /\ Returned /\ ~out.aff => RatioOK

\* FIXED takes its snapshot from the terminal as it is when set
FixedSnapshot == out.op = "SetRatio" /\ out.arg = <<"FIXED">> /\ Returned /\ ~out.aff => FixedOK

\* results obtained while queries were disabled are not returned once they are enabled again;
\* and nothing but the terminal's own answer is ever reported as such
MemoFresh == out.op \in {"GetColors", "GetName"} /\ Returned /\ ~out.aff => MemoOK

\* a look-up that was cut short by an exception leaves nothing behind: whatever is returned (or refused)
\* afterwards is what a fresh computation gives for the current terminal and settings
FaultFresh ==
  out.aff =>
    /\ (out.op = "GetCellSize" /\ Returned => CellOK)
    /\ (out.op = "GetRatio" /\ cr = Nil /\ Returned => RatioOK)
    /\ (out.op = "SetRatio" /\ out.arg = <<"FIXED">> /\ Returned => FixedOK)
    /\ (out.op \in {"GetColors", "GetName"} /\ Returned => MemoOK)

\* a memoized function runs its body at most once per argument tuple until invalidated
BodyOnce == \A k \in MemoKeys : bodies[k] <= 1

TypeOK ==
  /\ pend \subseteq {"cell"} \cup MemoKeys
  /\ cache \in Seq(Nat) /\ Len(cache) = 4
  /\ isSup \in {"unknown", "yes", "no"}
  /\ \A k \in MemoKeys : memo[k] \in {"miss", "real", "none"}
=============================================================================
