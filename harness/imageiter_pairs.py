"""C09, image-iterator half: paired cached / uncached ImageIterators on real images.

Reuses the C11 machinery (specs/ImageIter.tla, Trace_ImageIter.tla, harness/c11_world.py):
seeded random histories in which every iterator has a twin with the opposite cache setting,
with image-size changes, dynamic sizes + terminal resizes and seeks between visits of the same
frame; TLC judges every history (clauses cache-visible / frame-size / frame-index ...).
"""

from __future__ import annotations

import random
from collections import Counter

from . import tlc
from .core import Report


def run(rep: Report, replay: dict | None) -> None:
    if replay:
        return
    from .drivers import c11

    W = c11.W
    server = W.setup(rep.seed + 7)
    stats: Counter = Counter()
    try:
        hrng = random.Random(rep.seed * 7907 + 5)
        styles = ["block", "kitty", "iterm2"]
        n = 200 if rep.tier == "quick" else 2500
        length = 28 if rep.tier == "quick" else 40
        traces = []
        for i in range(n):
            cfg = W.make_config(hrng, styles[i % 3])
            traces.append(c11.random_history((cfg, server, hrng), hrng, length))
        verdicts = c11.validate(rep, traces, "c09-img", stats)
        for tr_ in traces:
            c11.account(stats, rep, tr_)
        c11.report_failures(rep, traces, verdicts, "random history (image-iterator half of C09)")
        if not stats.get("pairs"):
            raise tlc.MachineryError("C09 image-iterator half: no paired iterators were exercised")
        rep.extra["image_iterator_pairs"] = dict(histories=n, pairs=stats.get("pairs", 0),
                                                 cache_hits_expected=stats.get("hits_expected", 0))
        rep.sample({"origin": "image-iterator pairs",
                    "ops": [e["a"]["op"] for e in traces[0]["events"]][:24]})
    finally:
        W.teardown()
