-------------------------- MODULE MC_RenderIterCtor --------------------------
EXTENDS RenderIterCtor
VARIABLES c, done
Init == /\ c \in {x \in Cases : Relevant(x)} /\ done = FALSE
        /\ PrintT(<<"TABLE", ToJson([case |-> c, verdict |-> Verdict(c), loop |-> Loop(c), cached |-> Cached(c),
                                    survives |-> CallerDataSurvives(c)])>>)
Next == ~done /\ done' = TRUE /\ UNCHANGED c
Spec == Init /\ [][Next]_<<c, done>>
\* an accepted INDEFINITE iterator never caches and loops once
\* the verdict never depends on whether the sizes fit the terminal
FitsIrrelevant == c.fits # "padding-raises" => Verdict(c) = Verdict([c EXCEPT !.fits = "yes"])
\* unusable render data is rejected whoever owns it
OwnershipIrrelevant == Verdict(c) = Verdict([c EXCEPT !.finalize = TRUE])
IndefiniteSane == (Verdict(c) = "ok" /\ c.frames = 0) => (Loop(c) = 1 /\ ~Cached(c))
=============================================================================
