----------------------------- MODULE MC_GfxB64 -----------------------------
(***************************************************************************)
(* C03 (f): the base64 ENCODER of a payload composed with the stream       *)
(* clauses, for every payload size of SizeGrid (0..48, k*2^16 + d,         *)
(* k*2^20 + d for k = 1..3 and d = -2..2, 3*2^14 +- 1, 3*2^18 +- 1,        *)
(* 2^21 + 1, 2^22 + 1, 2^23 + 1): the payload SIZE CLASSES of the          *)
(* property's quantifier.                                                  *)
(*                                                                         *)
(*   Block = 0        the code as written: standard_b64encode(all bytes)   *)
(*                    (kitty Transmission.encode, iTerm2 LINES / WHOLE /   *)
(*                    ANIM payloads)                                       *)
(*   Block = 786432   a CORRECT alternative (blocks of 3*2^18 bytes): must *)
(*                    be accepted - the clauses do not demand one piece    *)
(*   Block = 1048576, 65536   regressions (2^k is not a multiple of 3):    *)
(*                    every full block carries its own padding; must       *)
(*                    violate StreamWellFormed                             *)
(*                                                                         *)
(* At the end of each behaviour the stream is printed (<<"STREAM", ...>>). *)
(* The driver realises the sizes as REAL payloads (source files of exactly *)
(* n bytes sent as they are by iTerm2 WHOLE / native ANIM renders; kitty   *)
(* Transmission.encode of n bytes), compares the real stream's (len, pad,  *)
(* pad1) with the model's and has the renders judged by Trace_Gfx.         *)
(***************************************************************************)
EXTENDS Gfx, Json

CONSTANT Block

VARIABLES s
vars == <<s>>

Init == s \in {EInit(n) : n \in SizeGrid}

\* one named action per way a piece of the stream comes about
EncodeWhole == ~s.done /\ Block = 0 /\ s' = EStep(s, Block)
EncodeBlock == ~s.done /\ Block # 0 /\ ERead(s, Block) > 0 /\ s' = EStep(s, Block)
EndOfStream == ~s.done /\ Block # 0 /\ ERead(s, Block) = 0 /\ s' = EStep(s, Block)

Next == EncodeWhole \/ EncodeBlock \/ EndOfStream
Spec == Init /\ [][Next]_vars

StreamWellFormed == s.done => B64StreamClause(s.len, s.pad, s.pad1) = "ok"
\* what size= (iTerm2) / s*v*bpp (kitty, uncompressed) announce is what a decoder obtains
DecodesToAll == s.done => (s.pos = s.n /\ DecodedLen(s.len, s.pad) = s.n)
StepMachineAgrees == s.done => Stream(s.n, Block) = s

Report == s.done => PrintT(<<"STREAM", ToJson([n |-> s.n, len |-> s.len, pad |-> s.pad, pad1 |-> s.pad1,
                                               nblk |-> s.nblk, cls |-> PayloadClass(s.n)])>>)
=============================================================================
