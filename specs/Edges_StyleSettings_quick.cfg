SPECIFICATION Spec
CONSTANTS
  MaxWeight = 2
  Rich = FALSE
VIEW View
CONSTRAINT Bound
ACTION_CONSTRAINT Dump
INVARIANT InitDump
CHECK_DEADLOCK FALSE
