------------------------------- MODULE TtyInit -------------------------------
(***************************************************************************)
(* C14: the lock hand-over to child processes exists whenever the library   *)
(* has an active terminal.                                                  *)
(*                                                                         *)
(* At import term_image.utils looks for its active terminal: the tty behind *)
(* stdout, stdin, stderr (in that order), else /dev/tty (the controlling    *)
(* terminal).  An initialisation environment says which of the four is a    *)
(* terminal.  lock_tty documents that it works across processes started via *)
(* multiprocessing.Process; that needs Process.start / Process.run to be    *)
(* wrapped (TtyLock.tla: start wrapper, run wrapper) in EVERY environment   *)
(* in which a terminal was found - otherwise a child synchronizes on a      *)
(* private lock while talking to the same terminal.                         *)
(***************************************************************************)
EXTENDS Naturals, Sequences

Envs == [out : BOOLEAN, inp : BOOLEAN, err : BOOLEAN, ctty : BOOLEAN]

\* which one the library uses
Source(e) ==
  IF e.out THEN "stdout" ELSE IF e.inp THEN "stdin" ELSE IF e.err THEN "stderr"
  ELSE IF e.ctty THEN "/dev/tty" ELSE "none"
Found(e) == Source(e) # "none"

\* observation of one real import: [found, start, run] (terminal adopted, Process.start / run wrapped)
InitClause(e, o) ==
  IF o.found # Found(e) THEN
    "ActiveTerminal: the library's decision whether it has an active terminal differs from the documented search order"
  ELSE IF Found(e) /\ ~(o.start /\ o.run) THEN
    "HandOver: an active terminal was found but Process.start / Process.run are not wrapped - child processes get a private terminal lock"
  ELSE IF ~Found(e) /\ (o.start \/ o.run) THEN
    "HandOver: Process.start / Process.run are wrapped although there is no active terminal"
  ELSE "ok"
=============================================================================
