SPECIFICATION Spec
CONSTANTS
  Ident = "forced"
  Style3 = "block"
  Bits = 3
  Fams = {"Q", "O", "T", "I"}
  WithBad = FALSE
  WithInv = FALSE
  Dyn = FALSE
  WithDC = FALSE
  WithWinch = FALSE
VIEW View
INVARIANT PlacementsExact
INVARIANT NoDuplicates
INVARIANT OutputBracketed
INVARIANT DeletionsFirst
INVARIANT ClearedOnStartStopClear
INVARIANT ClearedByDirectCall
INVARIANT NoGraphicsIfUnsupported
INVARIANT TerminalSane
INVARIANT DistinctZ
INVARIANT AllocatorSound
INVARIANT NoOrphanZ
CHECK_DEADLOCK FALSE
