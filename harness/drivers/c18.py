"""C18 - the urwid screen never leaves a ghost image behind.

model:   specs/UrwidScreen.tla (terminal placements + library bookkeeping + urwid's line cache,
         one action per API operation), specs/UrwidAlloc.tla (z-index allocator to exhaustion);
         TLC exhaustive for several terminal identities / widget mixes (MC_UrwidScreen*.cfg).
binding: spec -> code: every edge of the coarse-view edge dump (layout on screen x next
         operation) and every allocator edge is replayed as a REAL history (real urwid trees,
         real UrwidImageScreen.draw_screen, captured output stream);
         code -> spec: each history (plus seeded random ones with richer layouts, widget
         creation / garbage collection / invalidation, start/stop/clear, failing draws) is
         lexed and judged by TLC with specs/Trace_UrwidScreen.tla.
"""

from __future__ import annotations

import json
import random
import re
import time
from collections import defaultdict, deque

from .. import c18_world as cw
from .. import graph, tlc
from ..core import Report
from ..tlc import MachineryError

ASSUMPTIONS = [
    "terminal semantics of specs/Terminal.tla: kitty a=T places at the cursor over c x r cells, "
    "d=A deletes all placements, d=Z,z=n those with z-index n, d=C those intersecting the cursor "
    "cell; iTerm2 File= with doNotMoveCursor (Konsole) places at the cursor; text written over a "
    "placement does not remove it; placements are compared as SETS of (protocol, z, row, col, "
    "width, height, widget, image line): re-sending the same line at the same cell and z-index "
    "(Konsole replaces it) is not a ghost",
    "IRM (CSI 4 h/l), which urwid uses to slide the bottom-right character into place, shifts cells "
    "only; cell contents are not judged by C18",
    "expected placements are computed in TLA+ from the LAYOUT (UrwidScreenCore!Sem / ImpliedBy): "
    "images keep their natural size, centred in their canvas; horizontally trimmed graphics "
    "canvases show blanks (documented); cross-checked against a full paint of the real canvas",
    "canvas identity: a widget keeps its canvas object between redraws while it stays on screen "
    "unless it was invalidated (urwid CanvasCache); the driver reports invalidations (gen)",
    "a draw_screen call that fails inside urwid (size mismatch, ValueError) must still close the "
    "synchronized update; exact placements are required again after the next clear()/stop() "
    "(TLC shows that two consecutive failed draws can alias the modulo-3 disguise counter)",
    "iterm2 images are judged on Konsole only (elsewhere they are part of the text cells and the "
    "screen does not track them); on a terminal without graphics support only block images exist "
    "and no graphics command may be written",
    "canvas lifetime: 'release' = the application drops its reference to the canvas it passed last (as urwid's "
    "MainLoop does); the harness lets go of the object when the next frame is rendered (after building the "
    "widget tree, before render) - no screen method runs in between, so the library cannot tell the difference, "
    "and the next canvas is allocated right after the free (the condition under which CPython reuses the address)",
    "mechanism-level clauses compare UrwidImageScreen._ti_image_cviews, the delete commands and the "
    "change of the disguise text with UrwidScreenCore!LibDiff (anchors of the property)",
]

MC_JOBS = {
    # name: (spec, cfg, quick?, workers)
    "kitty": ("UrwidScreen", "MC_UrwidScreen.cfg"),
    "konsole": ("UrwidScreen", "MC_UrwidScreen_konsole.cfg"),
    "other": ("UrwidScreen", "MC_UrwidScreen_other.cfg"),
    "forced": ("UrwidScreen", "MC_UrwidScreen_forced.cfg"),
    "dyn": ("UrwidScreen", "MC_UrwidScreen_dyn.cfg"),
    "bad": ("UrwidScreen", "MC_UrwidScreen_bad.cfg"),
    "winch": ("UrwidScreen", "MC_UrwidScreen_winch.cfg"),
    "alloc": ("UrwidAlloc", "MC_UrwidAlloc.cfg"),
}
MC_ACTIONS = {
    "UrwidScreen": ["Start", "Stop", "Clear", "Redraw", "RedrawSame"],
    "UrwidAlloc": ["New", "Drop"],
}

_COV = re.compile(r"^<(\w+) line \d+, col \d+ to line \d+, col \d+ of module (\w+)(?: \([\d ]+\))?>: (\d+):(\d+)", re.M)

JVM = ["-Xmx4g", "-Xss32m", "-XX:ParallelGCThreads=4"]
# short TLC runs (trace batches, edge dumps): C1 only and few GC threads halve their CPU time
JVM_SHORT = ["-Xmx4g", "-Xss32m", "-XX:TieredStopAtLevel=1", "-XX:ParallelGCThreads=2"]


def coverage_of(res) -> dict:
    return {m.group(1): (int(m.group(3)), int(m.group(4))) for m in _COV.finditer(res.stdout)}


# ----------------------------------------------------------------------- model checking


def run_models(rep: Report) -> None:
    suffix = "" if rep.tier == "quick" else "_T"
    jobs, names = [], []
    for name, (spec, cfg) in MC_JOBS.items():
        c = cfg.replace(".cfg", f"{suffix}.cfg")
        if not (tlc.SPECS / c).exists():
            c = cfg
        names.append((name, spec, c))
        jobs.append(dict(spec=spec, cfg=c, workers=4 if rep.tier == "quick" else 8,
                         timeout=420 if rep.tier == "quick" else 1500,
                         coverage=True, check=False, jvm=JVM))
    results = tlc.run_many(jobs, parallel=3 if rep.tier == "quick" else 2)
    mc = {}
    for (name, spec, cfg), res in zip(names, results):
        if res.violated:
            rep.violation(
                f"design:{spec}:{cfg}:{res.violated}",
                f"the design-level model violates {res.violated} ({cfg})\n" + res.error_text[:1500],
                {"kind": "design", "cfg": cfg},
            )
        elif res.rc != 0:
            raise MachineryError(f"TLC failed on {spec} {cfg}:\n" + "\n".join(res.stdout.splitlines()[-30:]))
        cov = coverage_of(res)
        need = list(MC_ACTIONS[spec])
        if name == "dyn":
            need += ["NewWidget", "DropWidget"]
        if name == "bad":
            need += ["RedrawBad"]
        if name == "winch":
            need += ["Sigwinch", "ResizeHandled"]
        if name in ("winch", "bad"):
            need += ["ReleaseCanvas"]
        vac = [a for a in need if cov.get(a, (0, 0))[1] == 0]
        if vac and not res.violated:
            raise MachineryError(f"vacuous model {cfg}: actions never taken: {vac}")
        rep.add_tlc(res)
        mc[name] = {"cfg": cfg, "distinct": res.distinct, "generated": res.generated, "depth": res.depth,
                    "complete": res.queue == 0, "wall_s": round(res.wall_s, 1),
                    "actions": {a: cov[a][1] for a in cov if a[0].isupper() and a in need}}
    rep.extra["model_checking"] = mc


# ------------------------------------------------------------------- scripts -> real runs


def run_script(scn: dict) -> tuple[dict, list[dict]]:
    """Execute an operation script against the real code; returns (trace, ops as executed)."""
    w = cw.World(scn["ident"], scn["cols"], scn["rows"], bits=scn.get("bits", 8), base=scn.get("base", 0),
                 seed=scn.get("seed", 0), full_paint=scn.get("full", True))
    try:
        for op in scn["ops"]:
            apply_op(w, op)
        return w.trace(), scn["ops"]
    finally:
        w.close()


def apply_op(w: cw.World, op: dict) -> str:
    k = op["op"]
    if k == "new":
        w.new(op["style"], op["nw"], op["nh"], op.get("sub", 0), op.get("fs", ""))
    elif k == "climg":
        w.clear_images(op["w"], op["now"])
    elif k == "drop":
        w.drop(op["w"])
    elif k == "inval":
        w.inval(op["w"])
    elif k == "start":
        w.start()
    elif k == "stop":
        w.stop()
    elif k == "clear":
        w.clear()
    elif k == "redraw":
        return w.redraw(op["lay"])
    elif k == "bad":
        return w.redraw(op["lay"], bad=True)
    elif k == "lost":
        return w.redraw(op["lay"], lost=True)
    elif k == "winch":
        w.winch()
    elif k == "handled":
        w.handled()
    elif k == "release":
        w.release()
    elif k == "same":
        return w.same(op["lay"])
    else:
        raise MachineryError(f"unknown op {k}")
    return w.events[-1]["exc"]


# --------------------------------------------------------------- spec -> code: edge walks


class Walker:
    """Online edge cover: always heads for the nearest untraversed edge."""

    def __init__(self, g: graph.Graph):
        self.g = g
        self.untrav = {k: {i for i, _ in v} for k, v in g.out.items()}
        self.dest = {i: kt for outs in g.out.values() for i, kt in outs}
        self.src = {i: k for k, outs in g.out.items() for i, _ in outs}
        self.remaining = sum(len(s) for s in self.untrav.values())
        self.blocked: set[int] = set()  # edges after which the real code failed fatally

    def next_edge(self, cur: str):
        cand = [i for i in self.untrav[cur] if i not in self.blocked]
        if cand:
            return min(cand)
        prev = {cur: None}
        dq = deque([cur])
        while dq:
            u = dq.popleft()
            if u != cur and any(i not in self.blocked for i in self.untrav[u]):
                path = []
                while prev[u] is not None:
                    pu, i = prev[u]
                    path.append(i)
                    u = pu
                return path[-1]
            for i, v in self.g.out[u]:
                if v not in prev and i not in self.blocked:
                    prev[v] = (u, i)
                    dq.append(v)
        return None

    def take(self, i: int):
        s = self.untrav[self.src[i]]
        if i in s:
            s.discard(i)
            self.remaining -= 1
        return self.dest[i]


def layout_table(res) -> dict:
    return {graph.key(x["p"]): x["lay"] for x in res.tagged("LAYOUT")}


def edge_histories(rep: Report, cfg: str, ident: str, styles: list, max_len: int, limit: int | None,
                   seed: int, res=None) -> list[dict]:
    if res is None:
        res = tlc.run("UrwidScreen", cfg, workers=1, timeout=600, check=False, jvm=JVM_SHORT)
    if res.rc != 0 or res.violated:
        raise MachineryError(f"edge dump {cfg} failed:\n" + "\n".join(res.stdout.splitlines()[-30:]))
    g = graph.from_result(res)
    lays = layout_table(res)
    if not g.edges or not lays or not g.inits:
        raise MachineryError(f"edge dump {cfg} produced no edges / layouts")
    rep.add_tlc(res)
    wk = Walker(g)
    total = wk.remaining
    scripts = []
    nat = [(4, 3), (2, 2), (4, 2)]
    done = 0
    while wk.remaining and (limit is None or done < limit):
        ops = [dict(op="new", style=styles[i], nw=nat[i][0], nh=nat[i][1], sub=(i + len(scripts)) % 3,
                    fs=fs_for(styles[i], len(scripts) + 2 * i)) for i in range(3)]
        cur = g.inits[0]
        w = cw.World(ident, 8, 5, seed=seed * 100003 + len(scripts))
        try:
            for op in ops:
                apply_op(w, op)
            steps = 0
            progressed = False
            while steps < max_len:
                i = wk.next_edge(cur)
                if i is None:
                    break
                e = g.edges[i]
                o = e["op"]
                if o["op"] in ("redraw", "bad", "same", "lost"):
                    arg = dict(o["arg"])
                    inv = arg["d"] // 10
                    arg["d"] = arg["d"] % 10
                    lay = lays[graph.key(arg)]
                    if inv:
                        op = dict(op="inval", w=inv)
                        ops.append(op)
                        apply_op(w, op)
                    op = dict(op=o["op"], lay=lay)
                elif o["op"] == "climg":
                    op = dict(op="climg", w=o["arg"]["a"], now=bool(o["arg"]["b"]))
                else:
                    op = dict(op=o["op"])
                ops.append(op)
                exc = apply_op(w, op)
                steps += 1
                if i in wk.untrav.get(graph.key(e["from"]), ()):
                    wk.take(i)
                    done += 1
                    progressed = True
                expected = "ValueError" if o["op"] == "bad" else ""
                if exc != expected:
                    wk.blocked.add(i)  # fatal for this history: the Trace spec reports it
                    break
                cur = graph.key(e["to"])
            scripts.append({"scn": dict(ident=ident, cols=8, rows=5, seed=seed * 100003 + len(scripts), ops=ops,
                                        source=f"edges:{cfg}"), "trace": w.trace()})
            if not progressed:
                break
        finally:
            w.close()
    rep.extra.setdefault("edge_cover", {})[cfg] = {
        "edges": total, "replayed": done, "histories": len(scripts),
        "not_replayed": wk.remaining, "coarse_states": g.nodes}
    return scripts


def alloc_histories(rep: Report, seed: int, res=None) -> list[dict]:
    """Replay every edge of the allocator model with real widgets whose fresh indexes end at
    2**31 - 1 (``_ti_next_z_index`` fast-forwarded), following the real pop() choices."""
    if res is None:
        res = tlc.run("UrwidAlloc", "MC_UrwidAlloc_edges.cfg", workers=1, timeout=300, check=False, jvm=JVM_SHORT)
    if res.rc != 0 or res.violated:
        raise MachineryError("allocator edge dump failed:\n" + "\n".join(res.stdout.splitlines()[-30:]))
    g = graph.from_result(res)
    if not g.edges or not g.inits:
        raise MachineryError("allocator edge dump produced no edges")
    rep.add_tlc(res)
    bits = 3
    base = cw.I31 - (2 ** (bits - 1) - 1)
    wk = Walker(g)
    total = wk.remaining
    scripts = []
    done = 0
    guard = 0
    while wk.remaining and guard < 400:
        guard += 1
        cur = g.inits[0]
        ops = []
        w = cw.World("kitty", 8, 5, bits=bits, base=base, seed=seed * 7 + guard, full_paint=False)
        try:
            held = {}  # model z -> wid
            progressed = False
            for _ in range(40):
                i = wk.next_edge(cur)
                if i is None:
                    break
                e = g.edges[i]
                o = e["op"]
                if o["op"] == "new":
                    op = dict(op="new", style="kitty", nw=1, nh=1, sub=o.get("cls", 0),
                              fs="z%d" % [7, 1, -1, 2][len(ops) % 4] if o.get("uz") else "")
                    ops.append(op)
                    wid_before = len(w.meta)
                    apply_op(w, op)
                    ev = w.events[-1]
                    if ev["exc"]:
                        real = dict(e["from"])
                    else:
                        zm = ev["wd"][-1]["zm"]
                        held[zm] = len(w.meta)
                        real = {"nxt": ev["next"], "free": sorted(ev["free"]),
                                "hs": sorted(z for z in held)}
                    # which model edge did the real code take?
                    match = None
                    for j, kt in g.out[cur]:
                        ej = g.edges[j]
                        if (ej["op"]["op"] != "new" or ej["op"].get("cls", 0) != o.get("cls", 0)
                                or ej["op"].get("uz", 0) != o.get("uz", 0)):
                            continue
                        to = ej["to"]
                        if (ev["exc"] != "") == (ej["op"]["res"] != "") and (
                            ev["exc"] or (to["nxt"] == real["nxt"] and sorted(to["free"]) == real["free"]
                                          and sorted(to["hs"]) == real["hs"])):
                            match = (j, kt)
                            break
                    if match is None:
                        break  # outside the model: the Trace spec names the clause
                    j, kt = match
                    if j in wk.untrav[cur]:
                        wk.take(j)
                        done += 1
                        progressed = True
                    cur = kt
                else:
                    z = o["z"]
                    if z not in held:
                        break
                    op = dict(op="drop", w=held.pop(z))
                    ops.append(op)
                    apply_op(w, op)
                    if i in wk.untrav[cur]:
                        wk.take(i)
                        done += 1
                        progressed = True
                    cur = graph.key(e["to"])
            scripts.append({"scn": dict(ident="kitty", cols=8, rows=5, bits=bits, base=base, seed=seed * 7 + guard,
                                        ops=ops, full=False, source="edges:alloc"), "trace": w.trace()})
            if not progressed:
                break
        finally:
            w.close()
    rep.extra.setdefault("edge_cover", {})["MC_UrwidAlloc_edges.cfg"] = {
        "edges": total, "replayed": done, "histories": len(scripts), "not_replayed": wk.remaining}
    return scripts


# ------------------------------------------------------- code -> spec: seeded histories

NATS = [(4, 3), (2, 2), (4, 2), (3, 1), (6, 2), (2, 4), (5, 3)]
# extra style fields of the widgets' format specs: a z field (documented as ignored) that collides with
# allocated indexes / with other widgets' fields, mix and compress
KITTY_FS = ["", "", "z7", "z7", "z1", "z-1m1", "z2c0", "m1", "c0"]
ITERM_FS = ["", "", "m1", "c9"]


def fs_for(style: str, k: int) -> str:
    if style == "kitty":
        return KITTY_FS[k % len(KITTY_FS)]
    if style == "iterm2":
        return ITERM_FS[k % len(ITERM_FS)]
    return ""


class Gen:
    """Random layouts within the grammar of UrwidScreenCore!Sem (always well-formed)."""

    def __init__(self, rng: random.Random, ident: str, cols: int, rows: int):
        self.rng, self.ident, self.cols, self.rows = rng, ident, cols, rows
        self.live: dict[int, tuple[str, int, int]] = {}  # wid -> style, nw, nh
        self.nwid = 0

    def styles(self):
        return {"kitty": ["kitty", "kitty", "block"], "konsole": ["kitty", "iterm2", "iterm2", "block"],
                "forced": ["kitty", "kitty", "block"], "other": ["block"]}[self.ident]

    def fit(self, w, h):
        return [i for i, (_, nw, nh) in self.live.items() if nw <= w and nh <= h]

    def txt(self):
        return {"k": "txt", "ch": self.rng.choice([97, 98, 99, 46, 35, 111])}

    def split(self, total, parts):
        cuts = sorted(self.rng.sample(range(1, total), parts - 1))
        return [b - a for a, b in zip([0] + cuts, cuts + [total])]

    def box(self, w, h, depth=0):
        r = self.rng
        opts = ["txt"]
        if self.fit(w, h):
            opts += ["img"] * 4
        if depth < 3:
            if h >= 2:
                opts += ["pile"] * 3
            if w >= 2:
                opts += ["cols"] * 3
            if w >= 2 and h >= 2:
                opts += ["over"] * 2
            if any(nw <= w for _, nw, _ in self.live.values()):
                opts += ["list", "fill"]
        k = r.choice(opts)
        if k == "txt":
            return self.txt()
        if k == "img":
            return {"k": "img", "wid": r.choice(self.fit(w, h))}
        if k == "pile":
            parts = self.split(h, r.randint(2, min(3, h)))
            return {"k": "pile", "items": [{"n": n, "c": self.box(w, n, depth + 1)} for n in parts]}
        if k == "cols":
            parts = self.split(w, r.randint(2, min(3, w)))
            return {"k": "cols", "items": [{"n": n, "c": self.box(n, h, depth + 1)} for n in parts]}
        if k == "over":
            ow, oh = r.randint(1, w), r.randint(1, h)
            return {"k": "over", "top": self.box(ow, oh, depth + 2), "bot": self.box(w, h, depth + 1),
                    "ox": r.randint(0, w - ow), "oy": r.randint(0, h - oh), "ow": ow, "oh": oh}
        flows = [i for i, (_, nw, _) in self.live.items() if nw <= w]
        if k == "fill":
            ok = [i for i in flows if self.live[i][2] <= h]
            if not ok:
                return self.txt()
            return {"k": "fill", "c": {"k": "img", "wid": r.choice(ok)}, "va": r.choice(["top", "middle", "bottom"])}
        items, total = [], 0
        while total < h or r.random() < 0.6:
            if r.random() < 0.6:
                i = r.choice(flows)
                items.append({"k": "img", "wid": i})
                total += self.live[i][2]
            else:
                items.append(self.txt())
                total += 1
            if len(items) > 8:
                break
        if total < h:
            items += [self.txt() for _ in range(h - total)]
            total = h
        return {"k": "list", "items": items, "off": r.randint(0, total - h)}

    def mutate(self, lay):
        """Small change of the previous layout: what a user interaction typically does."""
        r = self.rng
        lay = json.loads(json.dumps(lay))
        nodes = []

        def walk(n):
            nodes.append(n)
            for it in n.get("items", []):
                walk(it["c"] if "c" in it and "n" in it else it)
            for kk in ("top", "bot"):
                if kk in n:
                    walk(n[kk])

        walk(lay)
        r.shuffle(nodes)
        for n in nodes:
            if n["k"] == "list":
                if any(c["k"] == "img" and c["wid"] not in self.live for c in n["items"]):
                    return lay
                total = sum(self.live[c["wid"]][2] if c["k"] == "img" else 1 for c in n["items"])
                n["off"] = max(0, min(total - 1, n["off"] + r.choice([-2, -1, 1, 2, 3])))
                return lay
            if n["k"] == "over":
                n["ox"] = max(0, n["ox"] + r.choice([-1, 1]))
                n["oy"] = max(0, n["oy"] + r.choice([-1, 0, 1]))
                return lay
            if n["k"] in ("pile", "cols") and len(n["items"]) >= 2:
                a, b = r.sample(range(len(n["items"])), 2)
                if n["items"][a]["n"] > 1:
                    n["items"][a]["n"] -= 1
                    n["items"][b]["n"] += 1
                    return lay
        return lay


def wf(lay, live, w, h) -> bool:
    """Python mirror of UrwidScreenCore!WF - used only to discard ill-formed random layouts
    before they reach the real code (TLC re-checks and a disagreement is a machinery error)."""
    k = lay["k"]
    if w < 1 or h < 1:
        return False
    if k == "txt":
        return True
    if k == "img":
        return lay["wid"] in live and live[lay["wid"]][1] <= w and live[lay["wid"]][2] <= h
    if k == "pile":
        return (len(lay["items"]) >= 1 and sum(i["n"] for i in lay["items"]) == h
                and all(i["n"] >= 1 and wf(i["c"], live, w, i["n"]) for i in lay["items"]))
    if k == "cols":
        return (len(lay["items"]) >= 1 and sum(i["n"] for i in lay["items"]) == w
                and all(i["n"] >= 1 and wf(i["c"], live, i["n"], h) for i in lay["items"]))
    if k == "over":
        return (lay["ox"] >= 0 and lay["oy"] >= 0 and lay["ow"] >= 1 and lay["oh"] >= 1
                and lay["ox"] + lay["ow"] <= w and lay["oy"] + lay["oh"] <= h
                and wf(lay["bot"], live, w, h) and wf(lay["top"], live, lay["ow"], lay["oh"]))
    if k == "list":
        def fl(c):
            return c["k"] == "txt" or (c["k"] == "img" and c["wid"] in live and live[c["wid"]][1] <= w)
        if not lay["items"] or not all(fl(c) for c in lay["items"]):
            return False
        total = sum(live[c["wid"]][2] if c["k"] == "img" else 1 for c in lay["items"])
        return lay["off"] >= 0 and lay["off"] + h <= total
    if k == "fill":
        c = lay["c"]
        return c["k"] == "img" and c["wid"] in live and live[c["wid"]][1] <= w and live[c["wid"]][2] <= h
    return False


def widgets_of(lay) -> set:
    out = set()
    if lay["k"] == "img":
        out.add(lay["wid"])
    for it in lay.get("items", []):
        out |= widgets_of(it["c"] if "n" in it else it)
    for kk in ("top", "bot", "c"):
        if kk in lay and isinstance(lay[kk], dict) and "k" in lay[kk]:
            out |= widgets_of(lay[kk])
    return out


def random_script(rng: random.Random, ident: str, length: int, *, leaf: bool, bad: bool) -> dict:
    cols, rows = rng.choice([(8, 5), (8, 5), (10, 6), (12, 7), (6, 4)])
    g = Gen(rng, ident, cols, rows)
    ops = []
    started = False
    last = None
    held = True
    nlive_target = rng.randint(2, 5)

    def new():
        style = rng.choice(g.styles())
        nw, nh = rng.choice([n for n in NATS if n[0] <= cols and n[1] <= rows])
        g.nwid += 1
        g.live[g.nwid] = (style, nw, nh)
        ops.append(dict(op="new", style=style, nw=nw, nh=nh, sub=rng.choice([0, 0, 1, 1, 2]),
                        fs=fs_for(style, rng.randrange(100))))

    for _ in range(nlive_target):
        new()
    ops.append(dict(op="start"))
    started = True
    while len(ops) < length:
        x = rng.random()
        if not started:
            ops.append(dict(op="start"))
            started = True
        elif x < 0.60 or last is None:
            if last is not None and last["k"] not in ("txt", "img") and rng.random() < 0.55:
                lay = g.mutate(last)
            elif leaf and rng.random() < 0.08:
                lay = g.txt() if rng.random() < 0.5 or not g.fit(cols, rows) else {"k": "img", "wid": rng.choice(g.fit(cols, rows))}
            else:
                # a one-row text bar at the bottom (as most TUIs have): keeps seeded layouts clear of
                # urwid's bottom-right-corner handling, which can cut the last byte off an image
                # line's trailing CUF when a one-column cell follows it (see notes/C18.md)
                lay = {"k": "pile", "items": [{"n": rows - 1, "c": g.box(cols, rows - 1)},
                                              {"n": 1, "c": g.txt()}]}
            if not wf(lay, g.live, cols, rows):
                continue
            if bad and rng.random() < 0.06:
                ops.append(dict(op="bad", lay=lay))
                let_go = lay["k"] not in ("txt", "img") and rng.random() < 0.5
                if let_go:
                    ops.append(dict(op="release"))  # nobody holds the canvas of a failed frame
                ops.append(dict(op="clear"))
            else:
                let_go = False
                ops.append(dict(op="redraw", lay=lay))
            last = lay
            held = not let_go  # a released canvas cannot be passed again ("same" needs the object)
        elif x < 0.66 and last is not None and held:
            ops.append(dict(op="same", lay=last))
        elif x < 0.70 and last is not None and last["k"] not in ("txt", "img") and wf(last, g.live, cols, rows):
            # a direct clear_images call, then a NEW canvas of the same (or a slightly changed) layout
            on = sorted(widgets_of(last))
            w = rng.choice([0, 0] + on) if on else 0
            ops.append(dict(op="climg", w=w, now=rng.random() < 0.5))
            nxt = last if rng.random() < 0.7 else g.mutate(last)
            if not wf(nxt, g.live, cols, rows):
                nxt = last
            ops.append(dict(op="redraw", lay=nxt))
            last = nxt
            held = True
        elif x < 0.715 and last is not None and wf(last, g.live, cols, rows):
            # the terminal is resized (size in cells unchanged): the next frame(s) are dropped by urwid,
            # then the resize is handled and the SAME canvas object is painted
            ops.append(dict(op="winch"))
            nxt = last
            for _ in range(rng.choice([1, 1, 2])):
                cand = g.mutate(nxt) if rng.random() < 0.6 else {
                    "k": "pile", "items": [{"n": rows - 1, "c": g.box(cols, rows - 1)}, {"n": 1, "c": g.txt()}]}
                if wf(cand, g.live, cols, rows) and cand["k"] not in ("txt", "img"):
                    nxt = cand
                ops.append(dict(op="lost", lay=nxt))
            ops.append(dict(op="handled"))
            if nxt is not last and rng.random() < 0.4:
                # the application did not keep the dropped frame's canvas: the next frame is a NEW canvas
                ops.append(dict(op="release"))
                cand = g.mutate(nxt) if rng.random() < 0.7 else nxt
                if wf(cand, g.live, cols, rows) and cand["k"] not in ("txt", "img"):
                    nxt = cand
                ops.append(dict(op="redraw", lay=nxt))
            else:
                ops.append(dict(op="same", lay=nxt))
            last = nxt
            held = True
        elif x < 0.74:
            ops.append(dict(op="clear"))
        elif x < 0.77:
            ops.append(dict(op="stop"))
            started = False
        elif x < 0.84 and g.live:
            ops.append(dict(op="inval", w=rng.choice(list(g.live))))
        elif x < 0.92 and len(g.live) > 1:
            w = rng.choice(list(g.live))
            # (a canvas holding the dropped widget can still be drawn again as the SAME canvas;
            # rebuilding or mutating that layout is filtered out by wf())
            ops.append(dict(op="drop", w=w))
            del g.live[w]
        else:
            new()
    return dict(ident=ident, cols=cols, rows=rows, ops=ops, source="seeded")


def lifetime_script(rng: random.Random, ident: str, rounds: int) -> dict:
    """Canvas LIFETIME around frames urwid does not paint: every round draws a frame, then one or two frames
    that are dropped (resize pending) or one that fails, RELEASES the canvas of the unpainted frame (as an
    application that renders a fresh canvas per frame and keeps none does), and draws two more frames with
    new canvases.  The unpainted frame's canvas is held by nobody and dies; the next top-level canvas is
    allocated right after (World.release / World.redraw), which is when CPython hands out the same address
    again - not in every round, hence many rounds.  Every redraw is judged as any other."""
    cols, rows = rng.choice([(8, 5), (10, 6), (12, 7)])
    g = Gen(rng, ident, cols, rows)
    ops = []
    for _ in range(rng.randint(3, 4)):
        style = rng.choice(g.styles())
        nw, nh = rng.choice([n for n in NATS if n[0] <= cols - 2 and n[1] <= rows - 2])
        g.nwid += 1
        g.live[g.nwid] = (style, nw, nh)
        ops.append(dict(op="new", style=style, nw=nw, nh=nh, sub=rng.choice([0, 0, 1, 2]),
                        fs=fs_for(style, rng.randrange(100))))
    ops.append(dict(op="start"))

    def frame(prev=None):
        for _ in range(20):
            lay = g.mutate(prev) if prev is not None and rng.random() < 0.4 else {
                "k": "pile", "items": [{"n": rows - 1, "c": g.box(cols, rows - 1)}, {"n": 1, "c": g.txt()}]}
            if wf(lay, g.live, cols, rows) and lay["k"] not in ("txt", "img"):
                return lay
        return {"k": "pile", "items": [{"n": rows - 1, "c": g.txt()}, {"n": 1, "c": g.txt()}]}

    last = None
    for _ in range(rounds):
        last = frame(last)
        ops.append(dict(op="redraw", lay=last))
        if ident != "other" and rng.random() < 0.25:
            last = frame(last)
            ops.append(dict(op="bad", lay=last))
            ops.append(dict(op="release"))
            ops.append(dict(op="clear"))
        else:
            ops.append(dict(op="winch"))
            for k in range(rng.choice([1, 1, 2])):
                if k:
                    ops.append(dict(op="release"))
                last = frame(last)
                ops.append(dict(op="lost", lay=last))
            ops.append(dict(op="handled"))
            ops.append(dict(op="release"))
        for _ in range(2):
            last = frame(last)
            ops.append(dict(op="redraw", lay=last))
    return dict(ident=ident, cols=cols, rows=rows, ops=ops, source="seeded:canvas-lifetime")


# ------------------------------------------------------------------------- judging


def validate(traces: list[dict], name: str, batch: int = 40, parallel: int = 6, timeout: float = 900):
    """tlc.validate_traces with a deeper Java stack (PrintRun / Sem recursion)."""
    import shutil
    import uuid

    rundir = tlc.OUT / "traces" / f"{name}-{uuid.uuid4().hex[:8]}"
    rundir.mkdir(parents=True, exist_ok=True)
    jobs, chunks = [], []
    for i in range(0, len(traces), batch):
        chunk = traces[i:i + batch]
        f = tlc.write_json(rundir / f"b{i}.json", chunk)
        chunks.append((i, len(chunk)))
        jobs.append(dict(spec="Trace_UrwidScreen", cfg="Trace_UrwidScreen.cfg", workers=2, timeout=timeout,
                         env={"TRACE_FILE": str(f)}, deadlock=False, jvm=JVM_SHORT, check=False))
    try:
        results = tlc.run_many(jobs, parallel=parallel)
    finally:
        shutil.rmtree(rundir, ignore_errors=True)
    verdicts = [None] * len(traces)
    states = trans = 0
    for (base, n), res in zip(chunks, results):
        if res.violated or res.rc != 0:
            raise MachineryError("Trace_UrwidScreen failed:\n" + "\n".join(res.stdout.splitlines()[-40:]))
        states += res.distinct
        trans += res.generated
        for v in res.tagged("VERDICT"):
            verdicts[base + v["tid"] - 1] = v
    missing = [i for i, v in enumerate(verdicts) if v is None]
    if missing:
        raise MachineryError(f"{len(missing)} histories got no verdict (first #{missing[0]})")
    return verdicts, states, trans


API = {"redraw": "draw_screen", "same": "draw_screen", "bad": "draw_screen", "lost": "draw_screen",
       "dropped-frame": "draw_screen", "after-released-canvas": "draw_screen", "release": "canvas-released", "winch": "SIGWINCH", "handled": "resize-handled", "start": "start", "stop": "stop",
       "clear": "clear", "new": "UrwidImage", "drop": "UrwidImage.__del__", "inval": "UrwidImage",
       "clear_images": "clear_images", "clear_images-now": "clear_images"}

MACHINERY = {"bad-layout", "unexpected-output"}


def signature(kind: dict, ident: str) -> str:
    v, ctx = kind["v"], kind["ctx"]
    api = {"composite": "draw_screen", "non-composite": "draw_screen", "non-composite-after-images": "draw_screen",
           "failing-draw": "draw_screen", "dropped-frame": "draw_screen",
           "after-released-canvas": "draw_screen"}.get(ctx, API.get(ctx, ctx))
    if v == "exception":
        return f"{api}:{ctx}:{kind['info']}"
    if v.startswith("alloc-") or v.startswith("z-"):
        return f"UrwidImage:z-index-allocator:{v}"
    if v == "oracle-mismatch":
        return f"canvas-content:placements-differ-from-layout:{ident}"
    if kind.get("topimg") and v in ("ghost", "missing"):
        return f"draw_screen:top-level-image-canvas:{v}"
    if kind.get("alias") and v in ("missing", "disguise-unchanged"):
        return f"draw_screen:3-cviews-of-one-widget-gone:{v}"
    if ctx in ("clear_images", "clear_images-now"):
        return f"{ctx}:{v}"
    if v in ("cviews-mismatch", "deletes-mismatch", "disguise-unchanged"):
        return f"draw_screen:{ctx}:bookkeeping:{v}"
    if ctx in ("start", "stop", "clear", "clear_images", "clear_images-now"):
        return f"{ctx}:{v}"
    return f"{api}:{ctx}:{v}"


def judge(rep: Report, items: list[dict], name: str, selftest_too: bool = False) -> None:
    if not items:
        return
    verdicts, st, tr = validate([it["trace"] for it in items], name,
                                batch=32 if rep.tier == "quick" else 40)
    rep.states += st
    rep.transitions += tr
    rep.traces_validated += len(items)
    if selftest_too:
        selftest(rep, items, verdicts)
    for it, v in zip(items, verdicts):
        scn = it["scn"]
        stats = v["stats"]
        rep.evaluations += stats["redraws"] + stats["clears"] + stats["wops"]
        for k in ("redraws", "implied", "deletes", "clears", "wops", "toks"):
            rep.extra["judged"][k] = rep.extra["judged"].get(k, 0) + stats[k]
        for e in it["trace"]["events"]:
            if e["op"] in ("redraw", "same", "bad", "lost"):
                rep.distinct.add((scn["ident"], e["op"], json.dumps(e["lay"], sort_keys=True)))
        kinds = list(v["kinds"])
        first = v["verdict"]
        if first["v"] != "ok" and not any(k["v"] == first["v"] and k["ctx"] == first["ctx"] for k in kinds):
            kinds.append(first)
        for k in kinds:
            if k["v"] in MACHINERY or (k["v"] == "terminal-error" and "unsupported" in k.get("info", "")):
                raise MachineryError(f"history rejected as {k['v']} {k.get('info', '')}: "
                                     + json.dumps(scn)[:1500])
            sig = signature(k, scn["ident"])
            detail = (f"clause {k['v']!r} ({k['ctx']}) failed in a history of {len(scn['ops'])} operations "
                      f"on a {scn['cols']}x{scn['rows']} {scn['ident']} screen ({scn.get('source')}); "
                      f"first failing event #{first['at']}: {first['v']} {str(first['info'])[:300]}; "
                      f"mechanism: {v['mech']['v']} @#{v['mech']['at']}")
            # shortest replay: the history up to the event at which this clause failed
            at = 0
            if k["v"] == first["v"] and k["ctx"] == first["ctx"]:
                at = first["at"]
            elif k["v"] == v["mech"]["v"] and k["ctx"] == v["mech"]["ctx"]:
                at = v["mech"]["at"]
            short = dict(scn, ops=scn["ops"][:at]) if 0 < at < len(scn["ops"]) else scn
            rep.violation(sig, detail, short)


def corrupted(trace: dict) -> list[tuple[str, dict]]:
    """Tampered copies of a history that was accepted: each must be rejected by the Trace spec."""
    out = []
    gfx = trace["gfx"]

    def copy():
        return json.loads(json.dumps(trace))

    def is_del(t):
        return t["k"] == "kitty" and gfx[t["x"]]["a"] == "d" and gfx[t["x"]]["d"] in ("A", "Z")

    def is_tx(t):
        return t["k"] == "iterm" or (t["k"] == "kitty" and gfx[t["x"]]["a"] == "T")

    evs = trace["events"]
    def composite(ev):
        return ev["op"] in ("redraw", "same") and ev["lay"]["k"] not in ("txt", "img")

    for i, e in enumerate(evs):
        # a deletion whose absence must matter: between two composite redraws (not right after a
        # clear, when the terminal is empty anyway, nor next to a bare leaf canvas)
        if (i > 0 and e["op"] == "redraw" and composite(e) and composite(evs[i - 1])
                and any(is_del(t) for t in e["toks"]) and any(is_tx(t) for t in e["toks"])):
            c = copy()
            c["events"][i]["toks"] = [t for t in e["toks"] if not is_del(t)]
            out.append(("deletions-removed", c))
            break
    for i, e in enumerate(evs):
        if e["op"] == "redraw" and any(is_tx(t) for t in e["toks"]):
            c = copy()
            toks = c["events"][i]["toks"]
            j = next(k for k, t in enumerate(toks) if is_tx(t))
            k = max(k for k in range(j) if toks[k]["k"] == "cup")
            toks[k]["n"] = toks[k]["n"] + 1 if max(toks[k]["n"], 1) < trace["rows"] else toks[k]["n"] - 1
            out.append(("image-line-moved", c))
            c = copy()
            c["events"][i]["toks"] = c["events"][i]["toks"][:-1]
            out.append(("sync-end-removed", c))
            c = copy()
            c["events"][i]["lay"] = {"k": "pile", "items": [{"n": trace["rows"], "c": {"k": "txt", "ch": 120}}]}
            out.append(("layout-replaced", c))
            break
    for i, e in enumerate(evs):
        if e["op"] in ("start", "clear") and e["toks"]:
            c = copy()
            c["events"][i]["toks"] = [t for t in e["toks"] if not is_del(t)]
            out.append(("delete-all-removed", c))
            break
    return out


def selftest(rep: Report, items: list[dict], verdicts: list[dict]) -> None:
    """The judge must reject tampered traces (otherwise its acceptance means nothing)."""
    pick = None
    for it, v in zip(items, verdicts):
        if v["verdict"]["v"] == "ok" and v["mech"]["v"] == "ok" and not v["kinds"] and v["stats"]["deletes"] > 0 \
                and v["stats"]["implied"] > 0 and it["trace"]["ident"] in ("kitty", "konsole", "forced"):
            cs = corrupted(it["trace"])
            if len(cs) >= 5:
                pick = cs
                break
    if pick is None:
        rep.notes.append("self-test skipped: no accepted history with deletions and images in this run")
        return
    vs, st, tr = validate([c for _, c in pick], "c18self", batch=10, parallel=1)
    rep.states += st
    rep.transitions += tr
    res = {}
    for (label, _), v in zip(pick, vs):
        res[label] = v["verdict"]["v"] if v["verdict"]["v"] != "ok" else "mech:" + v["mech"]["v"]
        if v["verdict"]["v"] == "ok" and v["mech"]["v"] == "ok":
            raise MachineryError(f"self-test: the Trace spec accepted a tampered history ({label})")
    rep.extra["selftest_corrupted_traces_rejected"] = res


def main(rep: Report, replay: dict | None) -> None:
    rep.assumptions += ASSUMPTIONS
    rep.rule = (
        "histories: every edge of the coarse-view edge dump of UrwidScreen (layout on screen x next "
        "operation, 68 layouts) and of UrwidAlloc replayed against the real code + seeded random "
        "histories (random well-formed urwid trees, creation/drop/invalidate, start/stop/clear, same "
        "canvas, failing draw, frames dropped while a resize is pending, canvases of unpainted frames released "
        "by the application before the next frame = canvas lifetime); distinct_nontrivial = distinct (terminal identity, operation, layout) "
        "triples drawn through the real draw_screen and judged by TLC"
    )
    rep.extra["judged"] = {}
    cw.setup()
    if replay:
        scn = replay["scenario"]
        if scn.get("kind") == "design":
            run_models(rep)
            return
        trace, _ = run_script(scn)
        judge(rep, [{"scn": scn, "trace": trace}], "c18r")
        return

    quick = rep.tier == "quick"
    # the design-level models do not depend on the code: TLC checks them in the background while
    # the real histories are produced
    import threading

    mc_rep = Report(rep.property_id, rep.tier, rep.seed)
    mc_err: list[BaseException] = []

    def _mc():
        t = time.time()
        try:
            run_models(mc_rep)
        except BaseException as e:  # re-raised in the main thread
            mc_err.append(e)
        mc_rep.extra["t_models"] = round(time.time() - t, 1)

    th = threading.Thread(target=_mc, daemon=True)
    th.start()

    items: list[dict] = []
    t0 = time.time()
    sfx = "" if quick else "_T"
    # the four edge dumps are independent TLC runs: produced concurrently, then replayed one by one
    plan = [(f"MC_UrwidScreen_edges{sfx}.cfg", "kitty", ["kitty", "kitty", "block"], 0),
            (f"MC_UrwidScreen_edges_konsole{sfx}.cfg", "konsole", ["kitty", "kitty", "iterm2"], 1),
            (f"MC_UrwidScreen_edges_forced{sfx}.cfg", "forced", ["kitty", "kitty", "block"], 2)]
    dumps = tlc.run_many(
        [dict(spec="UrwidScreen", cfg=c, workers=1, timeout=900, check=False, jvm=JVM_SHORT) for c, *_ in plan]
        + [dict(spec="UrwidAlloc", cfg="MC_UrwidAlloc_edges.cfg", workers=1, timeout=300, check=False, jvm=JVM_SHORT)],
        parallel=4)
    for (cfg, ident, styles, k), res in zip(plan, dumps):
        items += edge_histories(rep, cfg, ident, styles, max_len=40, limit=None, seed=rep.seed + k, res=res)
    items += alloc_histories(rep, rep.seed, res=dumps[-1])
    rep.extra["t_replay"] = round(time.time() - t0, 1)

    t0 = time.time()
    rng = random.Random(rep.seed * 9176 + 18)
    n = 100 if quick else 3000
    for i in range(n):
        ident = ["kitty", "konsole", "forced", "kitty", "konsole", "other", "forced"][i % 7]
        scn = random_script(rng, ident, rng.randint(12, 40), leaf=(i % 4 == 0), bad=(i % 3 == 0))
        scn["seed"] = rng.randrange(1 << 30)
        trace, _ = run_script(scn)
        items.append({"scn": scn, "trace": trace})
    # canvas lifetime: long histories of rounds around unpainted frames whose canvases nobody keeps
    nl, rounds = (4, 16) if quick else (40, 32)
    rng = random.Random(rep.seed * 7411 + 1801)
    for i in range(nl):
        scn = lifetime_script(rng, ["kitty", "konsole", "forced", "kitty"][i % 4], rounds)
        scn["seed"] = rng.randrange(1 << 30)
        trace, _ = run_script(scn)
        # (long histories: spread over the early trace batches instead of making the last one a straggler)
        items.insert(min(len(items), 5 + 32 * i) if quick else len(items), {"scn": scn, "trace": trace})
    rep.extra["canvas_lifetime"] = {"histories": nl, "rounds_each": rounds}
    rep.extra["t_seeded"] = round(time.time() - t0, 1)

    t0 = time.time()
    judge(rep, items, "c18", selftest_too=True)
    rep.extra["t_judge"] = round(time.time() - t0, 1)
    th.join()
    if mc_err:
        raise mc_err[0]
    rep.states += mc_rep.states
    rep.transitions += mc_rep.transitions
    rep.violations += mc_rep.violations
    rep.extra.update(mc_rep.extra)
    rep.extra["histories"] = len(items)
    if cw.HPR_SEEN[0]:
        rep.notes.append(
            f"{cw.HPR_SEEN[0]} redraw(s) contained 'CSI n a' (HPR): urwid's last-row handling cut the final "
            "byte off the trailing CUF of an image line that is followed by a one-column cell in the bottom-right "
            "corner (disguise text empty); cursor motion is unaffected, a stray letter is shown - outside C18")
    for it in items[:3]:
        rep.sample({"source": it["scn"].get("source"), "ident": it["scn"]["ident"],
                    "ops": [o["op"] for o in it["scn"]["ops"]][:30]})
    rep.exhaustive = all(m["complete"] for m in rep.extra.get("model_checking", {}).values()) and all(
        c["not_replayed"] == 0 for c in rep.extra.get("edge_cover", {}).values())
    rep.extra["exhaustive_scope"] = (
        "TLC: complete state graphs of the MC_Urwid* configurations named in model_checking (8x5 screen, "
        "3 widget slots, layout families of UrwidScreen.tla, unbounded history length); replay: every edge "
        "of the coarse-view edge dumps named in edge_cover.  Seeded histories are samples.")
    j = rep.extra["judged"]
    if not j.get("implied") or not j.get("deletes"):
        raise MachineryError(f"vacuous run: no placements / no deletions were judged: {j}")
