\* next() only: 3 frames, loops in {-1, 1, 2, 3}, cache on/off, both ownerships
SPECIFICATION SSpec
CONSTANTS
  N = 3
  K = 0
  LoopsSet <- LoopsStraight
  CacheSet = {TRUE, FALSE}
  OwnSet = {"iter", "caller"}
  Sizes = {}
  Durs = {}
  ArgsSet = {}
  Pads = {}
  SeekOffs = {}
  TW = 8
  TH = 6
  Terms = {}
  MaxDepth = 14
CONSTRAINT SBound
VIEW SView
INVARIANT StopsExactlyThen
INVARIANT NeverTooMany
INVARIANT InfiniteNeverStops
PROPERTY NumbersInOrder
CHECK_DEADLOCK FALSE
