"""Run the named seeds and APPEND their rows to seeded/RESULTS.md (the table is otherwise written by
`selftest.seeds run --write` over all seeds, which takes hours).

    /venv/bin/python -m selftest.seeds_append --jobs 4 <seed-id> ...
"""
import sys
from selftest import seeds

args = sys.argv[1:]
jobs = 3
if "--jobs" in args:
    i = args.index("--jobs"); jobs = int(args[i + 1]); del args[i:i + 2]
results: list = []
rc = seeds.do_run(args, "quick", jobs, results)
path = seeds.SEEDED / "RESULTS.md"
text = path.read_text()
ids = {r[0] for r in results}
keep = [l for l in text.splitlines() if not any(l.startswith(f"| {i} |") for i in ids)]
for sid, prop, rcode, st, sig, summ, _needs in sorted(results):
    keep.append(f"| {sid} | {prop} | {rcode} ({st}) | `{sig}` | {summ.replace('|', '/')} |")
path.write_text("\n".join(keep) + "\n")
sys.exit(rc)
