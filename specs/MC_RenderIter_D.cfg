\* definite, 2 frames, cache on, render-argument values that are UNHASHABLE (a list / a dict in a
\* field): cache under X, set Y (a new object: equal or different), revisit (C09 round 7)
SPECIFICATION Spec
CONSTANTS
  N = 2
  K = 0
  LoopsSet <- LoopsInfTwo
  CacheSet = {TRUE}
  OwnSet = {"iter"}
  Sizes <- SizesOne
  Durs <- DursOne
  ArgsSet <- ArgsUnhashable
  Pads <- PadsNone
  SeekOffs <- Offs1
  TW = 8
  TH = 6
  Terms <- TermsNone
  MaxDepth = 5
CONSTRAINT Bound
VIEW View
ACTION_CONSTRAINT Dump
INVARIANT TypeOK
INVARIANT FinalizeOnce
INVARIANT FinalizeIffClosedAndOwned
PROPERTY SeekNoLoop
PROPERTY RejectedChangesNothing
PROPERTY SettingsOnlyBySetter
PROPERTY FrameMatchesSettings
PROPERTY NoRerender
PROPERTY EqualArgsChangeNothing
PROPERTY ClosedIsTerminal
PROPERTY LoopCountdown
CHECK_DEADLOCK FALSE
