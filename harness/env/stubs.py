"""Substituted terminal environment for render-level drivers.

term-image binds ``get_terminal_size`` & co. into its modules with ``from ..utils import``;
the stand-ins must therefore be installed *before* ``term_image.image`` is imported
(exactly what ``tests/__init__.py`` of the repository does).  Only the environment is
replaced (what the terminal answers); every decision the library takes from those
answers runs the real code - in particular ``is_supported()`` runs for real against a
scripted ``query_terminal``.
"""

from __future__ import annotations

import os
import sys


class _Env:
    term_size = (80, 30)
    name_version = ("", "")
    cell_size = None  # (w, h) or None
    fg_bg = (None, None)
    kitty_gfx = False  # does the terminal answer the kitty graphics query?
    installed = False


ENV = _Env()


def _get_terminal_size():
    return os.terminal_size(ENV.term_size)


def _get_terminal_name_version():
    return ENV.name_version


_get_terminal_name_version._invalidate_cache = lambda: None  # type: ignore[attr-defined]


def _get_cell_size():
    from term_image.geometry import _Size

    return _Size(*ENV.cell_size) if ENV.cell_size else None


def _get_fg_bg_colors(*, hex=False):
    fg, bg = ENV.fg_bg
    if hex:
        return tuple(c and "#%02x%02x%02x" % tuple(c) for c in (fg, bg))
    return (fg and tuple(fg), bg and tuple(bg))


_get_fg_bg_colors._invalidate_cache = lambda: None  # type: ignore[attr-defined]


def _query_terminal(request, more, timeout=None):
    from term_image import _ctlseqs as cs

    if request.startswith(cs.KITTY_SUPPORT_QUERY_b):
        return (b"\x1b_Gi=31;OK\x1b\\" if ENV.kitty_gfx else b"") + b"\x1b[?62;c"
    return b""


def install():
    if ENV.installed:
        return
    if "term_image.image" in sys.modules:
        raise RuntimeError("stubs must be installed before term_image.image is imported")
    import term_image
    import term_image.utils as U

    U.get_terminal_size = _get_terminal_size
    U.get_terminal_name_version = _get_terminal_name_version
    U.get_cell_size = _get_cell_size
    term_image.get_cell_size = _get_cell_size
    U.get_fg_bg_colors = _get_fg_bg_colors
    U.query_terminal = _query_terminal
    U.write_tty = lambda data: None
    import term_image.image  # noqa: F401

    ENV.installed = True


IDENTITIES = {
    # name: (name, version, answers kitty graphics query)
    "kitty": ("kitty", "0.28.1", True),
    "kitty-old": ("kitty", "0.20.0", True),
    "kitty-0250": ("kitty", "0.25.0", True),  # boundary of the per-frame clearing workaround
    "konsole": ("konsole", "22.12.3", True),
    "wezterm": ("wezterm", "20230712", False),
    "iterm2": ("iterm2", "3.4.19", False),
    "other": ("xterm", "380", False),
    "none": (None, None, False),
}


def set_identity(ident: str, probe: bool = True) -> None:
    """Make the stubbed terminal identify as ``ident`` and let the library re-detect.

    ``probe=False`` leaves the detection to whatever the library does by itself next (e.g. the
    constructor of a graphics-based image)."""
    from term_image.image import BlockImage, ITerm2Image, KittyImage, TextImage

    name, version, gfx = IDENTITIES[ident]
    ENV.name_version = (name, version)
    ENV.kitty_gfx = gfx
    for cls in (KittyImage, ITerm2Image, BlockImage):
        cls._supported = None
    KittyImage._TERM = KittyImage._TERM_VERSION = ""
    KittyImage._KITTY_VERSION = ()
    ITerm2Image._TERM = ITerm2Image._TERM_VERSION = ""
    inv = getattr(TextImage._is_on_kitty, "_invalidate_cache", None)
    if inv:
        inv()
    if probe:
        KittyImage.is_supported()
        ITerm2Image.is_supported()


def set_term(size=None, cell=None, fg_bg=None):
    if size is not None:
        ENV.term_size = tuple(size)
    ENV.cell_size = tuple(cell) if cell else None
    if fg_bg is not None:
        ENV.fg_bg = fg_bg
