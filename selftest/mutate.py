"""Apply a registered mutation to a scratch copy of /repo/src and run checks against it.

    /venv/bin/python -m selftest.mutate <mutation-id> [<mutation-id> ...] [--tier quick]
    /venv/bin/python -m selftest.mutate --all [--props C08,C09]

The scratch copy lives under /tmp/verif-selftest-<id> and is removed afterwards.  A
mutation is {file, old, new, props}: exact, unique string replacement in one source file.
Result lines:  MUT <id> <prop> exit=<rc> caught|MISSED
"""

from __future__ import annotations

import argparse
import os
import shutil
import subprocess
import sys
from pathlib import Path

from .mutations import MUTATIONS

VERIF = Path(__file__).resolve().parent.parent


def apply(mid: str) -> Path:
    m = MUTATIONS[mid]
    root = Path(f"/tmp/verif-selftest-{mid}")
    shutil.rmtree(root, ignore_errors=True)
    root.mkdir(parents=True)
    subprocess.run(["rsync", "-a", "/repo/src", str(root) + "/"], check=True)
    edits = m["edits"] if "edits" in m else [m]
    for e in edits:
        f = root / "src" / "term_image" / e["file"]
        text = f.read_text()
        if text.count(e["old"]) != 1:
            raise SystemExit(f"{mid}: pattern occurs {text.count(e['old'])} times in {e['file']}")
        f.write_text(text.replace(e["old"], e["new"]))
    return root


def run(mid: str, tier: str, props=None) -> list[tuple[str, int]]:
    root = apply(mid)
    out = []
    try:
        for prop in props or MUTATIONS[mid]["props"]:
            env = dict(os.environ, VERIF_REPO=str(root), VERIF_TIER=tier)
            p = subprocess.run([str(VERIF / "check"), prop, "--tier", tier], env=env, cwd=VERIF,
                               stdout=subprocess.PIPE, stderr=subprocess.STDOUT, text=True)
            sig = [l.strip() for l in p.stdout.splitlines() if l.strip().startswith("signature:")]
            out.append((prop, p.returncode))
            status = "caught" if p.returncode == 1 else ("MACHINERY" if p.returncode == 2 else "MISSED")
            print(f"MUT {mid} {prop} exit={p.returncode} {status} {sig[0] if sig else ''}", flush=True)
            if p.returncode == 2:
                print("\n".join(p.stdout.splitlines()[-15:]))
    finally:
        shutil.rmtree(root, ignore_errors=True)
    return out


def main():
    ap = argparse.ArgumentParser()
    ap.add_argument("ids", nargs="*")
    ap.add_argument("--all", action="store_true")
    ap.add_argument("--tier", default="quick")
    ap.add_argument("--props", default=None)
    a = ap.parse_args()
    ids = list(MUTATIONS) if a.all else a.ids
    props = a.props.split(",") if a.props else None
    missed = 0
    for mid in ids:
        if props and not set(props) & set(MUTATIONS[mid]["props"]):
            continue
        for prop, rc in run(mid, a.tier, [p for p in MUTATIONS[mid]["props"] if not props or p in props]):
            missed += rc != 1
    sys.exit(1 if missed else 0)


if __name__ == "__main__":
    main()
