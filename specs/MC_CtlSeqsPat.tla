----------------------------- MODULE MC_CtlSeqsPat -----------------------------
(***************************************************************************)
(* X05, law 2: the languages of the compiled patterns.  TLC enumerates the   *)
(* documented answers of the terminal (over a boundary alphabet of field     *)
(* values; the request numbers / ids are taken from the vocabulary's own     *)
(* requests), foreign answers that no pattern may take, and EVERY near-miss  *)
(* of each of them: one symbol dropped (Drop), added (Insert) or changed     *)
(* (Change) at every position, symbols from Alphabet.  Every string is       *)
(* printed with what each pattern must do with it (PAT) and replayed on the  *)
(* real compiled patterns.                                                   *)
(***************************************************************************)
EXTENDS CtlSeqsPatterns, Json

CONSTANT Rich          \* FALSE: small alphabet (quick), TRUE: the full one

VARIABLES base, s, edit
vars == <<base, s, edit>>

Small == {"0", "g", "/", ";", ")", " ", "ESC", "BEL", "LF", "="}
Full == Small \cup {"6", "4", "f", "t", ":", "(", "_", "-", ",", "I", "\\", "U+00E9", "U+0663"}
Alphabet == IF Rich THEN Full ELSE Small

ReqNum(nm) == Want(Op0(nm)).toks[1].n
QueryId == Want(Op0("KITTY_SUPPORT_QUERY")).gfx[2].i
H(q) == q       \* a hex / text literal, already a symbol sequence

Area(h, w) == [pat |-> "TEXT_AREA_SIZE_PX_re", s |-> RespWinops(ReqNum("TEXT_AREA_SIZE_PX"), h, w), g |-> <<Dec(h), Dec(w)>>]
Cell(h, w) == [pat |-> "CELL_SIZE_PX_re", s |-> RespWinops(ReqNum("CELL_SIZE_PX"), h, w), g |-> <<Dec(h), Dec(w)>>]
Colour(req, r, g, b, term) ==
  [pat |-> "RGB_SPEC_re", s |-> RespColour(ReqNum(req), RgbText(r, g, b), term), g |-> <<Dec(ReqNum(req)), RgbText(r, g, b)>>]
Version(name, ver, paren) == [pat |-> "XTVERSION_re", s |-> RespVersion(name, ver, paren), g |-> <<name, ver>>]
KittyR(number, msg) ==
  [pat |-> "KITTY_RESPONSE_re", s |-> RespKitty(QueryId, number, msg),
   g |-> <<Dec(QueryId), IF number >= 0 THEN Dec(number) ELSE Absent, msg>>]
Foreign(str) == [pat |-> "", s |-> str, g |-> <<>>]

Instances == <<
  Area(0, 0), Area(1080, 1920), Area(65535, 9),
  Cell(0, 0), Cell(18, 9), Cell(9, 65535),
  Colour("TEXT_FG_QUERY", <<"0">>, <<"0">>, <<"0">>, STb),
  Colour("TEXT_FG_QUERY", <<"f", "f", "f", "f">>, <<"0", "0", "0", "0">>, <<"8", "0", "8", "0">>, STb),
  Colour("TEXT_BG_QUERY", <<"F", "F">>, <<"a", "b">>, <<"0">>, BELb),
  Colour("TEXT_BG_QUERY", <<"f", "f", "f">>, <<"0", "0", "1">>, <<"D", "e", "E">>, STb),
  Version(<<"X", "T", "e", "r", "m">>, <<"3", "7", "0">>, TRUE),
  Version(<<"k", "i", "t", "t", "y">>, <<"0", ".", "2", "5", ".", "0">>, TRUE),
  Version(<<"W", "e", "z", "T", "e", "r", "m">>, <<"2", "0", "2", "2", "-", "a", "1">>, FALSE),
  Version(<<"a", "_", "1">>, <<"1", " ", "b">>, FALSE),
  KittyR(-1, <<"O", "K">>),
  KittyR(7, <<"O", "K">>),
  KittyR(-1, <<"E", "N", "O", "E", "N", "T", ":", "x", ";", "y">>),
  KittyR(0, <<"E">>),
  \* answers that belong to no pattern: the character-size report (CSI 18 t), DA1's answer,
  \* a palette colour report (OSC 4 ; index ; spec), a graphics answer without an id
  Foreign(RespWinops(18, 24, 80)),
  Foreign(CSIb \o <<"?", "6", "2", ";", "4", "c">>),
  Foreign(OSCb \o <<"4", ";", "1", ";">> \o RgbText(<<"0">>, <<"0">>, <<"0">>) \o STb),
  Foreign(APCb \o <<"G", "I", "=", "7", ";", "O", "K">> \o STb),
  \* ... and the vocabulary's own REQUESTS (a tty that echoes feeds them back): no request is
  \* mistaken for an answer
  Foreign(Bytes(Op0("TEXT_AREA_SIZE_PX"))), Foreign(Bytes(Op0("CELL_SIZE_PX"))),
  Foreign(Bytes(Op0("TEXT_FG_QUERY"))), Foreign(Bytes(Op0("TEXT_BG_QUERY"))),
  Foreign(Bytes(Op0("XTVERSION"))), Foreign(Bytes(Op0("DA1"))), Foreign(Bytes(Op0("KITTY_SUPPORT_QUERY")))>>

\* what may follow an answer in the terminal's reply stream: DA1's answer; the same answer again
Contexts(str) == {CSIb \o <<"?", "6", "2", ";", "c">>, str}

Init == base \in 1..Len(Instances) /\ s = Instances[base].s /\ edit = "none"

Fresh == edit = "none"
Drop == \E i \in 1..Len(s) :
          /\ Fresh /\ edit' = "drop"
          /\ s' = SubSeq(s, 1, i - 1) \o SubSeq(s, i + 1, Len(s)) /\ UNCHANGED base
Insert == \E i \in 0..Len(s), a \in Alphabet :
          /\ Fresh /\ edit' = "insert"
          /\ s' = SubSeq(s, 1, i) \o <<a>> \o SubSeq(s, i + 1, Len(s)) /\ UNCHANGED base
Change == \E i \in 1..Len(s), a \in Alphabet :
          /\ Fresh /\ a # s[i] /\ edit' = "change"
          /\ s' = [s EXCEPT ![i] = a] /\ UNCHANGED base
Next == Drop \/ Insert \/ Change
Spec == Init /\ [][Next]_vars
View == s

(* ---- law 2 -------------------------------------------------------------------- *)
Inst == Instances[base]
Matching == {i \in 1..Len(PatNames) : Match(PatNames[i], s).m}

\* every documented answer is taken by the pattern of its request, with the documented fields
InstancesMatch ==
  Fresh /\ Inst.pat # "" => Doc(Inst.pat, s) /\ Match(Inst.pat, s) = Yes(Inst.g)
\* ... and a foreign answer by none
ForeignNeverMatch == Fresh /\ Inst.pat = "" => Matching = {}
\* whatever is documented is accepted
DocImpliesMatch == \A i \in 1..Len(PatNames) : Doc(PatNames[i], s) => Match(PatNames[i], s).m
\* the patterns are distinct: no string belongs to two of them
Disjoint == Cardinality(Matching) <= 1
\* what a pattern accepts beyond the documented answers is one of the named deviations
DeviationsAreNamed ==
  \A i \in Matching : ~Doc(PatNames[i], s) => Dev(PatNames[i], s) \in Deviations
\* a near-miss is taken only by the pattern of the answer it was made from (or, for the two
\* window reports, its sibling: changing the report number IS the other report)
NearMissStaysInFamily ==
  \A i \in Matching :
    \/ PatNames[i] = Inst.pat
    \/ {PatNames[i], Inst.pat} = {"TEXT_AREA_SIZE_PX_re", "CELL_SIZE_PX_re"}
    \/ Inst.pat = "" /\ ~Fresh
\* the id the library asks with is the id the answer is recognised by
QueryIdEchoed == Fresh /\ Inst.pat = "KITTY_RESPONSE_re" => Match(Inst.pat, s).g[1] = Dec(31)

InContext(str) == [i \in 1..Len(PatNames) |-> IF Doc(PatNames[i], str) THEN Match(PatNames[i], str) ELSE No]

Dump ==
  /\ PrintT(<<"PAT", ToJson([s |-> s, ctx |-> <<>>, res |-> AllMatches(s)])>>)
  /\ Fresh => \A c \in Contexts(s) : PrintT(<<"PAT", ToJson([s |-> s, ctx |-> c, res |-> InContext(s)])>>)
=============================================================================
