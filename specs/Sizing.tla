------------------------------- MODULE Sizing -------------------------------
(***************************************************************************)
(* C04 - automatic sizing fits the frame, fills it and preserves the       *)
(* aspect ratio.  Integers only: a rational is a pair num/den with         *)
(* den > 0 and every comparison is done by cross-multiplication.  Callers  *)
(* bound the inputs so that every product formed here stays below 2^31     *)
(* (TLC raises on overflow; that is a machinery failure, not a verdict).   *)
(*                                                                         *)
(* Part (a)  SizeClause / SizeRel : THE PROPERTY, as a relation between    *)
(*           a sizing request, its environment and a result (cols, lines). *)
(* Part (b)  Algo : exact-rational transcription of BaseImage._valid_size  *)
(*           (round-half-even, floor division, ceil, min clamp, `or 1`).   *)
(* Part (c)  the history machine's functional core: a size is either       *)
(*           Fixed(w, h) or Dynamic(mode); operations set_size, the size / *)
(*           width / height setters, terminal resize, set_cell_ratio,      *)
(*           render.                                                       *)
(*                                                                         *)
(* A sizing environment `e` is a record                                    *)
(*   fam    "text" (1 x 2 pixels per cell, pixel ratio = 2 * cell ratio)   *)
(*          | "gfx" (cell-size pixels per cell, pixel ratio = 1)           *)
(*   ow, oh original (source) size in pixels, >= 1                         *)
(*   tc, tl terminal size (columns, lines)                                 *)
(*   fc, fl frame size as GIVEN: > 0 absolute, <= 0 relative to terminal   *)
(*   cw, ch cell size in pixels, (0, 0) when the terminal does not tell    *)
(*   rn, rd cell ratio rn/rd; rn = 0 means "taken from the cell size"      *)
(*          (AutoCellRatio.DYNAMIC; 1/2 when the cell size is unknown)     *)
(* A request `m` is a record [k, a, b]:                                    *)
(*   k in FIT | AUTO | ORIGINAL | FIT_TO_WIDTH          (a = b = 0)        *)
(*      | W  (width  = a given, height automatic)                          *)
(*      | H  (height = a given, width automatic)                           *)
(*      | WH (manual: width = a, height = b)                               *)
(***************************************************************************)
EXTENDS Integers, Sequences

Abs(x) == IF x < 0 THEN -x ELSE x
MaxI(a, b) == IF a >= b THEN a ELSE b
MinI(a, b) == IF a <= b THEN a ELSE b

SizeModes == {"FIT", "AUTO", "ORIGINAL", "FIT_TO_WIDTH"}
Mode(k) == [k |-> k, a |-> 0, b |-> 0]
GivenW(a) == [k |-> "W", a |-> a, b |-> 0]
GivenH(a) == [k |-> "H", a |-> a, b |-> 0]
Manual(a, b) == [k |-> "WH", a |-> a, b |-> b]

DefFC == 0
DefFL == -2      \* the default frame size of set_size() / dynamic sizes: (0, -2)

-----------------------------------------------------------------------------
(* Derived quantities of an environment                                      *)

IsText(e) == e.fam = "text"
NoCell(e) == e.cw = 0

\* pixels per cell, per family (graphics falls back to (1, 2))
CW(e) == IF IsText(e) \/ NoCell(e) THEN 1 ELSE e.cw
CH(e) == IF IsText(e) \/ NoCell(e) THEN 2 ELSE e.ch

\* effective cell ratio (get_cell_ratio)
RatN(e) == IF e.rn > 0 THEN e.rn ELSE IF NoCell(e) THEN 1 ELSE e.cw
RatD(e) == IF e.rn > 0 THEN e.rd ELSE IF NoCell(e) THEN 2 ELSE e.ch

\* pixel ratio PN/PD: the width-to-height ratio of one rendered pixel
PN(e) == IF IsText(e) THEN 2 * RatN(e) ELSE 1
PD(e) == IF IsText(e) THEN RatD(e) ELSE 1

\* frame dimension: absolute if positive, else relative to the terminal dimension
Resolve(f, t) == IF f > 0 THEN f ELSE MaxI(t + f, 1)
FC(e) == Resolve(e.fc, e.tc)
FL(e) == Resolve(e.fl, e.tl)
FWpx(e) == FC(e) * CW(e)
FHpx(e) == FL(e) * CH(e)

WithFrame(e, fc, fl) == [e EXCEPT !.fc = fc, !.fl = fl]

\* everything the clauses and the algorithm read, computed once per environment
\* (TLC re-evaluates operator applications; a record is evaluated once)
Derive(e) ==
  [text |-> IsText(e), ow |-> e.ow, oh |-> e.oh, CW |-> CW(e), CH |-> CH(e), PN |-> PN(e),
   PD |-> PD(e), FC |-> FC(e), FL |-> FL(e), FW |-> FWpx(e), FH |-> FHpx(e)]

-----------------------------------------------------------------------------------------------------------------------------------------------------
(* (a) THE PROPERTY (operators on a derived record d == Derive(e))           *)

\* H is less than one cell away from the exact aspect-preserving height for width W:
\*   exact H = W*CW * (oh/ow) * (PN/PD) / CH
NearH(d, W, H) ==
  Abs(H * d.ow * d.PD * d.CH - W * d.CW * d.oh * d.PN) < d.ow * d.PD * d.CH

\* W is less than one cell away from the exact aspect-preserving width for height H:
\*   exact W = H*CH * (ow/oh) / (PN/PD) / CW
NearW(d, W, H) ==
  Abs(W * d.CW * d.oh * d.PN - H * d.CH * d.ow * d.PD) < d.oh * d.PN * d.CW

\* n/d rounded to the nearest integer, ties to even (Python's round)
RoundHE(n, dd) ==
  LET q == n \div dd
      r == n % dd
  IN IF 2 * r < dd THEN q
     ELSE IF 2 * r > dd THEN q + 1
     ELSE IF q % 2 = 0 THEN q ELSE q + 1
IsTie(n, dd) == 2 * (n % dd) = dd
\* the other neighbour when n/dd is exactly half way
RoundOther(n, dd) == IF IsTie(n, dd) THEN 2 * (n \div dd) + 1 - RoundHE(n, dd) ELSE RoundHE(n, dd)

\* FIT: within the frame, touching it on an axis, the other axis aspect-preserving
FitClause(d, W, H) ==
  IF W > d.FC THEN "exceeds-frame-width"
  ELSE IF H > d.FL THEN "exceeds-frame-height"
  ELSE IF W # d.FC /\ H # d.FL THEN "touches-no-axis"
  ELSE IF ~( (W = d.FC /\ NearH(d, W, H)) \/ (H = d.FL /\ NearW(d, W, H)) ) THEN "aspect"
  ELSE "ok"

\* ORIGINAL: as many pixels as the source has: exact size = (ow/CW, oh*(PN/PD)/CH) cells
OriginalHeightOK(d, H) == Abs(H * d.CH * d.PD - d.oh * d.PN) < d.CH * d.PD
OriginalClause(d, W, H) ==
  IF ~(Abs(W * d.CW - d.ow) < d.CW) THEN "width"
  ELSE IF ~OriginalHeightOK(d, H) THEN "height"
  ELSE "ok"

FitToWidthClause(d, W, H) ==
  IF W # d.FC THEN "width-not-frame-width"
  ELSE IF ~NearH(d, W, H) THEN "aspect"
  ELSE "ok"

\* "the source, scaled for the pixel ratio, fits the frame's pixel area": the source is
\* ow x (oh*PN/PD) pixels, taken in whole pixels (rounded); when the scaled height is
\* exactly half way between two pixels either neighbour is accepted.
SrcFits(d) == d.ow <= d.FW /\ RoundHE(d.oh * d.PN, d.PD) <= d.FH
SrcFitsOther(d) == d.ow <= d.FW /\ RoundOther(d.oh * d.PN, d.PD) <= d.FH
AutoUndecided(d) == SrcFits(d) # SrcFitsOther(d)

Tag(t, c) == IF c = "ok" THEN "ok" ELSE t \o c

AutoClause(d, W, H) ==
  IF W > d.FC THEN "auto:exceeds-frame-width"
  ELSE IF H > d.FL THEN "auto:exceeds-frame-height"
  ELSE IF AutoUndecided(d) THEN
         IF OriginalClause(d, W, H) = "ok" \/ FitClause(d, W, H) = "ok" THEN "ok"
         ELSE "auto:tie:neither-original-nor-fit"
  ELSE IF SrcFits(d) THEN Tag("auto=original:", OriginalClause(d, W, H))
  ELSE Tag("auto=fit:", FitClause(d, W, H))

\* Bounds more than twice as large as anything the property can accept for request m: a
\* dimension beyond them is rejected before any product with it is formed (the callers bound
\* the INPUTS so that products stay below 2^31; an absurd OUTPUT must not overflow the check).
CeilDiv(n, dd) == (n + dd - 1) \div dd
Max3(a, b, c) == MaxI(a, MaxI(b, c))
WCap(m, d) ==
  2 * MaxI(Max3(d.FC, CeilDiv(d.ow, d.CW), CeilDiv(d.FH * d.ow * d.PD, d.oh * d.PN * d.CW)),
           IF m.k \in {"W", "WH"} THEN m.a
           ELSE IF m.k = "H" THEN CeilDiv(m.a * d.CH * d.ow * d.PD, d.oh * d.PN * d.CW) ELSE 0) + 4
HCap(m, d) ==
  2 * MaxI(Max3(d.FL, CeilDiv(d.oh * d.PN, d.PD * d.CH), CeilDiv(d.FW * d.oh * d.PN, d.ow * d.PD * d.CH)),
           IF m.k = "H" THEN m.a ELSE IF m.k = "WH" THEN m.b
           ELSE IF m.k = "W" THEN CeilDiv(m.a * d.CW * d.oh * d.PN, d.ow * d.PD * d.CH) ELSE 0) + 4

SizeClauseD(m, d, W, H) ==
  IF W < 1 \/ H < 1 THEN "positive"
  ELSE IF W > WCap(m, d) \/ H > HCap(m, d) THEN "far-too-large"
  ELSE CASE m.k = "FIT" -> Tag("fit:", FitClause(d, W, H))
         [] m.k = "AUTO" -> AutoClause(d, W, H)
         [] m.k = "ORIGINAL" -> Tag("original:", OriginalClause(d, W, H))
         [] m.k = "FIT_TO_WIDTH" -> Tag("fit_to_width:", FitToWidthClause(d, W, H))
         [] m.k = "W" -> IF W # m.a THEN "width:not-kept"
                         ELSE IF ~NearH(d, W, H) THEN "width:aspect" ELSE "ok"
         [] m.k = "H" -> IF H # m.a THEN "height:not-kept"
                         ELSE IF ~NearW(d, W, H) THEN "height:aspect" ELSE "ok"
         [] m.k = "WH" -> IF W # m.a \/ H # m.b THEN "manual:not-kept" ELSE "ok"
         [] OTHER -> "unknown-mode"

SizeClause(m, e, W, H) == SizeClauseD(m, Derive(e), W, H)
SizeRel(m, e, out) == SizeClause(m, e, out[1], out[2]) = "ok"

-----------------------------------------------------------------------------
(* (b) THE ALGORITHM: _valid_size in exact rational arithmetic               *)

Or1(x) == IF x = 0 THEN 1 ELSE x
\* _pixels_cols(pixels=p) / _pixels_lines(pixels=p)
PxCols(d, p) == IF d.text THEN p ELSE p \div d.CW
PxLines(d, p) == IF d.text THEN (p + 1) \div 2 ELSE p \div d.CH

Res(d, wpx, hpx, br, tie) ==
  [w |-> Or1(PxCols(d, wpx)), h |-> Or1(PxLines(d, hpx)), br |-> br, tie |-> tie]

AlgoOriginal(d) ==
  LET hn == d.oh * d.PN IN
  Res(d, d.ow, RoundHE(hn, d.PD), "original", IsTie(hn, d.PD))

AlgoFitToWidth(d) ==
  LET hn == d.FW * d.oh * d.PN
      hd == d.ow * d.PD IN
  Res(d, d.FW, RoundHE(hn, hd), "fit_to_width", IsTie(hn, hd))

AlgoFit(d) ==
  LET FW == d.FW
      FH == d.FH
      \* exact height for the full frame width, and exact width for the full frame height
      hn == FW * d.oh * d.PN
      hd == d.ow * d.PD
      wn == FH * d.ow * d.PD
      wd == d.oh * d.PN
  IN IF FH * d.ow > FW * d.oh             \* height_ratio > width_ratio: width constrains
     THEN IF hn > FH * hd                  \* min(_height_px, frame_height) clamps
          THEN Res(d, RoundHE(wn, wd), FH, "fit:w:clamped", IsTie(wn, wd))
          ELSE Res(d, FW, RoundHE(hn, hd), "fit:w", IsTie(hn, hd))
     ELSE IF wn > FW * wd                  \* min(_width_px, frame_width) clamps
          THEN Res(d, FW, RoundHE(hn, hd), "fit:h:clamped", IsTie(hn, hd))
          ELSE Res(d, RoundHE(wn, wd), FH, "fit:h", IsTie(wn, wd))

AlgoAuto(d) ==
  LET hn == d.oh * d.PN
      r == IF d.ow > d.FW \/ RoundHE(hn, d.PD) > d.FH THEN AlgoFit(d) ELSE AlgoOriginal(d)
  IN [r EXCEPT !.br = "auto>" \o r.br, !.tie = r.tie \/ IsTie(hn, d.PD)]

AlgoD(m, d) ==
  CASE m.k = "FIT" -> AlgoFit(d)
    [] m.k = "AUTO" -> AlgoAuto(d)
    [] m.k = "ORIGINAL" -> AlgoOriginal(d)
    [] m.k = "FIT_TO_WIDTH" -> AlgoFitToWidth(d)
    [] m.k = "W" -> LET hn == m.a * d.CW * d.oh * d.PN
                        hd == d.ow * d.PD IN
                    [w |-> m.a, h |-> Or1(PxLines(d, RoundHE(hn, hd))), br |-> "given-width",
                     tie |-> IsTie(hn, hd)]
    [] m.k = "H" -> LET wn == m.a * d.CH * d.ow * d.PD
                        wd == d.oh * d.PN IN
                    [w |-> Or1(PxCols(d, RoundHE(wn, wd))), h |-> m.a, br |-> "given-height",
                     tie |-> IsTie(wn, wd)]
    [] m.k = "WH" -> [w |-> m.a, h |-> m.b, br |-> "manual", tie |-> FALSE]

Algo(m, e) == AlgoD(m, Derive(e))
AlgoOut(m, e) == LET r == Algo(m, e) IN <<r.w, r.h>>

-----
(* (c) THE HISTORY MACHINE (functional core)                                 *)
(* state s: the image's constants (fam, ow, oh), the environment             *)
(* (tc, tl, cw, ch, rn, rd) and the stored size sz.                          *)

Fixed(w, h) == [k |-> "fixed", w |-> w, h |-> h, m |-> ""]
Dynamic(mode) == [k |-> "dyn", w |-> 0, h |-> 0, m |-> mode]

EnvOf(s, fc, fl) ==
  [fam |-> s.fam, ow |-> s.ow, oh |-> s.oh, tc |-> s.tc, tl |-> s.tl, fc |-> fc, fl |-> fl,
   cw |-> s.cw, ch |-> s.ch, rn |-> s.rn, rd |-> s.rd]

\* an operation o: [op, k, a, b, fc, fl, tc, tl, cw, ch, rn, rd] (unused fields 0)
OpMode(o) == [k |-> o.k, a |-> o.a, b |-> o.b]
IsSetOp(o) == o.op \in {"set_size", "size=", "width=", "height="}

FixedBy(m, e) == LET r == Algo(m, e) IN Fixed(r.w, r.h)

HApply(s, o) ==
  CASE o.op = "set_size" -> [s EXCEPT !.sz = FixedBy(OpMode(o), EnvOf(s, o.fc, o.fl))]
    [] o.op = "size=" -> [s EXCEPT !.sz = IF o.k \in SizeModes THEN Dynamic(o.k)
                                           ELSE Fixed(o.a, o.b)]
    [] o.op \in {"width=", "height="} ->
         [s EXCEPT !.sz = FixedBy(OpMode(o), EnvOf(s, DefFC, DefFL))]
    [] o.op = "resize" -> [s EXCEPT !.tc = o.tc, !.tl = o.tl, !.cw = o.cw, !.ch = o.ch]
    [] o.op = "cell_ratio" -> [s EXCEPT !.rn = o.rn, !.rd = o.rd]
    [] o.op = "render" -> s

\* what rendered_size reports in state s; also the size in force while rendering
Rendered(s) ==
  IF s.sz.k = "fixed" THEN <<s.sz.w, s.sz.h>> ELSE AlgoOut(Mode(s.sz.m), EnvOf(s, DefFC, DefFL))

RenderedTie(s) == s.sz.k = "dyn" /\ Algo(Mode(s.sz.m), EnvOf(s, DefFC, DefFL)).tie

Obs(s) == [fam |-> s.fam, ow |-> s.ow, oh |-> s.oh, tc |-> s.tc, tl |-> s.tl, cw |-> s.cw,
           ch |-> s.ch, rn |-> s.rn, rd |-> s.rd, sz |-> s.sz, rendered |-> Rendered(s)]
=============================================================================
