SPECIFICATION Spec
CONSTANTS
  MaxRW = 1
  MaxRH = 2
  MaxPad = 1
  MaxFrames = 2
  MaxLoops = 2
INVARIANT SamePlaceEveryFrame
INVARIANT EndsBelowBox
INVARIANT InterruptedRunRestores
INVARIANT FinalizedBeforeReturn
CHECK_DEADLOCK FALSE
