------------------------- MODULE Trace_GlobalConfig -------------------------
(***************************************************************************)
(* X03, code -> spec.  A trace is one REAL history of the public            *)
(* configuration functions of term_image on a scripted terminal:            *)
(*   [world |-> [tty, termprog], term |-> <initial profile>, dflt |-> t,    *)
(*    obs0 |-> <settings before the first call>,                            *)
(*    ev |-> << [op, sub, arg, res, rs, err, w, dt, obs] ... >>]            *)
(* Every event carries the operation with its arguments, what it returned   *)
(* or raised, how many requests the terminal saw, how much virtual time the *)
(* call spent waiting, and `obs`: the five settings as observed AFTER the   *)
(* call ([cr, sup, queries, swap, tmo, odd]).                               *)
(*                                                                         *)
(* The monitor runs the step function of GlobalConfigCore next to the       *)
(* history.  Steps are total; the verdict names the law that governs the    *)
(* first disagreeing observation, the disagreeing field and the event.      *)
(***************************************************************************)
EXTENDS GlobalConfigCore, FiniteSets, TLC, Json, IOUtils

Traces == JsonDeserialize(IOEnv.TRACE_FILE)

VARIABLES tid, l, m, verdict, at, laws, asked
vars == <<tid, l, m, verdict, at, laws, asked>>

Tr == Traces[tid]
Ev == Tr.ev
N == Len(Ev)

Tup(x) == [i \in 1..Len(x) |-> x[i]]
Prof(p) == [cols |-> p.cols, rows |-> p.rows, xpx |-> p.xpx, ypx |-> p.ypx, iopx |-> p.iopx, xt |-> p.xt,
            delay |-> p.delay]

M0(tr) == InitState([tty |-> tr.world.tty, termprog |-> tr.world.termprog], Prof(tr.term), tr.dflt)

Setting(obs, c) ==
  CASE c = "cr" -> Tup(obs.cr)
    [] c = "sup" -> obs.sup
    [] c = "queries" -> obs.queries
    [] c = "swap" -> obs.swap
    [] c = "tmo" -> obs.tmo
Observed(e, c) == Setting(e.obs, c)

SameSetting(c, a, b) == IF c = "cr" THEN SameRatio(a, b) ELSE a = b

\* [m |-> next monitor state, v |-> verdict of this event, law |-> the governing law]
Judge(st, e, dflt) ==
  IF e.op \notin AllOps THEN [m |-> st, v |-> "malformed: unknown operation", law |-> ""]
  ELSE
  LET r == Apply(st, [op |-> e.op, sub |-> e.sub, arg |-> Tup(e.arg)], dflt, "code")
      x == r.out
      errOk == IF x.err = "rejected" THEN e.err # "" ELSE e.err = x.err
      resOk == IF e.op = "GetRatio" THEN Len(e.res) = 2 /\ SameRatio(Tup(e.res), x.res) ELSE Tup(e.res) = x.res
      bad == {c \in Settings : ~SameSetting(c, Observed(e, c), r.s[c])}
      c1 == CHOOSE c \in bad : TRUE
      rejects == IF x.law = "UnsupportedRaises" THEN "UnsupportedRaises" ELSE "Rejects"
      v == IF ~errOk THEN
             (IF x.err = "" THEN x.law \o ":raised"                 \* must be accepted, raised
              ELSE IF e.err = "" THEN rejects \o ":accepted"         \* must raise, was accepted
              ELSE rejects \o ":class")                              \* raised another exception class
           ELSE IF ~resOk THEN x.law \o ":res"
           ELSE IF e.rs # x.rs THEN x.law \o ":rs"
           ELSE IF e.w # x.w THEN x.law \o ":w"
           ELSE IF e.dt # x.dt THEN
             (IF e.dt > st.tmo THEN "WithinTimeout:dt" ELSE x.law \o ":dt")
           ELSE IF e.obs.odd # "" THEN "TypeOK:obs"
           ELSE IF bad = {} THEN "ok"
           ELSE IF x.err # "" /\ ~(e.op = "SetRatioAuto" /\ c1 = "sup" /\ st.sup = "unknown")
             THEN "RejectedChangesNothing:" \o c1
           ELSE IF c1 \notin Touches(e.op) THEN "OnlyOwnSetting:" \o c1
           ELSE IF c1 = "sup" /\ e.op = "SetRatioAuto" THEN
             (IF st.sup = "unknown" THEN "SupportDetermination:sup" ELSE "SupportOnce:sup")
           ELSE x.law \o ":" \o c1
  IN [m |-> r.s, v |-> v, law |-> x.law]

\* the settings of a freshly imported (or reset) module are the documented defaults
Verdict0(tr) ==
  LET bad == {c \in Settings : ~SameSetting(c, Setting(tr.obs0, c), M0(tr)[c])} IN
  IF tr.obs0.odd # "" THEN "TypeOK:obs" ELSE IF bad = {} THEN "ok" ELSE "Defaults:" \o (CHOOSE c \in bad : TRUE)

Init ==
  /\ tid \in 1..Len(Traces)
  /\ l = 0
  /\ m = M0(Traces[tid])
  /\ verdict = Verdict0(Traces[tid])
  /\ at = 0
  /\ laws = {}
  /\ asked = 0

Consume ==
  /\ l < N
  /\ l' = l + 1
  /\ LET j == Judge(m, Ev[l + 1], Tr.dflt)
         v == IF verdict # "ok" THEN verdict ELSE j.v IN
       /\ m' = j.m
       /\ verdict' = v
       /\ at' = IF verdict = "ok" /\ v # "ok" THEN l + 1 ELSE at
       /\ laws' = IF v = "ok" THEN laws \cup {j.law} ELSE laws
       /\ asked' = asked + Ev[l + 1].w
  /\ UNCHANGED tid

Finish ==
  /\ l = N
  /\ l' = N + 1
  /\ UNCHANGED <<tid, m, verdict, at, laws, asked>>

Next == Consume \/ Finish
Spec == Init /\ [][Next]_vars

RECURSIVE SetSeq(_)
SetSeq(S) == IF S = {} THEN <<>> ELSE LET x == CHOOSE x \in S : TRUE IN <<x>> \o SetSeq(S \ {x})

Done == l = N + 1
Report ==
  Done => PrintT(<<"VERDICT", ToJson([tid |-> tid, verdict |-> verdict, at |-> at, events |-> N,
                                        laws |-> SetSeq(laws), asked |-> asked])>>)
=============================================================================
