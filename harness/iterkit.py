"""Real-code side of RenderIter.tla: an instrumented renderable and an adapter that executes
spec operations on a real ``RenderIterator`` and projects what happened (C08, C09, C10).

Projection of ``next()``: the real Frame's number, duration and (padded) render size; the raw
size, margins and args are decoded from the frame's render output (bounding box of the
non-blank cells, letter = frame number, case = args) - a dumb decoding, the judgement
is the comparison with the spec's result.
"""

from __future__ import annotations

import gc

DYN = -1


class ProbeError(Exception):
    pass


_CLASSES = {}


def classes():
    """Create the probe render classes once (real Renderable subclasses)."""
    if _CLASSES:
        return _CLASSES
    from term_image.geometry import Size
    from term_image.renderable import (
        ArgsNamespace,
        Frame,
        FrameCount,
        FrameDuration,
        Renderable,
        Seek,
    )

    class Probe(Renderable):
        """frame i of size (w, h) is h lines of w letters: chr(65+i) (args a0) / chr(97+i) (a1)."""

        finalize_log: dict = {}

        def __init__(self, n, k=0):
            super().__init__(n if n else FrameCount.INDEFINITE, 50)
            self.k = k
            self.pos = 0
            self.size = Size(2, 1)
            self.renders = []  # (frame_offset, whence, size, duration, tag, finalized)
            self.fail_next = None
            self.reclose = None  # iterator to close() re-entrantly from inside the next _render_
            self.reclose_result = None

        def _get_render_size_(self):
            return self.size

        def _render_(self, render_data, render_args):
            d = render_data[Renderable]
            tag = render_args[Probe].tag
            z = render_args[Probe].z
            u = render_args[Probe].u
            self.renders.append(
                (d.frame_offset, d.seek_whence.name, tuple(d.size), d.duration if self.animated else None, tag, render_data.finalized)
            )
            if self.reclose is not None:
                it, self.reclose = self.reclose, None
                try:
                    it.close()
                    self.reclose_result = "ok"
                except Exception as e:  # noqa: BLE001
                    self.reclose_result = type(e).__name__
            if self.fail_next:
                kind, self.fail_next = self.fail_next, None
                if kind == "stop":
                    raise StopIteration
                if kind == "kbrender":
                    raise KeyboardInterrupt
                raise ProbeError("injected render failure")
            if self.frame_count is FrameCount.INDEFINITE and d.iteration:
                off, wh = d.frame_offset, d.seek_whence
                raw = off if wh is Seek.START else self.pos + off if wh is Seek.CURRENT else self.k - 1 + off
                pos = max(raw, 0)
                if pos >= self.k:
                    raise StopIteration
                self.pos = pos + 1
                num = pos
            else:
                num = d.frame_offset
            dur = d.duration if self.animated else 1
            if dur is FrameDuration.DYNAMIC:
                dur = 10 * (num + 1)
            w, h = d.size
            # letter = frame number; alphabet = render arguments (a0: A-Z, a1: a-z,
            # z=-1: Greek capitals, z=-2: Cyrillic capitals - the two hash-colliding ints)
            # u = a list: Greek small letters, u = a dict: Cyrillic small letters - the two
            # render-argument values that are UNHASHABLE (legal: hashability of render args is
            # optional) and are built anew for every set_render_args(): equal, never identical
            base = (0x3B1 if type(u) is list else 0x430 if type(u) is dict
                    else 0x391 if z == -1 else 0x410 if z == -2 else 65 if tag == "a0" else 97)
            ch = chr(base + num % 17)
            return Frame(num, dur, d.size, "\n".join([ch * w] * h))

        @classmethod
        def _finalize_render_data_(cls, render_data):
            Probe.finalize_log[id(render_data)] = Probe.finalize_log.get(id(render_data), 0) + 1
            super()._finalize_render_data_(render_data)

    class ProbeArgs(ArgsNamespace, render_cls=Probe):
        tag: str = "a0"
        z: int = 0
        u: object = None  # free-form user value; a4 / a5 put an unhashable one here

    class Other(Renderable):
        def _get_render_size_(self):
            return Size(1, 1)

        def _render_(self, render_data, render_args):
            return Frame(0, 1, Size(1, 1), " ")

    class OtherArgs(ArgsNamespace, render_cls=Other):
        x: int = 0

    class PlainProbe(Probe):
        """A user subclass that overrides nothing: every hook - the render-data finalizer in
        particular - is INHERITED and must run for it exactly as for Probe."""

    class ChildProbe(Probe):
        """A child render class of Probe with render arguments of its own."""

    class ChildArgs(ArgsNamespace, render_cls=ChildProbe):
        y: int = 0

    _CLASSES.update(Probe=Probe, ProbeArgs=ProbeArgs, Other=Other, OtherArgs=OtherArgs,
                    ChildProbe=ChildProbe, ChildArgs=ChildArgs, PlainProbe=PlainProbe)
    return _CLASSES


def decode_output(text: str):
    """-> (raw (w, h), margins (l, t, r, b), letter) from a padded probe output."""
    lines = text.split("\n")
    rows = [i for i, ln in enumerate(lines) if ln.strip(" ")]
    if not rows:
        return None
    top, bottom = rows[0], rows[-1]
    body = lines[top : bottom + 1]
    lefts = {len(ln) - len(ln.lstrip(" ")) for ln in body}
    widths = {len(ln.strip(" ")) for ln in body}
    rights = {len(ln) - len(ln.rstrip(" ")) for ln in body}
    letters = {c for ln in body for c in ln.strip(" ")}
    total_w = {len(ln) for ln in lines}
    if len(lefts) != 1 or len(widths) != 1 or len(rights) != 1 or len(letters) != 1 or len(total_w) != 1:
        return ("irregular", text)
    (left,), (w,), (right,), (letter,) = lefts, widths, rights, letters
    return ((w, len(body)), (left, top, right, len(lines) - 1 - bottom), letter)


ARGS = {"a0": ("a0", 0), "a1": ("a1", 0), "a2": ("a0", -1), "a3": ("a0", -2)}
# render-argument VALUES that cannot be hashed (C09 round 7): a fresh, equal object per call
UNHASHABLE = {"a4": lambda: ("a0", 0, [1, [2, 3]]), "a5": lambda: ("a0", 0, {"k": [1], "m": {4}})}


def args_fields(name: str):
    """Field values of the probe's render-argument namespace for the spec's opaque value
    ``name``; unhashable members are built anew on every call."""
    return UNHASHABLE[name]() if name in UNHASHABLE else ARGS[name]


def decode_letter(letter: str):
    o = ord(letter)
    for name, base in (("a4", 0x3B1), ("a5", 0x430), ("a2", 0x391), ("a3", 0x410), ("a0", 65), ("a1", 97)):
        if base <= o < base + 17:
            return name, o - base
    return "?", -1


def make_padding(p):
    from term_image.padding import AlignedPadding, ExactPadding, HAlign, VAlign

    fill = p.get("fill", " ")
    if p["kind"] == "exact":
        return ExactPadding(p["l"], p["t"], p["r"], p["b"], fill)
    if p["kind"] == "sub":
        return sub_aligned_class()(p["w"], p["h"], HAlign(p["ha"]), VAlign(p["va"]), fill)
    return AlignedPadding(p["w"], p["h"], HAlign(p["ha"]), VAlign(p["va"]), fill)


_SUB = []


def sub_aligned_class():
    """A user subclass of AlignedPadding (extension API): all padding on the left / at the top."""
    if not _SUB:
        from term_image.padding import AlignedPadding

        class TopLeftPadding(AlignedPadding):
            __slots__ = ()

            def _get_exact_dimensions_(self, render_size):
                left, top, right, bottom = super()._get_exact_dimensions_(render_size)
                return left + right, top + bottom, 0, 0

        _SUB.append(TopLeftPadding)
    return _SUB[0]


TERM0 = (8, 6)  # TW, TH of the RenderIter.tla configurations


def set_terminal(size=TERM0) -> None:
    """What the substituted get_terminal_size() answers (relative paddings resolve against it)."""
    from .env import stubs

    if stubs.ENV.installed:
        stubs.ENV.term_size = tuple(size)


class RealIter:
    """Executes RenderIter.tla operations on a real RenderIterator."""

    def __init__(self, init: dict, variant: int = 0, cache_override=None):
        set_terminal()
        from term_image.padding import ExactPadding
        from term_image.render import RenderIterator
        from term_image.renderable import RenderArgs

        C = classes()
        self.C = C
        n = init.get("n", 0)
        self.definite = n > 0
        # every third walk runs on the subclass that only inherits its hooks
        self.probe = C["PlainProbe" if variant % 3 == 2 else "Probe"](n, init.get("k", 0))
        if self.definite:
            self.probe.seek(1)  # the renderable's own current frame: must never move
        self.tell0 = self.probe.tell()
        loops = init["loops"]
        cached = init["cached"] if cache_override is None else cache_override
        # cache argument variants: bool or an int around the frame count
        if cached:
            cache = [True, n, n + 5][variant % 3] if self.definite else True
        else:
            cache = [False, max(n - 1, 1), False][variant % 3] if self.definite and n > 1 else False
        self.own = init["own"]
        self.data = None
        if self.own == "caller" or variant % 2:
            self.data = self.probe._get_render_data_(iteration=True)
            self.it = RenderIterator._from_render_data_(
                self.probe, self.data, None, ExactPadding(), loops, cache,
                finalize=self.own != "caller",
            )
        else:
            self.it = RenderIterator(self.probe, None, ExactPadding(), loops, cache)
            self.data = self.it._render_data
        self.data_id = id(self.data)
        self._fin_base = C["Probe"].finalize_log.get(self.data_id, 0)
        self.dropped = False

    # -- observations -------------------------------------------------------
    def fin(self) -> int:
        return self.C["Probe"].finalize_log.get(self.data_id, 0) - self._fin_base

    def loop(self):
        return self.it.loop if not self.dropped else None

    # -- operations ---------------------------------------------------------
    def apply(self, op: dict) -> dict:
        from term_image.renderable import FrameDuration, RenderArgs, Seek

        name = op["name"]
        it = self.it
        try:
            if name in ("next", "next_fails", "next_reclose"):
                if name == "next_fails":
                    self.probe.fail_next = op["kind"]
                if name == "next_reclose":
                    self.probe.reclose = it
                    self.probe.reclose_result = None
                before = len(self.probe.renders)
                try:
                    frame = next(it)
                except StopIteration as e:
                    self.probe.fail_next = None
                    return {"res": "stop-finalized" if "finalized" in str(e) else "stop"}
                finally:
                    pass
                rendered = len(self.probe.renders) > before
                dec = decode_output(frame.render_output)
                res = {
                    "res": "frame",
                    "num": frame.number,
                    "dur": frame.duration if type(frame.duration) is int else repr(frame.duration),
                    "psize": list(frame.render_size),
                    "rendered": rendered,
                    "seek": [],
                    "inner": "",
                }
                if dec is None or dec[0] == "irregular":
                    res["decode"] = "irregular-output"
                else:
                    (w, h), margins, letter = dec
                    res["size"] = [w, h]
                    res["margins"] = list(margins)
                    args_, shown = decode_letter(letter)
                    res["args"] = args_
                    if shown != frame.number % 17:
                        res["decode"] = f"output shows frame {shown}, Frame.number={frame.number}"
                if not self.definite and rendered:
                    r = self.probe.renders[-1]
                    res["seek"] = [r[0], r[1]]
                if name == "next_reclose":
                    res["inner"] = self.probe.reclose_result or "not-called"
                    self.probe.reclose = None
                return res
            if name == "seek":
                it.seek(op["off"], Seek[op["whence"]])
            elif name == "set_frame_duration":
                v = op["v"]
                it.set_frame_duration(FrameDuration.DYNAMIC if v == DYN else v)
            elif name == "set_padding":
                it.set_padding(make_padding(op["v"]))
            elif name == "set_render_args":
                v = op["v"]
                if v == "incompatible":
                    ra = RenderArgs(self.C["Other"])
                elif v == "child":
                    ra = RenderArgs(self.C["ChildProbe"], self.C["ChildArgs"](3))
                else:
                    ra = RenderArgs(self.C["Probe"], self.C["ProbeArgs"](*args_fields(v)))
                it.set_render_args(ra)
            elif name == "set_render_size":
                from term_image.geometry import Size

                it.set_render_size(Size(*op["v"]))
            elif name == "resize":
                set_terminal(op["v"])  # the environment: the terminal is resized
            elif name == "close":
                it.close()
            elif name == "drop":
                self.it = None
                del it
                gc.collect()
                self.dropped = True
            else:
                raise AssertionError(name)
        except Exception as e:  # the exception class is the observable
            self.probe.fail_next = None
            return {"res": type(e).__name__, "msg": str(e)[:120]}
        return {"res": "ok"}

    def finalized_data_used(self) -> bool:
        return any(r[5] for r in self.probe.renders)


FRAME_KEYS = ("num", "dur", "size", "margins", "psize", "args", "rendered", "seek", "inner")


def compare(expected: dict, real: dict) -> str | None:
    """Spec result vs projected real result; returns a description of the first mismatch."""
    if expected["res"] != real["res"]:
        return f"result: spec {expected['res']!r}, code {real['res']!r} {real.get('msg', '')}"
    if expected["res"] == "frame":
        if "decode" in real:
            return f"frame output: {real['decode']}"
        for k in FRAME_KEYS:
            e, r = expected.get(k), real.get(k)
            if isinstance(e, (list, tuple)):
                e = list(e)
            if e != r:
                return f"frame.{k}: spec {e!r}, code {r!r}"
    return None
