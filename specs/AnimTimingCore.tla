---------------------------- MODULE AnimTimingCore ----------------------------
(***************************************************************************)
(* X11 - the TIMED side of the animation loops of term-image (functional   *)
(* core, no constants, no variables):                                      *)
(*   new API  Renderable.draw() -> Renderable._animate_()                   *)
(*   old API  BaseImage.draw()  -> BaseImage._display_animated()            *)
(* over a virtual clock counted in ticks (new API: 1 tick = 1 ms; old API: *)
(* 1 tick = 2^-6 s).  Draw.tla (C06) models the same two programs as        *)
(* untimed choreographies; here a sleep has a length and a render a cost.   *)
(*                                                                         *)
(* A SCENARIO sc fixes everything the environment decides:                  *)
(*   api    "new" | "old"                                                   *)
(*   indef  frame count is INDEFINITE (new API only)                        *)
(*   n      frames per loop (definite count, or number of frames rendered   *)
(*          before _render_ raises StopIteration)                           *)
(*   dyn    FrameDuration.DYNAMIC: every frame carries its own duration     *)
(*   d      the static frame duration (used iff ~dyn)                       *)
(*   durs   own duration of every frame (used iff dyn)                      *)
(*   costs  virtual time one render of every frame takes                    *)
(*   ec     time the render call that ends an INDEFINITE animation takes    *)
(*   loops  `loops` / `repeat` (-1 infinite, 0 invalid)                     *)
(*   cache  `cache` / `cached`                                              *)
(*   w      time the write+flush of one frame takes                         *)
(*   ik,ia  Ctrl-C: "none" | the ia-th "render" call | the "write" of the   *)
(*          ia-th frame | the ia-th "sleep"                                 *)
(*   chg, chgv  the user sets frame_duration := chgv during the chg-th      *)
(*          sleep (0: never)                                                *)
(*                                                                         *)
(* The run of a scenario is deterministic: Step is a function.  Every step  *)
(* appends at most one EVENT [k, f, t0, t1, a] to the history:              *)
(*   render f t0 t1      a real render call (f = -1: the call that ended    *)
(*                       an INDEFINITE animation)                           *)
(*   show   f t0 t1      frame f: write begun at t0, flushed at t1          *)
(*   sleep  f t0 t1 a    sleep(a) called at t0 while f is on screen         *)
(*   chg    t0 a         user set the duration to a                         *)
(*   intr   t0 a         KeyboardInterrupt (a: 1 render, 2 write, 3 sleep)  *)
(*   end    t0 a         draw() is over (a = 0 returned, 1 raised)          *)
(***************************************************************************)
EXTENDS Integers, Sequences

Max(a, b) == IF a >= b THEN a ELSE b

Ev(k, f, t0, t1, a) == [k |-> k, f |-> f, t0 |-> t0, t1 |-> t1, a |-> a]

---------------------------------------------------------------------------
(* What the documentation says about the arguments *)

\* RenderIterator: "loops ... ignored and taken to be 1 if INDEFINITE"
Loops(sc) == IF sc.indef THEN 1 ELSE sc.loops
\* RenderIterator: "cache ... ignored and taken to be False if INDEFINITE";
\* ImageIterator: "If repeat equals 1, caching is disabled" (same in _animate_)
Cached(sc) == ~sc.indef /\ sc.cache /\ sc.loops # 1
\* "loops: 0 -> invalid" / "repeat": ValueError
Rejected(sc) == ~sc.indef /\ sc.loops = 0

Total(sc) == IF Loops(sc) < 0 THEN -1 ELSE Loops(sc) * sc.n   \* frames to show; -1: no end
HasFrame(sc, j) == sc.n > 0 /\ (Total(sc) < 0 \/ j <= Total(sc))
FrameAt(sc, j) == (j - 1) % sc.n            \* the j-th frame shown (j = 1, 2, ...)
LoopAt(sc, j) == ((j - 1) \div sc.n) + 1
\* "frame_duration: a static duration i.e the same duration applies to every frame"
\* "DYNAMIC: the duration of each frame is determined at render-time" (Frame.duration)
Dur(sc, f) == IF sc.dyn THEN sc.durs[f + 1] ELSE sc.d
\* a cached frame is not rendered again
RealRender(sc, j) == ~(Cached(sc) /\ LoopAt(sc, j) > 1)
Cost(sc, j) == sc.costs[FrameAt(sc, j) + 1]
\* new API: the last frame gets its duration too before the clean-up;
\* old API: _display_animated returns right after the last frame (named deviation)
LastDwell(sc) == sc.api = "new"

---------------------------------------------------------------------------
(* State of one run *)

Init0(sc) ==
  [sc |-> sc, pc |-> "begin", now |-> 0,
   j |-> 0,           \* ordinal of the frame being rendered / waiting to be shown
   scr |-> -1,        \* frame on screen (-1: none)
   since |-> 0,       \* when it was flushed
   rc |-> 0,          \* render calls so far
   sl |-> 0,          \* sleeps so far
   last |-> FALSE,    \* the sleep in progress is the one after the last frame
   ud |-> IF sc.dyn THEN -1 ELSE sc.d,   \* what the user's frame_duration reads (-1 DYNAMIC)
   cut |-> FALSE,     \* a KeyboardInterrupt was delivered
   hist |-> <<>>]

HitRender(s) == s.sc.ik = "render" /\ s.sc.ia = s.rc + 1
HitSleep(s) == s.sc.ik = "sleep" /\ s.sc.ia = s.sl + 1
HitWrite(s) == s.sc.ik = "write" /\ s.sc.ia = s.j

\* V names a seeded regression of the MODEL ("none": the documented behaviour)
DurV(s, V) ==
  CASE V = "nextdur" /\ ~s.last -> Dur(s.sc, FrameAt(s.sc, s.j))   \* the NEXT frame's duration
    [] V = "firstdur" -> Dur(s.sc, 0)                              \* DYNAMIC ignored
    [] V = "livedur" /\ s.ud >= 0 -> s.ud                          \* follows the user's change
    [] OTHER -> Dur(s.sc, s.scr)

SleepAmount(s, V) ==
  LET left == DurV(s, V) - (s.now - s.since)
  IN IF V = "nomax" THEN left
     ELSE IF V = "oversleep" THEN DurV(s, V)      \* ignores the time already spent
     ELSE Max(0, left)

Kind(s) ==
  LET sc == s.sc IN
  CASE s.pc = "begin" -> IF Rejected(sc) THEN "Reject" ELSE "Start"
    [] s.pc = "render" ->
         IF ~HasFrame(sc, s.j)
         THEN IF sc.indef /\ HitRender(s) THEN "Interrupt" ELSE "EndOfFrames"
         ELSE IF ~RealRender(sc, s.j) THEN "CacheHit"
         ELSE IF HitRender(s) THEN "Interrupt"
         ELSE IF s.j = 1 THEN "RenderFirst" ELSE "RenderNext"
    [] s.pc = "sleep" -> IF HitSleep(s) THEN "SleepCut"
                         ELSE IF s.last THEN "SleepLast" ELSE "Sleep"
    [] s.pc = "cut" -> "Interrupt"
    [] s.pc = "chg" -> "UserSetsDuration"
    [] s.pc = "show" -> IF HitWrite(s) THEN "Interrupt"
                        ELSE IF s.j = 1 THEN "ShowFirst" ELSE "ShowNext"
    [] s.pc = "last" -> "NoLastDwell"
    [] s.pc = "finish" -> "Finish"
    [] OTHER -> "Done"

StepV(s, V) ==
  LET sc == s.sc
      k == Kind(s)
      emit(e) == Append(s.hist, e)
      intr(a) == [s EXCEPT !.pc = "finish", !.cut = TRUE,
                           !.hist = emit(Ev("intr", -1, s.now, s.now, a))]
  IN
  CASE k = "Reject" ->
         [s EXCEPT !.pc = "done", !.hist = emit(Ev("end", -1, s.now, s.now, 1))]
    [] k = "Start" -> [s EXCEPT !.pc = "render", !.j = 1]
    [] k = "Interrupt" ->
         intr(IF s.pc = "render" THEN 1 ELSE IF s.pc = "show" THEN 2 ELSE 3)
    [] k = "EndOfFrames" ->
         \* nothing (more) to show: a definite iterator just stops; an INDEFINITE one finds out
         \* by a render call that raises StopIteration
         LET t1 == s.now + (IF sc.indef THEN sc.ec ELSE 0)
             nxt == IF s.scr < 0 THEN "finish"
                    ELSE IF LastDwell(sc) /\ V # "nolastsleep" THEN "sleep" ELSE "last"
         IN [s EXCEPT !.pc = nxt, !.now = t1, !.last = TRUE,
                      !.rc = IF sc.indef THEN @ + 1 ELSE @,
                      !.hist = IF sc.indef THEN emit(Ev("render", -1, s.now, t1, 0)) ELSE @]
    [] k = "CacheHit" -> [s EXCEPT !.pc = "sleep"]
    [] k \in {"RenderFirst", "RenderNext"} ->
         LET t1 == s.now + Cost(sc, s.j)
         IN [s EXCEPT !.pc = IF s.j = 1 THEN "show" ELSE "sleep", !.now = t1, !.rc = @ + 1,
                      !.hist = emit(Ev("render", FrameAt(sc, s.j), s.now, t1, 0))]
    [] k = "SleepCut" ->
         \* the signal arrives as the sleep begins: no time passes
         [s EXCEPT !.pc = "cut", !.sl = @ + 1,
                   !.hist = emit(Ev("sleep", s.scr, s.now, s.now, SleepAmount(s, V)))]
    [] k \in {"Sleep", "SleepLast"} ->
         LET a == SleepAmount(s, V)
             t1 == s.now + Max(0, a)
         IN [s EXCEPT !.pc = IF sc.chg = s.sl + 1 THEN "chg"
                              ELSE IF s.last THEN "finish" ELSE "show",
                      !.now = t1, !.sl = @ + 1,
                      !.hist = emit(Ev("sleep", s.scr, s.now, t1, a))]
    [] k = "UserSetsDuration" ->
         \* RenderIterator: "Changes to the underlying renderable's frame_duration does not
         \* affect the value yielded by an iterator": only what the user reads back changes
         [s EXCEPT !.pc = IF s.last THEN "finish" ELSE "show", !.ud = sc.chgv,
                   !.hist = emit(Ev("chg", -1, s.now, s.now, sc.chgv))]
    [] k \in {"ShowFirst", "ShowNext"} ->
         LET t1 == s.now + sc.w
             f == FrameAt(sc, s.j)
         IN [s EXCEPT !.pc = "render", !.now = t1, !.scr = f, !.j = @ + 1,
                      !.since = IF V = "startbeforewrite" THEN s.now
                                ELSE IF V = "cumulative" /\ s.scr >= 0 THEN @
                                ELSE t1,
                      !.hist = emit(Ev("show", f, s.now, t1, 0))]
    [] k = "NoLastDwell" -> [s EXCEPT !.pc = "finish"]
    [] k = "Finish" ->
         [s EXCEPT !.pc = "done", !.hist = emit(Ev("end", -1, s.now, s.now, 0))]
    [] OTHER -> s

Step(s) == StepV(s, "none")

\* the state after the next event (silent steps skipped); a finished run stays
RECURSIVE NextEv(_)
NextEv(s) ==
  IF s.pc = "done" THEN s
  ELSE LET t == Step(s)
       IN IF Len(t.hist) > Len(s.hist) \/ t.pc = "done" THEN t ELSE NextEv(t)

---------------------------------------------------------------------------
(* Reading a history *)

Sel(h, kind) == SelectSeq(h, LAMBDA e : e.k = kind)
Interrupted(h) == \E i \in 1..Len(h) : h[i].k = "intr"
Ended(h) == Len(h) > 0 /\ h[Len(h)].k = "end"
\* index of the last "show" before position i (0: none)
RECURSIVE ShowBefore(_, _)
ShowBefore(h, i) == IF i <= 1 THEN 0
                    ELSE IF h[i - 1].k = "show" THEN i - 1 ELSE ShowBefore(h, i - 1)
\* index of the first "show" after position i (0: none)
RECURSIVE ShowAfter(_, _)
ShowAfter(h, i) == IF i >= Len(h) THEN 0
                   ELSE IF h[i + 1].k = "show" THEN i + 1 ELSE ShowAfter(h, i + 1)
\* end of the last activity before position i that takes time (render, show, sleep)
RECURSIVE BusyUntil(_, _)
BusyUntil(h, i) == IF i <= 1 THEN 0
                   ELSE IF h[i - 1].k \in {"render", "show", "sleep"} THEN h[i - 1].t1
                   ELSE BusyUntil(h, i - 1)
=============================================================================
