SPECIFICATION Spec
CONSTANTS
  MaxWeight = 5
  Rich = FALSE
VIEW View
CONSTRAINT Bound
INVARIANT TypeOK
INVARIANT EffectiveIsFirstSetValue
INVARIANT NbIsOneGlobal
INVARIANT ClassOnlyNeverOnInstance
INVARIANT OnlyCurrentSettingTouched
PROPERTY LocalEffect
PROPERTY AncestorsSiblingsUntouched
PROPERTY SetTakesEffect
PROPERTY UnsetFollowsNext
PROPERTY RejectedChangesNothing
PROPERTY RenderChangesNothing
PROPERTY UsedMethodRule
CHECK_DEADLOCK FALSE
