---------------------------- MODULE RenderIterCtor ----------------------------
(***************************************************************************)
(* Construction of a RenderIterator (beyond the listed properties; part of  *)
(* the "documented model" of C08): which argument combinations are          *)
(* accepted, with which error otherwise, and what the fresh iterator looks  *)
(* like (loop count, caching).                                              *)
(*                                                                         *)
(*   renderable not animated                         -> ValueError          *)
(*   loops = 0                                       -> ValueError          *)
(*   cache an integer <= 0 (False is allowed)        -> ValueError          *)
(*   via _from_render_data_: data of another class   -> ValueError          *)
(*                           finalized data          -> ValueError          *)
(*                           data not for iteration  -> ValueError          *)
(*   incompatible render args                        -> IncompatibleRenderArgsError *)
(*   iter(renderable) on a non-animated renderable   -> NonAnimatedRenderableError  *)
(*   a render size / padded size that does NOT fit the terminal is accepted  *)
(*   all the same: iterators never validate sizes against the terminal (only *)
(*   draw() does) - the `fits` dimension has no effect on the verdict, and   *)
(*   the first frame then has the oversized render size                      *)
(*   otherwise: loop = loops (1 for INDEFINITE), cached = cache if boolean   *)
(*   else frame_count <= cache (never for INDEFINITE)                        *)
(***************************************************************************)
EXTENDS Naturals, Integers, TLC, Json

Cases ==
  [via : {"ctor", "from_data", "iter"}, frames : {0, 1, 3},   \* 0 = INDEFINITE, 1 = not animated
   loops : {-1, 0, 2}, cachekind : {"bool", "int"}, cacheb : BOOLEAN, cachen : {-1, 0, 2, 3},
   data : {"ok", "other-class", "finalized", "not-iteration"}, args : {"none", "own", "incompatible"},
   fits : {"yes", "render-too-big", "padding-too-big", "padding-raises"},
   finalize : BOOLEAN]     \* _from_render_data_(finalize=...): does the iterator own the data?

Relevant(c) ==
  /\ (c.via # "from_data" => c.data = "ok")
  /\ (c.via = "iter" => c.loops = 2 /\ c.cachekind = "bool" /\ ~c.cacheb /\ c.args = "none")
  /\ (c.cachekind = "bool" => c.cachen = 2)
  /\ (c.cachekind = "int" => c.cacheb)
  /\ (c.fits # "yes" => c.cachekind = "bool" /\ c.data = "ok" /\ c.args # "incompatible" /\ c.loops # 0)
  /\ (c.via = "iter" => c.fits \notin {"padding-too-big", "padding-raises"})
  /\ (c.fits = "padding-raises" => c.via = "from_data" /\ c.frames # 1)
  /\ (c.via # "from_data" => c.finalize)     \* the parameter exists for _from_render_data_ only

Verdict(c) ==
  IF c.via = "iter" THEN (IF c.frames = 1 THEN "NonAnimatedRenderableError" ELSE "ok")
  ELSE IF c.frames = 1 THEN "ValueError"
  ELSE IF c.loops = 0 THEN "ValueError"
  ELSE IF c.cachekind = "int" /\ c.cachen <= 0 THEN "ValueError"
  ELSE IF c.via = "from_data" /\ c.data # "ok" THEN "ValueError"
  ELSE IF c.args = "incompatible" THEN "IncompatibleRenderArgsError"
  \* a user padding whose get_padded_size() raises makes the set-up fail with that exception;
  \* render data the CALLER kept ownership of (finalize = FALSE) must survive the failed
  \* construction un-finalized (CallerDataSurvives, checked on the real objects after a collection)
  ELSE IF c.fits = "padding-raises" THEN "PadError"
  ELSE "ok"

CallerDataSurvives(c) == c.via = "from_data" /\ ~c.finalize /\ c.data = "ok"

Loop(c) == IF c.frames = 0 THEN 1 ELSE IF c.via = "iter" THEN 1 ELSE c.loops
Cached(c) == IF c.frames = 0 \/ c.via = "iter" THEN FALSE
             ELSE IF c.cachekind = "bool" THEN c.cacheb ELSE c.frames <= c.cachen
=============================================================================
