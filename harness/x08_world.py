"""X08 - read_tty / read_tty_all / write_tty of term_image.utils on a scripted virtual terminal.

The terminal is the virtual-time tty of ``env/vtty.py`` (C12/C13), reached through the same seams
(``utils.os / select / termios / fcntl / monotonic / _tty_fd`` replaced from outside by a
``vtty.Recorder``).  :class:`IoTty` is a ``vtty.VirtualTty`` that additionally

* is fed by an **arrival schedule** in absolute virtual time (``[(at, bytes), ...]``, independent of
  anything written), so input can arrive before a call, while it blocks, exactly at its deadline or
  after it;
* logs for every arriving byte whether the terminal echoed it (= the ECHO bit of the attribute word
  at the moment of arrival);
* has an output side with **partial writes**: a plan says how many bytes each low-level ``write``
  accepts; accepted bytes sit in ``wbuf`` until ``tcdrain`` moves them to ``wire``;
* takes a snapshot of the observable projection of ``specs/TtyIOCore.tla`` (``Obs``: now, queue,
  ECHO bit, echo log, bytes taken, wbuf, wire) after every primitive that changed it.

:class:`Session` runs the operations of ``TtyIO.tla`` through the public functions and returns one
event per call in the vocabulary of ``specs/Trace_TtyIO.tla``.  Everything here is dumb: it executes
and records; the judgement is in the TLA+ modules.
"""

from __future__ import annotations

from . import tlc
from .env import vtty

TNONE, TINF = -1, -2
WIN = {"cols": 80, "rows": 24, "xpx": 0, "ypx": 0}
NO_OP = {"op": "none", "min": 0, "tmo": TNONE, "echo": False, "mk": "default", "mn": 0, "mt": [], "data": [],
         "plan": []}


def read_op(min=0, tmo=TNONE, echo=False, mk="default", mn=0, mt=()) -> dict:
    return dict(NO_OP, op="read", min=min, tmo=tmo, echo=echo, mk=mk, mn=mn, mt=list(mt))


READALL_OP = dict(NO_OP, op="readall")
IDLE_OP = dict(NO_OP, op="idle")


def write_op(data, plan=()) -> dict:
    return dict(NO_OP, op="write", data=list(data), plan=list(plan))


class IoTty(vtty.VirtualTty):
    def __init__(self, codec: vtty.AttrCodec, techo: bool, sched):
        attr0 = {"icanon": True, "echo": bool(techo), "vmin": 1, "vtime": 0, "rest": 0}
        super().__init__(codec, attr0, WIN, False, b"", [])
        self.pend = [(int(at), bytes(d)) for at, d in sched]
        self.elog: list[bool] = []
        self.taken = bytearray()
        self.wbuf = bytearray()
        self.wire = bytearray()
        self.plan: list[int] = []
        self.snaps: list[dict] = []
        self.dead = False  # a call blocks for ever: what the unwinding library does is not observed
        self.pred = None  # the caller's `more` predicate of the call in progress
        self.cargs: list[bytes] = []
        self.cargs_bytearray = True

    # -- observation -----------------------------------------------------------------------
    def obs(self) -> dict:
        return {"now": self.now, "q": list(self.inq), "echo": bool(self.attr["echo"]), "elog": list(self.elog),
                "taken": list(self.taken), "wbuf": list(self.wbuf), "wire": list(self.wire)}

    def snap(self) -> None:
        if self.dead:
            return
        o = self.obs()
        if not self.snaps or self.snaps[-1] != o:
            self.snaps.append(o)

    # -- the device ------------------------------------------------------------------------
    def _deliver(self):
        due = [b for b in self.pend if b[0] <= self.now]
        if due:
            echo = bool(self.attr["echo"])
            for _, d in due:
                self.elog += [echo] * len(d)
        super()._deliver()
        if due:
            self.snap()

    def idle(self) -> None:
        """The program does something else until the next scheduled input arrives."""
        self.now = min(b[0] for b in self.pend)
        self._deliver()

    def tcsetattr(self, fd, when, attr):
        super().tcsetattr(fd, when, attr)
        self.snap()

    def select(self, r, w, x, t):
        try:
            res = super().select(r, w, x, t)
        except vtty.Hang:
            self.dead = True
            raise
        self.snap()
        return res

    def read(self, fd, n):
        try:
            out = super().read(fd, n)
        except vtty.Hang:
            self.dead = True
            raise
        self.taken += out
        self.snap()
        return out

    def write(self, fd, data):
        data = bytes(data)
        k = len(data)
        if self.plan:
            k = min(self.plan.pop(0), k)
        self.wlog.append(data[:k])
        self.wbuf += data[:k]
        self.snap()
        return k

    def tcdrain(self, fd):
        self.wire += self.wbuf
        self.wbuf.clear()
        self.snap()

    def more(self, data, idx: int) -> bool:
        # `data` is what the Recorder converted; the raw argument is kept by Session._more
        return self.pred(data)


def more_value(op: dict, buf: bytes) -> bool:
    """The scripted predicate (executes the table of TtyIOCore.More; the Trace spec re-judges it)."""
    mk = op["mk"]
    if mk == "never":
        return False
    if mk == "count":
        return len(buf) < op["mn"]
    if mk == "term":
        return not buf or buf[-1] not in op["mt"]
    return True


class Lib:
    """One imported term_image.utils with its seams pointed at a Recorder."""

    def __init__(self):
        import term_image.utils as U

        for name in ("read_tty", "read_tty_all", "write_tty"):
            if not hasattr(U, name):
                raise tlc.MachineryError(f"x08: term_image.utils.{name} is missing")
        self.U = U
        self.codec = vtty.AttrCodec()
        self.rec = vtty.Recorder(IoTty(self.codec, True, []), self.codec)
        vtty.install(self.rec, vtty.FAKE_FD)

    def session(self, tty: bool, techo: bool, sched) -> "Session":
        return Session(self, tty, techo, sched)


class Session:
    """One terminal (schedule in absolute ticks) and a history of calls on it."""

    def __init__(self, lib: Lib, tty: bool, techo: bool, sched):
        self.lib, self.tty, self.techo = lib, bool(tty), bool(techo)
        self.sched = [(int(at), bytes(d)) for at, d in sched]
        self.dev = IoTty(lib.codec, techo, self.sched)
        lib.rec.backend = self.dev
        lib.U._tty_fd = vtty.FAKE_FD if tty else -1
        self.last_at = max([at for at, _ in self.sched], default=0)
        self.over = False  # a call blocked for ever: the session ends

    def header(self) -> dict:
        return {"tty": self.tty, "techo": self.techo,
                "sched": [{"at": at, "data": list(d)} for at, d in self.sched]}

    def _more(self, op):
        dev, rec = self.dev, self.lib.rec

        def pred(buf):
            if type(buf) is not bytearray:
                dev.cargs_bytearray = False
            dev.cargs.append(bytes(buf))
            return rec.more(buf)

        dev.pred = lambda data: more_value(op, data)
        return pred

    def do(self, op: dict) -> dict:
        """Execute one operation; returns the event (see Trace_TtyIO.tla)."""
        if self.over:
            raise tlc.MachineryError("x08: operation after a call that blocks for ever")
        U, dev, rec = self.lib.U, self.dev, self.lib.rec
        rec.events.clear()
        rec.n = 0
        rec.nmore = 0
        rec.max_calls = vtty.MAX_CALLS
        dev.snaps = []
        dev.snap()
        dev.cargs = []
        dev.cargs_bytearray = True
        dev.plan = list(op["plan"])
        dev.time_limit = dev.now + max(op["tmo"], 0) + self.last_at + 64
        ev = {"op": op, "none": True, "hung": False, "res": [], "err": "", "t1": dev.now, "cargs": [], "cba": True}
        name = op["op"]
        try:
            if name == "idle":
                if not dev.pend:
                    raise tlc.MachineryError("x08: idle without pending input")
                dev.idle()
                r = None
            elif name == "readall":
                r = U.read_tty_all()
            elif name == "read":
                kw = {}
                if op["mk"] != "default":
                    kw["more"] = self._more(op)
                tmo = None if op["tmo"] == TNONE else -1.0 if op["tmo"] == TINF else op["tmo"] / vtty.TICK_HZ
                r = U.read_tty(timeout=tmo, min=op["min"], echo=op["echo"], **kw)
            elif name == "write":
                r = U.write_tty(bytes(op["data"]))
            else:
                raise tlc.MachineryError(f"x08: unknown operation {name!r}")
            if r is not None:
                if not isinstance(r, bytes):
                    ev["err"] = f"returned:{type(r).__name__}"
                else:
                    ev.update(none=False, res=list(r))
        except vtty.Hang as h:
            ev.update(hung=True, hang=f"{type(h).__name__}: {h}")
            self.over = True
        except tlc.MachineryError:
            raise
        except Exception as e:  # noqa: BLE001 - the class is the observation
            ev["err"] = type(e).__name__
            import traceback

            ev["traceback"] = traceback.format_exc()[-1200:]
        dev.snap()
        ev.update(t1=dev.now, cargs=[list(c) for c in dev.cargs], cba=dev.cargs_bytearray, obs=dev.snaps,
                  nsys=rec.n)
        dev.snaps = []
        return ev


def trace_of(sess: Session, events: list[dict]) -> dict:
    keys = ("op", "none", "hung", "res", "err", "t1", "cargs", "cba", "obs")
    return dict(sess.header(), ev=[{k: e[k] for k in keys} for e in events])
