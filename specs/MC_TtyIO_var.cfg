SPECIFICATION Spec
CONSTANTS
  Times = {1, 4}
  MaxChunks = 2
  MaxChunk = 2
  MaxBytes = 3
  Scheds <- AllScheds
  Ttys = {TRUE}
  TermEchos = {TRUE}
  Mins = {0, 3}
  Tmos <- TmosQuick
  Echos = {TRUE, FALSE}
  Mores <- MoresQuick
  TermBytes <- Terms2
  Datas <- DatasWrite
  Plans <- PlansVar
  Horizon = 8
  MaxWire = 3
  Variant <- EnvVariant
VIEW View
INVARIANT TypeOK
INVARIANT PendFuture
INVARIANT NoTerminalNothing
INVARIANT NothingLostOrDuplicated
INVARIANT ResultArrivedInTime
INVARIANT MinBytes
INVARIANT NonBlocking
INVARIANT WaitBounded
INVARIANT ReturnReason
INVARIANT StopsWhenToldTo
INVARIANT NeverWaitsInVain
INVARIANT EchoDuringReadOnly
INVARIANT ConsultsSeeBuffer
INVARIANT WriteInOrder
INVARIANT WriteComplete
INVARIANT BlocksOnlyWhenDocumented
PROPERTY NoTerminalNone
PROPERTY LeftoverStaysQueued
PROPERTY TimePasses
PROPERTY ReadTouchesOnlyInput
PROPERTY WriteTouchesOnlyOutput
CHECK_DEADLOCK FALSE
