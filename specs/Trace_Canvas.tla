---------------------------- MODULE Trace_Canvas ----------------------------
(***************************************************************************)
(* C17: code -> spec.                                                      *)
(*                                                                         *)
(* The trace file holds                                                    *)
(*   rows      interned row streams [toks, gfx]: the text segments of one  *)
(*             row returned by a REAL UrwidImageCanvas.content(...) call,  *)
(*             concatenated and lexed (harness/lexer.py);                  *)
(*   canvases  [W, H, reqW, reqH, kind, full]: W x H = canvas.cols()/rows(), *)
(*             reqW x reqH = the size given to render() (reqH 0 = flow),   *)
(*             kind "text" | "gfx", full = the row ids of                  *)
(*             the UNTRIMMED canvas.content() of a real, finalized canvas  *)
(*             rendered by a real UrwidImage;                              *)
(*   traces    one per content(trim_left, trim_top, cols, rows) call:      *)
(*             [canvas, tl, tt, cols, rows, got (row ids), announced].     *)
(*                                                                         *)
(* One behaviour per trace, one step per returned row.  Every row is       *)
(* interpreted by Terminal!Apply from column 0 of its own line (urwid      *)
(* positions every line itself), twice: on a terminal that is wider than   *)
(* the row (what happens to the right of the row is visible) and on one    *)
(* where the row ends at the right margin (nothing may wrap or scroll).    *)
(* The expectation is computed here, from the rows of the untrimmed        *)
(* canvas, with UrwidCanvas!CropRow.  Steps are total: the verdict names   *)
(* the first failing clause and `at` the row.                              *)
(***************************************************************************)
EXTENDS Terminal, UrwidCanvas, Json, IOUtils

Data == JsonDeserialize(IOEnv.TRACE_FILE)
Traces == Data.traces
RowTab == Data.rows
Canv == Data.canvases

VARIABLES tid, l, verdict, at, coloured
vars == <<tid, l, verdict, at, coloured>>

Tr == Traces[tid]
N == Len(Tr.got)

(* ---- interpreting one row ------------------------------------------------ *)

\* wide: the row sits on the middle line of a 3-line terminal 2 columns wider than it
WideT(cols) == NewTerminal(cols + 2, 3, 1, 0)
\* tight: a 1-line terminal exactly as wide as the row
TightT(cols) == NewTerminal(cols, 1, 0, 0)

RECURSIVE FoldRow(_, _, _)
FoldRow(T, row, i) ==
  IF i > Len(row.toks) THEN T
  ELSE LET T0 == Apply(T, row.toks[i], row.gfx)
           T1 == IF T0.lfs > 0 THEN Fail(T0, "newline: a row contains a line feed")
                 ELSE IF T0.scrolls > 0 THEN Fail(T0, "scroll: a row scrolled the screen")
                 ELSE IF T0.wraps > 0 THEN Fail(T0, "wrap: a row wrapped at the right margin")
                 ELSE IF T0.r # T.r THEN Fail(T0, "row-left: the cursor left the row's line")
                 ELSE T0
       \* the test forces T1 here: TLC passes operator arguments lazily, and an unforced
       \* chain T1 -> T0 -> T ... over the whole row overflows the Java stack when forced
       IN IF T1.ntok > 0 THEN FoldRow(T1, row, i + 1) ELSE T1

\* what a cell shows: a blank shows its background only
Visible(c) == IF c.g = "sp" THEN <<"sp", c.bg>> ELSE <<c.g, c.ch, c.fg, c.bg>>

\* placements started by the row, relative to its line, with the payload's identity
PlPic(T, row, line) ==
  [i \in DOMAIN T.pl |->
     [dr |-> T.pl[i].row - line, col |-> T.pl[i].col, w |-> T.pl[i].w, h |-> T.pl[i].h,
      z |-> T.pl[i].z, proto |-> T.pl[i].proto, pid |-> row.gfx[T.pl[i].x + 1].pid]]

Pic(T, row, line, n) ==
  [cells |-> [c \in 1..n |-> Visible(CellAt(T, line, c - 1))], pl |-> PlPic(T, row, line)]

BlankPic(n) == [cells |-> [c \in 1..n |-> <<"sp", DefaultColor>>], pl |-> <<>>]

\* UrwidCanvas!CropRow applied to a row picture; placements survive only an uncut row
CropPic(p, tl, cols) ==
  [cells |-> CropRow(p.cells, tl, cols),
   pl |-> IF tl = 0 /\ cols = Len(p.cells) THEN p.pl ELSE <<>>]

IsColoured(p) == p.pl # <<>> \/ \E i \in DOMAIN p.cells : p.cells[i] # <<"sp", DefaultColor>>

LastKind(row) == IF Len(row.toks) = 0 THEN "" ELSE row.toks[Len(row.toks)].k

(* ---- the expectation ------------------------------------------------------ *)

FullPic(cv, y) ==
  LET row == RowTab[cv.full[y]] IN Pic(FoldRow(WideT(cv.W), row, 1), row, 1, cv.W)

Expected(tr, i) ==
  LET cv == Canv[tr.canvas] IN
  \* kind "placeholder": the canvas of the error placeholder rendered in the image's place
  IF cv.kind \in {"text", "placeholder"} \/ (tr.tl = 0 /\ tr.cols = cv.W)
    THEN CropPic(FullPic(cv, tr.tt + i), tr.tl, tr.cols)
    ELSE BlankPic(tr.cols)        \* graphics: a horizontal trim yields blank cells

(* ---- clauses of one row ---------------------------------------------------- *)

\* [v |-> first failing clause or "ok", col |-> the expected picture shows something]
RowResult(tr, i) ==
  LET cv == Canv[tr.canvas]
      row == RowTab[tr.got[i]]
      n == tr.cols
      Tw == FoldRow(WideT(n), row, 1)
      Tt == FoldRow(TightT(n), row, 1)
      want == Expected(tr, i)
      cellsW == DOMAIN Tw.cells
      colsW == {p[2] : p \in Touched(Tw)}
      v ==
        IF i > tr.rows THEN "row-count-more: content() returned more rows than requested"
        ELSE IF tr.tt + i > cv.H THEN "bad-trace: requested rectangle outside the canvas"
        ELSE IF Tw.err # "" THEN Tw.err
        ELSE IF LastKind(row) = "partial"
               THEN "incomplete-sequence: a row ends inside a control sequence"
        ELSE IF Tw.rx # 0 THEN "kitty-chunking-open: chunked transfer not finished within its row"
        ELSE IF \E p \in cellsW : p[1] # 1 THEN "other-line: a row wrote a cell on another line"
        ELSE IF \E p \in Touched(Tw) : p[1] < 1 THEN "other-line: a row covers cells above its line"
        ELSE IF \E c \in colsW : c >= n
               THEN "columns-beyond: a cell beyond the requested columns was written or covered"
        ELSE IF {p[2] : p \in {q \in Touched(Tw) : q[1] = 1}} # 0..(n - 1)
               THEN "columns-missing: a requested column was neither written nor covered"
        ELSE IF ~SgrDefault(Tw) THEN "colour-bleed: text attributes not reset at the end of the row"
        ELSE IF Tw.c # n THEN "cursor-end: the cursor is not just past the row's last column"
        ELSE IF Pic(Tw, row, 1, n) # want
               THEN IF cv.kind \in {"text", "placeholder"}
                      THEN "crop-text: cells differ from the same region of the untrimmed canvas"
                    ELSE IF tr.tl = 0 /\ tr.cols = cv.W
                      THEN "gfx-lines: row does not show the strip of the corresponding line"
                    ELSE "gfx-blank: horizontally trimmed graphics row is not blank"
        ELSE IF Tt.err # "" THEN "tight-" \o Tt.err
        ELSE IF ~SgrDefault(Tt)
               THEN "tight-colour-bleed: attributes not reset (row ending at the margin)"
        ELSE IF Pic(Tt, row, 0, n) # want
               THEN "tight-differs: the row shows something else when it ends at the right margin"
        ELSE "ok"
  IN [v |-> v, col |-> v = "ok" /\ IsColoured(want)]

IsUntrimmed(tr) ==
  LET cv == Canv[tr.canvas] IN tr.tl = 0 /\ tr.tt = 0 /\ tr.cols = cv.W /\ tr.rows = cv.H

\* reqW x reqH = the size the widget was asked to render (reqH = 0: flow, rows are free)
SizeAsRequested(cv) == cv.W = cv.reqW /\ (cv.reqH > 0 => cv.H = cv.reqH)

EndClause(tr) ==
  IF N < tr.rows THEN "row-count-fewer: content() returned fewer rows than requested"
  ELSE IF IsUntrimmed(tr) /\ ~SizeAsRequested(Canv[tr.canvas])
    THEN "canvas-size: canvas.cols()/rows() differ from the size the widget was asked to render"
  ELSE IF tr.announced >= 0 /\ tr.announced # N
    THEN "flow-rows: widget.rows(size) differs from the number of rows rendered"
  ELSE "ok"

(* ---- behaviour --------------------------------------------------------------- *)

Init ==
  /\ tid \in 1..Len(Traces)
  /\ l = 0
  /\ verdict = "ok"
  /\ at = 0
  /\ coloured = 0

Row ==
  /\ l < N
  /\ l' = l + 1
  /\ LET res == RowResult(Tr, l + 1)
         v == IF verdict # "ok" THEN verdict ELSE res.v
     IN
       /\ verdict' = v
       /\ at' = IF verdict = "ok" /\ v # "ok" THEN l + 1 ELSE at
       /\ coloured' = IF verdict = "ok" /\ res.col THEN coloured + 1 ELSE coloured
  /\ UNCHANGED tid

Finish ==
  /\ l = N
  /\ l' = N + 1
  /\ LET v == IF verdict # "ok" THEN verdict ELSE EndClause(Tr) IN
       /\ verdict' = v
       /\ at' = IF verdict = "ok" /\ v # "ok" THEN N + 1 ELSE at
  /\ UNCHANGED <<tid, coloured>>

Next == Row \/ Finish
Spec == Init /\ [][Next]_vars

Done == l = N + 1
Report ==
  Done => PrintT(<<"VERDICT", ToJson([tid |-> tid, verdict |-> verdict, at |-> at,
                                      coloured |-> coloured])>>)
=============================================================================
