------------------------------- MODULE KittyCut -------------------------------
(***************************************************************************)
(* C07, clause "no graphics-protocol command is left unterminated (the      *)
(* terminal is not left swallowing subsequent output)" for the kitty        *)
(* graphics protocol: an image is TRANSMITTED as one or more commands       *)
(*                                                                         *)
(*     APC G <keys> , m=1 ; <base64 chunk> ST      first chunk               *)
(*     APC G m=1 ; <base64 chunk> ST               further chunks            *)
(*     APC G m=0 ; <base64 chunk> ST               last chunk                *)
(*                                                                         *)
(* The payload of `raw` bytes (after the optional compression) is base64    *)
(* encoded FIRST and the TEXT is cut into chunks of at most Chunk           *)
(* characters, so the number of commands is decided by 4*ceil(raw/3), not   *)
(* by raw.  The receiving terminal has two pieces of state a cut-off write  *)
(* can leave behind: the parser inside the APC string (everything up to     *)
(* the next ST is swallowed) and the receiver waiting for the remaining     *)
(* chunks after a complete m=1 command (the next graphics command is taken  *)
(* for a continuation).                                                     *)
(*                                                                         *)
(* The quantifier of C07 "the interrupted write delivering any prefix of    *)
(* its data" is refined here into the grid  PAYLOAD CLASS x CUT CLASS:      *)
(*   payload class = (number of chunks: 1, 2, 3+ ; does the raw payload     *)
(*                    itself fit into one chunk?) - the raw sizes in Raws   *)
(*                    sit on both sides of every boundary: 3072|3073 (base64*)
(*                    text reaches Chunk), 4096|4097 (raw reaches Chunk),   *)
(*                    6144|6145 (third chunk);                              *)
(*   cut class     = the symbol of the transmission after which the write   *)
(*                    stops: APC introducer, keys, m key, half / whole      *)
(*                    payload, ESC of ST, ST - of the first, a middle and   *)
(*                    the last chunk.                                       *)
(* CleanUp is what the library's interrupted-draw handler owes: ST ST (end  *)
(* whatever string is open; the second is a stray, harmless ST) followed by *)
(* the empty last chunk  APC G q=1,m=0 ; ST.  Terminated: after prefix +    *)
(* CleanUp the parser is in ground state and the receiver idle - for every  *)
(* cell of the grid.  The cells are printed (CELL; `open` = ST ST alone     *)
(* would leave the receiver waiting) and the driver must realise EVERY cell *)
(* against the real KittyImage.draw() for both render methods with and      *)
(* without compression; the real byte streams are judged by Terminal.tla    *)
(* (Trace_Draw: "unterminated", "kitty-chunking-open").                     *)
(***************************************************************************)
EXTENDS Naturals, Sequences, TLC, Json

Chunk == 4096
Raws == {1, 3072, 3073, 4096, 4097, 6144, 6145, 9504}

B64Len(raw) == 4 * ((raw + 2) \div 3)
NChunks(raw) == (B64Len(raw) + Chunk - 1) \div Chunk
Min(a, b) == IF a < b THEN a ELSE b

\* the payload class of a transmission of `raw` bytes
Class(raw) == [n |-> Min(NChunks(raw), 3), fits |-> raw <= Chunk]

Roles(n) == IF n = 1 THEN <<"only">> ELSE IF n = 2 THEN <<"first", "last">> ELSE <<"first", "mid", "last">>

Sym(role, s, m) == [role |-> role, s |-> s, m |-> m]
ChunkSyms(role) ==
  LET m == IF role \in {"first", "mid"} THEN 1 ELSE 0
      head == IF role \in {"only", "first"}
                THEN <<Sym(role, "apc", m), Sym(role, "keys", m), Sym(role, "m", m)>>
                ELSE <<Sym(role, "apc", m), Sym(role, "m", m)>>
  IN head \o <<Sym(role, "pay1", m), Sym(role, "pay2", m), Sym(role, "esc", m), Sym(role, "bsl", m)>>

RECURSIVE Concat(_, _)
Concat(roles, i) == IF i > Len(roles) THEN <<>> ELSE ChunkSyms(roles[i]) \o Concat(roles, i + 1)
Transmission(n) == Concat(Roles(n), 1)

ST == <<Sym("cleanup", "esc", 0), Sym("cleanup", "bsl", 0)>>
EndChunked == <<Sym("cleanup", "apc", 0), Sym("cleanup", "m", 0)>> \o ST
CleanUp == ST \o ST \o EndChunked

(* the receiving terminal: ps = parser state, rx = 1 while further chunks are awaited, keys / m  *)
(* = what the command being received has shown so far (m = 2: no m key seen)                     *)

Dispatch(t) ==
  \* a complete command reaches the graphics receiver
  IF t.rx = 1
    THEN (IF ~t.keys /\ t.m = 0 THEN [t EXCEPT !.rx = 0] ELSE t)      \* last chunk ends the transfer
    ELSE (IF t.keys /\ t.m = 1 THEN [t EXCEPT !.rx = 1] ELSE t)       \* first chunk of several

Feed(t, y) ==
  CASE t.ps = "ground" ->
         IF y.s = "apc" THEN [t EXCEPT !.ps = "apc", !.keys = FALSE, !.m = 2]
         ELSE IF y.s = "esc" THEN [t EXCEPT !.ps = "esc"] ELSE t
    [] t.ps = "esc" -> [t EXCEPT !.ps = "ground"]
    [] t.ps = "apc" ->
         IF y.s = "keys" THEN [t EXCEPT !.keys = TRUE]
         ELSE IF y.s = "m" THEN [t EXCEPT !.m = y.m]
         ELSE IF y.s = "esc" THEN [t EXCEPT !.ps = "apcesc"] ELSE t
    [] t.ps = "apcesc" ->
         IF y.s = "bsl" THEN Dispatch([t EXCEPT !.ps = "ground"])
         ELSE IF y.s = "esc" THEN t ELSE [t EXCEPT !.ps = "apc"]

RECURSIVE FeedAll(_, _, _)
FeedAll(t, seq, i) == IF i > Len(seq) THEN t ELSE FeedAll(Feed(t, seq[i]), seq, i + 1)

Start == [ps |-> "ground", rx |-> 0, keys |-> FALSE, m |-> 2]
=============================================================================
