------------------------------ MODULE TtyLock ------------------------------
(***************************************************************************)
(* C14: access to the terminal is serialized across threads and processes. *)
(*                                                                         *)
(* The module models, statement by statement, what term_image/utils.py     *)
(* executes around the module global that names the terminal lock          *)
(* (`_tty_lock`; the same text is instantiated for `_cell_size_lock`):     *)
(*                                                                         *)
(*   synchronized call (lock_tty_wrapper, get_cell_size, get_fg_bg_colors) *)
(*       with G, G: body      ==  a := G; acquire(a); b := G; acquire(b);  *)
(*                                body; release(b); release(a)             *)
(*   Process.start (_process_start_wrapper)                                *)
(*       with G:                  a := G; acquire(a);                      *)
(*         if isinstance(G, thread lock): proc.lock = G = NewProcLock()    *)
(*         else: proc.lock = G                                             *)
(*       (release a); real start()                                         *)
(*   Process.run in the child (_process_run_wrapper)                       *)
(*       if proc.lock: G = proc.lock                                       *)
(*                                                                         *)
(* Every read of the global and every acquire / release is a separate      *)
(* step, so the window between reading the global and acquiring the lock   *)
(* it named is visible.  A child's G is a copy of the parent's (fork) or a *)
(* fresh thread lock (spawn / forkserver: the module is imported afresh)   *)
(* until its run wrapper installs proc.lock.  A FIFO terminal answers the  *)
(* request written inside a critical section.                              *)
(*                                                                         *)
(* Processes are 0..NP-1 (0 = root), threads 1..NT.  Lock 2p is process    *)
(* p's thread lock (threading.RLock), lock 2p+1 the process lock           *)
(* (multiprocessing.RLock) created by p's start wrapper.                   *)
(***************************************************************************)
EXTENDS Integers, Sequences, FiniteSets, TLC, TtyLockAbs

CONSTANTS
  NP,        \* number of processes
  NT,        \* number of threads
  ProcOf,    \* <<p_1, ..., p_NT>> process of each thread; the first thread of a child is its main thread
  Prog,      \* <<prog_1, ...>>, prog = sequence of [k |-> "call", d |-> depth, c |-> Nil] / [k |-> "start", d |-> 0, c |-> child]
  Modes,     \* subset of {"fork", "spawn"}: start methods to explore ("spawn" also stands for forkserver)
  CopyStep,  \* TRUE: the else-branch of the start wrapper reads the global once more (`_tty_lock`); FALSE: it does not (`_cell_size_lock`)
  QInit,     \* subset of BOOLEAN: terminal queries enabled / disabled (disable_queries()) when the root starts
  MaxToggle, \* how often enable_queries() / disable_queries() may be called afterwards
  Creator,   \* <<c_1, ..., c_NT>>: 0 = the thread exists when its process starts running; u > 0 = it comes into existence
             \* later, created by thread u of the same process at ANY moment of u's program (also inside a body)
  Kind,      \* <<k_1, ...>>: "threading" = created through the `threading` module (visible to threading.active_count() /
             \* enumerate()); "raw" = _thread.start_new_thread, C extensions, GUI toolkits (invisible to `threading`)
  Variant    \* "code" = as written; others are seeded regressions used to show the invariants discriminate

Nil == 0 - 1
Procs == 0..(NP - 1)
Children == 1..(NP - 1)
Threads == 1..NT
Locks == 0..(2 * NP - 1)
TL(p) == 2 * p
PL(p) == 2 * p + 1
IsThreadLock(l) == l % 2 = 0

VARIABLES
  G,       \* G[p]: the lock named by process p's module global
  lk,      \* lk[l] = [o |-> owner thread or 0, n |-> recursion count]
  plock,   \* plock[p]: the lock stored on the Process object that starts p (Nil before)
  st,      \* st[p] \in {"none", "boot", "run"}
  th,      \* th[t] = [ip |-> index into Prog[t], fr |-> stack of frames]
  inq,     \* requests written to the terminal, not yet answered
  outq,    \* replies waiting in the tty input queue
  ownok,   \* FALSE once some reader got a reply that was not to its own request
  mode,    \* mode[c]: start method of child c
  qen,     \* the root process' `_queries_enabled` (configuration; lock_tty is about terminal ACCESS -
           \* write_tty, read_tty, the urwid screen - so the protocol must not depend on it)
  ntog,    \* toggles so far
  born,    \* the threads that exist (a process starts with the threads whose Creator is 0; "only one thread so far"
           \* is an initial condition like any other)
  out      \* last step (self-describing edges); not part of the state identity

vars == <<G, lk, plock, st, th, inq, outq, ownok, mode, qen, ntog, born, out>>
View == <<G, lk, plock, st, th, inq, outq, ownok, mode, qen, ntog, born>>

-----------------------------------------------------------------------------
(* Functional core *)

Frame(item) == [pc |-> IF item.k = "call" THEN "ra" ELSE "sr", a |-> Nil, b |-> Nil, d |-> item.d, c |-> item.c]

Depth(t) == Len(th[t].fr)
Top(t) == th[t].fr[Depth(t)]
Runnable(t) == st[ProcOf[t]] = "run" /\ t \in born /\ Depth(t) > 0
At(t, pc) == Runnable(t) /\ Top(t).pc = pc
WithTop(t, f) == [th EXCEPT ![t].fr[Depth(t)] = f]

Reentrant_(l, t) == IF Variant = "nonreentrant" THEN lk[l].o = 0 ELSE lk[l].o \in {0, t}
CanAcq(t, l) == Reentrant_(l, t)
Acquired(t, l) == [lk EXCEPT ![l] = [o |-> t, n |-> lk[l].n + 1]]
Released(t, l) == [lk EXCEPT ![l] = IF lk[l].n <= 1 THEN [o |-> 0, n |-> 0] ELSE [o |-> lk[l].o, n |-> lk[l].n - 1]]

BodyPcs == {"bd", "rd", "nx"}
InBody(t) == \E i \in 1..Depth(t) : th[t].fr[i].pc \in BodyPcs
InBodySet == {t \in Threads : InBody(t)}

AcqTarget(t) ==
  IF ~Runnable(t) THEN Nil
  ELSE IF Top(t).pc \in {"aa", "sa"} THEN Top(t).a
  ELSE IF Top(t).pc = "ab" THEN Top(t).b
  ELSE Nil
BlockedSet == {t \in Threads : AcqTarget(t) # Nil /\ ~CanAcq(t, AcqTarget(t))}
AllDone == \A t \in born : Depth(t) = 0
\* what `threading.active_count()` answers in process p: the threads created through `threading` (the main thread is one)
Visible(p) == {u \in born : ProcOf[u] = p /\ Kind[u] = "threading"}

\* after the frame on top has finished: resume the caller's body, or go to the next program item
PopFrame(t) ==
  IF Depth(t) > 1
    THEN [th EXCEPT ![t].fr =
            [i \in 1..(Depth(t) - 1) |->
               IF i = Depth(t) - 1
                 THEN [th[t].fr[i] EXCEPT !.pc = IF Variant = "single" THEN "xa" ELSE "xb"]
                 ELSE th[t].fr[i]]]
    ELSE LET ip == th[t].ip + 1 IN
         [th EXCEPT ![t] = [ip |-> ip,
                            fr |-> IF ip <= Len(Prog[t]) THEN <<Frame(Prog[t][ip])>> ELSE <<>>]]

Req(t) == <<t, th[t].ip>>

-----------------------------------------------------------------------------
Init ==
  /\ G = [p \in Procs |-> TL(p)]
  /\ lk = [l \in Locks |-> [o |-> 0, n |-> 0]]
  /\ plock = [p \in Procs |-> Nil]
  /\ st = [p \in Procs |-> IF p = 0 THEN "run" ELSE "none"]
  /\ th = [t \in Threads |-> [ip |-> 1, fr |-> IF Len(Prog[t]) > 0 THEN <<Frame(Prog[t][1])>> ELSE <<>>]]
  /\ inq = <<>> /\ outq = <<>> /\ ownok = TRUE
  /\ mode \in [Children -> Modes]
  /\ qen \in QInit /\ ntog = 0
  /\ born = {t \in Threads : Creator[t] = 0}
  /\ out = [t |-> 0, act |-> "init", req |-> <<>>, got |-> <<>>]

Step(t, act) == out' = [t |-> t, act |-> act, req |-> <<>>, got |-> <<>>] /\ UNCHANGED <<qen, ntog, born>>

(* ---- synchronized call ---- *)
\* Variant "fastpath" (seeded regression of the model): "this is the only thread and no process was started, so there
\* is nobody to exclude" - tested at entry only; the call then runs its body without any lock (a = b = Nil)
FastPath(t) == Variant = "fastpath" /\ Cardinality(Visible(ProcOf[t])) = 1 /\ IsThreadLock(G[ProcOf[t]])

DoReadA(t) ==
  /\ At(t, "ra")
  /\ th' = IF FastPath(t) THEN WithTop(t, [Top(t) EXCEPT !.pc = "bd"])
           ELSE WithTop(t, [Top(t) EXCEPT !.a = G[ProcOf[t]], !.pc = "aa"])
  /\ Step(t, "ReadA")
  /\ UNCHANGED <<G, lk, plock, st, inq, outq, ownok, mode>>

DoAcqA(t) ==
  /\ At(t, "aa") /\ CanAcq(t, Top(t).a)
  /\ lk' = Acquired(t, Top(t).a)
  /\ th' = WithTop(t, [Top(t) EXCEPT !.pc = IF Variant = "single" THEN "bd" ELSE "rb"])
  /\ Step(t, "AcqA")
  /\ UNCHANGED <<G, plock, st, inq, outq, ownok, mode>>

DoReadB(t) ==
  /\ At(t, "rb")
  /\ th' = WithTop(t, [Top(t) EXCEPT !.b = G[ProcOf[t]], !.pc = "ab"])
  /\ Step(t, "ReadB")
  /\ UNCHANGED <<G, lk, plock, st, inq, outq, ownok, mode>>

DoAcqB(t) ==
  /\ At(t, "ab") /\ CanAcq(t, Top(t).b)
  /\ lk' = Acquired(t, Top(t).b)
  /\ th' = WithTop(t, [Top(t) EXCEPT !.pc = "bd"])
  /\ Step(t, "AcqB")
  /\ UNCHANGED <<G, plock, st, inq, outq, ownok, mode>>

\* body of an outer call: call the next synchronized function (re-entrant use)
DoNest(t) ==
  /\ At(t, "bd") /\ Top(t).d > 1
  /\ th' = [th EXCEPT ![t].fr =
              Append(WithTop(t, [Top(t) EXCEPT !.pc = "nx"])[t].fr,
                     [pc |-> "ra", a |-> Nil, b |-> Nil, d |-> Top(t).d - 1, c |-> Nil])]
  /\ Step(t, "Nest")
  /\ UNCHANGED <<G, lk, plock, st, inq, outq, ownok, mode>>

\* body of an innermost call: write a request ...
DoWrite(t) ==
  /\ At(t, "bd") /\ Top(t).d <= 1
  /\ inq' = Append(inq, Req(t))
  /\ th' = WithTop(t, [Top(t) EXCEPT !.pc = "rd"])
  /\ out' = [t |-> t, act |-> "Write", req |-> Req(t), got |-> <<>>]
  /\ UNCHANGED <<qen, ntog, born>>
  /\ UNCHANGED <<G, lk, plock, st, outq, ownok, mode>>

\* ... and read the reply, then leave the body
DoRead(t) ==
  /\ At(t, "rd") /\ outq # <<>>
  /\ outq' = Tail(outq)
  /\ ownok' = (ownok /\ Head(outq) = Req(t))
  /\ th' = WithTop(t, [Top(t) EXCEPT !.pc = IF Variant = "single" THEN "xa" ELSE "xb"])
  /\ out' = [t |-> t, act |-> "Read", req |-> Req(t), got |-> Head(outq)]
  /\ UNCHANGED <<qen, ntog, born>>
  /\ UNCHANGED <<G, lk, plock, st, inq, mode>>

DoRelB(t) ==
  /\ At(t, "xb")
  /\ lk' = IF Top(t).b = Nil THEN lk ELSE Released(t, Top(t).b)
  /\ th' = WithTop(t, [Top(t) EXCEPT !.pc = "xa"])
  /\ Step(t, "RelB")
  /\ UNCHANGED <<G, plock, st, inq, outq, ownok, mode>>

DoRelA(t) ==
  /\ At(t, "xa")
  /\ lk' = IF Top(t).a = Nil THEN lk ELSE Released(t, Top(t).a)
  /\ th' = PopFrame(t)
  /\ Step(t, "RelA")
  /\ UNCHANGED <<G, plock, st, inq, outq, ownok, mode>>

(* ---- Process.start wrapper ---- *)
\* starting a process from inside a synchronized call is documented as unsupported:
\* a starter item is never nested in a call (Prog has no such shape)
DoSReadA(t) ==
  /\ At(t, "sr")
  /\ th' = WithTop(t, [Top(t) EXCEPT !.a = G[ProcOf[t]], !.pc = IF Variant = "nohold" THEN "st" ELSE "sa"])
  /\ Step(t, "SReadA")
  /\ UNCHANGED <<G, lk, plock, st, inq, outq, ownok, mode>>

DoSAcqA(t) ==
  /\ At(t, "sa") /\ CanAcq(t, Top(t).a)
  /\ lk' = Acquired(t, Top(t).a)
  /\ th' = WithTop(t, [Top(t) EXCEPT !.pc = "st"])
  /\ Step(t, "SAcqA")
  /\ UNCHANGED <<G, plock, st, inq, outq, ownok, mode>>

\* `isinstance(G, thread lock type)`
DoSTest(t) ==
  LET p == ProcOf[t]
      g == G[p] IN
  /\ At(t, "st")
  /\ IF IsThreadLock(g) /\ Variant = "noswapq" /\ p = 0 /\ ~qen
       THEN \* seeded regression: with queries disabled nothing is swapped and nothing is handed over
            /\ th' = WithTop(t, [Top(t) EXCEPT !.b = g, !.pc = "sx"])
            /\ UNCHANGED plock
       ELSE IF IsThreadLock(g)
       THEN /\ th' = WithTop(t, [Top(t) EXCEPT !.b = g, !.pc = "sn"])
            /\ UNCHANGED plock
       ELSE IF CopyStep
         THEN /\ th' = WithTop(t, [Top(t) EXCEPT !.b = g, !.pc = "sc"])
              /\ UNCHANGED plock
         ELSE /\ th' = WithTop(t, [Top(t) EXCEPT !.b = g, !.pc = IF Variant = "nohold" THEN "sp" ELSE "sx"])
              /\ plock' = [plock EXCEPT ![Top(t).c] = g]
  /\ Step(t, "STest")
  /\ UNCHANGED <<G, lk, st, inq, outq, ownok, mode>>

\* `proc.lock = G = NewProcLock()`
DoSNew(t) ==
  LET p == ProcOf[t] IN
  /\ At(t, "sn")
  /\ G' = [G EXCEPT ![p] = PL(p)]
  /\ plock' = [plock EXCEPT ![Top(t).c] = PL(p)]
  /\ th' = WithTop(t, [Top(t) EXCEPT !.pc = IF Variant = "nohold" THEN "sp" ELSE "sx"])
  /\ Step(t, "SNew")
  /\ UNCHANGED <<lk, st, inq, outq, ownok, mode>>

\* `proc.lock = G`
DoSCopy(t) ==
  /\ At(t, "sc")
  /\ plock' = [plock EXCEPT ![Top(t).c] = G[ProcOf[t]]]
  /\ th' = WithTop(t, [Top(t) EXCEPT !.pc = IF Variant = "nohold" THEN "sp" ELSE "sx"])
  /\ Step(t, "SCopy")
  /\ UNCHANGED <<G, lk, st, inq, outq, ownok, mode>>

DoSRel(t) ==
  /\ At(t, "sx")
  /\ lk' = IF Top(t).a = Nil THEN lk ELSE Released(t, Top(t).a)
  /\ th' = WithTop(t, [Top(t) EXCEPT !.pc = "sp"])
  /\ Step(t, "SRel")
  /\ UNCHANGED <<G, plock, st, inq, outq, ownok, mode>>

\* the real Process.start(): fork copies the module state, spawn/forkserver import the module afresh
DoSSpawn(t) ==
  LET c == Top(t).c IN
  /\ At(t, "sp") /\ st[c] = "none"
  /\ st' = [st EXCEPT ![c] = "boot"]
  /\ G' = [G EXCEPT ![c] = IF mode[c] = "fork" THEN G[ProcOf[t]] ELSE TL(c)]
  /\ th' = PopFrame(t)
  /\ Step(t, "SSpawn")
  /\ UNCHANGED <<lk, plock, inq, outq, ownok, mode>>

(* ---- Process.run wrapper, executed first thing in the child ---- *)
DoRunWrap(c) ==
  /\ c \in Children /\ st[c] = "boot"
  /\ G' = [G EXCEPT ![c] = IF plock[c] # Nil /\ Variant # "norun" THEN plock[c] ELSE G[c]]
  /\ st' = [st EXCEPT ![c] = "run"]
  /\ out' = [t |-> 0, act |-> "RunWrap", req |-> <<c>>, got |-> <<>>]
  /\ UNCHANGED <<qen, ntog, born>>
  /\ UNCHANGED <<lk, plock, th, inq, outq, ownok, mode>>

(* ---- the terminal answers requests in FIFO order ---- *)
DoReply ==
  /\ inq # <<>>
  /\ outq' = Append(outq, Head(inq))
  /\ inq' = Tail(inq)
  /\ out' = [t |-> 0, act |-> "Reply", req |-> Head(inq), got |-> <<>>]
  /\ UNCHANGED <<qen, ntog, born>>
  /\ UNCHANGED <<G, lk, plock, st, th, ownok, mode>>

(* ---- enable_queries() / disable_queries() in the root process ---- *)
DoToggleQ ==
  /\ ntog < MaxToggle
  /\ qen' = ~qen /\ ntog' = ntog + 1
  /\ out' = [t |-> 0, act |-> "ToggleQ", req |-> <<>>, got |-> <<>>]
  /\ UNCHANGED <<G, lk, plock, st, th, inq, outq, ownok, mode, born>>

(* ---- a thread comes into existence ---- *)
\* Thread u is created by its creator at any moment of the creator's program - in particular while the creator (or any
\* other thread) is inside a synchronized body, or inside the start wrapper.  From then on u runs its own program.
DoCreate(u) ==
  /\ u \notin born /\ Creator[u] # 0
  /\ Runnable(Creator[u])
  /\ born' = born \cup {u}
  /\ out' = [t |-> Creator[u], act |-> "Create", req |-> <<u>>, got |-> <<>>]
  /\ UNCHANGED <<G, lk, plock, st, th, inq, outq, ownok, mode, qen, ntog>>

(* ---- time passes ---- *)
\* More time than any timeout the library knows goes by while nobody moves (the thread inside a body stays inside: a long
\* or infinite read_tty(), a slow draw_screen(), a user function decorated with lock_tty).  Whoever waits for a lock
\* still waits: NOTHING changes - in particular the hand-over of the start wrapper (SAcqA .. SRel) stays enabled only
\* when the old lock is free, whatever the wait.  Variant "boundedwait" (seeded regression of the model): a start
\* wrapper that has waited long enough goes on without the lock.
DoElapse ==
  /\ BlockedSet # {}
  /\ IF Variant = "boundedwait" /\ \E t \in BlockedSet : Top(t).pc = "sa"
       THEN LET t == CHOOSE x \in BlockedSet : Top(x).pc = "sa" IN
            th' = WithTop(t, [Top(t) EXCEPT !.a = Nil, !.pc = "st"])
       ELSE UNCHANGED th
  /\ out' = [t |-> 0, act |-> "Elapse", req |-> <<>>, got |-> <<>>]
  /\ UNCHANGED <<G, lk, plock, st, inq, outq, ownok, mode, qen, ntog, born>>

Create == \E u \in Threads : DoCreate(u)
Elapse == DoElapse
ReadA == \E t \in Threads : DoReadA(t)
AcqA == \E t \in Threads : DoAcqA(t)
ReadB == \E t \in Threads : DoReadB(t)
AcqB == \E t \in Threads : DoAcqB(t)
Nest == \E t \in Threads : DoNest(t)
Write == \E t \in Threads : DoWrite(t)
Read == \E t \in Threads : DoRead(t)
RelB == \E t \in Threads : DoRelB(t)
RelA == \E t \in Threads : DoRelA(t)
SReadA == \E t \in Threads : DoSReadA(t)
SAcqA == \E t \in Threads : DoSAcqA(t)
STest == \E t \in Threads : DoSTest(t)
SNew == \E t \in Threads : DoSNew(t)
SCopy == \E t \in Threads : DoSCopy(t)
SRel == \E t \in Threads : DoSRel(t)
SSpawn == \E t \in Threads : DoSSpawn(t)
RunWrap == \E c \in Children : DoRunWrap(c)
Reply == DoReply
ToggleQ == DoToggleQ

Next ==
  \/ ReadA \/ AcqA \/ ReadB \/ AcqB \/ Nest \/ Write \/ Read \/ RelB \/ RelA
  \/ SReadA \/ SAcqA \/ STest \/ SNew \/ SCopy \/ SRel \/ SSpawn \/ RunWrap \/ Reply \/ ToggleQ
  \/ Create \/ Elapse

Spec == Init /\ [][Next]_vars

-----------------------------------------------------------------------------
(* Properties *)

\* at most one thread of any process executes a synchronized body
MutualExclusion == Cardinality(InBodySet) <= 1

\* the reply read in a critical section is the one to the request written in it
OwnReply == ownok

\* a nested call never blocks on its own thread
Reentrant == \A t \in Threads : AcqTarget(t) # Nil /\ lk[AcqTarget(t)].o = t => CanAcq(t, AcqTarget(t))

\* nobody waits forever: some step is possible until every thread of every started process has finished
\* (threads of a process that this configuration never starts do not count)
Finished == \A t \in Threads : Depth(t) = 0 \/ st[ProcOf[t]] = "none" \/ t \notin born
NoDeadlock ==
  \/ Finished
  \/ inq # <<>>
  \/ \E c \in Children : st[c] = "boot"
  \/ \E t \in Threads :
       /\ Runnable(t)
       /\ (AcqTarget(t) # Nil => CanAcq(t, AcqTarget(t)))
       /\ (Top(t).pc = "rd" => outq # <<>>)
       /\ (Top(t).pc = "sp" => st[Top(t).c] = "none")

\* the hand-over: from the test of the global to the release, the start wrapper OWNS the lock it read the global to be -
\* so no thread is inside a body guarded by the old lock when the global is rebound, however long that thread stays
HandOverHeld ==
  \A t \in Threads : Runnable(t) /\ Top(t).pc \in {"st", "sn", "sc", "sx"} => Top(t).a # Nil /\ lk[Top(t).a].o = t

\* everything is released at the end, and nothing is left in the terminal queues
CleanEnd == AllDone => (\A l \in Locks : lk[l].n = 0) /\ inq = <<>> /\ outq = <<>>

\* refinement of the occupancy automaton TtyLockAbs (the one real traces are validated against)
BodyDepth(t) == Cardinality({i \in 1..Depth(t) : th[t].fr[i].pc \in BodyPcs})
Abs ==
  IF InBodySet = {} THEN AbsFree
  ELSE LET t == CHOOSE x \in InBodySet : TRUE IN [h |-> <<t>>, d |-> BodyDepth(t)]
AbsStep ==
  [][\/ Abs' = Abs
     \/ \E t \in Threads : AbsEnterClause(Abs, <<t>>) = "ok" /\ Abs' = AbsEnter(Abs, <<t>>)
     \/ \E t \in Threads : AbsExitClause(Abs, <<t>>) = "ok" /\ Abs' = AbsExit(Abs, <<t>>)]_vars

TypeOK ==
  /\ G \in [Procs -> Locks]
  /\ \A l \in Locks : lk[l].o \in Threads \cup {0} /\ lk[l].n \in 0..4
  /\ \A p \in Procs : plock[p] \in Locks \cup {Nil}
  /\ born \subseteq Threads

=============================================================================
