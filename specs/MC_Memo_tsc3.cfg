SPECIFICATION Spec
CONSTANTS
  NT = 3
  Prog <- Tsc3Prog
  Kind = "tsc"
  Sizes = {1, 2, 3}
  MaxResize = 2
  MaxFail = 1
  KwClass <- KwClasses
  Variant = "code"
INVARIANT BodyOnce
INVARIANT BodyExclusive
INVARIANT ValueFresh
VIEW View
CHECK_DEADLOCK FALSE
ACTION_CONSTRAINT Dump
