SPECIFICATION Spec
CONSTANTS
  Profiles <- ProfAll
  Floats <- F1
  Tmos <- T3
  DefaultTmo <- Default
  NonPos = {"zero", "negative"}
  WrongTypes = {"str", "none"}
  TtyWorlds = {TRUE, FALSE}
  ProgWorlds = {TRUE, FALSE}
  Ops <- OpsQuery
  Variant = "code"
INVARIANT TypeOK
INVARIANT Defaults
INVARIANT UnsupportedRaises
INVARIANT SetValueReturned
INVARIANT DisabledQueries
INVARIANT NoActiveTerminal
INVARIANT WithinTimeout
INVARIANT TimeoutApplies
PROPERTY OnlyOwnSetting
PROPERTY RejectedChangesNothing
PROPERTY SetterStores
PROPERTY SupportOnce
PROPERTY SupportDetermination
PROPERTY FixedSnapshot
PROPERTY DynamicFollows
PROPERTY DisabledUndetermined
PROPERTY NoTerminalNoSupport
CHECK_DEADLOCK FALSE
