------------------------------- MODULE MC_Clear -------------------------------
EXTENDS Clear
VARIABLES c, done
Init == /\ c \in {x \in KittyCases : (x.z # "z" => x.zv = 0)} \cup ITermCases
        /\ done = FALSE
        /\ LET v == IF c.style = "kitty" THEN KittyVerdict(c) ELSE ITermVerdict(c)
               left == Remaining(v, c.zv) IN
           PrintT(<<"TABLE", ToJson([case |-> c, verdict |-> v,
                                     left |-> [i \in DOMAIN left |-> <<left[i].row, left[i].col, left[i].z>>]])>>)
Next == ~done /\ done' = TRUE /\ UNCHANGED c
Spec == Init /\ [][Next]_<<c, done>>
\* deleting never adds placements; "all" leaves none
DeleteOnlyRemoves ==
  LET v == IF c.style = "kitty" THEN KittyVerdict(c) ELSE ITermVerdict(c) IN
  Len(Remaining(v, c.zv)) <= Len(Scene.pl) /\ (v = "all" => Remaining(v, c.zv) = <<>>)
=============================================================================
