"""C11 self-test helper: seeded code mutations (DESIGN 2.9) applied to a scratch copy.

    /venv/bin/python -m harness.c11_mutations [name ...]

Each mutation is a (file, old text, new text) edit of a copy of /repo/src made under
/tmp/c11mut-<name> (removed afterwards); ``./check C11`` is run against the copy through
VERIF_REPO and the signatures of the reported violations are printed.  A mutation counts as
caught when a violation appears whose signature is not one of the signatures the unchanged
tree already produces (BASELINE).
"""

from __future__ import annotations

import json
import os
import re
import shutil
import subprocess
import sys
from pathlib import Path

VERIF = Path(__file__).resolve().parent.parent
COMMON = "src/term_image/image/common.py"

# signatures the unchanged tree produces: none (the ImageIterator.close()-after-image.close()
# leak found by this check was fixed in /repo, commit 840eec5)
BASELINE = re.compile(r"$^")

MUTATIONS: dict[str, tuple[str, str, str, str]] = {
    # name: (file, old, new, what must catch it)
    "iter-close-keeps-img": (
        COMMON,
        "            self._image._close_image(self._img)\n            del self._img\n",
        "",
        "handles-leak after closeiter / exhaustion",
    ),
    "iter-close-no-explicit-close": (
        COMMON,
        "            self._image._close_image(self._img)\n            del self._img\n",
        "            del self._img\n",
        "prompt-close after closeiter / exhaustion (file left to the collector)",
    ),
    "draw-no-seek-restore": (
        COMMON,
        "            self._seek_position = prev_seek_pos\n",
        "",
        "tell-draw",
    ),
    "url-tempfile-before-ctor": (
        COMMON,
        """        try:
            new = cls(Image.open(io.BytesIO(response.content)), **kwargs)
        except UnidentifiedImageError as e:
            e.args = (f"The URL {url!r} doesn't link to an identifiable image",)
            raise

        fd, filepath = mkstemp("-" + os.path.basename(url), dir=_TEMP_DIR)
        os.write(fd, response.content)
        os.close(fd)
""",
        """        fd, filepath = mkstemp("-" + os.path.basename(url), dir=_TEMP_DIR)
        os.write(fd, response.content)
        os.close(fd)
        try:
            new = cls(Image.open(io.BytesIO(response.content)), **kwargs)
        except UnidentifiedImageError as e:
            e.args = (f"The URL {url!r} doesn't link to an identifiable image",)
            raise
""",
        "temp-left after a failed from_url",
    ),
    "convert-resize-no-finally": (
        COMMON,
        None,  # regex edit, see apply()
        None,
        "prompt-close on format/str/draw",
    ),
    "close-keeps-tempfile": (
        COMMON,
        """                    try:
                        os.remove(self._source)
                    except FileNotFoundError:
                        pass
""",
        "",
        "temp-left after closeimage / dropimage",
    ),
    "cache-ignores-size": (
        COMMON,
        "                    if hash(image.rendered_size) != size_hash:\n",
        "                    if size_hash is None:\n",
        "frame-size / cache-visible after a size change in the cached phase",
    ),
    "renderer-keeps-fixed-size": (
        COMMON,
        "        finally:\n            if isinstance(_size, Size):\n                self.size = _size\n",
        "        finally:\n            pass\n",
        "size-changed",
    ),
    "close-image-ignores-source": (
        COMMON,
        "        if not is_source:\n            img.close()\n",
        "        img.close()\n",
        "caller-closed",
    ),
    "exhaustion-keeps-frame": (
        COMMON,
        "                    image._seek_position = n = 0\n                    if repeat > 0:",
        "                    n = 0\n                    if repeat > 0:",
        "tell-exhausted",
    ),
    "nframes-no-close": (
        COMMON,
        "                self._n_frames = img.n_frames\n            finally:\n                self._close_image(img)\n",
        "                self._n_frames = img.n_frames\n            finally:\n                pass\n",
        "prompt-close on nframes / iter / seek",
    ),
    "from-file-no-with": (
        COMMON,
        "        with img:\n            new = cls(img, **kwargs)\n",
        "        new = cls(img, **kwargs)\n",
        "prompt-close on open",
    ),
    "seek-decrements-repeat": (
        COMMON,
        "                sent = yield frame\n                n = n + 1 if sent is None else sent - 1\n\n            image._seek_position = n = 0",
        "                sent = yield frame\n                n = n + 1 if sent is None else n_frames\n\n            image._seek_position = n = 0",
        "frame-index / result (a seek in the cached phase ends the pass)",
    ),
    "close-image-after-finalize": (  # reverts the fix of the defect this check found
        COMMON,
        """        try:
            is_source = img is self._source
        except AttributeError:  # The instance has been finalized
            # A PIL image source must never be closed; any other kind of source is
            # never a PIL image instance.
            is_source = self._source_type is ImageSource.PIL_IMAGE
        if not is_source:
            img.close()
""",
        "        if img is not self._source:\n            img.close()\n",
        "closeiter:handles-leak / dropiter:prompt-close with +image-closed",
    ),
    "release-file-after-first-pass": (  # seeded/C11-s1
        COMMON,
        "        if cached:\n            n_frames = len(cache)\n",
        "        if cached:\n            n_frames = len(cache)\n            image._close_image(img)\n",
        "next:raises:* and next:cache-visible:twin-raises-* (cache miss after the first pass)",
    ),
    "renderer-restores-stale-size": (  # seeded/C11-u2
        COMMON,
        "        finally:\n            if isinstance(_size, Size):\n                self.size = _size\n",
        "        finally:\n            self._size = _size\n",
        "draw-animated:size-changed (the user sets a size while the animation runs)",
    ),
    "url-tempfile-shared-name": (  # seeded/C11-y2
        COMMON,
        """        fd, filepath = mkstemp("-" + os.path.basename(url), dir=_TEMP_DIR)
        os.write(fd, response.content)
        os.close(fd)
""",
        """        filepath = os.path.join(_TEMP_DIR, "url-" + os.path.basename(url))
        with open(filepath, "wb") as temp_file:
            temp_file.write(response.content)
""",
        "peeropen:temp-missing (two URL images share one temporary copy)",
    ),
    "eof-off-by-one": (
        COMMON,
        "            n = n + 1 if sent is None else sent - 1\n\n        if cached:\n            n_frames = len(cache)",
        "            n = n + 1 if sent is None else sent\n\n        if cached:\n            n_frames = len(cache)",
        "frame-index (seek target off by one in the first phase)",
    ),
}


def apply(root: Path, name: str) -> None:
    file, old, new, _ = MUTATIONS[name]
    p = root / file
    text = p.read_text()
    if name == "convert-resize-no-finally":
        text2, n = re.subn(
            r"                finally:\n                    if frame_img is not prev_img:\n"
            r"                        self\._close_image\(prev_img\)\n",
            "",
            text,
        )
        if n != 2:
            raise SystemExit(f"{name}: expected 2 finally blocks, found {n}")
    else:
        if text.count(old) != 1:
            raise SystemExit(f"{name}: anchor text found {text.count(old)} times")
        text2 = text.replace(old, new)
    p.write_text(text2)
    subprocess.run([sys.executable, "-m", "py_compile", str(p)], check=True)


def run(name: str, tier: str = "quick") -> tuple[int, list[str]]:
    root = Path(f"/tmp/c11mut-{name}")
    shutil.rmtree(root, ignore_errors=True)
    root.mkdir(parents=True)
    try:
        subprocess.run(["rsync", "-a", "/repo/src", str(root) + "/"], check=True)
        if name != "unchanged":
            apply(root, name)
        env = dict(os.environ, VERIF_REPO=str(root))
        p = subprocess.run([str(VERIF / "check"), "C11", "--tier", tier], env=env, cwd=VERIF,
                           stdout=subprocess.PIPE, stderr=subprocess.STDOUT, text=True, timeout=3600)
        sigs = re.findall(r"^\s+signature: (.*)$", p.stdout, re.M)
        if p.returncode == 2:
            print(p.stdout[-2500:])
        return p.returncode, sigs
    finally:
        shutil.rmtree(root, ignore_errors=True)


def main(argv: list[str]) -> int:
    names = argv or ["unchanged", *MUTATIONS]
    missed = 0
    for name in names:
        rc, sigs = run(name)
        new = sorted({s for s in sigs if not BASELINE.match(s)})
        verdict = ("baseline only" if not new else "CAUGHT") if name != "unchanged" else (
            "clean" if not new else "UNEXPECTED")
        if name != "unchanged" and not new:
            missed += 1
            verdict = "MISSED"
        print(json.dumps({"mutation": name, "exit": rc, "verdict": verdict, "new_signatures": new,
                          "expected": MUTATIONS.get(name, ("", "", "", "-"))[3]}))
        sys.stdout.flush()
    return 1 if missed else 0


if __name__ == "__main__":
    sys.exit(main(sys.argv[1:]))
