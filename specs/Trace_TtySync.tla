---------------------------- MODULE Trace_TtySync ----------------------------
(***************************************************************************)
(* C14, spec -> code for the SET of synchronized entry points (TtySync).    *)
(* One trace per member, recorded from the real code on a pty by            *)
(* harness/c14_sync_worker.py with a deterministic two-thread protocol:     *)
(*   hold     thread 1 is inside a probe decorated with the real lock_tty   *)
(*   call     thread 2 calls the member                                     *)
(*   wait     thread 2 was seen waiting for the terminal lock               *)
(*   touch    thread 2 reached the member's terminal-touching layer         *)
(*   release  thread 1 leaves the probe (only after thread 2 has touched,   *)
(*            returned or is waiting)                                       *)
(*   return   the member returned                                           *)
(* `hold`/`release` and `touch` are folded through the occupancy automaton  *)
(* TtyLockAbs (a touch is an enter immediately followed by an exit).        *)
(***************************************************************************)
EXTENDS TtySync, TLC, Json, IOUtils, FiniteSets

Traces == JsonDeserialize(IOEnv.TRACE_FILE)

ASSUME PrintT(<<"SYNCSET", ToJson(Synchronized)>>)

VARIABLES tid, l, s, verdict, at, touched, waited, returned
vars == <<tid, l, s, verdict, at, touched, waited, returned>>

Tr == Traces[tid]
Ev == Tr.ev
N == Len(Ev)
Holder == <<0, 1>>
Caller == <<0, 2>>

Clause(st, e) ==
  IF e.k = "hold" THEN AbsEnterClause(st, Holder)
  ELSE IF e.k = "release" THEN AbsExitClause(st, Holder)
  ELSE IF e.k = "touch" THEN
    IF AbsEnterClause(st, Caller) = "ok" THEN "ok"
    ELSE "not-serialized: the member touched the terminal while another thread was inside a function synchronized with lock_tty"
  ELSE IF e.k \in {"call", "wait", "return"} THEN "ok"
  ELSE "malformed: unknown event"

Apply(st, e) ==
  IF e.k = "hold" /\ AbsEnterClause(st, Holder) = "ok" THEN AbsEnter(st, Holder)
  ELSE IF e.k = "release" /\ AbsExitClause(st, Holder) = "ok" THEN AbsExit(st, Holder)
  ELSE st  \* a touch is enter + exit of the caller

EndClause ==
  IF Tr.member \notin SyncNames THEN "malformed: not a member of Synchronized"
  ELSE IF ~returned THEN "Progress: the member never returned after the lock was released"
  ELSE IF ~touched THEN "vacuous: the member never reached its terminal-touching layer"
  ELSE IF s # AbsFree THEN "malformed: the holder never released"
  ELSE "ok"

Init ==
  /\ tid \in 1..Len(Traces)
  /\ l = 0 /\ s = AbsFree /\ verdict = "ok" /\ at = 0
  /\ touched = FALSE /\ waited = FALSE /\ returned = FALSE

Consume ==
  /\ l < N
  /\ l' = l + 1
  /\ LET e == Ev[l + 1]
         v == IF verdict # "ok" THEN verdict ELSE Clause(s, e) IN
       /\ verdict' = v
       /\ at' = IF verdict = "ok" /\ v # "ok" THEN l + 1 ELSE at
       /\ s' = Apply(s, e)
       /\ touched' = (touched \/ e.k = "touch")
       /\ waited' = (waited \/ (e.k = "wait" /\ s.h = Holder))
       /\ returned' = (returned \/ e.k = "return")
  /\ UNCHANGED tid

Finish ==
  /\ l = N
  /\ l' = N + 1
  /\ LET v == IF verdict # "ok" THEN verdict ELSE EndClause IN
       /\ verdict' = v
       /\ at' = IF verdict = "ok" /\ v # "ok" THEN N + 1 ELSE at
  /\ UNCHANGED <<tid, s, touched, waited, returned>>

Next == Consume \/ Finish
Spec == Init /\ [][Next]_vars

Done == l = N + 1
Report ==
  Done => PrintT(<<"VERDICT", ToJson([tid |-> tid, verdict |-> verdict, at |-> at, member |-> Tr.member,
                                        waited |-> waited,
                                        missing |-> SyncNames \ {Traces[i].member : i \in 1..Len(Traces)}])>>)
=============================================================================
