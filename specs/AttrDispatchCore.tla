-------------------------- MODULE AttrDispatchCore --------------------------
(***************************************************************************)
(* X07 (extension): the attribute-dispatch machinery of term_image.utils    *)
(* - ClassInstanceMethod, ClassProperty, ClassInstanceProperty - as a       *)
(* generic protocol over an arbitrary tree of classes and instances, plus   *)
(* the argument-error helpers.  Functional core, no variables.              *)
(*                                                                         *)
(* Documented behaviour modelled (docstrings of utils.py, and of the         *)
(* library's own users `BaseImage.set_render_method`, `forced_support`,      *)
(* `ITerm2Image.jpeg_quality` / `read_from_file`; glossary "descendant"):    *)
(*                                                                         *)
(*  ClassInstanceMethod  "A method which when invoked via the owner,         *)
(*      behaves like a class method and when invoked via an instance,        *)
(*      behaves like an instance method."  `.classmethod(f)` /               *)
(*      `.instancemethod(f)` give a NEW descriptor with that variant          *)
(*      replaced and the other one kept.                                     *)
(*  ClassInstanceProperty "an instance-specific counterpart of a property    *)
(*      of the owner.  Operation on the owner is actually implemented by a   *)
(*      property defined on the owner's metaclass."  GET: effective value of *)
(*      the invoker; SET/DELETE via a class: class-wide, via an instance:    *)
(*      instance-specific; unset class -> parent class or default; unset     *)
(*      instance -> its class ("descendant").                                *)
(*  ClassProperty  "A read-only shadow of a property of the owner."          *)
(*                                                                         *)
(* A world W (the probe classes the harness builds, described by data):      *)
(*   W.nc        number of classes; nodes 1..W.nc are classes, the rest are  *)
(*               instances; class 1 is the root (plain metaclass M1)         *)
(*   W.bases[c]  base classes of class c (ids < c), in declaration order     *)
(*   W.m2[c]     class c is DECLARED with the derived metaclass M2(M1) which *)
(*               redefines property `cip` (other default, same storage) and  *)
(*               c redefines the instance-level `cip` to match               *)
(*   W.cls[n]    class of instance n (0 for a class)                         *)
(*   W.decl[c]   declaration of the ClassInstanceMethod `set_m` in the body  *)
(*               of class c: [own, from, cls, inst]                          *)
(*                 own  = c defines the name at all                          *)
(*                 from = class whose descriptor it is derived from by       *)
(*                        `.classmethod()` / `.instancemethod()` (0: built   *)
(*                        by the constructor)                                *)
(*                 cls / inst = c registers its own class / instance variant *)
(*   W.falsy[n]  instance n is falsy (`__bool__` / `__len__`): irrelevant    *)
(*               to the documented behaviour; only used to NAME a failure    *)
(*                                                                         *)
(* Properties of the probe (kinds):                                          *)
(*   "cip" ClassInstanceProperty, get/set/delete at both levels, values 1..2,*)
(*         default 10 (20 where M2 redefined it)                             *)
(*   "cp"  ClassProperty: class level get/set/delete, instance level is a     *)
(*         read-only shadow of the class's value; default 30                 *)
(*   "ro"  ClassProperty without setter / deleter at both levels; value 50   *)
(*   "m"   a setting reached through the ClassInstanceMethod `set_m(v)`      *)
(*         (None = unset) and read through the ClassInstanceMethod `get_m()`;*)
(*         default 40 (the shape of `set_render_method`)                     *)
(***************************************************************************)
EXTENDS Naturals, Integers, Sequences, FiniteSets

Unset == 0
Vals == {1, 2}
BadType == -1          \* a str where an int is required
BadRange == 99         \* an int outside the accepted range
StoredKinds == {"cip", "cp", "m"}
Kinds == {"cip", "cp", "ro", "m"}

N(W) == Len(W.cls)
Nodes(W) == 1..N(W)
Classes(W) == 1..W.nc
Instances(W) == (W.nc + 1)..N(W)
IsClass(W, n) == n <= W.nc
ClassOf(W, n) == IF IsClass(W, n) THEN n ELSE W.cls[n]
Range(s) == {s[i] : i \in 1..Len(s)}
IndexOf(s, x) == CHOOSE i \in 1..Len(s) : s[i] = x
Min(I) == CHOOSE i \in I : \A j \in I : i <= j

\* ---------------------------------------------------------------- C3 linearization
\* "the nearest class that has a value" under multiple inheritance is the method resolution
\* order: the class, then the merge of the linearizations of its bases and the list of bases
InTail(x, s) == Len(s) > 1 /\ \E i \in 2..Len(s) : s[i] = x

RECURSIVE Merge(_)
Merge(seqs) ==
  LET ne == SelectSeq(seqs, LAMBDA s : s # <<>>) IN
  IF ne = <<>> THEN <<>>
  ELSE LET good == {i \in 1..Len(ne) : \A j \in 1..Len(ne) : ~InTail(ne[i][1], ne[j])} IN
       IF good = {} THEN <<0>>      \* inconsistent hierarchy: Python refuses to create the class
       ELSE LET h == ne[Min(good)][1] IN
            <<h>> \o Merge([k \in 1..Len(ne) |-> IF ne[k][1] = h THEN Tail(ne[k]) ELSE ne[k]])

RECURSIVE Lin(_, _)
Lin(W, c) ==
  <<c>> \o Merge([i \in 1..(Len(W.bases[c]) + 1) |->
                    IF i <= Len(W.bases[c]) THEN Lin(W, W.bases[c][i]) ELSE W.bases[c]])

MroTable(W) == [c \in 1..W.nc |-> Lin(W, c)]

RECURSIVE Ancestors(_, _)
Ancestors(W, c) == {c} \cup UNION {Ancestors(W, W.bases[c][i]) : i \in 1..Len(W.bases[c])}

WellFormedWorld(W) ==
  /\ W.nc >= 1 /\ Len(W.bases) = W.nc /\ Len(W.m2) = W.nc /\ Len(W.decl) = W.nc
  /\ Len(W.falsy) = Len(W.cls)
  /\ W.bases[1] = <<>> /\ ~W.m2[1]
  /\ \A c \in 2..W.nc : /\ Len(W.bases[c]) >= 1
                        /\ \A i \in 1..Len(W.bases[c]) : W.bases[c][i] \in 1..(c - 1)
                        /\ \A i, j \in 1..Len(W.bases[c]) : i # j => W.bases[c][i] # W.bases[c][j]
  /\ \A n \in 1..Len(W.cls) : IF n <= W.nc THEN W.cls[n] = 0 ELSE W.cls[n] \in 1..W.nc
  /\ W.decl[1] = [own |-> TRUE, from |-> 0, cls |-> TRUE, inst |-> TRUE]
  /\ \A c \in 2..W.nc :
       LET d == W.decl[c] IN
         IF ~d.own THEN d.from = 0 /\ ~d.cls /\ ~d.inst
         ELSE /\ (d.cls \/ d.inst)
              /\ IF d.from = 0 THEN d.cls /\ d.inst         \* (the probe always registers both)
                 ELSE d.from \in Ancestors(W, c) \ {c} /\ W.decl[d.from].own

WellFormedMro(W, mt) ==
  \A c \in 1..W.nc :
    /\ mt[c][1] = c
    /\ Range(mt[c]) = Ancestors(W, c)                      \* every ancestor ...
    /\ Len(mt[c]) = Cardinality(Ancestors(W, c))           \* ... exactly once
    /\ \A i \in 1..Len(mt[c]) :                            \* a class precedes its bases, in their order
         LET b == W.bases[mt[c][i]] IN
           \A k \in 1..Len(b) : /\ IndexOf(mt[c], b[k]) > i
                                /\ k > 1 => IndexOf(mt[c], b[k]) > IndexOf(mt[c], b[k - 1])

\* ---------------------------------------------------------------- effective values
\* S[kind][n] \in {Unset} \cup Vals : what is stored at node n itself
Clean(W) == [k \in StoredKinds |-> [n \in 1..N(W) |-> Unset]]

\* the levels a read at n consults, nearest first
LookupChain(W, mt, k, n) ==
  IF IsClass(W, n) THEN mt[n]
  ELSE IF k = "cp" THEN mt[W.cls[n]]                       \* a shadow has no storage of its own
  ELSE <<n>> \o mt[W.cls[n]]

MetaOf(W, mt, c) == IF \E a \in Range(mt[c]) : W.m2[a] THEN 2 ELSE 1

\* instance level: the `cip` property object found first along the class's MRO
InstDefiner(W, mt, c) == mt[c][Min({i \in 1..Len(mt[c]) : mt[c][i] = 1 \/ W.m2[mt[c][i]]})]

Default(W, mt, k, n) ==
  CASE k = "cip" -> IF IsClass(W, n) THEN (IF MetaOf(W, mt, n) = 2 THEN 20 ELSE 10)
                    ELSE (IF W.m2[InstDefiner(W, mt, W.cls[n])] THEN 20 ELSE 10)
    [] k = "cp" -> 30
    [] k = "m" -> 40
    [] k = "ro" -> 50

FirstSet(S, k, chain) ==
  LET I == {i \in 1..Len(chain) : S[k][chain[i]] # Unset} IN
  IF I = {} THEN Unset ELSE S[k][chain[Min(I)]]

Eff(W, mt, S, k, n) ==
  IF k = "ro" THEN Default(W, mt, k, n)
  ELSE LET v == FirstSet(S, k, LookupChain(W, mt, k, n)) IN
       IF v = Unset THEN Default(W, mt, k, n) ELSE v

\* the same, said level by level: own value, else what the NEXT level shows, else the default
NextLevel(W, mt, k, n) ==       \* the lookup chain without its first element
  Tail(LookupChain(W, mt, k, n))
EffBelow(W, mt, S, k, n) ==
  LET v == FirstSet(S, k, NextLevel(W, mt, k, n)) IN IF v = Unset THEN Default(W, mt, k, n) ELSE v

\* nodes whose reads currently pass through node x (x excluded)
InheritsThrough(W, mt, S, k, x) ==
  {n \in Nodes(W) \ {x} :
     LET ch == LookupChain(W, mt, k, n) IN
       /\ x \in Range(ch)
       /\ \A i \in 1..(IndexOf(ch, x) - 1) : S[k][ch[i]] = Unset}

\* ---------------------------------------------------------------- operations
\* op = [k, p, n, a]   k \in get / set / del (properties), call / look (methods), static, err
\*                      p property kind; n node; a argument (0 = None for call)
Level(W, n) == IF IsClass(W, n) THEN "cls" ELSE "inst"
Settable(W, p, n) == p = "cip" \/ (p = "cp" /\ IsClass(W, n))

Res(W, op) ==
  CASE op.k \in {"get", "look", "static", "err"} -> "ok"
    [] op.k = "set" -> IF ~Settable(W, op.p, op.n) THEN "AttributeError"
                       ELSE IF op.a = BadType THEN "TypeError"
                       ELSE IF op.a \notin Vals THEN "ValueError" ELSE "ok"
    [] op.k = "del" -> IF ~Settable(W, op.p, op.n) THEN "AttributeError" ELSE "ok"
    [] op.k = "call" -> IF op.a = BadType THEN "TypeError"
                        ELSE IF op.a \notin Vals \cup {Unset} THEN "ValueError" ELSE "ok"

Apply(W, S, op) ==
  IF Res(W, op) # "ok" THEN S
  ELSE CASE op.k = "set" -> [S EXCEPT ![op.p][op.n] = op.a]
         [] op.k = "del" -> [S EXCEPT ![op.p][op.n] = Unset]
         [] op.k = "call" -> [S EXCEPT !["m"][op.n] = op.a]
         [] OTHER -> S

\* ---------------------------------------------------------------- ClassInstanceMethod dispatch
\* the function a descriptor declared in class c holds for a level: its own registration, else the
\* one of the descriptor it was derived from  (0: none registered)
RECURSIVE VariantOwner(_, _, _)
VariantOwner(W, c, lvl) ==
  LET d == W.decl[c] IN
  IF (lvl = "cls" /\ d.cls) \/ (lvl = "inst" /\ d.inst) THEN c
  ELSE IF d.from = 0 THEN 0 ELSE VariantOwner(W, d.from, lvl)

\* every probe function logs [d: class whose body defines it, lvl, r: what it was bound to] and,
\* except for the root's, delegates with `super().set_m(...)` (which resumes the search after the
\* class that DEFINES the running function); the root's functions validate and store.
RECURSIVE DispatchFrom(_, _, _, _)
DispatchFrom(W, mro, lvl, pos) ==
  LET I == {i \in pos..Len(mro) : W.decl[mro[i]].own} IN
  IF I = {} THEN <<>>
  ELSE LET f == VariantOwner(W, mro[Min(I)], lvl) IN
       IF f = 0 THEN <<0>>
       ELSE <<f>> \o (IF f = 1 THEN <<>> ELSE DispatchFrom(W, mro, lvl, IndexOf(mro, f) + 1))

Entry(d, lvl, r) == [d |-> d, lvl |-> lvl, r |-> r]

\* the log of `n.set_m(a)`: invoked on a class the functions get THAT class, invoked on an
\* instance they get THAT instance - at any depth and through super()
CallLog(W, mt, n) ==
  LET ch == DispatchFrom(W, mt[ClassOf(W, n)], Level(W, n), 1) IN
  [i \in 1..Len(ch) |-> Entry(ch[i], Level(W, n), n)]

\* `get_m()` is declared in the root only
LookLog(W, n) == <<Entry(1, Level(W, n), n)>>

\* what a falsy instance shows if the descriptor tests the instance's truth value instead of its
\* presence: the class variant, bound to the instance's class (named defect hypothesis only)
AsClassLog(W, mt, n) == CallLog(W, mt, W.cls[n])

\* ---------------------------------------------------------------- argument-error helpers
\*   arg_type_error(arg, value, extra)       TypeError  "Invalid type for 'arg' (got: T[; extra])"
\*   arg_type_error_msg(msg, value, extra)   TypeError  "msg (got: T[; extra])"
\*   arg_value_error(arg, value, extra)      ValueError "Invalid value for 'arg' (got: V[; extra])"
\*   arg_value_error_msg(msg, value, extra)  ValueError "msg (got: V[; extra])"
\*   arg_value_error_range(arg, value, extra) ValueError "'arg' out of range (got: V[; extra])"
\* T = type(value).__qualname__, V = repr(value)  (both supplied by the harness as text)
Helpers == {"arg_type_error", "arg_type_error_msg", "arg_value_error", "arg_value_error_msg",
            "arg_value_error_range"}
ErrClass(h) == IF h \in {"arg_type_error", "arg_type_error_msg"} THEN "TypeError" ELSE "ValueError"
ErrMsg(h, arg, tname, vrepr, extra) ==
  LET head == CASE h = "arg_type_error" -> "Invalid type for '" \o arg \o "'"
                [] h = "arg_value_error" -> "Invalid value for '" \o arg \o "'"
                [] h = "arg_value_error_range" -> "'" \o arg \o "' out of range"
                [] OTHER -> arg
      got == IF ErrClass(h) = "TypeError" THEN tname ELSE vrepr
  IN head \o " (got: " \o got \o (IF extra = "" THEN "" ELSE "; " \o extra) \o ")"

\* which helper (and arguments) the probe's setters are written to use, per kind and failure
\* - together they use every helper, with and without the extra part
RejectSpec(p, res) ==
  CASE p = "cip" /\ res = "TypeError" -> [h |-> "arg_type_error", arg |-> "cip", extra |-> ""]
    [] p = "cip" /\ res = "ValueError" -> [h |-> "arg_value_error_range", arg |-> "cip", extra |-> "max=2"]
    [] p = "cp" /\ res = "TypeError" ->
         [h |-> "arg_type_error_msg", arg |-> "cp must be an integer", extra |-> "class-wide"]
    [] p = "cp" /\ res = "ValueError" -> [h |-> "arg_value_error_msg", arg |-> "Unknown cp value", extra |-> ""]
    [] p = "m" /\ res = "TypeError" -> [h |-> "arg_type_error", arg |-> "value", extra |-> "set_m"]
    [] p = "m" /\ res = "ValueError" -> [h |-> "arg_value_error", arg |-> "value", extra |-> ""]

\* message of a rejected set / call (the bad values are the str 'x' and the int 99); "" = not judged
\* (AttributeError of a missing setter / deleter is CPython's text)
\* a direct call of a helper (op.k = "err", op.p = the helper, op.a = 1: with the extra part) on the
\* int 7; the argument name / message used by the probe
HelperArg(h) == IF h \in {"arg_type_error_msg", "arg_value_error_msg"} THEN "Something is wrong" ELSE "arg0"
HelperExtra(a) == IF a = 1 THEN "n=3" ELSE ""
Msg(W, op) ==
  LET r == Res(W, op) IN
  IF op.k = "err" THEN ErrMsg(op.p, HelperArg(op.p), "int", "7", HelperExtra(op.a))
  ELSE IF r \notin {"TypeError", "ValueError"} THEN ""
  ELSE LET s == RejectSpec(op.p, r) IN ErrMsg(s.h, s.arg, "str", IF r = "TypeError" THEN "'x'" ELSE "99", s.extra)

\* ---------------------------------------------------------------- what the real objects must show
Obs(W, mt, S) ==
  [own |-> [k \in StoredKinds |-> [n \in 1..N(W) |-> S[k][n]]],
   eff |-> [k \in Kinds |-> [n \in 1..N(W) |-> Eff(W, mt, S, k, n)]],
   lv |-> [n \in 1..N(W) |-> Level(W, n)]]         \* the level `get_m()` reports when invoked on n

Weight(S) == Cardinality({<<k, n>> \in StoredKinds \X DOMAIN S["cip"] : S[k][n] # Unset})
=============================================================================
