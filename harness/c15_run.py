"""Driver-side helpers of C15: tours of a dumped state graph, worker launch, result collection."""

from __future__ import annotations

import json
import os
import shutil
import signal
import subprocess
import sys
import uuid
from collections import deque
from pathlib import Path

from . import graph
from .tlc import MachineryError

VERIF = Path(__file__).resolve().parent.parent
_LAUNCHED: list = []  # (Popen, outdir) of every worker started by this process
_LLOCK = __import__("threading").Lock()


def cleanup() -> None:
    """Kill every worker (process group) that is still around and remove its directory; drivers
    call this in a ``finally`` so that a machinery failure never leaves processes behind."""
    while _LAUNCHED:
        p, outdir = _LAUNCHED.pop()
        try:
            os.killpg(p.pid, signal.SIGKILL)
        except (ProcessLookupError, PermissionError):
            pass
        try:
            p.wait(timeout=10)
        except Exception:
            pass
        shutil.rmtree(outdir, ignore_errors=True)


def tours(g: graph.Graph, max_len: int = 4000) -> list[list[int]]:
    """Edge cover by few long tours: follow untraversed edges; when stuck, go on (without a
    reset) to the nearest state with an untraversed out-edge; start a new tour from an initial
    state only when none is reachable or the tour is long enough."""
    untrav = {k: {i for i, _ in v} for k, v in g.out.items()}
    dest = {i: kt for outs in g.out.values() for i, kt in outs}
    remaining = sum(len(s) for s in untrav.values())
    res: list[list[int]] = []
    cur, path = None, []
    while remaining:
        starts = [cur] if cur is not None and len(path) < max_len else list(g.inits)
        fresh = starts != [cur]
        prev: dict = {k: None for k in starts}
        dq = deque(starts)
        target = None
        while dq:
            u = dq.popleft()
            if untrav[u]:
                target = u
                break
            for i, v in g.out[u]:
                if v not in prev:
                    prev[v] = (u, i)
                    dq.append(v)
        if target is None:
            if not fresh:  # nothing reachable from here: begin a new tour
                cur = None
                continue
            raise MachineryError(f"{remaining} dumped edges are unreachable from the initial states")
        hop = []
        u = target
        while prev[u] is not None:
            pu, i = prev[u]
            hop.append(i)
            u = pu
        hop.reverse()
        if fresh:
            if path:
                res.append(path)
            path = []
        path += hop
        u = target
        while untrav[u] and len(path) < max_len + 200:
            i = min(untrav[u])
            untrav[u].discard(i)
            remaining -= 1
            path.append(i)
            u = dest[i]
        cur = u
    if path:
        res.append(path)
    return res


def materialize(g: graph.Graph, paths: list[list[int]]) -> list[list[dict]]:
    """Index paths -> what the worker needs (the first edge carries the initial state)."""
    out = []
    for p in paths:
        t = []
        for n, i in enumerate(p):
            e = g.edges[i]
            x = {"op": e["op"], "allowed": e.get("allowed", [])}
            if n == 0:
                x["from"] = e["from"]
            if e.get("fixed"):
                x["fixed"] = e["fixed"]
            if len(e.get("errok", ())) > 1:
                x["errok"] = e["errok"]
            t.append(x)
        out.append(t)
    return out


def shortest_to(g: graph.Graph, edge_index: int) -> list[int]:
    """Shortest index path from an initial state that ends with the given edge."""
    target = graph.key(g.edges[edge_index]["from"])
    prev: dict = {k: None for k in g.inits}
    dq = deque(g.inits)
    while dq:
        u = dq.popleft()
        if u == target:
            break
        for i, v in g.out[u]:
            if v not in prev:
                prev[v] = (u, i)
                dq.append(v)
    path = []
    u = target
    while prev.get(u) is not None:
        pu, i = prev[u]
        path.append(i)
        u = pu
    path.reverse()
    return path + [edge_index]


def launch(job: dict, name: str):
    outdir = VERIF / "out" / "c15" / f"{name}-{uuid.uuid4().hex[:8]}"
    outdir.mkdir(parents=True, exist_ok=True)
    job = dict(job, result_file=str(outdir / "result.json"))
    if "tours" in job:
        (outdir / "tours.json").write_text(json.dumps(job.pop("tours"), separators=(",", ":")))
        job["tours_file"] = str(outdir / "tours.json")
    (outdir / "job.json").write_text(json.dumps(job))
    env = dict(os.environ, PYTHONPATH=f"{job['src']}:{VERIF}", PYTHONHASHSEED="0")
    err = open(outdir / "stderr.txt", "w")
    p = subprocess.Popen(
        [sys.executable, "-m", "harness.c15_worker", str(outdir / "job.json")],
        cwd=VERIF, env=env, stdin=subprocess.DEVNULL, stdout=subprocess.DEVNULL, stderr=err,
        start_new_session=True,
    )
    with _LLOCK:
        _LAUNCHED.append((p, outdir))
    return p, outdir


def collect(p, outdir: Path, timeout: float = 600) -> dict:
    try:
        try:
            p.wait(timeout=timeout)
        except subprocess.TimeoutExpired:
            raise MachineryError(f"C15 worker timed out after {timeout}s ({outdir.name})")
        finally:
            try:
                os.killpg(p.pid, signal.SIGKILL)
            except (ProcessLookupError, PermissionError):
                pass
            p.wait()
            with _LLOCK:
                _LAUNCHED[:] = [x for x in _LAUNCHED if x[0] is not p]
        stderr = (outdir / "stderr.txt").read_text()[-3000:]
        rf = outdir / "result.json"
        if p.returncode != 0 or not rf.exists():
            raise MachineryError(f"C15 worker failed (rc={p.returncode}, {outdir.name}):\n{stderr}")
        return json.loads(rf.read_text())
    finally:
        shutil.rmtree(outdir, ignore_errors=True)
