----------------------------- MODULE UrwidCanvas -----------------------------
(***************************************************************************)
(* C17: trimming an image canvas equals cropping what the full canvas      *)
(* shows.  Functional core shared by the exhaustive model (MC_UrwidCanvas) *)
(* and the trace spec (Trace_Canvas).                                      *)
(*                                                                         *)
(*  CalcTrim      UrwidImageCanvas._ti_calc_trim, transcribed branch by    *)
(*                branch (one axis: [pad1 | image | pad2] cut by trim1     *)
(*                from side 1 and trim2 from side 2).                      *)
(*  Crop          the reference: the sub-rectangle of a grid.              *)
(*  ContentText   UrwidImageCanvas.content(), text branch, transcribed at  *)
(*                the level of cells: a rendered image line is a sequence  *)
(*                of cells, a cell that starts a colour run carries its    *)
(*                SGR prefix, the last cell carries the end-of-line reset. *)
(*                Emits abstract tokens sp / sgr c / g j k / rst which     *)
(*                Interp folds into displayed cells + a final colour.      *)
(*  ContentGfx    content(), graphics branch: one strip per line; a        *)
(*                horizontal trim yields blanks.                           *)
(*  Padding       alignment AS GIVEN IN THE FORMAT SPEC (near / mid / far /  *)
(*                absent = documented default centre / middle) -> (pad1,   *)
(*                pad2): the layout rule of BaseImage._format_render.      *)
(*  ContentPadding the split content() recomputes from the same alignment; *)
(*                must agree with Padding for every alignment value.       *)
(***************************************************************************)
EXTENDS Naturals, Integers, Sequences, FiniteSets, TLC

(* ------------------------------------------------------------------------ *)
(* one axis                                                                 *)
(* ------------------------------------------------------------------------ *)

\* Returns <<new_pad_side1, trim_image_side1, trim_image_side2, new_pad_side2>>
CalcTrim(size, image, trim1, pad1, trim2, pad2) ==
  LET end1 == size - pad2
      a == IF trim1 >= end1                       \* within side2 padding
             THEN [np1 |-> 0, ti1 |-> image, np2 |-> size - trim1]
           ELSE IF trim1 >= pad1                  \* within the image
             THEN [np1 |-> 0, ti1 |-> trim1 - pad1, np2 |-> pad2]
           ELSE                                   \* within side1 padding
                  [np1 |-> pad1 - trim1, ti1 |-> 0, np2 |-> pad2]
      end2 == size - pad1
      b == IF trim2 >= end2                       \* within side1 padding
             THEN [np2 |-> 0, ti2 |-> image, np1 |-> a.np1 - (trim2 - end2)]
           ELSE IF trim2 >= pad2                  \* within the image
             THEN [np2 |-> 0, ti2 |-> trim2 - pad2, np1 |-> a.np1]
           ELSE                                   \* within side2 padding
                  [np2 |-> a.np2 - trim2, ti2 |-> 0, np1 |-> a.np1]
  IN <<b.np1, a.ti1, b.ti2, b.np2>>

Rep(x, n) == [i \in 1..n |-> x]

\* The axis as laid out: 0 = padding cell, k = k-th image cell.
AxisLayout(pad1, image, pad2) == Rep(0, pad1) \o [k \in 1..image |-> k] \o Rep(0, pad2)

\* What is left of a sequence after cutting t1 from the front and t2 from the back.
Cut(s, t1, t2) == SubSeq(s, t1 + 1, Len(s) - t2)

\* The axis as re-assembled from a CalcTrim answer.
AxisFromTrim(image, r) ==
  Rep(0, r[1]) \o Cut([k \in 1..image |-> k], r[2], r[3]) \o Rep(0, r[4])

TrimAnswerWellFormed(image, r) ==
  /\ \A i \in 1..4 : r[i] >= 0
  /\ r[2] <= image /\ r[3] <= image

\* The one-axis statement of C17.
TrimEqualsCut(size, image, trim1, pad1, trim2, pad2) ==
  LET r == CalcTrim(size, image, trim1, pad1, trim2, pad2) IN
  /\ TrimAnswerWellFormed(image, r)
  /\ AxisFromTrim(image, r) = Cut(AxisLayout(pad1, image, pad2), trim1, trim2)

(* ------------------------------------------------------------------------ *)
(* two axes: the reference                                                  *)
(* ------------------------------------------------------------------------ *)

CropRow(row, l, c) == SubSeq(row, l + 1, l + c)

\* grid = sequence of rows (each a sequence of cells); l, t = trim_left, trim_top
Crop(grid, l, t, c, r) == [i \in 1..r |-> CropRow(grid[t + i], l, c)]

(* ------------------------------------------------------------------------ *)
(* alignment                                                                *)
(* ------------------------------------------------------------------------ *)

\* align = the alignment AS GIVEN IN THE WIDGET'S FORMAT SPEC:
\*   "near" ('<' or '^'), "far" ('>' or '_'), "mid" ('|' or '-'),
\*   "absent" - the format spec names no alignment for this axis ("", "#", "<" has no
\*   vertical one, ".^" has no horizontal one; UrwidImage(image) has neither).  The widget
\*   then carries None and the DOCUMENTED DEFAULT applies: centre / middle.
AlignValues == {"near", "mid", "far", "absent"}

DefaultAlign == "mid"
Resolve(align) == IF align = "absent" THEN DefaultAlign ELSE align

Split(a, pad) ==
  CASE a = "near" -> <<0, pad>>
    [] a = "far" -> <<pad, 0>>
    [] a = "mid" -> <<pad \div 2, pad - (pad \div 2)>>

\* BaseImage._format_render: how the canvas is LAID OUT (the default is resolved first)
Padding(align, size, image) == Split(Resolve(align), size - image)

\* content(): how the split is RECOMPUTED from the widget's alignment when a request is
\* trimmed horizontally - transcribed as the chain the code has: the two explicit off-centre
\* values are tested, EVERYTHING ELSE (explicit centre/middle AND absent) is the centred split.
\* ContentIsCrop demands that this agrees with Padding for every value of AlignValues.
ContentPadding(align, size, image) ==
  LET pad == size - image IN
  IF align = "near" THEN <<0, pad>>
  ELSE IF align = "far" THEN <<pad, 0>>
  ELSE <<pad \div 2, pad - (pad \div 2)>>

(* ------------------------------------------------------------------------ *)
(* abstract canvas                                                          *)
(*   cv = [W, H, iw, ih, ha, va, pat]; pat[k] = colour of the k-th cell of   *)
(*   every image line (0 = default colours); the glyph of cell (j, k) is     *)
(*   <<j, k>> so that every cell of the image is distinguishable.            *)
(* ------------------------------------------------------------------------ *)

Sp == <<"sp">>
SgrTok(c) == <<"sgr", c>>
Rst == <<"rst">>
G(j, k) == <<"g", j, k>>

RunStart(cv, k) == k = 1 \/ cv.pat[k] # cv.pat[k - 1]

\* A rendered cell: optional colour prefix, glyph, and the end-of-line reset on the last
CellToks(cv, j, k) ==
  (IF RunStart(cv, k) THEN <<SgrTok(cv.pat[k])>> ELSE <<>>)
  \o <<G(j, k)>>
  \o (IF k = cv.iw THEN <<Rst>> ELSE <<>>)

\* the layout (what the full canvas shows) ...
HPad(cv) == Padding(cv.ha, cv.W, cv.iw)
VPad(cv) == Padding(cv.va, cv.H, cv.ih)
\* ... and the split content() works from
CHPad(cv) == ContentPadding(cv.ha, cv.W, cv.iw)
CVPad(cv) == ContentPadding(cv.va, cv.H, cv.ih)

RECURSIVE Concat(_)
Concat(ss) == IF ss = <<>> THEN <<>> ELSE Head(ss) \o Concat(Tail(ss))

\* _format_render: the untrimmed lines (what content() returns without trimming)
FullLine(cv, y) ==
  LET vp == VPad(cv)
      hp == HPad(cv)
      j == y - vp[1]
  IN IF j < 1 \/ j > cv.ih THEN Rep(Sp, cv.W)
     ELSE Rep(Sp, hp[1]) \o Concat([k \in 1..cv.iw |-> CellToks(cv, j, k)]) \o Rep(Sp, hp[2])

\* the glyph of a blank: a pair like the image glyphs <<j, k>>, so that a blank shown where
\* an image cell is expected is an invariant VIOLATION (TLC can compare them), not an error
BlankG == <<0, 0>>

\* What the full canvas shows: the reference grid of displayed cells
ShownCell(cv, y, x) ==
  LET j == y - VPad(cv)[1]
      k == x - HPad(cv)[1]
  IN IF j \in 1..cv.ih /\ k \in 1..cv.iw THEN [g |-> <<j, k>>, c |-> cv.pat[k]]
     ELSE [g |-> BlankG, c |-> 0]

Shown(cv) == [y \in 1..cv.H |-> [x \in 1..cv.W |-> ShownCell(cv, y, x)]]

\* Interpretation of abstract tokens: displayed cells and the colour left behind
RECURSIVE InterpFrom(_, _, _, _)
InterpFrom(toks, i, cur, acc) ==
  IF i > Len(toks) THEN [cells |-> acc, cur |-> cur]
  ELSE LET t == toks[i] IN
    CASE t[1] = "sp" -> InterpFrom(toks, i + 1, cur, Append(acc, [g |-> BlankG, c |-> cur]))
      [] t[1] = "g" -> InterpFrom(toks, i + 1, cur, Append(acc, [g |-> <<t[2], t[3]>>, c |-> cur]))
      [] t[1] = "sgr" -> InterpFrom(toks, i + 1, t[2], acc)
      [] OTHER -> InterpFrom(toks, i + 1, 0, acc)

Interp(toks) == InterpFrom(toks, 1, 0, <<>>)

\* content(trim_left, trim_top, cols, rows), text branch
ContentText(cv, tl, tt, cols, rows) ==
  LET W == cv.W
      H == cv.H
      iw == cv.iw
      ih == cv.ih
      tb == H - tt - rows
      tr == W - tl - cols
      vp == CVPad(cv)
      v == CalcTrim(H, ih, tt, vp[1], tb, vp[2])
      npt == v[1]
      tit == v[2]
      tib == v[3]
      npb == v[4]
      empty == ih = tit \/ ih = tib
      partial == tit # ih /\ ih # tib
      padline == Rep(Sp, cols)
      hp == CHPad(cv)
      h == CalcTrim(W, iw, tl, hp[1], tr, hp[2])
      npl == h[1]
      til == h[2]
      tir == h[3]
      npr == h[4]
      linefull == til = 0 /\ tir = 0
      linepartial == til # iw /\ iw # tir
      reset == IF iw > tir /\ tir > 0 THEN <<Rst>> ELSE <<>>
      \* first_color: the SGR prefix of the nearest earlier cell that has one
      FirstColour ==
        IF RunStart(cv, til + 1) THEN <<>>
        ELSE LET s == CHOOSE s \in 1..til :
                        RunStart(cv, s) /\ \A u \in (s + 1)..til : ~RunStart(cv, u)
             IN <<SgrTok(cv.pat[s])>>
      ImageLine(j) ==
        IF linefull THEN Concat([k \in 1..iw |-> CellToks(cv, j, k)])
        ELSE IF linepartial
          THEN FirstColour \o Concat([k \in 1..(iw - tir - til) |-> CellToks(cv, j, til + k)])
        ELSE <<>>
      firstj == IF partial THEN tit + 1 ELSE 1
      nimg == IF empty THEN 0 ELSE IF partial THEN ih - tit - tib ELSE ih
  IN IF tl = 0 /\ tr = 0
       THEN [i \in 1..rows |-> FullLine(cv, tt + i)]
       ELSE Rep(padline, npt)
            \o [n \in 1..nimg |->
                  Rep(Sp, npl) \o ImageLine(firstj + n - 1) \o reset \o Rep(Sp, npr)]
            \o Rep(padline, npb)

\* The two-axis statement of C17 for text-based images
ContentShowsCrop(cv, tl, tt, cols, rows) ==
  LET out == ContentText(cv, tl, tt, cols, rows) IN
  /\ Len(out) = rows
  /\ [i \in 1..rows |-> Interp(out[i]).cells] = Crop(Shown(cv), tl, tt, cols, rows)

ContentNoBleed(cv, tl, tt, cols, rows) ==
  LET out == ContentText(cv, tl, tt, cols, rows) IN
  \A i \in 1..Len(out) : Interp(out[i]).cur = 0

(* ---- graphics branch: line y of the canvas holds strip y (or nothing in padding) -- *)

GfxLine(cv, y) == <<"strip", y>>

ContentGfx(cv, tl, tt, cols, rows) ==
  LET tb == cv.H - tt - rows
      tr == cv.W - tl - cols
  IN IF tl # 0 \/ tr # 0 THEN Rep(<<"blank", cols>>, rows)
     ELSE SubSeq([y \in 1..cv.H |-> GfxLine(cv, y)], tt + 1, cv.H - tb)

GfxExpected(cv, tl, tt, cols, rows) ==
  [i \in 1..rows |-> IF tl = 0 /\ cols = cv.W THEN GfxLine(cv, tt + i) ELSE <<"blank", cols>>]

(* ------------------------------------------------------------------------ *)
(* flow sizing: rows() and render() of a flow widget, and the environment   *)
(*                                                                          *)
(* A widget wd = [ow, oh, upscale, broken] shows an image of ow x oh pixels. *)
(* The environment value q stands for the global cell ratio (text styles) /  *)
(* the cell size (graphics styles): pixel ratio = q / 2.  Both the ORIGINAL  *)
(* size in cells and the size fitted to a width depend on it, so nothing     *)
(* derived from it may outlive an environment change.                        *)
(* ------------------------------------------------------------------------ *)

CeilDiv(a, b) == (a + b - 1) \div b
AtLeast1(n) == IF n < 1 THEN 1 ELSE n

OriginalCells(wd, q) == <<wd.ow, AtLeast1(CeilDiv(wd.oh * q, 4))>>
FittedCells(wd, w, q) == <<w, AtLeast1(CeilDiv(w * wd.oh * q, wd.ow * 4))>>

\* the decision shared by UrwidImage.rows() and the flow branch of UrwidImage.render()
FlowImageSize(wd, w, q) ==
  LET ori == OriginalCells(wd, q)
      fit == FittedCells(wd, w, q)
  IN IF wd.upscale THEN fit
     ELSE IF ori[1] <= fit[1] /\ ori[2] <= fit[2] THEN ori ELSE fit

FlowRows(wd, w, q) == FlowImageSize(wd, w, q)[2]

\* render((w,)): the canvas has the requested columns and the rows of the image; when the
\* render fails and a placeholder is set, the placeholder is rendered as a BOX of that size
FlowRender(wd, w, q, ph) ==
  LET size == <<w, FlowImageSize(wd, w, q)[2]>> IN
  IF ~wd.broken THEN [kind |-> "image", cols |-> size[1], rows |-> size[2]]
  ELSE IF ph = "none" THEN [kind |-> "raises", cols |-> 0, rows |-> 0]
  ELSE [kind |-> "placeholder", cols |-> size[1], rows |-> size[2]]
=============================================================================
