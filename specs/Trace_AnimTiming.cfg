SPECIFICATION Spec
INVARIANT Report
CHECK_DEADLOCK FALSE
