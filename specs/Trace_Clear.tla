------------------------------ MODULE Trace_Clear ------------------------------
(* code -> spec: the bytes a real clear() call emitted, applied to the fixed Scene of  *)
(* Clear.tla through Terminal!Apply, must leave exactly the placements the table says. *)
EXTENDS Clear, IOUtils
Traces == JsonDeserialize(IOEnv.TRACE_FILE)
VARIABLES tid, l, T
vars == <<tid, l, T>>
Toks == Traces[tid].toks
Init == tid \in 1..Len(Traces) /\ l = 0 /\ T = Scene
TStep == l < Len(Toks) /\ l' = l + 1 /\ T' = Apply(T, Toks[l + 1], Traces[tid].gfx) /\ UNCHANGED tid
TDone == l = Len(Toks) /\ l' = l + 1 /\ UNCHANGED <<tid, T>>
Spec == Init /\ [][TStep \/ TDone]_vars
Left == [i \in DOMAIN T.pl |-> <<T.pl[i].row, T.pl[i].col, T.pl[i].z>>]
Verdict == IF T.err # "" THEN T.err
           ELSE IF Left # Traces[tid].left THEN "placements: terminal keeps " \o ToString(Left) \o ", table says " \o ToString(Traces[tid].left)
           ELSE IF T.r # 1 \/ T.c # 2 THEN "cursor moved"
           ELSE "ok"
Report == (l = Len(Toks) + 1) => PrintT(<<"VERDICT", ToJson([tid |-> tid, verdict |-> Verdict, at |-> l])>>)
=============================================================================
