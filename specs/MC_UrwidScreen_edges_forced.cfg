SPECIFICATION SpecDump
CONSTANTS
  Ident = "forced"
  Style3 = "block"
  Bits = 3
  Fams = {"R", "O", "T"}
  WithBad = FALSE
  WithInv = FALSE
  Dyn = FALSE
  WithDC = TRUE
  WithWinch = FALSE
VIEW CoarseView
ACTION_CONSTRAINT DumpL
CHECK_DEADLOCK FALSE
