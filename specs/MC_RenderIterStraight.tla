------------------------ MODULE MC_RenderIterStraight ------------------------
(***************************************************************************)
(* "Exactly loops x frame_count frames are produced absent seeks" (C08) as  *)
(* a checked consequence of RenderIter.tla: behaviours that consist of      *)
(* next() only, with a frame counter.  A finite iteration stops after       *)
(* exactly loops * N frames (numbered 0..N-1 in every loop) and then stays  *)
(* stopped; an infinite one (loops < 0) never stops; an INDEFINITE source   *)
(* stops when its stream of K frames ends.                                  *)
(***************************************************************************)
EXTENDS RenderIter

VARIABLE cnt
svars == <<s, out, cnt>>

LoopsStraight == {-1, 1, 2, 3}

SInit == Init /\ cnt = 0
SNext == /\ Next_
         /\ cnt' = IF out'.r.res = "frame" THEN cnt + 1 ELSE cnt
SSpec == SInit /\ [][SNext]_svars

Total == IF Definite THEN s.loops * N ELSE K
SBound == cnt <= (IF Definite /\ s.loops > 0 THEN Total ELSE IF Definite THEN 3 * N + 1 ELSE K) /\ TLCGet("level") <= MaxDepth
SView == <<s, cnt>>

StopsExactlyThen ==
  /\ (out.r.res = "stop" => (Definite => s.loops > 0) /\ cnt = Total)
  /\ (out.r.res = "stop-finalized" => s.closed /\ cnt = Total)
NeverTooMany == (Definite /\ s.loops > 0) \/ ~Definite => cnt <= Total
InfiniteNeverStops == (Definite /\ s.loops < 0) => out.r.res \notin {"stop", "stop-finalized"} /\ ~s.closed
NumbersInOrder ==
  [][(out'.r.res = "frame") => out'.r.num = (IF Definite THEN cnt % N ELSE cnt)]_svars
EventuallyStops == (Definite /\ s.loops > 0) \/ ~Definite => <>(s.closed)
=============================================================================
