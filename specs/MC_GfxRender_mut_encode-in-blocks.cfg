SPECIFICATION Spec
CONSTANTS
  ChunkSize = 16
  RV = "encode-in-blocks"
INVARIANT JudgeAccepts
INVARIANT AllRowsSent
INVARIANT ReceiverIdleBetweenStrips
CHECK_DEADLOCK FALSE
