SPECIFICATION Spec
CONSTANTS
  ChunkSize = 16
  RV = "bpp-plus-1"
INVARIANT JudgeAccepts
INVARIANT AllRowsSent
INVARIANT ReceiverIdleBetweenStrips
CHECK_DEADLOCK FALSE
