------------------------------ MODULE AnimTiming ------------------------------
(***************************************************************************)
(* X11 - timing and termination of the animation loops (state machine and  *)
(* laws).  One named action per thing the loop does; the state is the      *)
(* record of AnimTimingCore (clock, frame on screen since when, ordinal of  *)
(* the frame in work, counters, history of events).                         *)
(***************************************************************************)
EXTENDS AnimTimingCore, TLC, IOUtils, Json

CONSTANT Scenarios      \* the scenarios explored (MC_AnimTiming.tla)
VARIABLE s
vars == <<s>>

Variant == IF "VARIANT" \in DOMAIN IOEnv THEN IOEnv.VARIANT ELSE "none"

Init == \E c \in Scenarios : s = Init0(c)

Reject == Kind(s) = "Reject" /\ s' = StepV(s, Variant)
Start == Kind(s) = "Start" /\ s' = StepV(s, Variant)
RenderFirst == Kind(s) = "RenderFirst" /\ s' = StepV(s, Variant)
ShowFirst == Kind(s) = "ShowFirst" /\ s' = StepV(s, Variant)
RenderNext == Kind(s) = "RenderNext" /\ s' = StepV(s, Variant)
CacheHit == Kind(s) = "CacheHit" /\ s' = StepV(s, Variant)
Sleep == Kind(s) = "Sleep" /\ s' = StepV(s, Variant)
SleepLast == Kind(s) = "SleepLast" /\ s' = StepV(s, Variant)
SleepCut == Kind(s) = "SleepCut" /\ s' = StepV(s, Variant)
UserSetsDuration == Kind(s) = "UserSetsDuration" /\ s' = StepV(s, Variant)
ShowNext == Kind(s) = "ShowNext" /\ s' = StepV(s, Variant)
EndOfFrames == Kind(s) = "EndOfFrames" /\ s' = StepV(s, Variant)
NoLastDwell == Kind(s) = "NoLastDwell" /\ s' = StepV(s, Variant)
Interrupt == Kind(s) = "Interrupt" /\ s' = StepV(s, Variant)
Finish == Kind(s) = "Finish" /\ s' = StepV(s, Variant)

Next == \/ Reject \/ Start \/ RenderFirst \/ ShowFirst \/ RenderNext \/ CacheHit
        \/ Sleep \/ SleepLast \/ SleepCut \/ UserSetsDuration \/ ShowNext
        \/ EndOfFrames \/ NoLastDwell \/ Interrupt \/ Finish

Spec == Init /\ [][Next]_vars

---------------------------------------------------------------------------
(* The laws - all of them speak about the HISTORY only (what an observer   *)
(* with a clock sees), not about the program counter.                      *)

h == s.hist
sc == s.sc
Done == s.pc = "done"
Clean == Done /\ ~Interrupted(h) /\ ~Rejected(sc)

TypeOK ==
  /\ s.now >= 0 /\ s.since >= 0 /\ s.since <= s.now
  /\ \A i \in 1..Len(h) :
       /\ h[i].k \in {"render", "show", "sleep", "chg", "intr", "end"}
       /\ h[i].t0 <= h[i].t1
       /\ i > 1 => h[i - 1].t1 <= h[i].t0        \* one clock, events in order

\* FrameDwell: a frame that was shown and not cut short by Ctrl-C stays on screen at least its
\* duration: the next visible change (the write of the next frame; for the last frame of the
\* new API the clean-up) does not begin earlier.  (Frame.duration, frame_duration)
FrameDwell ==
  \A i \in 1..Len(h) :
    h[i].k = "show" =>
      LET nx == ShowAfter(h, i)
      IN /\ nx > 0 => h[nx].t0 - h[i].t1 >= Dur(sc, h[i].f)
         /\ (nx = 0 /\ Clean /\ LastDwell(sc)) => h[Len(h)].t0 - h[i].t1 >= Dur(sc, h[i].f)

\* NoOverSleep: every sleep is exactly the left-over of the duration of the frame on screen,
\* max(0, duration - time spent since it was flushed); never negative.
\* ("left-over of previous frame's duration"; Frame.duration: "a zero value indicates that the
\* next frame should be displayed immediately after (without any delay)")
NoOverSleep ==
  \A i \in 1..Len(h) :
    h[i].k = "sleep" =>
      LET sb == ShowBefore(h, i)
      IN /\ sb > 0
         /\ h[i].f = h[sb].f
         /\ h[i].a >= 0
         /\ h[i].a = Max(0, Dur(sc, h[sb].f) - (h[i].t0 - h[sb].t1))
         /\ h[i].t1 \in {h[i].t0, h[i].t0 + h[i].a}      \* (cut short by Ctrl-C or slept through)

\* NoDrift: the write of the next frame begins exactly when the duration of the frame on screen
\* is over, or when the next frame is ready if that is later: so with costs <= durations frame k
\* begins at (flush of frame k-1) + duration, whatever the render costs were.
NoDrift ==
  \A i \in 1..Len(h) :
    (h[i].k = "show" /\ ShowBefore(h, i) > 0) =>
      LET p == h[ShowBefore(h, i)]
      IN \E j \in 1..(i - 1) :
           /\ h[j].k = "sleep" /\ j > ShowBefore(h, i)
           /\ h[i].t0 = Max(p.t1 + Dur(sc, p.f), h[j].t0)

\* RenderDuringDwell: the next frame is rendered while the previous one is on screen: after its
\* flush and before the sleep; exactly one sleep between two frames, after the render.
RenderDuringDwell ==
  \A i \in 1..Len(h) :
    h[i].k = "render" =>
      LET sb == ShowBefore(h, i)
      IN IF sb = 0
         THEN \A j \in 1..(i - 1) : h[j].k \notin {"sleep", "show"}   \* the first frame: nothing before
         ELSE /\ h[i].t0 >= h[sb].t1
              /\ \A j \in (sb + 1)..(i - 1) : h[j].k # "sleep"       \* not after the sleep
OneSleepBetweenFrames ==
  \A i \in 1..Len(h) :
    (h[i].k = "show" /\ ShowBefore(h, i) > 0) =>
      Len(Sel(SubSeq(h, ShowBefore(h, i) + 1, i - 1), "sleep")) = 1
NoSleepBeforeFirstFrame ==
  \A i \in 1..Len(h) : h[i].k = "sleep" => ShowBefore(h, i) > 0

\* Termination: exactly loops x frame_count frames, in order (definite); the frames before
\* StopIteration, once (INDEFINITE, `loops`/`cache` ignored); loops = 0 is refused before anything
\* happens.  A cached frame is rendered once.
Termination ==
  /\ \A i \in 1..Len(Sel(h, "show")) : Sel(h, "show")[i].f = FrameAt(sc, i)
  /\ Total(sc) >= 0 => Len(Sel(h, "show")) <= Total(sc)
  /\ Clean => /\ Len(Sel(h, "show")) = Total(sc)
              /\ Len(SelectSeq(h, LAMBDA e : e.k = "render" /\ e.f >= 0))
                   = IF Cached(sc) THEN sc.n ELSE Total(sc)
  /\ (Done /\ Rejected(sc)) => h = <<Ev("end", -1, 0, 0, 1)>>

\* ZeroFrames: an INDEFINITE renderable without frames: one render call, nothing shown, no sleep
ZeroFrames ==
  (Done /\ sc.n = 0 /\ ~Interrupted(h)) =>
     /\ Sel(h, "show") = <<>> /\ Sel(h, "sleep") = <<>>
     /\ Len(h) = 2

\* SleepCount: new API: as many sleeps as frames shown; old API: one less (NoLastDwell)
SleepCount ==
  Clean => Len(Sel(h, "sleep")) =
             IF LastDwell(sc) THEN Len(Sel(h, "show")) ELSE Max(0, Len(Sel(h, "show")) - 1)

\* InterruptEnds: Ctrl-C at any point ends the animation: nothing is rendered, shown or slept
\* afterwards, and draw() returns normally ("without raising KeyboardInterrupt").
InterruptEnds ==
  \A i \in 1..Len(h) :
    h[i].k = "intr" => /\ i + 1 <= Len(h) => (i + 1 = Len(h) /\ h[i + 1].k = "end")
                       /\ h[i].t0 = s.now
NoTraceback ==
  (Done /\ ~Rejected(sc)) => (Ended(h) /\ h[Len(h)].a = 0)

\* DurationFrozen: what the user sets during the animation does not reach the running animation
\* (stated by NoOverSleep through Dur(sc, .)); here: the user's value is really different
DurationFrozen ==
  \A i \in 1..Len(h) : h[i].k = "chg" => (s.ud = sc.chgv /\ ~sc.dyn /\ sc.chgv # sc.d)


\* one line per finished run: the whole behaviour, replayed into the real code by the driver
EmitRun == Done => PrintT(<<"RUN", ToJson([sc |-> sc, hist |-> h])>>)
=============================================================================
