SPECIFICATION Spec
CONSTANTS
  Profiles <- ProfAll
  Floats <- F1
  Tmos <- T3
  DefaultTmo <- Default
  NonPos = {"zero", "negative"}
  WrongTypes = {"str", "none"}
  TtyWorlds = {TRUE, FALSE}
  ProgWorlds = {TRUE, FALSE}
  Ops <- OpsQuery
  Variant = "code"
VIEW View
ACTION_CONSTRAINT Dump
INVARIANT InitDump
CHECK_DEADLOCK FALSE
