\* X06 quick: the complete state graph of one renderable, every edge printed (run with -workers 1)
SPECIFICATION Spec
CONSTANTS
  Hooks <- HooksQ
  CountArgs <- CountArgsQ
  DurArgs <- DurArgsQ
  SetDurs <- SetDursQ
  Sizes <- SizesQ
  Offs <- OffsQ
  Pads <- PadsQ
  MaxOps = 2
  DumpEdges = TRUE
VIEW View
CONSTRAINT Bound
ACTION_CONSTRAINT Dump
INVARIANT InitDump
INVARIANT TypeOK
INVARIANT ConstructedValid
INVARIANT AnimatedIsCountNotOne
INVARIANT DurationIffAnimated
INVARIANT EvaluatedAtMostOnce
INVARIANT EvaluatedOnlyIfPostponed
INVARIANT ResolvedIffEvaluated
INVARIANT HookConsultedOnlyWhilePostponed
INVARIANT HookCallsWhenImplemented
INVARIANT FrameInRange
INVARIANT DataBalanced
PROPERTY EveryResultWellTyped
PROPERTY EveryRenderShowsCurrentState
PROPERTY EveryRenderFollowsProtocol
PROPERTY EveryInitRenderFinalizesIffAsked
PROPERTY RejectedChangesNothing
PROPERTY ReadsChangeNothing
PROPERTY EvaluationIsFinal
PROPERTY OnlyEvaluatorsEvaluate
PROPERTY SetDurationTakesEffect
PROPERTY OnlySetterChangesDuration
PROPERTY OnlySeekMovesFrame
PROPERTY AnimatedNeverChanges
CHECK_DEADLOCK FALSE
