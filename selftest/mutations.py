"""Registry of seeded code mutations (each compiles; the 'Must catch' lists of DESIGN.md 3)."""

MUTATIONS = {
    # ---- C01 -------------------------------------------------------------------------
    "c01-kitty-fill-short": dict(
        file="image/kitty.py", props=["C01"],
        old='fill = ("" if mix else ERASE_CHARS % r_width) + (CURSOR_FORWARD % r_width)',
        new='fill = ("" if mix else ERASE_CHARS % r_width) + (CURSOR_FORWARD % (r_width - 1) if r_width > 1 else "")',
    ),
    "c01-iterm-no-cursor-up": dict(
        file="image/iterm2.py", props=["C01"],
        old='cursor_up = CURSOR_UP % (r_height - 1) if r_height > 1 else ""',
        new='cursor_up = CURSOR_UP % (r_height - 1) if r_height > 2 else ""',
    ),
    "c01-iterm-dnmc-everywhere": dict(
        file="image/iterm2.py", props=["C01"],
        old="""                f";width={r_width};height=1;preserveAspectRatio=0;inline=1"
                f"{';doNotMoveCursor=1' * is_on_konsole}:\"""",
        new="""                f";width={r_width};height=1;preserveAspectRatio=0;inline=1"
                f"{';doNotMoveCursor=1' * (is_on_konsole or r_width == 5)}:\"""",
    ),
    "c01-block-no-final-reset": dict(
        file="image/block.py", props=["C01"],
        old="        buf_write(SGR_DEFAULT)  # Reset color after last line",
        new="        row_no > 4 and buf_write(SGR_DEFAULT)  # Reset color after last line",
    ),
    "c01-block-trailing-newline": dict(
        file="image/block.py", props=["C01"],
        old="            if row_no < height:  # last line not yet rendered",
        new="            if row_no < height or height == 6:  # last line not yet rendered",
    ),
    # ---- C08 / C09 / C10 ------------------------------------------------------------------
    "c08-current-relative-to-last": dict(
        file="render/_iterator.py", props=["C08"],
        old="                    renderable_data.frame_offset + offset\n                    if whence is Seek.CURRENT",
        new="                    renderable_data.frame_offset - 1 + offset\n                    if whence is Seek.CURRENT",
    ),
    "c08-seek-consumes-loop": dict(
        file="render/_iterator.py", props=["C08"],
        old="            renderable_data.update(frame_offset=frame, seek_whence=Seek.START)",
        new="            renderable_data.update(frame_offset=frame, seek_whence=Seek.START)\n"
            "            if frame == 0 and self.loop > 1:\n                self.loop -= 1",
    ),
    "c08-set-size-stale-padded": dict(
        file="render/_iterator.py", props=["C08"],
        old="        self._renderable_data.size = render_size\n        self._padded_size = self._padding.get_padded_size(render_size)",
        new="        self._renderable_data.size = render_size",
    ),
    "c08-seek-after-close": dict(
        file="render/_iterator.py", props=["C08", "C10"],
        old='''        if self._closed:
            raise FinalizedIteratorError("This iterator has been finalized") from None

        frame_count = self._renderable.frame_count''',
        new='''        frame_count = self._renderable.frame_count''',
    ),
    "c08-frame-no-before-yield": dict(
        file="render/_iterator.py", props=["C08"],
        old="                yield frame\n\n                if definite:\n                    frame_no = renderable_data.frame_offset",
        new="                if definite:\n                    frame_no = renderable_data.frame_offset\n\n                yield frame",
    ),
    "c09-cache-key-without-args": dict(
        file="render/_iterator.py", props=["C09"],
        old="""                if not frame or frame_details != (
                    renderable_data.size,
                    renderable_data.duration,
                    self._render_args,
                ):""",
        new="""                if not frame or frame_details[:2] != (
                    renderable_data.size,
                    renderable_data.duration,
                ):""",
    ),
    "c09-pad-before-cache": dict(
        file="render/_iterator.py", props=["C09"],
        old="""                    if cache:
                        cache[frame_no] = (
                            frame,
                            renderable_data.size,
                            renderable_data.duration,
                            self._render_args,
                        )

                if self._padded_size != frame.render_size:
                    frame = Frame(
                        frame.number,
                        frame.duration,
                        self._padded_size,
                        self._padding.pad(frame.render_output, frame.render_size),
                    )
""",
        new="""                    if self._padded_size != frame.render_size:
                        frame = Frame(
                            frame.number,
                            frame.duration,
                            self._padded_size,
                            self._padding.pad(frame.render_output, frame.render_size),
                        )
                    if cache:
                        cache[frame_no] = (
                            frame,
                            renderable_data.size,
                            renderable_data.duration,
                            self._render_args,
                        )
""",
    ),
    "c09-cache-for-indefinite": dict(
        file="render/_iterator.py", props=["C09", "C08"],
        old="            False\n            if indefinite\n            else (",
        new="            bool(cache)\n            if indefinite\n            else (",
    ),
    "c09-rerender-always": dict(
        file="render/_iterator.py", props=["C09"],
        old="                if not frame or frame_details != (",
        new="                if not frame or frame_no == 1 or frame_details != (",
    ),
    # round 7: the iterator draw() builds / render-argument values that cannot be hashed
    "c09-animate-drops-cache-two-loops": dict(
        file="renderable/_renderable.py", props=["C09"],
        old="            False if loops == 1 else cache,",
        new="            False if loops in (1, 2) else cache,",
    ),
    "c09-animate-cache-limit-ignored": dict(
        file="renderable/_renderable.py", props=["C09"],
        old="            False if loops == 1 else cache,",
        new="            False if loops == 1 else bool(cache),",
    ),
    "c09-cache-key-hashed-args": dict(
        file="render/_iterator.py", props=["C09"],
        old="""                if not frame or frame_details != (
                    renderable_data.size,
                    renderable_data.duration,
                    self._render_args,
                ):""",
        new="""                if not frame or (*frame_details[:2], hash(frame_details[2])) != (
                    renderable_data.size,
                    renderable_data.duration,
                    hash(self._render_args),
                ):""",
    ),
    "c10-close-finalizes-caller-data": dict(
        file="render/_iterator.py", props=["C10"],
        old="            if self._finalize_data:\n                self._render_data.finalize()",
        new="            self._render_data.finalize()",
    ),
    "c10-next-error-no-close": dict(
        file="render/_iterator.py", props=["C10"],
        old="        except Exception:\n            self.close()\n            raise\n\n    def __repr__(self) -> str:\n        return (\n            f\"<{type(self).__name__}: \"",
        new="        except Exception:\n            raise\n\n    def __repr__(self) -> str:\n        return (\n            f\"<{type(self).__name__}: \"",
    ),
    "c10-finalize-without-once-flag": dict(
        file="renderable/_types.py", props=["C10"],
        old="        if not self.finalized:",
        new="        if True:",
    ),
    "c10-init-render-finalizes-always": dict(
        file="renderable/_renderable.py", props=["C10"],
        old="        finally:\n            if finalize:\n                render_data.finalize()",
        new="        finally:\n            if finalize or check_size:\n                render_data.finalize()",
    ),
    # ---- C06 / C07 ---------------------------------------------------------------------
    "c06-rewind-one-too-many": dict(
        file="renderable/_renderable.py", props=["C06"],
        old='f"\\r{cursor_up(height + pad_bottom - 1)}{cursor_forward(pad_left)}"\n                )\n                flush()',
        new='f"\\r{cursor_up(height + pad_bottom)}{cursor_forward(pad_left)}"\n                )\n                flush()',
    ),
    "c06-no-forward-after-rewind": dict(
        file="renderable/_renderable.py", props=["C06"],
        old='            f"\\r{cursor_up(height - 1)}{cursor_forward(pad_left)}"\n        )',
        new='            f"\\r{cursor_up(height - 1)}"\n        )',
    ),
    "c06-final-cursor-down-dropped": dict(
        file="renderable/_renderable.py", props=["C06"],
        old="                write(cursor_down(height + pad_bottom - 1))",
        new="                write(cursor_down(height - 1))",
    ),
    "c06-allow-scroll-ignored": dict(
        file="renderable/_renderable.py", props=["C06"],
        old="                if not allow_scroll and height > terminal_height:",
        new="                if height > terminal_height:",
    ),
    "c06-old-anim-padheight-unchecked": dict(
        file="image/common.py", props=["C06"],
        old="        if animation and pad_height > terminal_height:",
        new="        if animation and pad_height > terminal_height + 1:",
    ),
    "c06-old-cursor-up-full": dict(
        file="image/common.py", props=["C06"],
        old='        cursor_up = CURSOR_UP % (lines - 1) if lines > 1 else ""',
        new='        cursor_up = CURSOR_UP % lines',
    ),
    "c07-new-hide-cursor-outside-try": dict(
        file="renderable/_renderable.py", props=["C07"],
        old="        try:\n            if hide_cursor:\n                output.write(HIDE_CURSOR)\n            if not_echo_input:",
        new="        if hide_cursor:\n            output.write(HIDE_CURSOR)\n        try:\n            if not_echo_input:",
    ),
    "c07-restore-only-when-hiding": dict(
        file="renderable/_renderable.py", props=["C07", "C13"],
        old="            if not_echo_input:\n                termios.tcsetattr(output_fd, termios.TCSANOW, old_attr)",
        new="            if not_echo_input and hide_cursor:\n                termios.tcsetattr(output_fd, termios.TCSANOW, old_attr)",
    ),
    "c07-no-finalize-when-failing": dict(
        # round 7: the render data is finalized by draw() only when no exception is in flight
        # (RenderData.__del__ would still finalize it once the object is collected)
        file="renderable/_renderable.py", props=["C07"],
        old="                termios.tcsetattr(output_fd, termios.TCSANOW, old_attr)\n            render_data.finalize()",
        new="                termios.tcsetattr(output_fd, termios.TCSANOW, old_attr)\n            if sys.exc_info()[0] is None:\n                render_data.finalize()",
    ),
    "c07-kitty-handler-without-st": dict(
        file="image/kitty.py", props=["C07"],
        old='print(ctlseqs.ST * 2 + ctlseqs.KITTY_END_CHUNKED, end="", flush=True)',
        new='print(ctlseqs.KITTY_END_CHUNKED, end="", flush=True)',
    ),
    "c07-kitty-handler-without-end-chunk": dict(
        file="image/kitty.py", props=["C07"],
        old='print(ctlseqs.ST * 2 + ctlseqs.KITTY_END_CHUNKED, end="", flush=True)',
        new='print(ctlseqs.ST * 2, end="", flush=True)',
    ),
    "c07-iterm-handler-removed": dict(
        file="image/iterm2.py", props=["C07"],
        old='        print(ctlseqs.ST * 2, end="", flush=True)',
        new='        pass',
    ),
    "c07-dynamic-size-not-restored": dict(
        file="image/common.py", props=["C07", "C11"],
        old="        finally:\n            if isinstance(_size, Size):\n                self.size = _size",
        new="        finally:\n            if isinstance(_size, Size) and not animated:\n                self.size = _size",
    ),
    "c07-seek-position-not-restored": dict(
        file="image/common.py", props=["C07", "C11"],
        old="            self._seek_position = prev_seek_pos\n",
        new="            self._seek_position = prev_seek_pos if interrupted is False else self._seek_position\n",
    ),
    "c07-still-kbint-swallowed": dict(
        file="image/common.py", props=["C07"],
        old="                    except (KeyboardInterrupt, Exception):\n                        self._handle_interrupted_draw()\n                        raise",
        new="                    except KeyboardInterrupt:\n                        self._handle_interrupted_draw()\n                    except Exception:\n                        self._handle_interrupted_draw()\n                        raise",
    ),
    "c06-old-flush-dropped": dict(
        file="image/common.py", props=["C06"],
        old='                print("\\r", cursor_up, frame, sep="", end="", flush=True)',
        new='                print("\\r", cursor_up, frame, sep="", end="")',
    ),
    "c06-old-cache-rerenders": dict(
        file="image/common.py", props=["C06", "C11"],
        old="                    if hash(image.rendered_size) != size_hash:",
        new="                    if n == 0 or hash(image.rendered_size) != size_hash:",
    ),
}
