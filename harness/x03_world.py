"""X03 - the process-global configuration API of term-image on a scripted terminal.

The terminal environment is the virtual tty of ``env/vtty.py`` (C12/C13): the seams of
``term_image.utils`` (``os``, ``select``, ``termios``, ``fcntl``, ``monotonic``, ``_tty_fd``) are
pointed at a ``vtty.Recorder`` whose backend is :class:`ScriptedTty`, a ``vtty.VirtualTty`` that

* answers by *request content* (XTWINOPS 14 / 16, OSC 10 / 11, XTVERSION, DA1) from a **profile**
  ``{cols, rows, xpx, ypx, iopx, xt, delay}`` instead of from a per-write schedule, all replies to
  one write in one burst ``delay`` time units after it (``delay = -1``: the terminal is silent);
* keeps time as an exact rational number of seconds, reset to 0 at the start of every operation, so
  that the non-dyadic documented default timeout (0.1 s) can be observed exactly: the library's
  ``monotonic() - start`` arithmetic is exact when ``start`` is 0.0.  The unit of the specification
  is ``UNIT`` = 1/40960 s (0.1 s = 4096 units, one vtty tick = 10 units).

:class:`Lib` executes the operations of ``specs/GlobalConfig.tla`` through the public functions and
computes the observable projection of the configuration after every step.  Everything here is
dumb: it executes and records; the judgement is in the TLA+ modules.
"""

from __future__ import annotations

import math
import os
import re
from fractions import Fraction

from . import tlc
from .env import vtty

UNITS = 40960  # model time units per second
FG = (0x12, 0xAB, 0xFF)
BG = (0x00, 0x80, 0x21)
NAME = ("FooTerm", "1.2.3")
ENV_NAME = ("WezTerm", "20230712")
DA1_REPLY = b"\x1b[?62;c"
ATTR0 = {"icanon": True, "echo": True, "vmin": 1, "vtime": 0, "rest": 0}

REQ = re.compile(
    rb"\x1b\](?P<osc>1[01]);\?\x1b\\"  # default fg / bg colour
    rb"|\x1b\[>q"  # XTVERSION
    rb"|\x1b\[1(?P<winop>[46])t"  # XTWINOPS 14 / 16
    rb"|\x1b\[c"  # DA1
)


class ScriptedTty(vtty.VirtualTty):
    """`now` is a Fraction of seconds; replies come from the current profile."""

    def __init__(self, codec: vtty.AttrCodec):
        super().__init__(codec, ATTR0, {"cols": 80, "rows": 24, "xpx": 0, "ypx": 0}, False, b"", [])
        self.now = Fraction(0)
        self.profile: dict = {}
        self.writes = 0
        self.discarded = 0  # late reply bytes dropped between operations
        self.unknown: list[bytes] = []

    # -- scripting ---------------------------------------------------------------------
    def set_profile(self, p: dict) -> None:
        self.profile = dict(p)
        self.win = {"cols": p["cols"], "rows": p["rows"],
                    "xpx": p["xpx"] if p["iopx"] else 0, "ypx": p["ypx"] if p["iopx"] else 0}

    def begin_op(self) -> None:
        """Operation boundary: the application has consumed whatever arrived late (FAQ: 'garbage
        input'); the clock restarts so that the library's float arithmetic is exact."""
        self.discarded += len(self.inq) + sum(len(d) for _, d in self.pend)
        self.inq.clear()
        self.pend = []
        self.now = Fraction(0)
        self.writes = 0
        self.wlog = []
        self.time_limit = Fraction(30)

    def elapsed_units(self) -> int:
        x = self.now * UNITS
        r = round(x)
        if abs(x - r) > Fraction(1, 10**6):
            raise tlc.MachineryError(f"x03: elapsed virtual time {float(self.now)!r} s is not a whole number of units")
        return int(r)

    def _reply(self, data: bytes) -> bytes:
        p = self.profile
        out = bytearray()
        pos = 0
        for m in REQ.finditer(data):
            if m.start() != pos:
                self.unknown.append(data[pos:m.start()])
            pos = m.end()
            if m.group("osc"):
                n = int(m.group("osc"))
                r, g, b = FG if n == 10 else BG
                out += b"\x1b]%d;rgb:%02x%02x/%02x%02x/%02x%02x\x1b\\" % (n, r, r, g, g, b, b)
            elif m.group("winop") == b"6":
                if p["xt"] == "cell":
                    out += b"\x1b[6;%d;%dt" % (p["ypx"] // p["rows"], p["xpx"] // p["cols"])
            elif m.group("winop") == b"4":
                if p["xt"] in ("cell", "text"):
                    out += b"\x1b[4;%d;%dt" % (p["ypx"], p["xpx"])
            elif m.group(0) == b"\x1b[>q":
                out += b"\x1bP>|%s(%s)\x1b\\" % (NAME[0].encode(), NAME[1].encode())
            else:
                out += DA1_REPLY
        if pos != len(data):
            self.unknown.append(data[pos:])
        return bytes(out)

    # -- primitives with rational time -------------------------------------------------------
    def write(self, fd, data):
        self.writes += 1
        self.wlog.append(bytes(data))
        if self.profile["delay"] >= 0:
            rep = self._reply(bytes(data))
            if rep:
                self.pend.append((self.now + Fraction(self.profile["delay"], UNITS), rep))
        return len(data)

    def monotonic(self):
        return float(self.now)

    def select(self, r, w, x, t):
        self._deliver()
        if self.inq:
            return (list(r), [], [])
        if t is None:
            raise vtty.Hang("select(None) with nothing readable")
        if t != t or t < 0:  # nan compares false with everything
            raise ValueError("timeout must be non-negative")
        if math.isinf(t):
            raise OverflowError("timestamp too large to convert to C _PyTime_t")
        until = self.now + Fraction(t)
        nxt = min((b[0] for b in self.pend), default=None)
        if nxt is None or nxt > until:
            self._advance(until)
            return ([], [], [])
        self._advance(nxt)
        self._deliver()
        return (list(r), [], [])


# ----------------------------------------------------------------------------------------------
# the library, driven through its public functions
# ----------------------------------------------------------------------------------------------
PRIVATE_SEAMS = (("utils", "_queries_enabled"), ("utils", "_swap_win_size"), ("utils", "_query_timeout"),
                 ("utils", "_cell_size_cache"), ("utils", "_cell_size_lock"), ("ti", "_cell_ratio"))


def ratio_pair(x) -> list[int]:
    """A cell ratio as an exact fraction [n, d]; NaN = [0, 0]; not exactly a small fraction = [-1, 1]."""
    if isinstance(x, bool) or not isinstance(x, (int, float)):
        return [-2, 1]
    if x != x:
        return [0, 0]
    if math.isinf(x):
        return [-3, 1]
    f = Fraction(x).limit_denominator(40000)
    if f.numerator / f.denominator != x or f.numerator > 40000 or f <= 0:
        return [-1, 1]
    return [f.numerator, f.denominator]


def tmo_units(t) -> int:
    """A timeout in model units; NaN = 0; unrepresentable = -1."""
    if isinstance(t, bool) or not isinstance(t, (int, float)):
        return -2
    if t != t:
        return 0
    if math.isinf(t) or t <= 0:
        return -1
    x = Fraction(t) * UNITS
    r = round(x)
    return int(r) if abs(x - r) < Fraction(1, 10**6) and r < 2**30 else -1


BAD_RATIO = {"zero": 0.0, "negzero": -0.0, "negative": -1.5, "neginf": float("-inf"), "negint": -2,
             "str": "0.5", "none": None, "list": [1.0], "complex": 1j}
BAD_TMO = {"zero": 0.0, "negzero": -0.0, "negative": -0.25, "neginf": float("-inf"), "negint": -1,
           "str": "1", "none": None, "list": [1.0], "complex": 1j}


class Lib:
    """One imported term_image on one scripted terminal."""

    def __init__(self):
        import term_image
        from term_image import utils
        from term_image.exceptions import TermImageError

        self.ti, self.utils, self.TermImageError = term_image, utils, TermImageError
        for mod, name in PRIVATE_SEAMS:
            if not hasattr(utils if mod == "utils" else term_image, name):
                raise tlc.MachineryError(f"seam term_image{'.utils' if mod == 'utils' else ''}.{name} is missing")
        for name in ("_invalidate_cache",):
            for f in (utils.get_fg_bg_colors, utils.get_terminal_name_version):
                if not hasattr(f, name):
                    raise tlc.MachineryError(f"seam {f.__name__}.{name} is missing")
        self.codec = vtty.AttrCodec()
        self.dev = ScriptedTty(self.codec)
        self.rec = vtty.Recorder(self.dev, self.codec)
        self.installed = False
        self.tty = True
        os.environ.pop("SHELL", None) if os.environ.get("SHELL", "").startswith("/data/data/com.termux/") else None

    # -- environment -------------------------------------------------------------------------
    def install(self, world: dict, profile: dict) -> None:
        """Seams only - no library setting is touched (used to observe a fresh import)."""
        if not self.installed:
            vtty.install(self.rec, vtty.FAKE_FD)
            self.installed = True
        self.tty = bool(world["tty"])
        self.utils._tty_fd = vtty.FAKE_FD if self.tty else -1
        for var, val in zip(("TERM_PROGRAM", "TERM_PROGRAM_VERSION"), ENV_NAME):
            if world["termprog"]:
                os.environ[var] = val
            else:
                os.environ.pop(var, None)
        self.dev.set_profile(profile)
        self.dev.raw = self.codec.from_record(ATTR0)

    def reset(self, world: dict, profile: dict) -> None:
        """The initial state of the model: the settings of a freshly imported library."""
        u, ti = self.utils, self.ti
        self.install(world, profile)
        u._queries_enabled = True
        u._swap_win_size = False
        u._query_timeout = ti.DEFAULT_QUERY_TIMEOUT
        with u._cell_size_lock:
            u._cell_size_cache[:] = [0] * 4
        ti._cell_ratio = 0.5
        ti.AutoCellRatio.is_supported = None
        u.get_fg_bg_colors._invalidate_cache()
        u.get_terminal_name_version._invalidate_cache()
        self.dev.begin_op()

    # -- the observable projection of the configuration ---------------------------------------
    def observe(self) -> dict:
        """The five settings after a call.  `is_supported` is a public attribute; an explicit / FIXED
        ratio is read through get_cell_ratio() (which must then be pure); the DYNAMIC mode, the two
        flags and the timeout have no public getter and are read from the module globals (seams)."""
        u, ti = self.utils, self.ti
        odd = []
        sup = ti.AutoCellRatio.is_supported
        if sup not in (None, True, False) or not (sup is None or isinstance(sup, bool)):
            odd.append(f"is_supported={sup!r}")
        if ti._cell_ratio is None:
            cr = []
        else:
            self.dev.begin_op()
            cr = ratio_pair(ti.get_cell_ratio())  # not DYNAMIC: must be pure
            if self.dev.writes or self.dev.now:
                odd.append("get_cell_ratio() touched the terminal although the ratio is not DYNAMIC")
        for name in ("_queries_enabled", "_swap_win_size"):
            if not isinstance(getattr(u, name), bool):
                odd.append(f"{name}={getattr(u, name)!r}")
        return {
            "cr": cr,
            "sup": "unknown" if sup is None else "yes" if sup is True else "no",
            "queries": bool(u._queries_enabled),
            "swap": bool(u._swap_win_size),
            "tmo": tmo_units(u._query_timeout),
            "odd": "; ".join(odd),
        }

    # -- one operation -------------------------------------------------------------------------
    def do(self, op: str, sub: str, arg: list) -> dict:
        """Execute one operation of GlobalConfig.tla; returns {res, rs, err, w, dt}."""
        u, ti = self.utils, self.ti
        dev = self.dev
        dev.begin_op()
        self.rec.events.clear()
        self.rec.n = 0
        self.rec.max_calls = vtty.MAX_CALLS
        res, rs, err = [], "", ""
        try:
            if op == "Switch":
                dev.set_profile(arg_profile(arg, sub))
            elif op == "SetRatioFloat":
                ti.set_cell_ratio(arg[0] if arg[1] == 1 and sub == "int" else arg[0] / arg[1])
            elif op == "SetRatioNaN":
                ti.set_cell_ratio(float("nan"))
            elif op in ("SetRatioNonPositive", "SetRatioWrongType"):
                ti.set_cell_ratio(BAD_RATIO[sub])
            elif op == "SetRatioAuto":
                ti.set_cell_ratio(getattr(ti.AutoCellRatio, sub))
            elif op == "GetRatio":
                res = ratio_pair(ti.get_cell_ratio())
            elif op == "SetSupport":
                ti.AutoCellRatio.is_supported = {"yes": True, "no": False, "unknown": None}[sub]
            elif op == "GetCellSize":
                s = u.get_cell_size()
                res = [0, 0] if s is None else [int(s[0]), int(s[1])]
                if s is not None and type(s).__name__ not in ("Size", "_Size"):
                    rs = f"type:{type(s).__name__}"
            elif op == "EnableQueries":
                ti.enable_queries()
            elif op == "DisableQueries":
                ti.disable_queries()
            elif op == "EnableSwap":
                ti.enable_win_size_swap()
            elif op == "DisableSwap":
                ti.disable_win_size_swap()
            elif op == "SetTimeout":
                ti.set_query_timeout(arg[0] / UNITS)
            elif op == "SetTimeoutNaN":
                ti.set_query_timeout(float("nan"))
            elif op in ("SetTimeoutNonPositive", "SetTimeoutWrongType"):
                ti.set_query_timeout(BAD_TMO[sub])
            elif op == "QueryTerminal":
                r = u.query_terminal(b"\x1b[c", lambda s: True)
                rs = "None" if r is None else "empty" if r == b"" else "reply" if r == DA1_REPLY else f"other:{r!r}"
            elif op == "GetColors":
                v = u.get_fg_bg_colors()
                rs = "real" if v == (FG, BG) else "none" if v == (None, None) else f"other:{v!r}"
            elif op == "GetName":
                v = u.get_terminal_name_version()
                rs = ("real" if v == (NAME[0].lower(), NAME[1]) else "none" if v == (None, None)
                      else "env" if v == (ENV_NAME[0].lower(), ENV_NAME[1]) else f"other:{v!r}")
            else:
                raise tlc.MachineryError(f"x03: unknown operation {op!r}")
        except vtty.Hang as h:
            err = f"Hang:{h}"
        except tlc.MachineryError:
            raise
        except self.TermImageError:
            err = "TermImageError"
        except Exception as e:  # noqa: BLE001 - the class is the observation
            err = type(e).__name__
        if dev.unknown:
            raise tlc.MachineryError(f"x03: the library wrote a request the scripted terminal does not know: {dev.unknown[:2]}")
        out = {"res": res, "rs": rs, "err": err, "w": dev.writes, "dt": dev.elapsed_units()}
        if dev.attr != ATTR0:
            out["rs"] = f"attr-not-restored:{dev.attr}"
        return out


def arg_profile(arg: list, sub: str) -> dict:
    cols, rows, xpx, ypx, iopx, delay = arg
    return {"cols": cols, "rows": rows, "xpx": xpx, "ypx": ypx, "iopx": bool(iopx), "xt": sub, "delay": delay}


def profile_arg(p: dict) -> tuple[list, str]:
    return [p["cols"], p["rows"], p["xpx"], p["ypx"], int(p["iopx"]), p["delay"]], p["xt"]
