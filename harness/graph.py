"""Edge dump -> labelled graph -> covering walks (spec -> code replay, DESIGN 2.4).

A spec run with ``ACTION_CONSTRAINT Dump`` prints one ``EDGE`` line per generated
transition: ``{"from": <state projection>, "op": <operation with args and expected
observable result>, "to": <state projection>}`` and one ``INIT`` line per initial state.
``walks()`` returns a list of walks (each a list of edges starting in an initial state)
that together traverse **every** edge at least once; each walk is meant to be executed
on a fresh real object, comparing the real observation with ``op``/``to`` after every
step.
"""

from __future__ import annotations

import json
from collections import defaultdict, deque


def key(obj) -> str:
    return json.dumps(obj, sort_keys=True, separators=(",", ":"))


class Graph:
    def __init__(self, edges: list[dict], inits: list | None = None):
        self.out: dict[str, list[tuple[int, str]]] = defaultdict(list)
        self.edges: list[dict] = []
        seen = set()
        indeg = defaultdict(int)
        for e in edges:
            kf, kt = key(e["from"]), key(e["to"])
            ek = (kf, key(e["op"]), kt)
            if ek in seen:
                continue
            seen.add(ek)
            self.edges.append(e)
            self.out[kf].append((len(self.edges) - 1, kt))
            indeg[kt] += 1
            self.out.setdefault(kt, [])
        if inits is not None:
            self.inits = [key(i) for i in inits]
        else:
            self.inits = [k for k in self.out if indeg[k] == 0]
        self.inits = list(dict.fromkeys(self.inits))

    @property
    def nodes(self) -> int:
        return len(self.out)

    def walks(self, max_len: int = 40) -> list[list[dict]]:
        """Greedy edge cover: go to the nearest node with an untraversed out-edge, then
        keep following untraversed edges."""
        untrav: dict[str, set[int]] = {k: {i for i, _ in v} for k, v in self.out.items()}
        remaining = sum(len(s) for s in untrav.values())
        walks: list[list[dict]] = []
        dest = {i: kt for outs in self.out.values() for i, kt in outs}
        unreachable_guard = 0
        while remaining:
            # BFS from all initial states to the nearest node with untraversed out-edges
            prev: dict[str, tuple[str, int] | None] = {k: None for k in self.inits}
            dq = deque(self.inits)
            target = None
            while dq:
                u = dq.popleft()
                if untrav[u]:
                    target = u
                    break
                for i, v in self.out[u]:
                    if v not in prev:
                        prev[v] = (u, i)
                        dq.append(v)
            if target is None:
                unreachable_guard = remaining
                break
            path: list[int] = []
            u = target
            while prev[u] is not None:
                pu, i = prev[u]  # type: ignore[misc]
                path.append(i)
                u = pu
            path.reverse()
            u = target
            while untrav[u] and len(path) < max_len:
                i = min(untrav[u])
                untrav[u].discard(i)
                remaining -= 1
                path.append(i)
                u = dest[i]
            walks.append([self.edges[i] for i in path])
        self.unreachable_edges = unreachable_guard
        return walks


def from_result(res) -> Graph:
    edges = res.tagged("EDGE")
    inits = res.tagged("INIT")
    return Graph(edges, inits or None)
