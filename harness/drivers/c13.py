"""C13 - terminal attributes are always put back exactly as found.

model   : specs/MC_TtyFault (Tty.tla): every mode-changing operation (read_tty in every read
          mode, query_terminal with a caller predicate, get_fg_bg_colors, get_cell_size,
          Renderable.draw) from every initial attribute word, with a fault before / after each
          system call and the predicate raising; invariant: attribute word at termination =
          word at entry.  (The fault-free timing paths are covered by MC_Tty / C12.)
spec->code : every enumerated fault (FAULT line) is replayed into the real functions on the
          virtual tty: outcome, call sequence, attribute word must equal the spec's.
code->spec : the faults are replayed on a REAL pty (worker process, kernel termios): the seams are
          wrapped to count calls and raise at the k-th boundary (Exception / KeyboardInterrupt),
          plus real SIGINTs while blocked in select / read; tcgetattr(slave) before / after is
          compared byte for byte and the call log is validated by TLC against Trace_Tty.tla.
"""

from __future__ import annotations

import copy
import json
import random
import time

from .. import c12_tty as K
from .. import tlc
from ..core import Report
from ..env import termsim, vtty

ASSUMPTIONS = [
    "crash points: every system call / stream operation issued before the clean-up of the outermost operation "
    "starts; a fault inside that clean-up (its restoring tcsetattr, draw's final newline/SHOW_CURSOR/flush) is "
    "outside the property (DESIGN 2.5)",
    "attribute word = (ICANON, ECHO, VMIN, VTIME, everything else); 'everything else' is compared as a whole, "
    "so record equality is byte-for-byte equality of the termios structure",
    "the kind of the injected exception (Exception subclass / KeyboardInterrupt) does not enter the model: the "
    "code has no handler for either on these paths; both kinds are replayed",
    "real SIGINTs are judged only when they interrupted a blocking system call (select/read); a signal landing "
    "between two calls cannot be located in the log and the run is repeated",
    "positive timeouts are 62.5 ms and query timeouts 4-5 s in real-pty runs (the model uses 3 ticks); real runs "
    "assert only timing-independent clauses",
]

KINDS = ("InjectedFault", "KeyboardInterrupt")
T_READ = 256
T_QUERY = 16384
T5S = 5 * vtty.TICK_HZ


def hang_signature(op: str, kind: str) -> str:
    return f"{op}:no-fallback:" + ("still-waiting-after-timeout" if kind == "StillWaiting" else "blocks-forever")


def no_fallback_seen(rep: Report) -> int:
    return sum(":no-fallback:" in v.signature for v in rep.violations)


def scn_of(f: dict) -> dict:
    return {"opx": f["opx"], "op": f["opx"]["name"], "attr0": f["attr0"], "win": f["win"], "ioctlFails": False,
            "preload": f["preload"], "sched": f["sched"], "enabled": True, "swap": False, "tmo": f["tmo"],
            "pred": f["pred"], "term": dict(f["term"], sup=sorted(f["term"]["sup"]))}


def mode_key(f: dict) -> str:
    o = f["opx"]
    return json.dumps([o["name"], o["more"], o["tmo"], o["min"], o["echo"], o["hide"], f["pred"]])


def run_mc(rep: Report, cfg: str, coverage: bool) -> list[dict]:
    res = tlc.run("MC_TtyFault", cfg, workers=8, timeout=840, coverage=coverage, check=False)
    if res.violated:
        rep.violation(f"design:TtyFault:{res.violated}",
                      f"the step machine of Tty.tla violates {res.violated}\n{res.error_text[:1500]}",
                      {"kind": "design", "cfg": cfg})
    elif res.rc != 0:
        raise tlc.MachineryError("TLC failed on MC_TtyFault:\n" + "\n".join(res.stdout.splitlines()[-30:]))
    rep.add_tlc(res)
    faults = res.tagged("FAULT")
    rep.extra["mc_ttyfault"] = {"cfg": cfg, "states": res.distinct, "depth": res.depth, "scenarios": len(faults),
                                "fired": sum(f["fired"] for f in faults), "wall_s": round(res.wall_s, 1)}
    if not res.violated:
        for name in ("read", "query", "colors", "cellsize", "draw"):
            for when in ("before", "after"):
                if not any(f["fired"] and f["opx"]["name"] == name and f["fault"]["when"] == when for f in faults):
                    raise tlc.MachineryError(f"MC_TtyFault: no fired '{when}' fault for {name} (vacuous)")
        if not any(f["exp"]["kind"] == "PredicateError" for f in faults):
            raise tlc.MachineryError("MC_TtyFault: PredicateRaises never explored")
    return faults


def replay_virtual(rep: Report, f: dict, kind: str):
    scn = scn_of(f)
    fault = dict(f["fault"], kind=kind) if f["fault"]["k"] else None
    run = vtty.run_virtual(scn, fault)
    rep.evaluations += 1
    fin, e = run["final"], f["exp"]
    name = scn["op"]
    replay = {"kind": "vtty", "fault_line": f, "fault_kind": kind}
    if fin["status"] == "hung":
        rep.violation(hang_signature(name, fin["kind"]),
                      f"virtual tty: {fin['hang']}; mode {mode_key(f)}; fault {fault}; {len(run['events'])} system "
                      f"calls so far, last {[ev['call'] for ev in run['events'][-6:]]}", replay)
        return run, False
    if "traceback" in fin:
        rep.violation(f"{name}:raises:{fin['kind']}", fin["traceback"], replay)
        return run, False
    if fin["attr"] != f["attr0"]:
        rep.violation(
            f"{name}:c13:attribute-word-not-restored",
            f"virtual tty: word at entry {f['attr0']} after {fin['attr']}; mode {mode_key(f)}; fault {fault}; "
            f"calls {[ev['call'] for ev in run['events']]}", replay)
        return run, False
    exp_kind = kind if e["kind"] == "InjectedFault" else e["kind"]
    got = {"status": fin["status"], "kind": fin["kind"], "calls": [ev["call"] for ev in run["events"]],
           "fired": run["fired"], "rb": fin["rb"], "rnone": fin["rnone"]}
    want = {"status": e["status"], "kind": exp_kind, "calls": e["calls"], "fired": f["fired"],
            "rb": e["rb"] if scn["op"] in ("read", "query") and e["status"] == "returned" else got["rb"],
            "rnone": e["rnone"] if scn["op"] in ("read", "query") and e["status"] == "returned" else got["rnone"]}
    diffs = [k for k in want if want[k] != got[k]]
    if diffs:
        rep.violation(f"{name}:replay:{diffs[0]}",
                      f"fault {fault} mode {mode_key(f)}: real code differs from Tty.tla in {diffs}: "
                      + "; ".join(f"{k}: spec {want[k]!r} real {got[k]!r}" for k in diffs), replay)
        return run, False
    return run, True


def real_scn(f: dict) -> tuple[dict, list[bytes], list]:
    scn = copy.deepcopy(scn_of(f))
    o = scn["opx"]
    if o["tmo"] == f["tmo"]:
        o["tmo"] = T_READ
    elif o["tmo"] > 0:
        o["tmo"] = T_QUERY
    silent = not scn["sched"] and o["name"] in ("query", "colors", "namever", "cellsize")
    scn["tmo"] = T_READ if silent else T5S  # a silent terminal costs a whole timeout: 62.5 ms
    if silent and o["tmo"] > 0:
        o["tmo"] = T_READ + 64
    name = o["name"]
    reqs: list[bytes] = []
    if name == "query":
        reqs = [bytes(o["req"])]
    elif name in K.QUERIES:
        reqs = [K.request_bytes(qs) for qs in K.QUERIES[name]]
    bursts = [[(b["delay"] / vtty.TICK_HZ, bytes(b["data"])) for b in s] for s in scn["sched"]]
    bursts += [[] for _ in range(len(reqs) - len(bursts))]
    return scn, reqs, bursts


def real_trace(scn: dict, res: dict) -> dict:
    name = scn["opx"]["name"]
    stream = scn["preload"] if name in ("read", "draw") else res["sent"]
    sc = dict(scn, attr0=res["before"], sched=[])
    return K.make_trace("real", sc, res, c12=False, c13=True, stream=stream)


def run_real(rep: Report, session, f: dict, kind: str, traces, owners) -> None:
    scn, reqs, bursts = real_scn(f)
    fault = dict(f["fault"], kind=kind) if f["fault"]["k"] else None
    replay = {"kind": "pty", "fault_line": f, "fault_kind": kind}
    if no_fallback_seen(rep) >= 12:
        rep.extra["pty_skipped_after_no_fallback"] = rep.extra.get("pty_skipped_after_no_fallback", 0) + 1
        return
    try:
        res = session.run(scn, requests=reqs, bursts=bursts, fault=fault, retry_silence=not no_fallback_seen(rep))
    except termsim.NoReturn as e:
        rep.violation(hang_signature(scn["op"], "StillWaiting"),
                      f"real pty: did not return within 15 s ({e}), worker killed; mode {mode_key(f)}; fault {fault}", replay)
        return
    rep.evaluations += 1
    fin = res["final"]
    if fin["status"] == "hung":
        rep.violation(hang_signature(scn["op"], fin["kind"]),
                      f"real pty: {fin['hang']} after {fin['elapsed'] / vtty.TICK_HZ:.2f} s and {len(res['events'])} system "
                      f"calls; mode {mode_key(f)}; fault {fault}", replay)
        return
    if "traceback" in fin:
        rep.violation(f"{scn['op']}:raises:{fin['kind']}", fin["traceback"], replay)
        return
    if res["raw_equal"] != (fin["attr"] == res["before"]):
        raise tlc.MachineryError(f"attribute codec and raw comparison disagree: {res['raw_before']} {res['raw_after']}")
    if not res["raw_equal"]:
        replay["raw"] = [res["raw_before"], res["raw_after"]]
    traces.append(real_trace(scn, res))
    owners.append(dict(replay, mode=mode_key(f), fault=fault, calls=[ev["call"] for ev in res["events"]]))
    rep.distinct.add(("pty", mode_key(f), json.dumps(f["attr0"]), json.dumps(fault)))
    if [ev["call"] for ev in res["events"]] != f["exp"]["calls"]:
        rep.extra["real_sequence_divergences"] = rep.extra.get("real_sequence_divergences", 0) + 1


SIGINT_CASES = [
    # (opx, preload, replies?) - the call blocks until the signal arrives
    ({"name": "colors"}, [], True),
    ({"name": "cellsize"}, [], True),
    ({"name": "read", "tmo": vtty.TINF, "more": "always"}, [], False),
    ({"name": "read", "tmo": vtty.TINF, "min": 2, "more": "always"}, [97], False),
    ({"name": "read", "tmo": T5S, "more": "always", "echo": True}, [97, 98], False),
    ({"name": "query", "req": list(b"\x1b[c"), "more": "c", "tmo": T5S}, [], True),
]


def run_sigints(rep: Report, session, rng, words, n: int, traces, owners) -> None:
    landed = 0
    for i in range(n):
        opx, preload, is_query = SIGINT_CASES[i % len(SIGINT_CASES)]
        opx = dict(vtty.NO_OP, **opx)
        term = dict(K.BASE_TERM, sup=[])  # the terminal stays silent: the read loop blocks
        scn = {"opx": opx, "op": opx["name"], "attr0": rng.choice(words), "win": K.WIN0, "ioctlFails": False,
               "preload": preload, "sched": [], "enabled": True, "swap": False, "tmo": T5S, "pred": K.PRED0, "term": term}
        reqs = ([bytes(opx["req"])] if opx["name"] == "query" else
                [K.request_bytes(qs) for qs in K.QUERIES.get(opx["name"], [])]) if is_query else []
        replay = {"kind": "sigint", "scn": scn}
        try:
            res = session.run(scn, requests=reqs, bursts=[[] for _ in reqs], sigint_after=0.03)
        except termsim.NoReturn as e:
            rep.violation(hang_signature(scn["op"], "StillWaiting"), f"SIGINT variant did not return ({e})", replay)
            continue
        if res.get("sig_failed"):
            rep.extra["sigint_not_judged"] = rep.extra.get("sigint_not_judged", 0) + 1
            continue
        rep.evaluations += 1
        landed += 1
        if res["final"]["status"] == "hung":
            rep.violation(hang_signature(scn["op"], res["final"]["kind"]), f"SIGINT variant: {res['final']['hang']}", replay)
            continue
        if res["raw_equal"] != (res["final"]["attr"] == res["before"]):
            raise tlc.MachineryError("attribute codec and raw comparison disagree")
        traces.append(real_trace(scn, res))
        owners.append(dict(replay, mode="sigint " + json.dumps(opx), fault="SIGINT", calls=[ev["call"] for ev in res["events"]]))
        rep.distinct.add(("sigint", json.dumps(opx), json.dumps(scn["attr0"])))
    rep.extra["sigint_runs_judged"] = landed
    if n and landed * 2 < n:
        raise tlc.MachineryError(f"only {landed} of {n} SIGINTs landed inside a blocking call")


def run_animated(rep: Report, session, rng, words, quick: bool, traces, owners) -> None:
    """Animated draw (2 frames, one loop): the body is not enumerated by the model; the harness
    injects a fault at every call of the fault-free run and TLC judges each log with the "loose
    body" draw machine (restore before the finalizer hook, word restored unless the fault hit the
    clean-up)."""
    n_virtual = n_real = 0
    for hide in (False, True):
        for word in (rng.sample(words, 2) if quick else words):
            scn = {"opx": dict(vtty.NO_OP, name="draw", hide=hide, echo=False, nbody=-1), "op": "draw", "attr0": word,
                   "win": K.WIN0, "ioctlFails": False, "preload": [], "sched": [], "enabled": True, "swap": False,
                   "tmo": 64, "pred": K.PRED0, "term": dict(K.BASE_TERM)}
            base = vtty.run_virtual(scn)
            if base["final"]["status"] != "returned":
                rep.violation(f"draw:animated:{base['final']['status']}", json.dumps(base["final"])[:600],
                              {"kind": "anim", "scn": scn, "fault": None})
                continue
            n = len(base["events"])
            plans = [None] + [{"k": k, "when": w, "kind": KINDS[(k + i) % 2] if quick else kd}
                              for k in range(1, n + 1) for i, w in enumerate(("before", "after"))
                              for kd in (KINDS[:1] if quick else KINDS)]
            for fault in plans:
                run = vtty.run_virtual(scn, fault)
                rep.evaluations += 1
                owner = {"kind": "anim", "scn": scn, "fault": fault, "mode": f"animated draw hide={hide}",
                         "calls": [ev["call"] for ev in run["events"]]}
                if run["final"]["status"] == "hung" or "traceback" in run["final"]:
                    rep.violation(hang_signature("draw", run["final"]["kind"]) if run["final"]["status"] == "hung"
                                  else f"draw:raises:{run['final']['kind']}",
                                  f"animated draw, fault {fault}: {run['final'].get('hang') or run['final'].get('traceback')}", owner)
                    continue
                traces.append(K.make_trace("virtual", scn, run, c12=False, c13=True))
                owners.append(owner)
                n_virtual += 1
                rep.distinct.add(("anim", hide, json.dumps(word), json.dumps(fault)))
            for fault in rng.sample(plans, min(len(plans), 12 if quick else len(plans))):
                try:
                    res = session.run(dict(scn, tmo=T5S), fault=fault)
                except termsim.NoReturn as e:
                    rep.violation(hang_signature("draw", "StillWaiting"), f"animated draw on a real pty: {e}; fault {fault}",
                                  {"kind": "anim", "scn": scn, "fault": fault})
                    continue
                rep.evaluations += 1
                if "traceback" in res["final"]:
                    rep.violation(f"draw:raises:{res['final']['kind']}", res["final"]["traceback"],
                                  {"kind": "anim", "scn": scn, "fault": fault})
                    continue
                traces.append(real_trace(dict(scn, tmo=T5S), res))
                owners.append({"kind": "anim", "scn": scn, "fault": fault, "mode": f"animated draw hide={hide} (pty)",
                               "calls": [ev["call"] for ev in res["events"]]})
                n_real += 1
    rep.extra["animated_draw_faults"] = {"virtual": n_virtual, "pty": n_real}


def judge(rep: Report, traces, owners) -> None:
    if not traces:
        return
    order = list(range(len(traces)))
    random.Random(len(traces)).shuffle(order)
    traces[:] = [traces[i] for i in order]
    owners[:] = [owners[i] for i in order]
    verdicts, st, tr = tlc.validate_traces("Trace_Tty", "Trace_Tty.cfg", traces, batch=max(40, min(1200, len(traces) // 8 + 1)),
                                           parallel=8, workers=2, timeout=840, name="c13")
    rep.states += st
    rep.transitions += tr
    rep.traces_validated += len(traces)
    exempt = 0
    verdict_of = {id(t): v["verdict"] for v, t in zip(verdicts, traces)}
    probes = probes_ok = 0
    for v, t, o in zip(verdicts, traces, owners):
        exempt += bool(v.get("exempt"))
        if o["kind"] == "probe":
            rep.traces_validated -= 1
            if verdict_of.get(o["base"]) != "ok":
                continue  # the base trace is itself rejected: this probe shows nothing
            probes += 1
            if v["verdict"] != "c13:attribute-word-not-restored":
                raise tlc.MachineryError(f"Trace_Tty did not reject a trace with a tampered final word: {v}")
            probes_ok += 1
            rep.extra["corrupted_trace_verdict"] = v["verdict"]
            continue
        if v.get("late", "ok") != "ok":
            rep.violation(
                f"{t['op']['name']}:{v['late']}",
                f"{t['mode']} run: the call returned but left work behind: started {t['final']['spawned']}, terminal "
                f"accesses after the return {t['final']['late']}; mode {o.get('mode')}; fault {o.get('fault')}; word at entry "
                f"{t['env']['attr0']}, when the call returned {t['final']['attr']}",
                {k: o[k] for k in ("kind", "fault_line", "fault_kind", "scn", "fault") if k in o})
        if v["verdict"] == "ok":
            continue
        if v["verdict"].startswith("env:"):
            raise tlc.MachineryError(f"the {t['mode']} tty device disagrees with Tty.tla's environment: {v}; {o.get('mode')}")
        name = t["op"]["name"]
        rep.violation(
            f"{name}:{v['verdict']}",
            f"{t['mode']} run rejected by Trace_Tty: {v['verdict']} at event {v['at']} of {len(t['events'])} (machine expected "
            f"{v['want']!r}, log has {v['got']!r}); mode {o.get('mode')}; fault {o.get('fault')}; word at entry "
            f"{t['env']['attr0']} afterwards {t['final']['attr']}; outcome {t['final']['status']} {t['final']['kind']}; "
            f"calls {o.get('calls')}" + (f"; raw before/after {o['raw']}" if "raw" in o else ""),
            {k: o[k] for k in ("kind", "fault_line", "fault_kind", "scn", "fault") if k in o})
    rep.extra["exempt_faults_seen"] = exempt
    if any(o["kind"] == "probe" for o in owners) and not probes_ok and not rep.violations:
        raise tlc.MachineryError("no tampered trace could be judged (self-test of the alarm did not run)")


def main(rep: Report, replay: dict | None) -> None:
    rep.level = "fault_enumeration"
    import gc

    gc.disable()  # tens of thousands of acyclic trace records: a full collection stalls for seconds
    rep.assumptions += ASSUMPTIONS
    rep.rule = (
        "MC_TtyFault: (operation x read mode x predicate) x initial word {canonical,raw} x {echo on,off} x VMIN/VTIME "
        "{(1,0),(0,0),(0,5)} x fault position k (every system call of the fault-free run) x {before,after}; "
        "distinct_nontrivial = distinct (mode, word, fault) executed on the real pty + on the virtual tty with a fired fault"
    )
    quick = rep.tier == "quick"
    rng = random.Random(rep.seed * 7331 + 13)
    traces: list[dict] = []
    owners: list[dict] = []
    src = rep.extra["repo"] + "/src"

    if replay:
        sc = replay["scenario"]
        if sc["kind"] == "design":
            run_mc(rep, sc["cfg"], False)
            return
        session = None
        try:
            if sc["kind"] == "vtty":
                run, ok = replay_virtual(rep, sc["fault_line"], sc["fault_kind"])
            elif sc["kind"] == "anim":
                run = vtty.run_virtual(sc["scn"], sc.get("fault"))
                traces.append(K.make_trace("virtual", sc["scn"], run, c12=False, c13=True))
                owners.append({"kind": "anim", "scn": sc["scn"], "fault": sc.get("fault"), "mode": "animated draw (replay)"})
            elif sc["kind"] == "pty":
                session = termsim.PtySession(src)
                run_real(rep, session, sc["fault_line"], sc["fault_kind"], traces, owners)
            else:
                session = termsim.PtySession(src)
                res = session.run(sc["scn"], requests=[], bursts=[], sigint_after=0.03)
                if not res.get("sig_failed"):
                    traces.append(real_trace(sc["scn"], res))
                    owners.append({"kind": "sigint", "scn": sc["scn"]})
        finally:
            if session:
                session.close()
        judge(rep, traces, owners)
        return

    phase: dict[str, float] = {}
    rep.extra["phase_s"] = phase
    tp = time.time()

    def lap(name: str) -> None:
        nonlocal tp
        phase[name] = round(time.time() - tp, 1)
        tp = time.time()

    # 1. the model
    faults = run_mc(rep, "MC_TtyFault.cfg" if quick else "MC_TtyFault_thorough.cfg", coverage=not quick)
    lap("mc")
    # 2. spec -> code: every enumerated fault into the real functions on the virtual tty
    good = 0
    vsample = []
    rep.extra["exempt_positions"] = sum(f["exempt"] for f in faults)
    faults = [f for f in faults if not f["exempt"]]  # faults inside the outermost clean-up: not injected
    for i, f in enumerate(faults):
        kinds = KINDS if not quick else (KINDS[(i + rep.seed) % 2],)
        if f["opx"]["name"] == "draw":
            kinds = (f["fault"]["kind"],)  # draw: the kind is part of the model (except KeyboardInterrupt)
        for kind in kinds:
            run, ok = replay_virtual(rep, f, kind)
            good += ok
            if ok and f["fired"]:
                rep.distinct.add(("vtty", mode_key(f), json.dumps(f["attr0"]), json.dumps(f["fault"]), kind))
            left = run["final"].get("spawned") or run["final"].get("late")
            if (ok and (i % (97 if quick else 13) == 0)) or (left and sum(1 for x in vsample if x[3]) < 40):
                vsample.append((f, kind, run, bool(left)))
    rep.traces_validated += good
    rep.extra["virtual_fault_replays"] = good
    kinds: dict[str, int] = {}
    for f in faults:
        for c in f["exp"]["calls"]:
            kinds[c] = kinds.get(c, 0) + 1
    rep.extra["calls_in_model"] = kinds
    for c in ("tcgetattr", "tcsetattr", "write", "tcdrain", "select", "read", "monotonic", "termsize", "ioctl", "more", "stream"):
        if not kinds.get(c):
            raise tlc.MachineryError(f"no behaviour of MC_TtyFault performs {c} (vacuous action)")
    for f, kind, run, _left in vsample:
        scn = scn_of(f)
        traces.append(K.make_trace("virtual", scn, run, c12=False, c13=True))
        owners.append({"kind": "vtty", "fault_line": f, "fault_kind": kind, "mode": mode_key(f),
                       "fault": f["fault"], "calls": [ev["call"] for ev in run["events"]]})
    lap("vtty")
    # 3. code -> spec on a real pty
    groups: dict[tuple, list[dict]] = {}
    for f in faults:
        groups.setdefault((mode_key(f), f["fault"]["k"], f["fault"]["when"],
                           f["fault"]["kind"] if f["opx"]["name"] == "draw" else ""), []).append(f)
    picks: list[tuple[dict, str]] = []
    keys = sorted(groups)
    if quick:
        draw = [k for k in keys if '"draw"' in k[0]]
        rest = [k for k in keys if '"draw"' not in k[0]]
        chosen = draw + rng.sample(rest, min(len(rest), 520))
        for j, k in enumerate(chosen):
            g = rng.choice(groups[k])
            picks.append((g, g["fault"]["kind"] if g["opx"]["name"] == "draw" else KINDS[j % 2]))
    else:
        for k in keys:
            for f in groups[k]:
                for kind in (f["fault"]["kind"],) if f["opx"]["name"] == "draw" else KINDS if f["fired"] else KINDS[:1]:
                    picks.append((f, kind))
    session = termsim.PtySession(src)
    try:
        for f, kind in picks:
            run_real(rep, session, f, kind, traces, owners)
        lap("pty")
        words = sorted({json.dumps(f["attr0"], sort_keys=True) for f in faults})
        run_sigints(rep, session, rng, [json.loads(w) for w in words], 12 if quick else 120, traces, owners)
        lap("sigint")
        run_animated(rep, session, rng, [json.loads(w) for w in words], quick, traces, owners)
        lap("animated")
    finally:
        rep.extra["pty_stalls_retried"] = getattr(session, "stalls", 0)
        session.close()
    rep.extra["pty_fault_runs"] = len(picks)
    # 4. the alarm rings: tamper with the final word of real traces (several, of different
    # operations: under a code mutation a base trace may itself be invalid)
    bases = [i for i, t in enumerate(traces) if t["mode"] == "real" and t["final"]["attr"] == t["env"]["attr0"]]
    if not bases and not rep.violations:
        raise tlc.MachineryError("no real trace to tamper with")
    for i in bases[:: max(1, len(bases) // 6)][:6]:
        probe = copy.deepcopy(traces[i])
        probe["final"]["attr"] = dict(probe["final"]["attr"], echo=not probe["final"]["attr"]["echo"])
        traces.append(probe)
        owners.append({"kind": "probe", "base": id(traces[i])})
    judge(rep, traces, owners)
    lap("judge")
    for t in [t for t in traces if t["mode"] == "real"][:2]:
        rep.sample({"op": t["op"], "word_at_entry": t["env"]["attr0"], "word_after": t["final"]["attr"],
                    "outcome": [t["final"]["status"], t["final"]["kind"]],
                    "calls": [(e["call"], e["ok"]) for e in t["events"]][:40]})
    rep.exhaustive = not quick
