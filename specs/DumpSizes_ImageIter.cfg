SPECIFICATION Spec
CONSTANTS
  N = 3
  MaxDepth = 3
  SpecSet = {"s2"}
  SizeSet = {"A", "B", "dyn"}
  TermSet = {1}
  KindSet = {"path", "pil", "url"}
  PeerVars = {}
  FaultSteps = {}
VIEW DumpView
CONSTRAINT Bound
ACTION_CONSTRAINT Dump
INVARIANT DumpInitInv
CHECK_DEADLOCK FALSE
