SPECIFICATION Spec
CONSTANTS
  MaxLen = 9
  Prune = TRUE
  Alphabet = {"#", "a", "0", "+", "W", "."}
INVARIANT TypeOK
INVARIANT Unambiguous
INVARIANT ParseIsTheGrammar
INVARIANT MachineAgrees
INVARIANT DeadIsDead
INVARIANT LaxOnlyAddsBareDots
INVARIANT StyleSpecific
CHECK_DEADLOCK FALSE
