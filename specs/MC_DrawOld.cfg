SPECIFICATION Spec
INVARIANT SamePlaceEveryFrame
INVARIANT EndsBelowShowingLastFrame
CHECK_DEADLOCK FALSE
