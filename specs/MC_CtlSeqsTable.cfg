SPECIFICATION Spec
INVARIANT OneSequenceEach
INVARIANT IntendedParameters
INVARIANT PlaceholdersArePlainText
INVARIANT BuildersGuardZero
INVARIANT InstancesOfTheirTemplates
INVARIANT ColourValues
INVARIANT Dump
CHECK_DEADLOCK FALSE
