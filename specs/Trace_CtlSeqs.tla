----------------------------- MODULE Trace_CtlSeqs -----------------------------
(***************************************************************************)
(* X05: what the REAL module (src/term_image/_ctlseqs.py) produced, judged   *)
(* against CtlSeqs.tla / CtlSeqsPatterns.tla.  Four kinds of trace:          *)
(*                                                                         *)
(*  row    one row of the dumped table, instantiated from the real module:   *)
(*         the real characters (str and bytes variant), what harness/lexer.py*)
(*         made of them, and the dumped expectation                         *)
(*  walk   a sequence of operations written to one terminal: a covering walk *)
(*         of the dumped edge graph (every step carries the dumped target    *)
(*         state) or a seeded random history; the REAL tokens are folded     *)
(*         through Terminal!Apply and compared with Effect after every step  *)
(*  match  one string and what every real compiled pattern did with it       *)
(*         (fullmatch; or match on string + context)                        *)
(*  names  the module's __all__                                              *)
(*                                                                         *)
(* Steps are total; the verdict names the first failing clause, the step and *)
(* the name concerned.  "lexer-disagrees" is not a verdict about term-image: *)
(* the driver turns it into a machinery failure.                            *)
(***************************************************************************)
EXTENDS CtlSeqsPatterns, Json, IOUtils

Traces == JsonDeserialize(IOEnv.TRACE_FILE)

VARIABLES tid, l, T, verdict, at, who
vars == <<tid, l, T, verdict, at, who>>

Tr == Traces[tid]
Steps == Tr.steps
N == Len(Steps)

\* (a step without graphics commands travels without the dummy graphics record)
Real(e) == [toks |-> e.toks, gfx |-> IF e.gfx = <<>> THEN NoGfx ELSE e.gfx]

\* the part every byte string goes through: parser state, one sequence
StringClause(chars, wantEnd, wantCount) ==
  LET p == ParseVT(chars) IN
  IF [st |-> p.st, k |-> p.k] # wantEnd
    THEN "parser-state: the string does not leave the VT.tla parser in the intended state"
  ELSE IF Len(p.ev) # wantCount
    THEN "not-one-sequence: the VT.tla parser does not see exactly one complete sequence"
  ELSE "ok"
\* ... and, once the string is known to be what the specification wants, the cross-check of the
\* two lexers on it (a disagreement is a fault of the machinery, not of term-image)
LexClause(chars, real, pyend) ==
  LET lx == LexOne(chars) IN
  IF ~SameTokens(lx, real) \/ lx.end # pyend
    THEN "lexer-disagrees: harness/lexer.py and CtlSeqs!LexOne read the real string differently"
  ELSE "ok"

RowClause(e) ==
  LET r == [op |-> e.op, suf |-> e.suf]
      name == e.op.name IN
  IF e.sort # Sort(name) THEN "table-row-not-from-spec: sort"
  ELSE IF e.hasb /\ e.bchars # e.chars
    THEN "bytes-variant: the _b value is not the encoded str value"
  ELSE IF name = "x_parse_color" THEN
    IF Len(e.val) # 3 \/ ~ColourOK(e.op.s[1], e.val)
      THEN "value: a channel is not the documented fraction of full intensity"
    ELSE IF \E i \in 1..3 : e.val[i] < e.vlo[i] \/ e.val[i] > e.vhi[i]
      THEN "value-differs-from-table"
    ELSE "ok"
  ELSE IF e.sort = "placeholder" THEN
    IF e.chars # e.bytes THEN "placeholder: not the plain printf conversion of its argument"
    ELSE IF e.bytes # RowBytes(r) THEN "table-row-not-from-spec: bytes"
    ELSE "ok"
  ELSE
    LET c == StringClause(e.chars, e.exp.end, Len(e.exp.toks)) IN
    IF c # "ok" THEN c
    ELSE IF e.end # e.exp.end THEN "parser-state: harness/lexer.py is not left in the intended state"
    ELSE IF ~SameTokens(Real(e), e.exp) THEN "tokens: the lexed tokens differ from the table row"
    ELSE IF ~SameTokens(e.exp, RowWant(r)) \/ e.exp.end # RowEnd(r) THEN "table-row-not-from-spec: tokens"
    ELSE LexClause(e.chars, Real(e), e.end)

WalkClause(e, S) ==
  LET c == StringClause(e.chars, Ground, IF e.chars = <<>> THEN 0 ELSE 1)
      U == Feed(S, Real(e)) IN
  IF S.err # "" THEN "ok"                   \* nothing is judged after a protocol error
  ELSE IF c # "ok" THEN c
  ELSE IF U # Norm(Effect(e.op, S)) THEN "effect: the terminal does not end in the documented state"
  ELSE IF e.hasexp /\ Obs(U) # e.exp THEN "edge: the terminal does not end in the state of the dumped edge"
  \* (the lexer cross-check is left to the table rows for the operations of the dumped graph)
  ELSE IF e.op.name # "type" /\ ~e.hasexp THEN LexClause(e.chars, Real(e), e.end)
  ELSE "ok"

RECURSIVE FirstBad(_, _)
FirstBad(e, i) ==
  IF i > Len(PatNames) THEN 0
  ELSE LET want == IF e.ctx = <<>> \/ Doc(PatNames[i], e.s) THEN Match(PatNames[i], e.s) ELSE No
       IN IF e.res[i] = want THEN FirstBad(e, i + 1) ELSE i
MatchClause(e) ==
  LET i == FirstBad(e, 1) IN
  IF i = 0 THEN "ok"
  ELSE LET want == IF e.ctx = <<>> \/ Doc(PatNames[i], e.s) THEN Match(PatNames[i], e.s) ELSE No
           how == IF e.ctx = <<>> THEN "" ELSE "-in-context" IN
       IF e.res[i].m /\ ~want.m THEN "pattern-accepts" \o how \o ": a string outside the pattern's language is accepted"
       ELSE IF ~e.res[i].m THEN "pattern-rejects" \o how \o ": a string of the pattern's language is rejected"
       ELSE "pattern-groups" \o how \o ": the captured fields differ"
MatchWho(e) == LET i == FirstBad(e, 1) IN IF i = 0 THEN "" ELSE PatNames[i]

NamesClause(e) ==
  LET want == Encoded \cup {nm \o "_b" : nm \in Encoded} \cup Patterns \cup Functions IN
  IF Range(e.all) # want THEN "exports: __all__ is not the vocabulary and its bytes twins" ELSE "ok"

Clause(e, S) ==
  CASE Tr.kind = "row" -> RowClause(e)
    [] Tr.kind = "walk" -> WalkClause(e, S)
    [] Tr.kind = "match" -> MatchClause(e)
    [] Tr.kind = "names" -> NamesClause(e)
Who(e) ==
  CASE Tr.kind \in {"row", "walk"} -> e.op.name
    [] Tr.kind = "match" -> MatchWho(e)
    [] OTHER -> "__all__"

\* a walk is written as ONE string: lexing the concatenation must give the steps' tokens
Flat == LET RECURSIVE F(_)
            F(i) == IF i > N THEN <<>> ELSE [j \in 1..Len(Steps[i].toks) |-> Steps[i].toks[j].k] \o F(i + 1)
        IN F(1)
\* (the lexer reports a run of equal characters as one print token)
RECURSIVE Squash(_)
Squash(q) == IF Len(q) < 2 THEN q
             ELSE IF q[1] = "print" /\ q[2] = "print" THEN Squash(Tail(q)) ELSE <<q[1]>> \o Squash(Tail(q))
EndClause ==
  IF Tr.kind = "walk" /\ T.err = "" /\ Squash(Tr.whole) # Squash(Flat)
    THEN "not-self-contained: written one after the other the operations lex differently"
  ELSE "ok"

Init ==
  /\ tid \in 1..Len(Traces)
  /\ l = 0
  /\ T = Norm(NewTerminal(Traces[tid].cols, Traces[tid].rows, Traces[tid].r0, Traces[tid].c0))
  /\ verdict = "ok"
  /\ at = 0
  /\ who = ""

Consume ==
  /\ l < N
  /\ l' = l + 1
  /\ LET e == Steps[l + 1]
         v == IF verdict # "ok" THEN verdict ELSE Clause(e, T) IN
       /\ verdict' = v
       /\ at' = IF verdict = "ok" /\ v # "ok" THEN l + 1 ELSE at
       /\ who' = IF verdict = "ok" /\ v # "ok" THEN Who(e) ELSE who
       /\ T' = IF Tr.kind = "walk" THEN Feed(T, Real(e)) ELSE T
  /\ UNCHANGED tid

Finish ==
  /\ l = N
  /\ l' = N + 1
  /\ LET v == IF verdict # "ok" THEN verdict ELSE EndClause IN
       /\ verdict' = v
       /\ at' = IF verdict = "ok" /\ v # "ok" THEN N + 1 ELSE at
       /\ who' = IF verdict = "ok" /\ v # "ok" THEN "walk" ELSE who
  /\ UNCHANGED <<tid, T>>

Next == Consume \/ Finish
Spec == Init /\ [][Next]_vars

Done == l = N + 1
Report == Done => PrintT(<<"VERDICT", ToJson([tid |-> tid, verdict |-> verdict, at |-> at, who |-> who])>>)
=============================================================================
