SPECIFICATION SpecDump
CONSTANTS
  Ident = "forced"
  Style3 = "block"
  Bits = 3
  Fams = {"Q", "O", "L", "F", "T", "I"}
  WithBad = FALSE
  WithInv = FALSE
  Dyn = FALSE
  WithDC = TRUE
  WithWinch = TRUE
CONSTANT RelFams <- RelFamsT
VIEW CoarseView
ACTION_CONSTRAINT DumpL
CHECK_DEADLOCK FALSE
