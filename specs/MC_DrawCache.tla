---------------------------- MODULE MC_DrawCache ----------------------------
EXTENDS DrawCache
DLoops == {-1, 1, 2, 3}
DArgs == {[kind |-> "bool", b |-> TRUE, n |-> 0], [kind |-> "bool", b |-> FALSE, n |-> 0]}
           \cup {[kind |-> "int", b |-> FALSE, n |-> k] : k \in {1, N - 1, N, N + 1, 100}}
=============================================================================
