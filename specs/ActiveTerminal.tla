--------------------------- MODULE ActiveTerminal ---------------------------
(***************************************************************************)
(* X07: one process, from loading term_image to its end: the terminal is     *)
(* discovered once at load; afterwards terminals are resized, the            *)
(* environment variables COLUMNS / LINES change, terminals hang up, and       *)
(* get_terminal_size() is asked.                                             *)
(***************************************************************************)
EXTENDS ActiveTerminalCore, TLC, Json

CONSTANTS Confs      \* stream configurations explored

SizeA(t) == <<60 + t, 30 + t>>
SizeB(t) == <<90 + t, 40 + t>>
Envs == {NoEnv, [c |-> 50, l |-> 15], [c |-> 50, l |-> 0], [c |-> 0, l |-> 15]}

VARIABLES conf, loaded, active, alive, size, env, out
vars == <<conf, loaded, active, alive, size, env, out>>
View == <<conf, loaded, active, alive, size, env>>

Op(k, t, e) == [k |-> k, t |-> t, c |-> e.c, l |-> e.l]
Ans == Answer(conf, active, alive, size, env)
Out(op, ans, act, via) == [op |-> op, cols |-> ans[1], lines |-> ans[2], act |-> act, via |-> via,
                           warned |-> op.k = "load" /\ act = 0]

Init ==
  /\ conf \in Confs
  /\ loaded = FALSE /\ active = 0
  /\ alive = [t \in Ttys |-> TRUE]
  /\ size = [t \in Ttys |-> SizeA(t)]
  /\ env = NoEnv
  /\ out = Out(Op("init", 0, NoEnv), <<0, 0>>, 0, 0)

\* loading the package discovers the active terminal: first of STDOUT, STDIN, STDERR, /dev/tty
Load ==
  /\ ~loaded /\ loaded' = TRUE
  /\ active' = Discover(conf)
  /\ out' = Out(Op("load", 0, NoEnv), Answer(conf, active', alive, size, env), active', DiscoveredVia(conf))
  /\ UNCHANGED <<conf, alive, size, env>>

Resize == \E t \in Used(conf) :
  /\ loaded /\ alive[t]
  /\ size' = [size EXCEPT ![t] = IF size[t] = SizeA(t) THEN SizeB(t) ELSE SizeA(t)]
  /\ out' = Out(Op("resize", t, NoEnv), Answer(conf, active, alive, size', env), active, 0)
  /\ UNCHANGED <<conf, loaded, active, alive, env>>

SetEnv == \E e \in Envs \ {env} :
  /\ loaded /\ env' = e
  /\ out' = Out(Op("env", 0, e), Answer(conf, active, alive, size, e), active, 0)
  /\ UNCHANGED <<conf, loaded, active, alive, size>>

\* the terminal emulator goes away: the device can not be asked any more
Hangup == \E t \in Used(conf) :
  /\ loaded /\ alive[t] /\ t \in {active, conf.out}
  /\ alive' = [alive EXCEPT ![t] = FALSE]
  /\ out' = Out(Op("hangup", t, NoEnv), Answer(conf, active, alive', size, env), active, 0)
  /\ UNCHANGED <<conf, loaded, active, size, env>>

Query ==
  /\ loaded
  /\ out' = Out(Op("query", 0, NoEnv), Ans, active, 0)
  /\ UNCHANGED <<conf, loaded, active, alive, size, env>>

Next == Load \/ Resize \/ SetEnv \/ Hangup \/ Query
Spec == Init /\ [][Next]_vars

TypeOK == /\ WFConf(conf) /\ active \in 0..4 /\ loaded \in BOOLEAN
          /\ out.cols \in 0..200 /\ out.lines \in 0..200
ActiveIsFirstTerminal ==
  loaded => /\ active = Discover(conf)
            /\ (conf.out # 0 => active = conf.out)
            /\ (conf.out = 0 /\ conf.in # 0 => active = conf.in)
            /\ (conf.out = 0 /\ conf.in = 0 /\ conf.err # 0 => active = conf.err)
            /\ (conf.out = 0 /\ conf.in = 0 /\ conf.err = 0 => active = conf.ctty)
NoActiveOnlyWithoutAnyTerminal == loaded /\ active = 0 => Used(conf) = {}
\* redirected output does not matter, COLUMNS / LINES do not matter: the active terminal answers
AnswerIsActiveTerminalsSize == loaded /\ active # 0 /\ alive[active] => Ans = size[active]
FallbackNeverZero == loaded => Ans[1] > 0 /\ Ans[2] > 0

ActiveNeverChanges == [][loaded => active' = active]_vars
\* resizing any OTHER terminal (e.g. the one behind a lower-priority stream) is invisible
OtherTerminalInvisible ==
  [][out'.op.k = "resize" /\ out'.op.t # active /\ active # 0 /\ alive[active] =>
       <<out'.cols, out'.lines>> = Ans]_vars
EnvInvisibleWhileActive ==
  [][out'.op.k = "env" /\ active # 0 /\ alive[active] => <<out'.cols, out'.lines>> = Ans]_vars
WarnedIffNone == [][out'.op.k = "load" => (out'.warned <=> Used(conf) = {})]_vars

Key == [conf |-> conf, ld |-> loaded, act |-> active, alive |-> alive, size |-> size, env |-> env]
KeyP == [conf |-> conf', ld |-> loaded', act |-> active', alive |-> alive', size |-> size', env |-> env']
Dump == PrintT(<<"EDGE", ToJson([from |-> Key, op |-> out', to |-> KeyP])>>)
InitDump == TLCGet("level") = 1 => PrintT(<<"INIT", ToJson(Key)>>)
=============================================================================
