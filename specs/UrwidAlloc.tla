----------------------------- MODULE UrwidAlloc -----------------------------
(***************************************************************************)
(* C18 - the z-index allocator of UrwidImage alone, explored up to the      *)
(* exhaustion error.  Index space of Bits bits: usable indexes              *)
(* -(2^(Bits-1)-1) .. 2^(Bits-1)-1 without 0, handed out 1, -1, 2, -2, ...;  *)
(* released indexes (widget finalized) are reused first, in any order        *)
(* (set.pop()).  NSlots = capacity + 1 widgets so that the error is reached. *)
(***************************************************************************)
EXTENDS UrwidScreenCore, Json

CONSTANTS Bits, NSlots

VARIABLES nxt, free, held, out
vars == <<nxt, free, held, out>>

SlotsA == 1..NSlots
Live == {s \in SlotsA : held[s] # 0}

Init == nxt = 1 /\ free = {} /\ held = [s \in SlotsA |-> 0]
        /\ out = [op |-> "init", s |-> 0, z |-> 0, cls |-> 0, uz |-> 0, res |-> ""]

\* cls: instance of UrwidImage (0), of a subclass (1), of a sub-subclass (2) - one shared allocator
\* uz:  the format spec given to the widget carries a z-index field (ignored: no effect on the allocator)
New ==
  \E s \in SlotsA, cls \in 0..2, uz \in 0..1 :
    /\ held[s] = 0
    /\ IF AllocOutcomes(Bits, nxt, free) = {}
         THEN /\ out' = [op |-> "new", s |-> s, z |-> 0, cls |-> cls, uz |-> uz, res |-> "UrwidImageError"]
              /\ UNCHANGED <<nxt, free, held>>
         ELSE \E o \in AllocOutcomes(Bits, nxt, free) :
                /\ held' = [held EXCEPT ![s] = o.z]
                /\ nxt' = o.next /\ free' = o.free
                /\ out' = [op |-> "new", s |-> s, z |-> o.z, cls |-> cls, uz |-> uz, res |-> ""]

Drop ==
  \E s \in SlotsA :
    /\ held[s] # 0
    /\ free' = free \cup {held[s]}
    /\ held' = [held EXCEPT ![s] = 0]
    /\ out' = [op |-> "drop", s |-> s, z |-> held[s], cls |-> 0, uz |-> 0, res |-> ""]
    /\ UNCHANGED nxt

Next == New \/ Drop
Spec == Init /\ [][Next]_vars

DistinctInRange ==
  /\ \A a, b \in Live : a # b => held[a] # held[b]
  /\ \A a \in Live : held[a] \in ZRange(Bits) \ {0}
FreeDisjoint == free \cap {held[s] : s \in Live} = {}
\* the error is raised exactly when every index of the space is held by a live widget
ErrorOnlyWhenFull == out.res = "UrwidImageError" => Cardinality(Live) = ZCapacity(Bits)
NeverMoreThanCapacity == Cardinality(Live) <= ZCapacity(Bits)
\* indexes are never lost: held + free + not yet handed out = the whole space
Handed == {z \in ZRange(Bits) \ {0} : IF nxt = ZLimit(Bits) THEN TRUE
                                      ELSE (IF z > 0 THEN z ELSE -z) < (IF nxt > 0 THEN nxt ELSE -nxt)
                                           \/ (z > 0 /\ nxt < 0 /\ z = -nxt)}
NothingLost == Handed = free \cup {held[s] : s \in Live}

\* slots are interchangeable: the view forgets which slot holds which index
View == <<nxt, free, {held[s] : s \in Live}>>

\* edge dump (operation sequences for the real-code replay near 2^31 - 1)
AObs == [nxt |-> nxt, free |-> free, hs |-> {held[s] : s \in Live}]
Dump == PrintT(<<"EDGE", ToJson([from |-> AObs, op |-> [op |-> out'.op, z |-> out'.z, cls |-> out'.cls, uz |-> out'.uz, res |-> out'.res], to |-> AObs'])>>)
InitDump == Init /\ PrintT(<<"INIT", ToJson(AObs)>>)
SpecDump == InitDump /\ [][Next]_vars
=============================================================================
