SPECIFICATION Spec
CONSTANTS
  Scenarios <- ScenVar
CONSTRAINT Cut
INVARIANT TypeOK
INVARIANT Bounded
INVARIANT FrameDwell
INVARIANT NoDrift
INVARIANT RenderDuringDwell
INVARIANT OneSleepBetweenFrames
INVARIANT NoSleepBeforeFirstFrame
INVARIANT Termination
INVARIANT ZeroFrames
INVARIANT SleepCount
INVARIANT InterruptEnds
INVARIANT NoTraceback
INVARIANT DurationFrozen
CHECK_DEADLOCK FALSE
