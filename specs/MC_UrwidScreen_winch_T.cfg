SPECIFICATION Spec
CONSTANTS
  Ident = "kitty"
  Style3 = "block"
  Bits = 3
  Fams = {"Q", "O", "T"}
  WithBad = FALSE
  WithInv = FALSE
  Dyn = FALSE
  WithDC = FALSE
  WithWinch = TRUE
VIEW View
INVARIANT PlacementsExact
INVARIANT NoDuplicates
INVARIANT OutputBracketed
INVARIANT DeletionsFirst
INVARIANT ClearedOnStartStopClear
INVARIANT ClearedByDirectCall
INVARIANT NoGraphicsIfUnsupported
INVARIANT TerminalSane
INVARIANT DistinctZ
INVARIANT AllocatorSound
INVARIANT NoOrphanZ
INVARIANT TracksLastCanvas
CHECK_DEADLOCK FALSE
