"""C16 helpers: build render-class trees dynamically, execute one modelled operation on the
real RenderArgs / ArgsNamespace API, observe objects.

Nothing here judges: `execute` returns what the real code did (result object or exception
class names), `observe*` return plain projections that the driver compares with what TLC
printed (spec -> code) or hands to TLC (code -> spec).

Model conventions (specs/RenderArgs.tla): classes 0..N (0 = `Renderable`, owns no
argument namespace), `par[c-1]` = parent of c, `has` = classes owning an Args namespace,
class c has NF(c) fields `f1..` over {0, 1} with default Dflt(c, f) = (c + f) % 2.
Objects: ["ns", c, [values]] / ["ra", c, [per class 1..N: [values] | []]].
"""

from __future__ import annotations

import itertools

_uid = itertools.count()


def nf(c: int) -> int:
    return 2 if c % 2 == 1 else 1


def dflt(c: int, f: int) -> int:
    return (c + f) % 2


# The model's field domain {0, 1} is abstract; the binding instantiates it per field with real
# values that include None and the other falsy values (0, "", False), all legitimate field
# values (e.g. a field annotated `float | None = 0.5`).  Within one field the two values are
# unequal and of different type/identity, so a value taken from the wrong place always shows.
_ENC = {
    (1, 1): (None, 0.5),   # odd class, f1:  None | 0.5     (default None)
    (1, 2): (0, ""),       # odd class, f2:  0 | ""         (default "" resp. 0)
    (0, 1): (False, None),  # even class, f1: False | None   (default None)
    (0, 2): (0.0, "x"),    # unknown field f2 of a one-field class (never stored)
}


# The model's value 2 (UVal in RenderArgs.tla) is an UNHASHABLE value: a list for f1, a dict for
# the other fields; a NEW object at every use, so equal values are never the same object.
UVAL = 2


# VARIANTS: real values of another type that are == (and hash equal) to the ones above
# (0.5 / Fraction(1, 2), 0 / False, False / 0).  `NsNew` with b = 2 builds the namespace from
# them: an equal-but-distinct namespace whose look-alike must never be held in its place.
from fractions import Fraction  # noqa: E402

_VAR = {
    (1, 1): (None, Fraction(1, 2)),
    (1, 2): (False, ""),
    (0, 1): (0, None),
}


def enc(c: int, f: int, x: int, variant: bool = False):
    if x == UVAL:
        return ["u", f] if f == 1 else {"u": f}
    if variant and (c % 2, f) in _VAR:
        return _VAR[(c % 2, f)][x]
    return _ENC.get((c % 2, f), (0, 1))[x]


def dec(c: int, f: int, real):
    for pair in (_ENC.get((c % 2, f), (0, 1)), _VAR.get((c % 2, f), (0, 1))):
        for x in (0, 1):
            if type(real) is type(pair[x]) and real == pair[x]:
                return x
    if type(real) in (list, dict) and real == enc(c, f, UVAL):
        return UVAL
    return ["?", repr(real)]


class _UnknownOp(BaseException):
    pass


def mro_names(e: BaseException) -> list[str]:
    return [k.__name__ for k in type(e).__mro__ if k not in (object, BaseException)]


class _Operands:
    """objs[i]: a live object (i > 0) or, for i = -(16 * set + cls), the namespace object
    EXTRACTED from the live set: by set[cls] or by iterating the set (alternating), so that
    operations also receive the very instances held inside sets (e.g. a class's shared default
    namespace) and not only freshly constructed ones."""

    def __init__(self, tree, objs):
        self.tree, self.objs = tree, objs

    def __getitem__(self, i):
        if i > 0:
            return self.objs[i]
        ra, k = divmod(-i, 16)
        rc = self.tree.cls[k]
        if (ra + k) % 2:
            return self.objs[ra][rc]
        return next(ns for ns in self.objs[ra] if ns.get_render_cls() is rc)


class Tree:
    """Real render classes + namespace classes for one model tree.

    Namespace classes are associated right after their render class is created, i.e.
    before the render class is subclassed or used (the documented usage)."""

    def __init__(self, par: list[int], has: list[int]):
        from term_image.renderable import ArgsNamespace, Renderable

        self.par = list(par)
        self.has = sorted(has)
        self.n = len(par)
        tag = next(_uid)
        meta = type(Renderable)
        ns_meta = type(ArgsNamespace)
        self.cls = [Renderable]
        self.args = [None]
        self.sub = [None]  # a SUBCLASS of each namespace class (inherits fields + association)
        for c in range(1, self.n + 1):
            rc = meta(f"K{c}_{tag}", (self.cls[par[c - 1]],), {})
            self.cls.append(rc)
            if c in self.has:
                body: dict = {"__annotations__": {f"f{f}": "int" for f in range(1, nf(c) + 1)}}
                for f in range(1, nf(c) + 1):
                    body[f"f{f}"] = enc(c, f, dflt(c, f))
                self.args.append(ns_meta(f"K{c}Args_{tag}", (ArgsNamespace,), body, render_cls=rc))
                self.sub.append(ns_meta(f"K{c}HandyArgs_{tag}", (self.args[c],),
                                        {"describe": lambda self: repr(self)}))
            else:
                self.args.append(None)
                self.sub.append(None)
        self.index = {rc: i for i, rc in enumerate(self.cls)}

    # -- observation -----------------------------------------------------------------
    def observe(self, x) -> list:
        """[kind, class index, values] of a namespace or a set, through the public API."""
        from term_image.renderable import ArgsNamespace, RenderArgs

        if isinstance(x, ArgsNamespace):
            c = self.index[x.get_render_cls()]
            d = x.as_dict()
            return ["ns", c, [dec(c, f, d[f"f{f}"]) for f in range(1, len(d) + 1)]]
        if isinstance(x, RenderArgs):
            c = self.index[x.render_cls]
            vals: list = [[] for _ in range(self.n)]
            for ns in x:  # the constituents as iterated
                k = self.index[ns.get_render_cls()]
                d = ns.as_dict()
                vals[k - 1] = [dec(k, f, d[f"f{f}"]) for f in range(1, len(d) + 1)]
            return ["ra", c, vals]
        return ["?", -1, repr(x)]

    def held(self, r, objs: dict[int, object]) -> list:
        """Identity observation for a resulting SET `r`: per class 1..N the tokens of the live
        objects (`objs`: id -> object, the heap BEFORE / besides the result) that r's constituent
        for that class IS: i > 0 = the namespace object #i itself, -(16 * s + k) = the very
        object live set #s holds for class k.  [] for a namespace result / a class not in r."""
        from term_image.renderable import ArgsNamespace, RenderArgs

        if not isinstance(r, RenderArgs):
            return []
        mine = {self.index[ns.get_render_cls()]: ns for ns in r}
        out: list = [[] for _ in range(self.n)]
        for i, x in objs.items():
            if isinstance(x, ArgsNamespace):
                k = self.index[x.get_render_cls()]
                if mine.get(k) is x:
                    out[k - 1].append(i)
            elif isinstance(x, RenderArgs):
                for ns in x:
                    k = self.index[ns.get_render_cls()]
                    if mine.get(k) is ns:
                        out[k - 1].append(-(16 * i + k))
        return out

    def getitems(self, x) -> list:
        """Outcome of x[cls] for cls = 0..N: "ok" (and it equals the iterated constituent)
        or the exception class name; [] for a namespace."""
        from term_image.renderable import RenderArgs

        if not isinstance(x, RenderArgs):
            return []
        out = []
        by_iter = {ns.get_render_cls(): ns for ns in x}
        for rc in self.cls:
            try:
                ns = x[rc]
            except Exception as e:  # noqa: BLE001 - the class is the observation
                out.append(type(e).__name__)
            else:
                out.append("ok" if by_iter.get(rc) is ns else "getitem-differs-from-iter")
        return out

    # -- execution -------------------------------------------------------------------
    def execute(self, objs: dict[int, object], op: list):
        """Run one modelled operation.  `op` = [name, a, b, cls, nss, kw].
        Returns (result object | None, [exception class names along the MRO])."""
        from term_image.renderable import RenderArgs

        name, a, b, c, nss, kw = op
        objs = _Operands(self, objs)
        # the class whose fields the keywords address (for the value encoding)
        if name == "NsUpdate":
            kc = self.index[objs[a].get_render_cls()]
        else:
            kc = c
        kwargs = {f"f{f}": enc(kc, f, v, name == "NsNew" and b == 2) for f, v in kw}
        try:
            if name == "NsNew":
                r = (self.sub[c] if b == 1 else self.args[c])(**kwargs)
            elif name == "NsUpdate":
                r = objs[a].update(**kwargs)
            elif name == "New":
                head = [objs[a]] if a else []
                r = RenderArgs(self.cls[c], *head, *[objs[i] for i in nss])
            elif name == "UpdateNs":
                r = objs[a].update(*[objs[i] for i in nss])
            elif name == "Update":
                r = objs[a].update(self.cls[c], **kwargs)
            elif name == "Convert":
                r = objs[a].convert(self.cls[c])
            elif name == "Or":
                r = objs[a] | objs[b]
            elif name == "Ror":
                # `set | namespace` dispatches to namespace.__ror__; for two namespaces the
                # reflected method is only reachable directly
                other = objs[b]
                r = (other | objs[a]) if isinstance(other, RenderArgs) else objs[a].__ror__(other)
            elif name == "Pos":
                r = +objs[a]
            elif name == "ToRenderArgs":
                r = objs[a].to_render_args() if c < 0 else objs[a].to_render_args(self.cls[c])
            else:
                raise _UnknownOp(name)
        except _UnknownOp:
            raise
        except Exception as e:  # noqa: BLE001
            return None, mro_names(e)
        return r, []


def _api(x, method: str) -> str:
    from term_image.renderable import RenderArgs

    return ("RenderArgs." if isinstance(x, RenderArgs) else "ArgsNamespace.") + method


def relations(tree: Tree, live: list) -> dict:
    """==, hash and `in` over all live objects (ids are 1-based positions in `live`)."""
    from term_image.renderable import ArgsNamespace, RenderArgs

    n = len(live)
    eq, ne_asym, heq = [], [], []
    # hash(): TypeError = "not hashable" (an observation: `uh`); any other exception = `err`
    hashes: list = []
    uh, err = [], []
    for i, x in enumerate(live):
        try:
            hashes.append(hash(x))
        except TypeError:
            hashes.append(None)
            uh.append(i + 1)
        except Exception as e:  # noqa: BLE001
            hashes.append(None)
            err.append(["hash", i + 1, i + 1, type(e).__name__, _api(x, "__hash__")])
    for i in range(n):
        for j in range(i + 1, n):
            try:
                e1 = live[i] == live[j]
                e2 = live[j] == live[i]
                n1 = live[i] != live[j]
            except Exception as e:  # noqa: BLE001 - comparing must work for every legal value
                err.append(["==", i + 1, j + 1, type(e).__name__, _api(live[i], "__eq__")])
                continue
            if e1 is not e2 or n1 is e1:
                ne_asym.append([i + 1, j + 1])
            if e1:
                eq.append([i + 1, j + 1])
            if hashes[i] is not None and hashes[i] == hashes[j]:
                heq.append([i + 1, j + 1])
    ct = []
    for i in range(n):
        if isinstance(live[i], RenderArgs):
            for j in range(n):
                if isinstance(live[j], ArgsNamespace):
                    try:
                        if live[j] in live[i]:
                            ct.append([i + 1, j + 1])
                    except Exception as e:  # noqa: BLE001
                        err.append(["in", j + 1, i + 1, type(e).__name__, "RenderArgs.__contains__"])
    refl = []
    for i in range(n):
        try:
            if not (live[i] == live[i]):
                refl.append(i + 1)
        except Exception as e:  # noqa: BLE001
            err.append(["==", i + 1, i + 1, type(e).__name__, _api(live[i], "__eq__")])
    # what users rely on: an equal (hashable) object is found as a dict key / set member
    dmiss = []
    for i, j in eq:
        if hashes[i - 1] is None or hashes[j - 1] is None:
            continue
        for a, b in ((i, j), (j, i)):
            x, y = live[a - 1], live[b - 1]
            if y not in {x: None} or y not in {x} or len({x, y}) != 1:
                dmiss.append([a, b])
    return {"eq": eq, "heq": heq, "ct": ct, "asym": ne_asym, "nonrefl": refl, "dmiss": dmiss,
            "uh": uh, "err": err}


# ---- namespace-class rules ------------------------------------------------------------

def try_class_def(d: dict) -> dict:
    """Create the namespace class described by `d` (see ClassDefs in RenderArgs.tla) with
    the real metaclasses.  Returns {"exc": [mro names] | [], "render_cls": "R"|"R0"|None,
    "instantiable": bool, "after": {"r": "new"|"prev"|"none"|..., "r0": "base"|"none"|...}}
    where `after` is what R and R0 own (Args / _Data_) once the creation returned or raised."""
    from term_image.renderable import ArgsNamespace, DataNamespace, Renderable

    tag = next(_uid)
    meta_r = type(Renderable)
    args = d["kind"] == "args"
    base_ns = ArgsNamespace if args else DataNamespace
    ns_meta = type(base_ns)
    attr = "Args" if args else "_Data_"

    def fields(name):
        return {"__annotations__": {name: "int"}, name: 0}

    r0 = meta_r(f"R0_{tag}", (Renderable,), {})
    r = meta_r(f"R_{tag}", (Renderable,), {})
    base0 = prev = new = None
    if d["depth"] > 0:
        base0 = base = ns_meta(f"BaseNs_{tag}", (base_ns,), fields("b"), render_cls=r0)
        for lvl in range(1, d["depth"]):  # plain subclasses: inherit fields and association
            base = ns_meta(f"BaseNs_{tag}_{lvl}", (base,), {})
    elif tag % 2:
        base = ns_meta(f"Plain_{tag}", (base_ns,), {})
    else:
        base = base_ns
    bases = (base,)
    if d["nbases"] == 2:
        bases += (ns_meta(f"Other_{tag}", (base_ns,), {}),)
    if d["taken"]:
        prev = ns_meta(f"Prev_{tag}", (base_ns,), fields("p"), render_cls=r)
    body: dict = {}
    if d["defines"]:
        body["__annotations__"] = {"a": "int"}
        if d["defaults"]:
            body["a"] = 0
    kwargs = {"render_cls": r} if d["assoc"] else {}
    out: dict = {"exc": [], "render_cls": None, "instantiable": False}
    try:
        new = ns_meta(f"New_{tag}", bases, body, **kwargs)
    except Exception as e:  # noqa: BLE001
        out["exc"] = mro_names(e)

    def owner(rc, names):
        own = getattr(rc, attr)
        for label, c in names:
            if c is not None and own is c:
                return label
        return "none" if own is None else f"other:{getattr(own, '__name__', own)}"

    out["after"] = {"r": owner(r, [("new", new), ("prev", prev)]),
                    "r0": owner(r0, [("base", base0), ("new", new)])}
    if new is not None:
        try:
            rc = new.get_render_cls()
            out["render_cls"] = "R" if rc is r else "R0" if rc is r0 else "?"
            try:
                new()
                out["instantiable"] = True
            except Exception:  # noqa: BLE001
                pass
        except Exception:  # noqa: BLE001
            pass
    return out


def try_instance_rule(rule: dict) -> list[str]:
    """Run one InstanceRules entry on the real code; returns the exception MRO names ([] =
    no exception)."""
    from term_image.renderable import ArgsNamespace, DataNamespace, Renderable

    tag = next(_uid)
    meta_r = type(Renderable)
    base_ns = ArgsNamespace if rule["kind"] == "args" else DataNamespace
    ns_meta = type(base_ns)
    r = meta_r(f"RI_{tag}", (Renderable,), {})
    body = {"__annotations__": {"f1": "int", "f2": "int"}, "f1": 0, "f2": 1}
    ns_cls = ns_meta(f"NsI_{tag}", (base_ns,), body, render_cls=r)
    plain = ns_meta(f"PlainI_{tag}", (base_ns,), {})
    what = rule["what"]
    try:
        if what == "instantiate-unassociated":
            plain()
        elif what == "get-render-cls-unassociated":
            plain.get_render_cls()
        else:
            x = ns_cls()
            if what == "ctor-unknown-field":
                ns_cls(zz=1)
            elif what == "ctor-too-many-values":
                ns_cls(1, 1, 1)
            elif what == "ctor-duplicate-value":
                ns_cls(1, f1=1)
            elif what == "ctor-known-fields":
                y = ns_cls(1, f2=0)
                assert (y.f1, y.f2) == (1, 0)
            elif what == "update-unknown-field":
                x.update(zz=1)
            elif what == "update-known-field":
                y = x.update(f2=0)
                assert (y if y is not None else x).f2 == 0
            elif what == "get-unknown-field":
                x.zz
            elif what == "get-uninitialized-field":
                x.f1
            elif what == "set-field":
                x.f1 = 1
            elif what == "set-known-field":
                x.f1 = 1
                assert x.f1 == 1
            elif what == "set-unknown-field":
                x.zz = 1
            elif what == "del-field":
                if rule["kind"] == "data":
                    x.f1 = 1
                del x.f1
            else:
                raise _UnknownOp(what)
    except _UnknownOp:
        raise
    except Exception as e:  # noqa: BLE001
        return mro_names(e)
    return []


# ---- render data (mutable namespaces) -----------------------------------------------------

U = 2  # "uninitialized" in specs/RenderData.tla


class DataTree:
    """Real render classes with DATA namespace classes (fields f1..fNF(c), no values) for one
    model tree; `has` = classes owning a data namespace."""

    def __init__(self, par: list[int], has: list[int]):
        from term_image.renderable import DataNamespace, Renderable

        self.par, self.has, self.n = list(par), sorted(has), len(par)
        tag = next(_uid)
        meta = type(Renderable)
        ns_meta = type(DataNamespace)
        self.cls = [Renderable]
        for c in range(1, self.n + 1):
            rc = meta(f"D{c}_{tag}", (self.cls[par[c - 1]],), {})
            self.cls.append(rc)
            if c in self.has:
                body = {"__annotations__": {f"f{f}": "int" for f in range(1, nf(c) + 1)}}
                ns_meta(f"D{c}Data_{tag}", (DataNamespace,), body, render_cls=rc)

    def new(self, c: int):
        from term_image.renderable import RenderData

        return RenderData(self.cls[c])

    def owners(self, c: int) -> list[int]:
        out = []
        while c:
            if c in self.has:
                out.append(c)
            c = self.par[c - 1]
        return out

    def read_all(self, rd, c: int) -> list:
        """Every field of every modelled namespace of the set, read one by one through
        attribute access (U = reading raised UninitializedDataFieldError)."""
        from term_image.renderable import UninitializedDataFieldError

        own = self.owners(c)
        vals: list = [[] for _ in range(self.n)]
        for k in own:
            ns = rd[self.cls[k]]
            row = []
            for f in range(1, nf(k) + 1):
                try:
                    row.append(getattr(ns, f"f{f}"))
                except UninitializedDataFieldError:
                    row.append(U)
            vals[k - 1] = row
        return vals

    def execute(self, rd, op: list):
        """op = [name, k, f, v, kw] -> (exception class name | "", returned value as list)."""
        name, k, f, v, kw = op
        if name not in ("GetItem", "Update", "Set", "Get", "Del", "AsDict", "GetFields"):
            raise _UnknownOp(name)
        try:
            if name == "GetItem":
                ns = rd[self.cls[k]]
                assert ns.get_render_cls() is self.cls[k]
                return "", []
            ns = rd[self.cls[k]]
            if name == "Update":
                r = ns.update(**{f"f{g}": x for g, x in kw})
                return "", ([] if r is None else ["update-returned", repr(r)])
            if name == "Set":
                setattr(ns, f"f{f}", v)
                return "", []
            if name == "Get":
                return "", [getattr(ns, f"f{f}")]
            if name == "Del":
                delattr(ns, f"f{f}")
                return "", []
            if name == "AsDict":
                dct = ns.as_dict()
                return "", [dct[f"f{g}"] for g in range(1, len(dct) + 1)]
            names = type(ns).get_fields()
            ok = tuple(names) == tuple(f"f{g}" for g in range(1, len(names) + 1))
            return "", [len(names) if ok else -1]
        except Exception as e:  # noqa: BLE001
            return type(e).__name__, mro_names(e)
