------------------------------- MODULE Tty -------------------------------
(***************************************************************************)
(* C12 / C13: the tty device and the library's terminal-query machinery.    *)
(*                                                                         *)
(* Pure operators only (no variables): the modules MC_Tty, MC_TtyFault and  *)
(* Trace_Tty wrap them in Init/Next.                                        *)
(*                                                                         *)
(*  1. bytes, requests, the terminal's replies as a function of its FACTS   *)
(*     (`term`), and what a correct library must REPORT for those facts:    *)
(*     XParseColor, name/version, cell size, Support, AutoStyle.            *)
(*  2. ENVIRONMENT: virtual-time tty device (clock in ticks, input queue,   *)
(*     pending reply bursts <<at, data>>, attribute word, window size).     *)
(*     Respond(e, rq) = result of system call `rq` and the next device.     *)
(*  3. LIBRARY: the statement-level step machine of query_terminal,         *)
(*     read_tty, write_tty and their callers as a stack of frames.          *)
(*     Pending(m) = the system call the library issues next,                *)
(*     Feed(m, res) = the machine after that call returned / raised `res`.  *)
(*                                                                         *)
(* Bytes are integers 0..255, byte strings are sequences.  Time is counted  *)
(* in ticks (the harness uses 2^-12 s).  Timeout encoding: TNone = the      *)
(* Python value None, TInf = any negative timeout (infinite), t >= 0 ticks. *)
(***************************************************************************)
EXTENDS Integers, Sequences, FiniteSets, TLC

Min2(a, b) == IF a <= b THEN a ELSE b
Max2(a, b) == IF a >= b THEN a ELSE b

TNone == 0 - 1
TInf == 0 - 2

RECURSIVE Cat(_)
Cat(ss) == IF ss = <<>> THEN <<>> ELSE Head(ss) \o Cat(Tail(ss))

IsPrefix(p, s) == Len(p) <= Len(s) /\ SubSeq(s, 1, Len(p)) = p
EndsWith(s, t) == Len(s) >= Len(t) /\ SubSeq(s, Len(s) - Len(t) + 1, Len(s)) = t
Drop(s, n) == SubSeq(s, n + 1, Len(s))
Take(s, n) == SubSeq(s, 1, Min2(n, Len(s)))

RECURSIVE Dec(_)
Dec(n) == IF n < 10 THEN <<48 + n>> ELSE Dec(n \div 10) \o <<48 + (n % 10)>>

(***************************************************************************)
(* 1a. Requests (term_image._ctlseqs)                                       *)
(***************************************************************************)
CSIb == <<27, 91>>
STb == <<27, 92>>
BELb == <<7>>
DA1q == <<27, 91, 99>>                                   \* ESC [ c
XTVq == <<27, 91, 62, 113>>                              \* ESC [ > q
FGq == <<27, 93, 49, 48, 59, 63, 27, 92>>                \* ESC ] 10 ; ? ST
BGq == <<27, 93, 49, 49, 59, 63, 27, 92>>                \* ESC ] 11 ; ? ST
CELLq == <<27, 91, 49, 54, 116>>                         \* ESC [ 16 t
AREAq == <<27, 91, 49, 52, 116>>                         \* ESC [ 14 t
KITTYq == <<27, 95, 71, 97, 61, 113, 44, 116, 61, 100, 44, 105, 61, 51, 49, 44, 102, 61, 50,
            52, 44, 115, 61, 49, 44, 118, 61, 49, 44, 67, 61, 49, 44, 99, 61, 49, 44, 114, 61,
            49, 59, 65, 65, 65, 65, 27, 92>>             \* ESC _ G a=q,t=d,i=31,...;AAAA ST

ReqColors == FGq \o BGq \o DA1q
ReqNameVer == XTVq \o DA1q
ReqCell == CELLq \o AREAq \o DA1q
ReqKitty == KITTYq \o DA1q

\* the queries carried by a request, in order (the terminal answers FIFO)
QueriesOf(req) ==
  IF req = ReqColors THEN <<"fg", "bg", "da1">>
  ELSE IF req = ReqNameVer THEN <<"xtv", "da1">>
  ELSE IF req = ReqCell THEN <<"cell", "area", "da1">>
  ELSE IF req = ReqKitty THEN <<"kitty", "da1">>
  ELSE <<>>

(***************************************************************************)
(* 1b. The terminal's replies, from its facts                               *)
(*   term = [sup  : set of supported queries,                               *)
(*           fg, bg : [c : <<r, g, b>> hex digit strings, st : "st"/"bel"], *)
(*           name, ver : bytes, form : "paren"/"space", xst : "st"/"bel",   *)
(*           cell, area : <<height, width>> (XTWINOPS order),               *)
(*           kid : Nat, kmsg : bytes, da1 : bytes,                          *)
(*           envName, envVer : bytes  ($TERM_PROGRAM / $TERM_PROGRAM_VERSION *)
(*           of the process, <<>> = unset - consulted only when XTVERSION    *)
(*           goes unanswered)]                                              *)
(***************************************************************************)
Term(st) == IF st = "bel" THEN BELb ELSE STb
ColorReply(ps, f) ==
  <<27, 93>> \o ps \o <<59, 114, 103, 98, 58>> \o f.c[1] \o <<47>> \o f.c[2] \o <<47>> \o f.c[3]
  \o Term(f.st)
XtvReply(t) ==
  <<27, 80, 62, 124>> \o t.name
  \o (IF t.form = "paren" THEN <<40>> \o t.ver \o <<41>> ELSE <<32>> \o t.ver) \o Term(t.xst)
CellReply(t) == <<27, 91, 54, 59>> \o Dec(t.cell[1]) \o <<59>> \o Dec(t.cell[2]) \o <<116>>
AreaReply(t) == <<27, 91, 52, 59>> \o Dec(t.area[1]) \o <<59>> \o Dec(t.area[2]) \o <<116>>
KittyReply(t) == <<27, 95, 71, 105, 61>> \o Dec(t.kid) \o <<59>> \o t.kmsg \o STb
Da1Reply(t) == <<27, 91, 63>> \o t.da1 \o <<99>>

ReplyTo(t, q) ==
  CASE q = "fg" -> ColorReply(<<49, 48>>, t.fg)
    [] q = "bg" -> ColorReply(<<49, 49>>, t.bg)
    [] q = "xtv" -> XtvReply(t)
    [] q = "cell" -> CellReply(t)
    [] q = "area" -> AreaReply(t)
    [] q = "kitty" -> KittyReply(t)
    [] q = "da1" -> Da1Reply(t)

\* the replies (each a unit) the terminal writes in answer to `req`
RECURSIVE RepliesFor(_, _)
RepliesFor(t, qs) ==
  IF qs = <<>> THEN <<>>
  ELSE (IF Head(qs) \in t.sup THEN <<ReplyTo(t, Head(qs))>> ELSE <<>>) \o RepliesFor(t, Tail(qs))
Replies(t, req) == RepliesFor(t, QueriesOf(req))

\* reply of query q is contained (complete, in order) in the byte string `got`
RECURSIVE Before(_, _, _)
Before(t, qs, q) ==      \* bytes of the supported replies that precede q's reply
  IF qs = <<>> \/ Head(qs) = q THEN <<>>
  ELSE (IF Head(qs) \in t.sup THEN ReplyTo(t, Head(qs)) ELSE <<>>) \o Before(t, Tail(qs), q)
Included(t, req, q, got) ==
  q \in t.sup /\ IsPrefix(Before(t, QueriesOf(req), q) \o ReplyTo(t, q), got)

(***************************************************************************)
(* 1c. What must be reported (Parse operators)                              *)
(***************************************************************************)
HexVal(d) == IF d >= 48 /\ d <= 57 THEN d - 48 ELSE IF d >= 97 THEN d - 87 ELSE d - 55
RECURSIVE HexNum(_)
HexNum(s) == IF s = <<>> THEN 0 ELSE HexNum(SubSeq(s, 1, Len(s) - 1)) * 16 + HexVal(s[Len(s)])
\* XParseColor "rgb:" device specification: each component has its OWN width (1-4 digits)
XParseColor(comp) == (HexNum(comp) * 255) \div (16 ^ Len(comp) - 1)
ExpectColor(c) == <<XParseColor(c[1]), XParseColor(c[2]), XParseColor(c[3])>>
UniformWidth(c) == Len(c[1]) = Len(c[2]) /\ Len(c[2]) = Len(c[3])

Lower(b) == IF b >= 65 /\ b <= 90 THEN b + 32 ELSE b
LowerS(s) == [i \in 1..Len(s) |-> Lower(s[i])]

\* version strings: dot separated components; "understood" iff every component is digits
RECURSIVE Split(_, _, _)
Split(s, sep, acc) ==
  IF s = <<>> THEN <<acc>>
  ELSE IF Head(s) = sep THEN <<acc>> \o Split(Tail(s), sep, <<>>)
  ELSE Split(Tail(s), sep, Append(acc, Head(s)))
AllDigits(s) == s # <<>> /\ \A i \in 1..Len(s) : s[i] >= 48 /\ s[i] <= 57
RECURSIVE DecNum(_)
DecNum(s) == IF s = <<>> THEN 0 ELSE DecNum(SubSeq(s, 1, Len(s) - 1)) * 10 + (s[Len(s)] - 48)
VerParts(v) == Split(v, 46, <<>>)
VerNumeric(v) == \A i \in 1..Len(VerParts(v)) : AllDigits(VerParts(v)[i])
VerTuple(v) == [i \in 1..Len(VerParts(v)) |-> DecNum(VerParts(v)[i])]
\* lexicographic tuple order (a prefix is smaller than its extensions), as Python tuples
RECURSIVE TupGE(_, _)
TupGE(a, b) ==
  IF b = <<>> THEN TRUE
  ELSE IF a = <<>> THEN FALSE
  ELSE IF Head(a) # Head(b) THEN Head(a) > Head(b)
  ELSE TupGE(Tail(a), Tail(b))

NmITerm2 == <<105, 116, 101, 114, 109, 50>>
NmKitty == <<107, 105, 116, 116, 121>>
NmKonsole == <<107, 111, 110, 115, 111, 108, 101>>
NmWezterm == <<119, 101, 122, 116, 101, 114, 109>>
MsgOK == <<79, 75>>

\* Support(name, version, kittyReply): name = reported (lower-cased) name, <<>> if unknown;
\* kok = the terminal answered the kitty graphics query with i=31;OK
KittySupport(name, ver, kok) ==
  /\ name # NmITerm2
  /\ kok
  /\ \/ name = NmKitty /\ ver # <<>> /\ VerNumeric(ver) /\ TupGE(VerTuple(ver), <<0, 20, 0>>)
     \/ name = NmKonsole
ITerm2Support(name, ver) ==
  \/ name \in {NmITerm2, NmWezterm}
  \/ name = NmKonsole /\ VerNumeric(ver) /\ TupGE(VerTuple(ver), <<22, 4, 0>>)
AutoStyle(name, ver, kok) ==
  IF KittySupport(name, ver, kok) THEN "kitty"
  ELSE IF ITerm2Support(name, ver) THEN "iterm2" ELSE "block"

\* the uniform "reported value" record compared with the implementation's return value
NoVal == [a |-> <<>>, an |-> TRUE, b |-> <<>>, bn |-> TRUE, flag |-> FALSE, style |-> ""]

\* cell size from a text area, the terminal size in cells and the swap workaround
CellFromArea(area, win, swap) ==      \* area = <<width, height>> in pixels
  LET ar == IF swap THEN <<area[2], area[1]>> ELSE area IN <<ar[1] \div win.cols, ar[2] \div win.rows>>
IoctlGood(win, fails) == ~fails /\ win.xpx # 0 /\ win.ypx # 0
CellVal(c) == IF c[1] = 0 \/ c[2] = 0 THEN NoVal ELSE [NoVal EXCEPT !.a = c, !.an = FALSE]

(***************************************************************************)
(* 2. Environment: the tty device                                           *)
(*   attribute word = [icanon, echo, vmin, vtime, rest]; `rest` identifies   *)
(*   every other bit of the termios structure (never touched by the code).  *)
(***************************************************************************)
NoAttr == [icanon |-> FALSE, echo |-> FALSE, vmin |-> 0, vtime |-> 0, rest |-> 0 - 1]
NoWin == [cols |-> 0, rows |-> 0, xpx |-> 0, ypx |-> 0]

\* a system call request and its result, uniform records
Rq(call, w, attr, data, a) == [call |-> call, w |-> w, attr |-> attr, data |-> data, a |-> a]
NoRq == Rq("none", "", NoAttr, <<>>, 0)
ResOK == [ok |-> TRUE, kind |-> "", attr |-> NoAttr, data |-> <<>>, val |-> 0, ready |-> FALSE,
          win |-> NoWin]
ResRaise(kind) == [ResOK EXCEPT !.ok = FALSE, !.kind = kind]

NewEnv(attr, win, ioctlFails, preload, sched, pred) ==
  [now |-> 0, inq |-> preload, pend |-> <<>>, attr |-> attr, win |-> win, ioctlFails |-> ioctlFails,
   sched |-> sched, wlog |-> <<>>, tw |-> 0, hung |-> FALSE, pred |-> pred, nsys |-> 0]

\* bursts whose time has come move to the input queue, FIFO among equal times
Deliver(e) ==
  IF e.pend = <<>> THEN e
  ELSE LET due == SelectSeq(e.pend, LAMBDA b : b.at <= e.now)
           rest == SelectSeq(e.pend, LAMBDA b : b.at > e.now) IN
       [e EXCEPT !.inq = e.inq \o Cat([i \in 1..Len(due) |-> due[i].data]), !.pend = rest]
RECURSIVE MinAt(_)
MinAt(p) == IF Len(p) = 1 THEN p[1].at ELSE Min2(p[1].at, MinAt(Tail(p)))

\* block until at least `need` bytes are queued (VMIN semantics); hung if they never come
RECURSIVE WaitBytes(_, _)
WaitBytes(e, need) ==
  LET e1 == Deliver(e) IN
  IF Len(e1.inq) >= need THEN e1
  ELSE IF e1.pend = <<>> THEN [e1 EXCEPT !.hung = TRUE]
  ELSE WaitBytes([e1 EXCEPT !.now = MinAt(e1.pend)], need)

\* the bursts scheduled by the k-th write: sched[k] = << [delay, data], ... >>
Schedule(e) ==
  IF e.sched = <<>> THEN <<>>
  ELSE [i \in 1..Len(Head(e.sched)) |-> [at |-> e.now + Head(e.sched)[i].delay, data |-> Head(e.sched)[i].data]]

Respond(e, rq) ==
  CASE rq.call = "tcgetattr" -> [res |-> [ResOK EXCEPT !.attr = e.attr], env |-> e]
    [] rq.call = "tcsetattr" ->
         LET e1 == Deliver(e) IN
         [res |-> ResOK,
          env |-> [e1 EXCEPT !.attr = rq.attr, !.inq = IF rq.w = "FLUSH" THEN <<>> ELSE e1.inq]]
    [] rq.call = "write" ->
         [res |-> [ResOK EXCEPT !.val = Len(rq.data)],
          env |-> [e EXCEPT !.wlog = Append(e.wlog, rq.data), !.tw = e.now,
                            !.pend = e.pend \o Schedule(e),
                            !.sched = IF e.sched = <<>> THEN <<>> ELSE Tail(e.sched)]]
    [] rq.call = "tcdrain" -> [res |-> ResOK, env |-> e]
    [] rq.call \in {"stream", "hook"} -> [res |-> ResOK, env |-> e]
    [] rq.call = "monotonic" -> [res |-> [ResOK EXCEPT !.val = e.now], env |-> e]
    [] rq.call = "termsize" -> [res |-> [ResOK EXCEPT !.win = [e.win EXCEPT !.xpx = 0, !.ypx = 0]], env |-> e]
    [] rq.call = "ioctl" ->
         IF e.ioctlFails THEN [res |-> ResRaise("OSError"), env |-> e]
         ELSE [res |-> [ResOK EXCEPT !.win = e.win], env |-> e]
    [] rq.call = "more" ->      \* caller supplied predicate: stop at `stop` bytes, raise on call `raiseAt`
         IF rq.a = e.pred.raiseAt THEN [res |-> ResRaise("PredicateError"), env |-> e]
         ELSE [res |-> [ResOK EXCEPT !.ready = Len(rq.data) < e.pred.stop], env |-> e]
    [] rq.call = "select" ->
         LET e1 == Deliver(e) IN
         IF e1.inq # <<>> THEN [res |-> [ResOK EXCEPT !.ready = TRUE], env |-> e1]
         ELSE IF e1.pend = <<>> THEN
           IF rq.a < 0 THEN [res |-> ResOK, env |-> [e1 EXCEPT !.hung = TRUE]]
           ELSE [res |-> ResOK, env |-> [e1 EXCEPT !.now = e1.now + rq.a]]
         ELSE IF rq.a >= 0 /\ MinAt(e1.pend) > e1.now + rq.a
           THEN [res |-> ResOK, env |-> [e1 EXCEPT !.now = e1.now + rq.a]]
         ELSE [res |-> [ResOK EXCEPT !.ready = TRUE],
               env |-> Deliver([e1 EXCEPT !.now = MinAt(e1.pend)])]
    [] rq.call = "read" ->
         LET need == IF e.attr.vmin > 0 THEN Min2(e.attr.vmin, rq.a) ELSE 0
             e1 == WaitBytes(e, need)
             n == Min2(rq.a, Len(e1.inq)) IN
         [res |-> [ResOK EXCEPT !.data = Take(e1.inq, n)], env |-> [e1 EXCEPT !.inq = Drop(e1.inq, n)]]

(***************************************************************************)
(* 3. Library: frames and the step machine                                  *)
(***************************************************************************)
Frame(fn, pc) ==
  [fn |-> fn, pc |-> pc, old |-> NoAttr, new |-> NoAttr, inp |-> <<>>, start |-> 0, dur |-> 0,
   tmo |-> TNone, min |-> 0, echo |-> FALSE, more |-> "always", req |-> <<>>, intry |-> FALSE,
   exc |-> "", nm |-> 0, aux |-> 0, hide |-> FALSE, win |-> NoWin]

\* cfg = [enabled, qtmo, swap, term]: library settings + the facts of the terminal it talks to
NewMachine(cfg, top) ==
  [stack |-> <<top>>, status |-> "run", exc |-> "", rb |-> <<>>, rnone |-> TRUE, val |-> NoVal,
   drained |-> <<>>, nvValid |-> FALSE, nvName |-> <<>>, nvVer |-> <<>>, nvNone |-> TRUE,
   ioctlUsed |-> FALSE, cfg |-> cfg]

Top(m) == m.stack[Len(m.stack)]
SetTop(m, f) == [m EXCEPT !.stack = [m.stack EXCEPT ![Len(m.stack)] = f]]
Push(m, cont, f) == [m EXCEPT !.stack = Append([m.stack EXCEPT ![Len(m.stack)].pc = cont], f)]

QueryFrame(req, more, tmo) == [Frame("query", "q_enter") EXCEPT !.req = req, !.more = more, !.tmo = tmo]
ReadFrame(more, tmo, min, echo) ==
  [Frame("read", "r_get1") EXCEPT !.more = more, !.tmo = tmo, !.min = min, !.echo = echo]
WriteFrame(data) == [Frame("write", "w_write") EXCEPT !.req = data]
\* Renderable.draw on a tty: [tcgetattr x2], [write HIDE_CURSOR], [tcsetattr FLUSH], nbody stream
\* operations (preceded by the _render_ hook; a KeyboardInterrupt in them calls the
\* _handle_interrupted_draw_ hook), then the clean-up: write "\n", [write SHOW_CURSOR], flush,
\* [restoring tcsetattr], and LAST render_data.finalize() = the _finalize_render_data_ hook.
\* Hooks are calls "hook" with a = 1 (_render_), 2 (_handle_interrupted_draw_), 3 (finalizer).
\* The termios calls are skipped when echo_input=True (f.echo).
FinCount(f) == IF f.hide THEN 3 ELSE 2
ToFin(f) == [f EXCEPT !.pc = "d_fin", !.nm = FinCount(f)]
\* f.aux < 0: "loose" body (animation): any number of stream operations / _render_ /
\* _handle_interrupted_draw_ hooks, until the clean-up's write("\n")  (Trace_Tty only)
AfterSet(f) == IF f.aux < 0 THEN [f EXCEPT !.pc = "d_body"] ELSE [f EXCEPT !.pc = "d_render"]
AfterRender(f) == IF f.aux > 0 THEN [f EXCEPT !.pc = "d_body"] ELSE ToFin(f)
DrawFrame(echoInput, hide, nbody) ==
  LET f == [Frame("draw", "d_get1") EXCEPT !.echo = echoInput, !.hide = hide, !.aux = nbody] IN
  IF ~echoInput THEN f
  ELSE IF hide THEN [f EXCEPT !.pc = "d_hide", !.intry = TRUE] ELSE AfterSet([f EXCEPT !.intry = TRUE])

MoreVal(f) ==       \* the library's own `more` lambdas
  CASE f.more = "csi" -> ~EndsWith(f.inp, CSIb)
    [] f.more = "c" -> ~EndsWith(f.inp, <<99>>)
    [] OTHER -> TRUE

SysPcs == {"q_get1", "q_get2", "q_set", "q_restore", "w_write", "w_drain",
           "r_get1", "r_get2", "r_set", "r_sel0", "r_read100", "r_mono0", "r_readmin", "r_setvmin",
           "r_mono1", "r_more", "r_sel", "r_read1", "r_mono2", "r_restore",
           "s_size", "s_ioctl", "d_get1", "d_get2", "d_hide", "d_set", "d_body", "d_fin", "d_restore",
           "d_render", "d_intr", "d_final"}
RestorePcs == {"q_restore", "r_restore", "d_restore", "d_fin"}
PopPcs == RestorePcs \cup {"d_final"}      \* an exception here leaves the frame at once
RestorePc(fn) == IF fn = "query" THEN "q_restore" ELSE IF fn = "read" THEN "r_restore" ELSE "d_fin"

\* the system call the top frame is about to issue
Pending(m) ==
  IF m.status # "run" THEN NoRq
  ELSE LET f == Top(m) IN
  CASE f.pc \in {"q_get1", "q_get2", "r_get1", "r_get2", "d_get1", "d_get2"} -> Rq("tcgetattr", "", NoAttr, <<>>, 0)
    [] f.pc \in {"q_set", "d_set"} -> Rq("tcsetattr", "FLUSH", f.new, <<>>, 0)
    [] f.pc \in {"r_set", "r_setvmin"} -> Rq("tcsetattr", "NOW", f.new, <<>>, 0)
    [] f.pc \in {"q_restore", "r_restore", "d_restore"} -> Rq("tcsetattr", "NOW", f.old, <<>>, 0)
    [] f.pc = "w_write" -> Rq("write", "", NoAttr, f.req, 0)
    [] f.pc = "w_drain" -> Rq("tcdrain", "", NoAttr, <<>>, 0)
    [] f.pc = "r_sel0" -> Rq("select", "", NoAttr, <<>>, 0)
    [] f.pc = "r_read100" -> Rq("read", "", NoAttr, <<>>, 100)
    [] f.pc \in {"r_mono0", "r_mono1", "r_mono2"} -> Rq("monotonic", "", NoAttr, <<>>, 0)
    [] f.pc = "r_readmin" -> Rq("read", "", NoAttr, <<>>, f.min)
    [] f.pc = "r_more" -> Rq("more", "", NoAttr, f.inp, f.nm + 1)
    [] f.pc = "r_sel" -> Rq("select", "", NoAttr, <<>>, IF f.tmo = TInf THEN TInf ELSE f.tmo - f.dur)
    [] f.pc = "r_read1" -> Rq("read", "", NoAttr, <<>>, 1)
    [] f.pc = "s_size" -> Rq("termsize", "", NoAttr, <<>>, 0)
    [] f.pc = "s_ioctl" -> Rq("ioctl", "", NoAttr, <<>>, 0)
    [] f.pc \in {"d_hide", "d_body", "d_fin"} -> Rq("stream", "", NoAttr, <<>>, 0)
    [] f.pc = "d_render" -> Rq("hook", "", NoAttr, <<>>, 1)
    [] f.pc = "d_intr" -> Rq("hook", "", NoAttr, <<>>, 2)
    [] f.pc = "d_final" -> Rq("hook", "", NoAttr, <<>>, 3)
    [] OTHER -> NoRq

\* return from the top frame: pop; the parent continues at the pc it stored when calling
Return(m, rb, rnone) ==
  IF Len(m.stack) = 1 THEN [m EXCEPT !.stack = <<>>, !.status = "returned", !.rb = rb, !.rnone = rnone]
  ELSE [m EXCEPT !.stack = SubSeq(m.stack, 1, Len(m.stack) - 1), !.rb = rb, !.rnone = rnone]

\* an exception surfaces in the top frame: run its `finally` if it is inside its `try`,
\* otherwise unwind into the caller
RECURSIVE Raise(_, _)
Raise(m, kind) ==
  LET f == Top(m) IN
  IF f.intry /\ f.pc \notin PopPcs
    THEN (IF f.fn = "draw" /\ f.pc = "d_body" /\ kind = "KeyboardInterrupt"
            THEN SetTop(m, [f EXCEPT !.exc = kind, !.pc = "d_intr"])     \* except KeyboardInterrupt: hook; raise
            ELSE SetTop(m, [f EXCEPT !.exc = kind, !.pc = RestorePc(f.fn), !.nm = IF f.fn = "draw" THEN FinCount(f) ELSE f.nm]))
  ELSE IF Len(m.stack) = 1 THEN [m EXCEPT !.stack = <<>>, !.status = "raised", !.exc = kind]
  ELSE Raise([m EXCEPT !.stack = SubSeq(m.stack, 1, Len(m.stack) - 1)], kind)

\* the pending call belongs to the clean-up of the outermost operation that changed the
\* attributes (its restoring tcsetattr, or the final writes of draw): a fault there is outside C13
OutermostCleanup(m) ==
  /\ m.status = "run"
  /\ Top(m).pc \in RestorePcs
  /\ \A i \in 1..(Len(m.stack) - 1) : ~m.stack[i].intry

\* after a frame's restoring tcsetattr: re-raise the pending exception or return
AfterRestore(m, f, rb) == IF f.exc # "" THEN Raise(m, f.exc) ELSE Return(m, rb, FALSE)

NameKnown(m, resp) == Included(m.cfg.term, ReqNameVer, "xtv", resp)
KittyOK(m, resp) ==
  /\ Included(m.cfg.term, ReqKitty, "kitty", resp)
  /\ m.cfg.term.kid = 31 /\ m.cfg.term.kmsg = MsgOK

\* frames of the caller operations, by name
CallerFrame(name) ==
  CASE name = "colors" -> Frame("colors", "c_start")
    [] name = "namever" -> Frame("namever", "n_start")
    [] name = "cellsize" -> Frame("cellsize", "s_size")
    [] name = "kitty" -> Frame("kitty", "k_start")
    [] name = "iterm2" -> Frame("iterm2", "i_start")
    [] name = "auto" -> Frame("auto", "a_start")

\* one internal (non system call) step of the top frame
Internal(m) ==
  LET f == Top(m) IN
  CASE f.pc = "q_enter" ->
         IF ~m.cfg.enabled THEN Return(m, <<>>, TRUE) ELSE SetTop(m, [f EXCEPT !.pc = "q_get1"])
    [] f.pc = "q_write" -> Push(m, "q_read", WriteFrame(f.req))
    [] f.pc = "q_read" ->       \* read_tty(more, timeout or _query_timeout)
         Push(m, "q_rdone",
              ReadFrame(f.more, IF f.tmo = TNone \/ f.tmo = 0 THEN m.cfg.qtmo ELSE f.tmo, 0, FALSE))
    [] f.pc = "q_rdone" -> SetTop(m, [f EXCEPT !.inp = m.rb, !.pc = "q_restore"])
    [] f.pc = "w_done" -> Return(m, <<>>, TRUE)
    [] f.pc = "r_test" ->
         IF ~(f.tmo = TInf \/ f.dur < f.tmo) THEN SetTop(m, [f EXCEPT !.pc = "r_restore"])
         ELSE IF f.more = "ext" THEN SetTop(m, [f EXCEPT !.pc = "r_more"])
         ELSE SetTop(m, [f EXCEPT !.pc = IF MoreVal(f) THEN "r_sel" ELSE "r_restore"])
    \* get_fg_bg_colors / get_terminal_name_version: query, then drain the rest of DA1
    [] f.pc \in {"c_start", "n_start"} ->
         Push(m, IF f.fn = "colors" THEN "c_q" ELSE "n_q",
              QueryFrame(IF f.fn = "colors" THEN ReqColors ELSE ReqNameVer, "csi", TNone))
    [] f.pc \in {"c_q", "n_q"} ->
         LET f1 == [f EXCEPT !.inp = m.rb, !.intry = FALSE, !.aux = IF m.rnone THEN 1 ELSE 0] IN
         IF m.cfg.enabled
           THEN Push(SetTop(m, f1), IF f.fn = "colors" THEN "c_d" ELSE "n_d", ReadFrame("always", TNone, 0, FALSE))
           ELSE SetTop(m, [f1 EXCEPT !.pc = IF f.fn = "colors" THEN "c_ret" ELSE "n_ret"])
    [] f.pc \in {"c_d", "n_d"} ->
         SetTop([m EXCEPT !.drained = m.rb], [f EXCEPT !.pc = IF f.fn = "colors" THEN "c_ret" ELSE "n_ret"])
    [] f.pc = "c_ret" ->
         LET t == m.cfg.term
             v == [NoVal EXCEPT
                     !.an = ~Included(t, ReqColors, "fg", f.inp),
                     !.a = IF Included(t, ReqColors, "fg", f.inp) THEN ExpectColor(t.fg.c) ELSE <<>>,
                     !.bn = ~Included(t, ReqColors, "bg", f.inp),
                     !.b = IF Included(t, ReqColors, "bg", f.inp) THEN ExpectColor(t.bg.c) ELSE <<>>] IN
         Return([m EXCEPT !.val = v], f.inp, f.aux = 1)
    [] f.pc = "n_ret" ->
         \* XTVERSION answered: the reply, lower-cased name; otherwise the environment
         \* ($TERM_PROGRAM, $TERM_PROGRAM_VERSION), the name lower-cased as well
         LET k == NameKnown(m, f.inp)
             nm == LowerS(IF k THEN m.cfg.term.name ELSE m.cfg.term.envName)
             vr == IF k THEN m.cfg.term.ver ELSE m.cfg.term.envVer
             v == [NoVal EXCEPT !.an = nm = <<>>, !.a = nm, !.bn = vr = <<>>, !.b = vr] IN
         Return([m EXCEPT !.val = v, !.nvValid = TRUE, !.nvNone = nm = <<>>, !.nvName = nm, !.nvVer = vr],
                f.inp, f.aux = 1)
    \* get_cell_size (cache assumed cold): terminal size, ioctl, XTWINOPS fallback
    [] f.pc = "s_noioctl" -> Push(m, "s_q", QueryFrame(ReqCell, "c", TNone))
    [] f.pc = "s_q" ->
         LET t == m.cfg.term
             v == IF m.rnone THEN NoVal
                  ELSE IF Included(t, ReqCell, "cell", m.rb) THEN CellVal(<<t.cell[2], t.cell[1]>>)
                  ELSE IF Included(t, ReqCell, "area", m.rb)
                         THEN CellVal(CellFromArea(<<t.area[2], t.area[1]>>, f.win, m.cfg.swap))
                  ELSE NoVal IN
         Return([m EXCEPT !.val = v], m.rb, m.rnone)
    \* KittyImage.is_supported / ITerm2Image.is_supported / auto_image_class
    [] f.pc = "k_start" ->
         IF m.nvValid THEN SetTop(m, [f EXCEPT !.pc = "k_chk"]) ELSE Push(m, "k_chk", Frame("namever", "n_start"))
    [] f.pc = "k_chk" ->
         IF ~m.nvNone /\ m.nvName = NmITerm2 THEN Return([m EXCEPT !.val = [NoVal EXCEPT !.flag = FALSE]], <<>>, TRUE)
         ELSE Push(m, "k_q", QueryFrame(ReqKitty, "c", TNone))
    [] f.pc = "k_q" ->
         LET ok == ~m.rnone /\ KittyOK(m, m.rb) IN
         Return([m EXCEPT !.val = [NoVal EXCEPT !.flag = KittySupport(m.nvName, m.nvVer, ok)]], m.rb, m.rnone)
    [] f.pc = "i_start" ->
         IF m.nvValid THEN SetTop(m, [f EXCEPT !.pc = "i_chk"]) ELSE Push(m, "i_chk", Frame("namever", "n_start"))
    [] f.pc = "i_chk" ->
         Return([m EXCEPT !.val = [NoVal EXCEPT !.flag = ITerm2Support(m.nvName, m.nvVer)]], <<>>, TRUE)
    \* history: disable_queries(); op(); enable_queries(); op()  (f.more = the operation).
    \* enable_queries() discards whatever was learnt while queries were disabled: the second call
    \* starts from cold caches and must report what the terminal says
    [] f.pc = "h_start" -> Push([m EXCEPT !.cfg.enabled = FALSE], "h_mid", CallerFrame(f.more))
    [] f.pc = "h_mid" -> Push([m EXCEPT !.cfg.enabled = TRUE, !.nvValid = FALSE, !.val = NoVal], "h_end", CallerFrame(f.more))
    [] f.pc = "h_end" -> Return(m, m.rb, m.rnone)
    [] f.pc = "a_start" -> Push(m, "a_k", Frame("kitty", "k_start"))
    [] f.pc = "a_k" ->
         IF m.val.flag THEN Return([m EXCEPT !.val = [NoVal EXCEPT !.style = "kitty"]], <<>>, TRUE)
         ELSE Push(m, "a_i", Frame("iterm2", "i_start"))
    [] f.pc = "a_i" ->
         Return([m EXCEPT !.val = [NoVal EXCEPT !.style = IF m.val.flag THEN "iterm2" ELSE "block"]], <<>>, TRUE)

RECURSIVE Norm(_)
Norm(m) == IF m.status # "run" \/ Top(m).pc \in SysPcs THEN m ELSE Norm(Internal(m))

\* the machine after the pending system call produced `res`
Feed(m, res) ==
  LET f == Top(m) IN
  IF ~res.ok THEN
    (IF f.pc = "s_ioctl" /\ res.kind = "OSError" THEN Norm(SetTop(m, [f EXCEPT !.pc = "s_noioctl"]))
     ELSE IF f.pc = "d_body" /\ f.aux < 0       \* loose body: whether the animation swallows it is not modelled
       THEN (IF res.data = <<10>> THEN Norm(Raise(SetTop(m, ToFin(f)), res.kind)) ELSE m)
     ELSE Norm(Raise(m, res.kind)))
  ELSE Norm(
  CASE f.pc = "q_get1" -> SetTop(m, [f EXCEPT !.old = res.attr, !.pc = "q_get2"])
    [] f.pc = "q_get2" -> SetTop(m, [f EXCEPT !.new = [res.attr EXCEPT !.echo = FALSE], !.intry = TRUE, !.pc = "q_set"])
    [] f.pc = "q_set" -> SetTop(m, [f EXCEPT !.pc = "q_write"])
    [] f.pc = "q_restore" -> AfterRestore(m, f, f.inp)
    [] f.pc = "w_write" -> SetTop(m, [f EXCEPT !.pc = "w_drain"])
    [] f.pc = "w_drain" -> SetTop(m, [f EXCEPT !.pc = "w_done"])
    [] f.pc = "r_get1" -> SetTop(m, [f EXCEPT !.old = res.attr, !.pc = "r_get2"])
    [] f.pc = "r_get2" ->
         SetTop(m, [f EXCEPT !.new = [res.attr EXCEPT !.icanon = FALSE, !.vtime = 0, !.echo = f.echo,
                                                         !.vmin = IF f.tmo = TNone THEN 0 ELSE f.min],
                             !.intry = TRUE, !.pc = "r_set"])
    [] f.pc = "r_set" -> SetTop(m, [f EXCEPT !.pc = IF f.tmo = TNone THEN "r_sel0" ELSE "r_mono0"])
    [] f.pc = "r_sel0" -> SetTop(m, [f EXCEPT !.pc = IF res.ready THEN "r_read100" ELSE "r_restore"])
    [] f.pc = "r_read100" -> SetTop(m, [f EXCEPT !.inp = f.inp \o res.data, !.pc = "r_sel0"])
    [] f.pc = "r_mono0" -> SetTop(m, [f EXCEPT !.start = res.val, !.pc = IF f.min > 0 THEN "r_readmin" ELSE "r_mono1"])
    [] f.pc = "r_readmin" -> SetTop(m, [f EXCEPT !.inp = f.inp \o res.data, !.new = [f.new EXCEPT !.vmin = 0], !.pc = "r_setvmin"])
    [] f.pc = "r_setvmin" -> SetTop(m, [f EXCEPT !.pc = "r_mono1"])
    [] f.pc \in {"r_mono1", "r_mono2"} -> SetTop(m, [f EXCEPT !.dur = res.val - f.start, !.pc = "r_test"])
    [] f.pc = "r_more" -> SetTop(m, [f EXCEPT !.nm = f.nm + 1, !.pc = IF res.ready THEN "r_sel" ELSE "r_restore"])
    [] f.pc = "r_sel" -> SetTop(m, [f EXCEPT !.pc = IF res.ready THEN "r_read1" ELSE "r_mono2"])
    [] f.pc = "r_read1" -> SetTop(m, [f EXCEPT !.inp = f.inp \o res.data, !.pc = "r_mono2"])
    [] f.pc = "r_restore" -> AfterRestore(m, f, f.inp)
    [] f.pc = "s_size" -> SetTop(m, [f EXCEPT !.win = res.win, !.pc = "s_ioctl"])
    [] f.pc = "s_ioctl" ->
         IF res.win.xpx # 0 /\ res.win.ypx # 0
           THEN Return([m EXCEPT !.ioctlUsed = TRUE,
                                 !.val = CellVal(CellFromArea(<<res.win.xpx, res.win.ypx>>, f.win, m.cfg.swap))],
                       <<>>, TRUE)
           ELSE SetTop(m, [f EXCEPT !.pc = "s_noioctl"])
    [] f.pc = "d_get1" -> SetTop(m, [f EXCEPT !.old = res.attr, !.pc = "d_get2"])
    [] f.pc = "d_get2" -> SetTop(m, [f EXCEPT !.new = [res.attr EXCEPT !.echo = FALSE], !.intry = TRUE,
                                              !.pc = IF f.hide THEN "d_hide" ELSE "d_set"])
    [] f.pc = "d_hide" -> SetTop(m, IF f.echo THEN AfterSet(f) ELSE [f EXCEPT !.pc = "d_set"])
    [] f.pc = "d_set" -> SetTop(m, AfterSet(f))
    [] f.pc = "d_render" -> SetTop(m, AfterRender(f))
    [] f.pc = "d_body" ->
         SetTop(m, IF f.aux < 0 THEN (IF res.data = <<10>> THEN [ToFin(f) EXCEPT !.nm = FinCount(f) - 1] ELSE f)
                   ELSE IF f.aux > 1 THEN [f EXCEPT !.aux = f.aux - 1] ELSE ToFin([f EXCEPT !.aux = 0]))
    [] f.pc = "d_intr" -> SetTop(m, ToFin(f))
    [] f.pc = "d_fin" ->
         IF f.nm > 1 THEN SetTop(m, [f EXCEPT !.nm = f.nm - 1])
         ELSE SetTop(m, [f EXCEPT !.nm = 0, !.pc = IF f.echo THEN "d_final" ELSE "d_restore"])
    [] f.pc = "d_restore" -> SetTop(m, [f EXCEPT !.pc = "d_final"])
    [] f.pc = "d_final" -> IF f.exc # "" THEN Raise(m, f.exc) ELSE Return(m, <<>>, TRUE))

\* start an operation: op = [name, more, tmo, min, echo, req, hide, nbody]
OpFrame(op) ==
  CASE op.name = "colors" -> Frame("colors", "c_start")
    [] op.name = "namever" -> Frame("namever", "n_start")
    [] op.name = "cellsize" -> Frame("cellsize", "s_size")
    [] op.name = "kitty" -> Frame("kitty", "k_start")
    [] op.name = "iterm2" -> Frame("iterm2", "i_start")
    [] op.name = "auto" -> Frame("auto", "a_start")
    [] op.name = "query" -> QueryFrame(op.req, op.more, op.tmo)
    [] op.name = "read" -> ReadFrame(op.more, op.tmo, op.min, op.echo)
    [] op.name = "draw" -> DrawFrame(op.echo, op.hide, op.nbody)
    [] op.name = "history" -> [Frame("history", "h_start") EXCEPT !.more = op.more]
Start(cfg, op) == Norm(NewMachine(cfg, OpFrame(op)))

\* what the operation must report when every supported reply arrives in time
\* (stated from the terminal's facts alone, independently of the machine above)
ExpectedVal(opname, enabled, swap, t, win, ioctlFails) ==
  LET name == LowerS(IF enabled /\ "xtv" \in t.sup THEN t.name ELSE t.envName)
      ver == IF enabled /\ "xtv" \in t.sup THEN t.ver ELSE t.envVer
      kok == enabled /\ "kitty" \in t.sup /\ t.kid = 31 /\ t.kmsg = MsgOK IN
  CASE opname = "colors" ->
         [NoVal EXCEPT !.an = ~(enabled /\ "fg" \in t.sup),
                       !.a = IF enabled /\ "fg" \in t.sup THEN ExpectColor(t.fg.c) ELSE <<>>,
                       !.bn = ~(enabled /\ "bg" \in t.sup),
                       !.b = IF enabled /\ "bg" \in t.sup THEN ExpectColor(t.bg.c) ELSE <<>>]
    [] opname = "namever" ->
         [NoVal EXCEPT !.an = name = <<>>, !.a = name, !.bn = ver = <<>>, !.b = ver]
    [] opname = "cellsize" ->
         IF IoctlGood(win, ioctlFails) THEN CellVal(CellFromArea(<<win.xpx, win.ypx>>, win, swap))
         ELSE IF ~enabled THEN NoVal
         ELSE IF "cell" \in t.sup THEN CellVal(<<t.cell[2], t.cell[1]>>)
         ELSE IF "area" \in t.sup THEN CellVal(CellFromArea(<<t.area[2], t.area[1]>>, win, swap))
         ELSE NoVal
    [] opname = "kitty" -> [NoVal EXCEPT !.flag = KittySupport(name, ver, kok)]
    [] opname = "iterm2" -> [NoVal EXCEPT !.flag = ITerm2Support(name, ver)]
    [] opname = "auto" -> [NoVal EXCEPT !.style = AutoStyle(name, ver, kok)]
    [] OTHER -> NoVal

\* the operation whose value a run reports
EffName(op) == IF op.name = "history" THEN op.more ELSE op.name

NoOp == [name |-> "", more |-> "always", tmo |-> TNone, min |-> 0, echo |-> FALSE, req |-> <<>>,
         hide |-> FALSE, nbody |-> 0]
=============================================================================
