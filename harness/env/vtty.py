"""Virtual-time tty device + the recording / fault-injecting seam layer (C12, C13).

The library reaches the terminal only through module-level names of ``term_image.utils``:
``os`` (read / write / get_terminal_size), ``select``, ``termios``, ``fcntl``, ``monotonic``
and ``_tty_fd``.  :func:`install` replaces them (from outside, no source hook) by proxies that
route every call through a :class:`Recorder`:

* the Recorder numbers the calls, logs one uniform event per call (arguments + result, the
  vocabulary of ``specs/Tty.tla``), raises an injected fault *before* or *after* the k-th
  call, and forwards to a **backend**;
* :class:`VirtualTty` is the backend implementing the environment half of ``Tty.tla``
  (``Respond``): clock in dyadic ticks (2^-12 s), input queue, pending reply bursts
  delivered FIFO, attribute word, window size.  ``select`` is the only call that lets
  time pass.  The real-pty backend lives in ``termsim.py``.

Everything here is *dumb*: it executes and records.  Whether a recorded run is right is
decided by TLC against ``specs/Trace_Tty.tla``.
"""

from __future__ import annotations

import os as _os
import sys
import termios as _termios
from typing import Any

TICK_HZ = 4096  # 2^12 ticks per second: dyadic, float arithmetic on timeouts is exact
BASE = 16.0  # value of monotonic() at tick 0
FAKE_FD = 987
TNONE, TINF, TBAD = -1, -2, -3

_LFLAG_MASK = _termios.ICANON | _termios.ECHO


class Hang(BaseException):
    """The library blocked for ever (select(None) / blocking read with nothing to come)."""


class StillWaiting(Hang):
    """Watchdog: the operation is still issuing system calls long after every timeout it was
    given has elapsed (virtual time / wall clock), or has issued an absurd number of calls.
    Raised INSIDE the library call so that nothing in the harness grows without bound."""


MAX_CALLS = 3000  # the longest legitimate operation issues ~350 intercepted calls


class InjectedFault(Exception):
    """The `Exception` kind of injected fault."""


class PredicateError(Exception):
    """Raised by the caller-supplied `more` predicate (PredicateRaises)."""


# --------------------------------------------------------------------------------------
# attribute words
# --------------------------------------------------------------------------------------
def _cc_template() -> list:
    cc = [b"\x00"] * 32
    for idx, ch in (
        (_termios.VINTR, 3), (_termios.VQUIT, 28), (_termios.VERASE, 127), (_termios.VKILL, 21),
        (_termios.VEOF, 4), (_termios.VSTART, 17), (_termios.VSTOP, 19), (_termios.VSUSP, 26),
        (_termios.VREPRINT, 18), (_termios.VDISCARD, 15), (_termios.VWERASE, 23), (_termios.VLNEXT, 22),
    ):
        cc[idx] = bytes([ch])
    return cc


class AttrCodec:
    """raw termios list  <->  record [icanon, echo, vmin, vtime, rest].

    ``rest`` numbers the distinct values of *everything else* in the structure, so two
    records are equal iff the two raw words are byte-for-byte equal."""

    def __init__(self) -> None:
        lflag = (_termios.ISIG | _termios.IEXTEN | _termios.ECHOE | _termios.ECHOK | _termios.ECHOCTL
                 | _termios.ECHOKE)
        self.rests: list[tuple] = [
            (_termios.ICRNL | _termios.IXON, _termios.OPOST | _termios.ONLCR, 191, lflag, 15, 15,
             tuple(self._cc_key(_cc_template())))
        ]

    @staticmethod
    def _cc_key(cc) -> list:
        out = []
        for i, c in enumerate(cc):
            if i in (_termios.VMIN, _termios.VTIME):
                out.append(None)
            else:
                out.append(c if isinstance(c, int) else c[0])
        return out

    @staticmethod
    def _ccint(c) -> int:
        return c if isinstance(c, int) else c[0]

    def to_record(self, raw) -> dict:
        iflag, oflag, cflag, lflag, isp, osp, cc = raw
        key = (iflag, oflag, cflag, lflag & ~_LFLAG_MASK, isp, osp, tuple(self._cc_key(cc)))
        if key not in self.rests:
            self.rests.append(key)
        return {
            "icanon": bool(lflag & _termios.ICANON),
            "echo": bool(lflag & _termios.ECHO),
            "vmin": self._ccint(cc[_termios.VMIN]),
            "vtime": self._ccint(cc[_termios.VTIME]),
            "rest": self.rests.index(key),
        }

    def from_record(self, rec: dict) -> list:
        iflag, oflag, cflag, lflag, isp, osp, cck = self.rests[rec["rest"]]
        if rec["icanon"]:
            lflag |= _termios.ICANON
        if rec["echo"]:
            lflag |= _termios.ECHO
        cc: list[Any] = [bytes([c]) if c is not None else b"\x00" for c in cck]
        cc[_termios.VMIN] = rec["vmin"]
        cc[_termios.VTIME] = rec["vtime"]
        return self.present([iflag, oflag, cflag, lflag, isp, osp, cc])

    @staticmethod
    def present(raw) -> list:
        """The list `termios.tcgetattr` would return: VMIN/VTIME are ints only in
        non-canonical mode (CPython), one-byte strings otherwise."""
        raw = [*raw[:6], list(raw[6])]
        canon = bool(raw[3] & _termios.ICANON)
        for i in (_termios.VMIN, _termios.VTIME):
            v = raw[6][i]
            v = v if isinstance(v, int) else v[0]
            raw[6][i] = bytes([v]) if canon else v
        return raw


NO_ATTR = {"icanon": False, "echo": False, "vmin": 0, "vtime": 0, "rest": -1}
NO_WIN = {"cols": 0, "rows": 0, "xpx": 0, "ypx": 0}


def event(call, **kw) -> dict:
    ev = {"call": call, "w": "", "attr": NO_ATTR, "data": [], "a": 0, "ok": True, "kind": "",
          "eff": True, "rattr": NO_ATTR, "rdata": [], "val": 0, "ready": False, "win": NO_WIN}
    ev.update(kw)
    return ev


# --------------------------------------------------------------------------------------
# the recorder: numbering, logging, fault injection
# --------------------------------------------------------------------------------------
class Recorder:
    def __init__(self, backend, codec: AttrCodec | None = None, fault: dict | None = None,
                 quiet: tuple = ()):
        self.backend = backend
        self.codec = codec or AttrCodec()
        self.fault = fault  # {"k": int, "when": "before"|"after", "kind": "Exception"|"KeyboardInterrupt"}
        self.quiet = set(quiet)  # calls neither logged nor counted
        self.events: list[dict] = []
        self.n = 0
        self.fired = False
        self.in_call = False  # inside a backend primitive (where a real signal may land)
        self.closed = False  # the operation has returned: any further call is work left behind
        self.late: list[str] = []  # calls made after the operation returned (bounded)
        self.spawned: list[str] = []  # threads / timers started from inside the operation (bounded)
        self.pending: list = []  # intercepted threading.Timer objects (never started for real)
        self.nmore = 0
        self.max_calls = MAX_CALLS
        self.wall_deadline: float | None = None  # real runs: time.monotonic() after which we give up

    def _raise(self):
        self.fired = True
        if self.fault["kind"] == "KeyboardInterrupt":
            raise KeyboardInterrupt("injected")
        raise InjectedFault("injected")

    def call(self, name: str, fn, log_args: dict, log_res):
        """Run backend primitive `fn()`; `log_res(result)` -> result fields of the event."""
        if name in self.quiet:
            return fn()
        if self.closed:
            if len(self.late) < 50:
                self.late.append(name)
            return fn()
        # watchdogs fire once; the clean-up calls of the unwinding library then get 50 more calls
        if self.n >= self.max_calls:
            limit, self.max_calls = self.max_calls, self.max_calls + 50
            self.wall_deadline = None
            raise StillWaiting(f"more than {limit} system calls in one operation")
        if self.wall_deadline is not None:
            import time

            if time.monotonic() > self.wall_deadline:
                self.wall_deadline = None
                self.max_calls = min(self.max_calls, self.n + 50)
                raise StillWaiting("still issuing system calls long after every timeout has elapsed (wall clock)")
        self.n += 1
        f = self.fault if self.fault and self.fault["k"] == self.n else None
        if f and f["when"] == "before":
            self.events.append(event(name, **log_args, ok=False, eff=False, kind=f["kind"]))
            self._raise()
        try:
            self.in_call = True
            try:
                result = fn()
            finally:
                self.in_call = False
        except BaseException as exc:  # the call itself failed / was interrupted: no effect
            if isinstance(exc, Hang):
                raise
            self.events.append(event(name, **log_args, ok=False, eff=False, kind=type(exc).__name__))
            raise
        if f:
            self.events.append(event(name, **log_args, **log_res(result), ok=False, eff=True, kind=f["kind"]))
            self._raise()
        self.events.append(event(name, **log_args, **log_res(result)))
        return result

    # -- conversions -------------------------------------------------------------------
    def ticks(self, seconds: float) -> int:
        x = (seconds - BASE) * TICK_HZ
        return int(x) if x == int(x) else int(x // 1)

    @staticmethod
    def sel_arg(t) -> int:
        if t is None:
            return TINF
        x = t * TICK_HZ
        return int(x) if x == int(x) and x >= 0 else TBAD

    # -- the primitives as the library calls them ---------------------------------------
    def tcgetattr(self, fd):
        return self.call("tcgetattr", lambda: self.backend.tcgetattr(fd), {},
                         lambda r: {"rattr": self.codec.to_record(r)})

    def tcsetattr(self, fd, when, attr):
        w = {_termios.TCSANOW: "NOW", _termios.TCSAFLUSH: "FLUSH", _termios.TCSADRAIN: "DRAIN"}.get(when, "?")
        return self.call("tcsetattr", lambda: self.backend.tcsetattr(fd, when, attr),
                         {"w": w, "attr": self.codec.to_record(attr)}, lambda r: {})

    def tcdrain(self, fd):
        return self.call("tcdrain", lambda: self.backend.tcdrain(fd), {}, lambda r: {})

    def write(self, fd, data):
        return self.call("write", lambda: self.backend.write(fd, data), {"data": list(bytes(data))},
                         lambda r: {"val": r})

    def read(self, fd, n):
        return self.call("read", lambda: self.backend.read(fd, n), {"a": n}, lambda r: {"rdata": list(r)})

    def select(self, r, w, x, t=None):
        return self.call("select", lambda: self.backend.select(r, w, x, t), {"a": self.sel_arg(t)},
                         lambda res: {"ready": bool(res[0])})

    def monotonic(self):
        return self.call("monotonic", self.backend.monotonic, {}, lambda r: {"val": self.ticks(r)})

    def ioctl(self, fd, req, buf, *a):
        def res(_r):
            return {"win": {"rows": buf[0], "cols": buf[1], "xpx": buf[2], "ypx": buf[3]}}

        return self.call("ioctl", lambda: self.backend.ioctl(fd, req, buf), {}, res)

    def get_terminal_size(self, fd=1):
        return self.call("termsize", lambda: self.backend.get_terminal_size(fd), {},
                         lambda r: {"win": {"cols": r[0], "rows": r[1], "xpx": 0, "ypx": 0}})

    def more(self, data) -> bool:
        self.nmore += 1
        idx = self.nmore
        return self.call("more", lambda: self.backend.more(bytes(data), idx),
                         {"data": list(bytes(data)), "a": idx}, lambda r: {"ready": bool(r)})

    def stream(self, fn, text: str = ""):
        return self.call("stream", fn, {"data": list(text.encode()[:64])}, lambda r: {})

    hooks_on = False  # the renderable's hooks are calls of the operation only while draw() runs

    def hook(self, which: int):
        """1 = _render_, 2 = _handle_interrupted_draw_, 3 = _finalize_render_data_"""
        if not self.hooks_on:
            return None
        return self.call("hook", lambda: None, {"a": which}, lambda r: {})


class watch_threads:
    """While an operation runs, threads started from its thread are made visible to the world:
    a `threading.Timer` is intercepted (recorded, NOT started - :func:`settle` runs its function
    after the call has returned and been observed), any other thread is recorded and started."""

    def __init__(self, rec: Recorder):
        self.rec = rec

    def __enter__(self):
        import threading

        rec, owner, orig = self.rec, threading.get_ident(), threading.Thread.start
        self.orig = orig

        def start(thread):
            if threading.get_ident() != owner or rec.closed:
                return orig(thread)
            if len(rec.spawned) < 20:
                rec.spawned.append(f"{type(thread).__name__}({getattr(thread, 'interval', '')})")
            if isinstance(thread, threading.Timer):
                if len(rec.pending) < 20:
                    rec.pending.append(thread)
                return None
            return orig(thread)

        threading.Thread.start = start
        return self

    def __exit__(self, *exc):
        import threading

        threading.Thread.start = self.orig
        return False


def settle(rec: Recorder) -> None:
    """The call has returned and its outcome has been observed: now let the work it left behind
    (intercepted timers) run; every terminal access it makes is logged in `rec.late`."""
    rec.closed = True
    rec.wall_deadline = None
    for timer in rec.pending:
        try:
            timer.function(*timer.args, **timer.kwargs)
        except BaseException:  # noqa: BLE001 - whatever it does, only its terminal accesses matter
            pass
    rec.pending = []


class _OsProxy:
    def __init__(self, rec: Recorder):
        self._rec = rec
        self.read = rec.read
        self.write = rec.write
        self.get_terminal_size = rec.get_terminal_size

    def __getattr__(self, name):
        return getattr(_os, name)


class _TermiosProxy:
    def __init__(self, rec: Recorder):
        self.tcgetattr = rec.tcgetattr
        self.tcsetattr = rec.tcsetattr
        self.tcdrain = rec.tcdrain

    def __getattr__(self, name):
        return getattr(_termios, name)


class _FcntlProxy:
    def __init__(self, rec: Recorder):
        self.ioctl = rec.ioctl

    def __getattr__(self, name):
        import fcntl

        return getattr(fcntl, name)


class Stream:
    """sys.stdout stand-in for Renderable.draw: a tty text stream whose operations go
    through the recorder ("stream" events); `real` is the underlying text stream or None."""

    def __init__(self, rec: Recorder, fd: int, real=None):
        self._rec, self._fd, self._real = rec, fd, real
        self.written: list[str] = []
        self.encoding = "utf-8"

    def isatty(self):
        return True

    def fileno(self):
        return self._fd

    def write(self, s):
        def do():
            self.written.append(s)
            return self._real.write(s) if self._real else len(s)

        return self._rec.stream(do, s)

    def flush(self):
        return self._rec.stream(lambda: self._real.flush() if self._real else None)


SEAMS = ("os", "select", "termios", "fcntl", "monotonic", "_tty_fd")


def install(rec: Recorder, fd: int):
    """Point the seams of term_image.utils (and the renderable module's termios) at `rec`."""
    from harness.tlc import MachineryError

    import term_image.utils as U

    for name in SEAMS:
        if not hasattr(U, name):
            raise MachineryError(f"seam term_image.utils.{name} is missing")
    U.os = _OsProxy(rec)
    U.select = rec.select
    U.termios = _TermiosProxy(rec)
    U.fcntl = _FcntlProxy(rec)
    U.monotonic = rec.monotonic
    U._tty_fd = fd
    try:
        import term_image.renderable._renderable as R

        if not hasattr(R, "termios"):
            raise MachineryError("seam term_image.renderable._renderable.termios is missing")
        R.termios = U.termios
    except ImportError:
        pass


# --------------------------------------------------------------------------------------
# the virtual device (environment half of Tty.tla)
# --------------------------------------------------------------------------------------
class VirtualTty:
    def __init__(self, codec: AttrCodec, attr0: dict, win: dict, ioctl_fails: bool, preload, sched,
                 pred: dict | None = None):
        self.codec = codec
        self.now = 0
        self.inq = bytearray(preload)
        self.pend: list[tuple[int, bytes]] = []  # FIFO among equal times: list order
        self.raw = codec.from_record(attr0)
        self.win = dict(win)
        self.ioctl_fails = ioctl_fails
        self.sched = [[(b["delay"], bytes(b["data"])) for b in s] for s in sched]
        self.pred = pred or {"stop": 0, "raiseAt": 0}
        self.wlog: list[bytes] = []
        self.tw = 0
        self.time_limit: int | None = None  # ticks; beyond it the operation is "still waiting"

    @property
    def attr(self) -> dict:
        return self.codec.to_record(self.raw)

    def _advance(self, to: int):
        if self.time_limit is not None and to > self.time_limit:
            self.now, self.time_limit = self.time_limit, None  # fires once; bounded by MAX_CALLS afterwards
            raise StillWaiting(f"still waiting at virtual tick {to}: every timeout given elapsed long ago "
                               f"(watchdog at {self.now} ticks)")
        self.now = to

    def _deliver(self):
        due = [b for b in self.pend if b[0] <= self.now]
        if due:
            self.pend = [b for b in self.pend if b[0] > self.now]
            for _, data in due:
                self.inq += data

    def residual(self) -> bytes:
        return bytes(self.inq) + b"".join(d for _, d in self.pend)

    # primitives
    def tcgetattr(self, fd):
        return AttrCodec.present(self.raw)

    def tcsetattr(self, fd, when, attr):
        self._deliver()
        self.raw = [*attr[:6], list(attr[6])]
        if when == _termios.TCSAFLUSH:
            self.inq.clear()

    def tcdrain(self, fd):
        return None

    def write(self, fd, data):
        self.wlog.append(bytes(data))
        self.tw = self.now
        if self.sched:
            for delay, d in self.sched.pop(0):
                self.pend.append((self.now + delay, d))
        return len(data)

    def monotonic(self):
        return BASE + self.now / TICK_HZ

    def get_terminal_size(self, fd):
        return _os.terminal_size((self.win["cols"], self.win["rows"]))

    def ioctl(self, fd, req, buf):
        if self.ioctl_fails:
            raise OSError(25, "Inappropriate ioctl for device")
        buf[0], buf[1], buf[2], buf[3] = self.win["rows"], self.win["cols"], self.win["xpx"], self.win["ypx"]
        return 0

    def more(self, data: bytes, idx: int) -> bool:
        if idx == self.pred["raiseAt"]:
            raise PredicateError("predicate raised")
        return len(data) < self.pred["stop"]

    def select(self, r, w, x, t):
        if t is not None:
            ticks = t * TICK_HZ
            if ticks < 0:
                raise ValueError("timeout must be non-negative")
            if ticks != int(ticks):
                raise Hang(f"non-dyadic select timeout {t!r}: the virtual clock cannot represent it")
            ticks = int(ticks)
        self._deliver()
        if self.inq:
            return (list(r), [], [])
        if not self.pend:
            if t is None:
                raise Hang("select(None) with nothing to come")
            self._advance(self.now + ticks)
            return ([], [], [])
        nxt = min(b[0] for b in self.pend)
        if t is not None and nxt > self.now + ticks:
            self._advance(self.now + ticks)
            return ([], [], [])
        self._advance(nxt)
        self._deliver()
        return (list(r), [], [])

    def read(self, fd, n):
        rec = self.attr
        need = min(rec["vmin"], n) if rec["vmin"] > 0 else 0
        self._deliver()
        while len(self.inq) < need:
            if not self.pend:
                raise Hang("blocking read with nothing to come")
            self._advance(min(b[0] for b in self.pend))
            self._deliver()
        out = bytes(self.inq[:n])
        del self.inq[:n]
        return out


# --------------------------------------------------------------------------------------
# driving the real library
# --------------------------------------------------------------------------------------
def reset_library(enabled: bool, swap: bool, qtmo_ticks: int, term: dict | None = None) -> None:
    """Library settings through the public API + cold caches + the process environment."""
    import term_image
    import term_image.utils as U
    from term_image.image import BlockImage, ITerm2Image, KittyImage

    for var, key in (("TERM_PROGRAM", "envName"), ("TERM_PROGRAM_VERSION", "envVer")):
        _os.environ.pop(var, None)
        if term and term.get(key):
            _os.environ[var] = bytes(term[key]).decode()
    term_image.set_query_timeout(qtmo_ticks / TICK_HZ)
    (term_image.enable_queries if enabled else term_image.disable_queries)()
    (term_image.enable_win_size_swap if swap else term_image.disable_win_size_swap)()
    U.get_fg_bg_colors._invalidate_cache()
    U.get_terminal_name_version._invalidate_cache()
    U._cell_size_cache[:] = [0] * 4
    for cls in (KittyImage, ITerm2Image, BlockImage):
        cls._supported = None


_SPACE = None
CURRENT: dict = {"rec": None}


def _space_cls():
    global _SPACE
    if _SPACE is None:
        from term_image.geometry import Size
        from term_image.renderable import Frame, Renderable

        class Space(Renderable):
            """2x1 blank renderable (1 frame, or `frames` frames of 1 ms) whose hooks are calls of
            the operation: each goes through the recorder and can therefore be made to raise."""

            def __init__(self, frames=1):
                super().__init__(frames, 1)

            def _get_render_size_(self):
                return Size(2, 1)

            def _render_(self, render_data, render_args):
                CURRENT["rec"].hook(1)
                data = render_data[Renderable]
                return Frame(data.frame_offset, 1, Size(2, 1), "  ")

            def _handle_interrupted_draw_(self, render_data, render_args, output):
                CURRENT["rec"].hook(2)

            @classmethod
            def _finalize_render_data_(cls, render_data):
                try:
                    CURRENT["rec"].hook(3)
                finally:
                    super()._finalize_render_data_(render_data)

        _SPACE = Space
    return _SPACE


NOVAL = {"a": [], "an": True, "b": [], "bn": True, "flag": False, "style": ""}


def _timeout(t: int):
    return None if t == TNONE else -1.0 if t == TINF else t / TICK_HZ


def run_op(rec: Recorder, op: dict) -> dict:
    """Perform one operation of Tty.tla on the real library; returns the final observation."""
    import term_image.utils as U

    name = op["name"]
    out = {"status": "returned", "kind": "", "rb": [], "rnone": True, "val": dict(NOVAL)}
    more = {"c": lambda s: not s.endswith(b"c"), "csi": lambda s: not s.endswith(b"\x1b["),
            "ext": rec.more}.get(op.get("more", "always"))
    try:
        if name == "history":
            # disable_queries(); op(); enable_queries(); op() - only the public API in between
            import term_image

            name = op["more"]
            term_image.disable_queries()
            run_op(rec, dict(op, name=name))
            term_image.enable_queries()
        if name == "colors":
            fg, bg = U.get_fg_bg_colors()
            out["val"].update(a=list(fg or ()), an=fg is None, b=list(bg or ()), bn=bg is None)
        elif name == "namever":
            n, v = U.get_terminal_name_version()
            out["val"].update(a=list((n or "").encode()), an=n is None, b=list((v or "").encode()), bn=v is None)
        elif name == "cellsize":
            cs = U.get_cell_size()
            out["val"].update(a=list(cs or ()), an=cs is None)
        elif name in ("kitty", "iterm2"):
            from term_image.image import ITerm2Image, KittyImage

            out["val"]["flag"] = bool((KittyImage if name == "kitty" else ITerm2Image).is_supported())
        elif name == "auto":
            from term_image.image import auto_image_class

            out["val"]["style"] = {"KittyImage": "kitty", "ITerm2Image": "iterm2", "BlockImage": "block"}[
                auto_image_class().__name__
            ]
        elif name == "query":
            r = U.query_terminal(bytes(op["req"]), more, _timeout(op["tmo"]))
            out.update(rb=list(r or b""), rnone=r is None)
        elif name == "read":
            kw = {} if more is None else {"more": more}
            r = U.read_tty(timeout=_timeout(op["tmo"]), min=op["min"], echo=op["echo"], **kw)
            out.update(rb=list(r or b""), rnone=r is None)
        elif name == "draw":
            CURRENT["rec"] = rec
            animated = op["nbody"] < 0
            space = _space_cls()(2 if animated else 1)
            rec.hooks_on = True
            try:
                space.draw(hide_cursor=op["hide"], echo_input=op["echo"], animate=animated, loops=1)
            finally:
                rec.hooks_on = False  # a later RenderData.__del__ is not part of the call
        else:
            raise ValueError(name)
    except Hang:
        raise
    except BaseException as exc:
        out.update(status="raised", kind=type(exc).__name__)
        if not isinstance(exc, (InjectedFault, KeyboardInterrupt, PredicateError)):
            import traceback

            out["traceback"] = traceback.format_exc()[-1500:]
    return out


NO_OP = {"name": "", "more": "always", "tmo": TNONE, "min": 0, "echo": False, "req": [], "hide": False,
         "nbody": 0}


def run_virtual(scn: dict, fault: dict | None = None) -> dict:
    """Replay one scenario (the fields of a SCEN line of MC_Tty / MC_TtyFault) into the real
    functions on the virtual device.  Returns events + final observation."""
    codec = AttrCodec()
    dev = VirtualTty(codec, scn["attr0"], scn["win"], scn["ioctlFails"], scn["preload"], scn["sched"],
                     scn.get("pred"))
    op = dict(NO_OP, **scn["opx"]) if "opx" in scn else dict(NO_OP, name=scn["op"])
    if op["name"] == "history" and op["more"] == "always":
        op["more"] = scn["inner"]
    rec = Recorder(dev, codec, fault, quiet=("termsize",) if op["name"] == "draw" else ())
    # watchdog: an operation sends at most two queries, each bounded by its timeout
    longest = max([scn["tmo"], op["tmo"]] + [b["delay"] for s in scn["sched"] for b in s])
    dev.time_limit = 8 * longest + 64
    install(rec, FAKE_FD)
    reset_library(scn["enabled"], scn["swap"], scn["tmo"], scn.get("term"))
    old_stdout = sys.stdout
    stream = None
    if op["name"] == "draw":
        stream = sys.stdout = Stream(rec, FAKE_FD)
    hang = ""
    try:
        with watch_threads(rec):
            final = run_op(rec, op)
    except Hang as h:
        hang = str(h)
        final = {"status": "hung", "kind": type(h).__name__, "rb": [], "rnone": True, "val": dict(NOVAL)}
    finally:
        sys.stdout = old_stdout
    # observed at the moment the call returns ...
    final.update(residual=list(dev.residual()), attr=dev.attr, elapsed=dev.now, slack=0,
                 wlog=[list(w) for w in dev.wlog], hang=hang)
    # ... then whatever it left behind runs
    dev.time_limit = None
    settle(rec)
    final.update(spawned=list(rec.spawned), late=list(rec.late), attr_settled=dev.attr)
    return {"events": rec.events, "final": final, "fired": rec.fired, "op": op}
