------------------------------- MODULE TtyIO -------------------------------
(***************************************************************************)
(* X08 (extension): read_tty / read_tty_all / write_tty of term_image.utils *)
(* as a state machine over TtyIOCore, and the LAWS of their documentation   *)
(* (docstrings in utils.py; guide/concepts.rst "Terminal Queries").         *)
(*                                                                         *)
(* A behaviour = one terminal with one arrival schedule (chosen in Init) +  *)
(* a history of calls chosen step by step; between calls the program may    *)
(* idle until the next arrival.  One named action per API operation and per *)
(* step of a call: arrival, read step, timeout expiry, return, ...          *)
(***************************************************************************)
EXTENDS TtyIOCore

CONSTANTS
  Scheds,      \* arrival schedules: sequences of <<time, number of bytes>>, times increasing
  Ttys,        \* is there an active terminal
  TermEchos,   \* the terminal's own ECHO setting
  Mins, Tmos, Echos,
  Mores,       \* `more` predicates <<kind, n>>
  TermBytes,   \* the terminator bytes of the "term" predicate (a sequence)
  Datas,       \* write_tty arguments
  Plans,       \* partial-write plans
  Horizon,     \* no call is started that could end after this time
  MaxWire,     \* bound on the bytes written in one behaviour
  Variant      \* "code" = the model; anything else = a seeded regression of the MODEL

VARIABLES s, out
vars == <<s, out>>

\* arriving bytes are numbered 1, 2, 3, ... so that loss, duplication and reordering show
RECURSIVE PendFrom(_, _)
PendFrom(sched, off) ==
  IF sched = <<>> THEN <<>>
  ELSE <<[at |-> Head(sched)[1], data |-> [i \in 1..Head(sched)[2] |-> off + i]]>>
       \o PendFrom(Tail(sched), off + Head(sched)[2])
PendOf(sched) == PendFrom(sched, 0)
StreamOf(sched) == Cat([i \in 1..Len(PendOf(sched)) |-> PendOf(sched)[i].data])

ReadOps == {ReadOp(m, t, e, mr[1], mr[2], IF mr[1] = "term" THEN TermBytes ELSE <<>>) :
              m \in Mins, t \in Tmos, e \in Echos, mr \in Mores}
WriteOps == {WriteOp(d, p) : d \in Datas, p \in Plans}

(***************************************************************************)
(* Seeded regressions of the model (Variant # "code"): each must violate a  *)
(* law, otherwise the laws no longer discriminate.                          *)
(***************************************************************************)
StepV(st) ==
  LET k == Kind(st)
      n == Step(st) IN
  CASE Variant = "flushonreturn" /\ k = "Return" -> [n EXCEPT !.inq = <<>>]
    [] Variant = "overread" /\ k = "ReadByte" /\ Len(st.inq) >= 2 ->
         [n EXCEPT !.buf = @ \o <<st.inq[2]>>, !.taken = @ \o <<st.inq[2]>>, !.inq = Tail(@)]
    [] Variant = "lateexpire" /\ k = "Expire" -> [n EXCEPT !.now = @ + 1]
    [] Variant = "echostays" /\ k = "Return" -> [n EXCEPT !.echo = st.echo]
    [] Variant = "singlewrite" /\ k = "Accept" -> [n EXCEPT !.pc = "w_drain", !.wrem = <<>>]
    [] Variant = "nodrain" /\ k = "Transmit" -> [st EXCEPT !.pc = "w_ret"]
    [] Variant = "minignored" /\ k = "Arrive" /\ st.pc = "minwait" ->
         [n EXCEPT !.buf = n.inq, !.taken = @ \o n.inq, !.inq = <<>>, !.pc = "check"]
    [] Variant = "reorder" /\ k = "Drain" /\ Len(st.inq) >= 2 ->
         [n EXCEPT !.buf = <<st.inq[2], st.inq[1]>> \o Drop(st.inq, 2)]
    [] Variant = "zeropolls" /\ k = "ZeroTimeout" ->
         [n EXCEPT !.buf = @ \o st.inq, !.taken = @ \o st.inq, !.inq = <<>>]
    [] OTHER -> n

Init ==
  /\ \E tty \in Ttys, te \in TermEchos, sc \in Scheds :
       /\ tty \/ sc = <<>>
       /\ s = InitState(tty, te, PendOf(sc), sc)
  /\ out = NoOut(s)

Idling == s.pc = "idle"

(* ---- the program: what may happen between calls ------------------------ *)
Idle ==                       \* the program does something else until the next input arrives
  /\ Idling /\ s.tty /\ s.pend # <<>>
  /\ s' = DeliverNext(s)
  /\ out' = Out("Idle", IdleOp, <<>>, TRUE, FALSE, s, s')

StartOK(o) == o.tmo < 0 \/ s.now + o.tmo <= Horizon
ReadBegin ==                  \* read_tty(more, timeout, min, echo=...)
  \E o \in ReadOps :
    /\ Idling /\ s.tty /\ StartOK(o)
    /\ s' = Begin(s, o)
    /\ out' = Out("ReadBegin", o, <<>>, TRUE, FALSE, s', s')
ReadAllBegin ==               \* read_tty_all()
  /\ Idling /\ s.tty
  /\ s' = Begin(s, ReadAllOp)
  /\ out' = Out("ReadAllBegin", ReadAllOp, <<>>, TRUE, FALSE, s', s')
WriteBegin ==                 \* write_tty(data)
  \E o \in WriteOps :
    /\ Idling /\ s.tty /\ Len(s.wsent) + Len(o.data) <= MaxWire
    /\ s' = Begin(s, o)
    /\ out' = Out("WriteBegin", o, <<>>, TRUE, FALSE, s', s')
NoTerminal ==                 \* any of the three without an active terminal: None, nothing happens
  \E o \in ReadOps \cup {ReadAllOp} \cup WriteOps :
    /\ Idling /\ ~s.tty
    /\ s' = s
    /\ out' = Out("NoTerminal", o, <<>>, TRUE, FALSE, s, s)

(* ---- the steps of the call in progress ---------------------------------- *)
Do ==
  /\ s.pc \notin {"idle", "hung"}
  /\ s' = StepV(s)
  /\ out' = StepOut(s, s')

Drain == Kind(s) = "Drain" /\ Do               \* timeout None: everything queued, at once
ReadMin == Kind(s) = "ReadMin" /\ Do           \* the `min` bytes are there
Arrive == Kind(s) = "Arrive" /\ Do             \* the blocked caller sees the next chunk arrive
Consult == Kind(s) = "Consult" /\ Do           \* more(buffer)?
TimeUp == Kind(s) = "TimeUp" /\ Do             \* the timeout is used up
ZeroTimeout == Kind(s) = "ZeroTimeout" /\ Do   \* timeout = 0: used up at once (named branch)
ReadByte == Kind(s) = "ReadByte" /\ Do         \* one more byte
Expire == Kind(s) = "Expire" /\ Do             \* nothing comes before the deadline
Blocked == Kind(s) = "Blocked" /\ Do           \* nothing will ever come and no deadline applies
Return == Kind(s) = "Return" /\ Do             \* the buffer goes to the caller, ECHO as before
Accept == Kind(s) = "Accept" /\ Do             \* the device accepts (part of) the data
Transmit == Kind(s) = "Transmit" /\ Do         \* complete transmission is awaited
WriteReturn == Kind(s) = "WriteReturn" /\ Do

Next ==
  \/ Idle \/ ReadBegin \/ ReadAllBegin \/ WriteBegin \/ NoTerminal
  \/ Drain \/ ReadMin \/ Arrive \/ Consult \/ TimeUp \/ ZeroTimeout \/ ReadByte \/ Expire \/ Blocked \/ Return
  \/ Accept \/ Transmit \/ WriteReturn

Spec == Init /\ [][Next]_vars

View == s
\* what determines the future: the state without its history (arriving bytes are numbered, so the
\* queue and the pending schedule say where in the stream the terminal is)
Future == [s EXCEPT !.arrived = <<>>, !.taken = <<>>, !.rets = <<>>, !.elog = <<>>, !.wire = <<>>,
                    !.wsent = <<>>]

(***************************************************************************)
(* LAWS                                                                     *)
(***************************************************************************)
Reading == s.pc \in ReaderPcs \/ (s.pc = "hung" /\ IsRead(s.op))
Writing == s.pc \in WriterPcs
\* the call is about to return s.buf to its caller (timed: it was given a timeout)
Returning == s.pc = "ret"
TimedCall == s.op.tmo # TNone
Sched == PendOf(s.sched)
SeqOfBytes(q) == \A i \in 1..Len(q) : q[i] \in Nat

TypeOK ==
  /\ s.pc \in Pcs
  /\ s.now \in 0..Horizon
  /\ SeqOfBytes(s.inq) /\ SeqOfBytes(s.buf) /\ SeqOfBytes(s.wire) /\ SeqOfBytes(s.wbuf)
  /\ Len(s.elog) = Len(s.arrived)
  /\ (s.pc = "idle" => s.op = NoOp /\ s.buf = <<>>)

\* the schedule still to come lies strictly in the future, in order
PendFuture ==
  /\ \A i \in 1..Len(s.pend) : s.pend[i].at > s.now
  /\ \A i \in 1..Len(s.pend) - 1 : s.pend[i].at < s.pend[i + 1].at

\* "returns None ... when there is no active terminal": and nothing is touched
NoTerminalNothing == ~s.tty => s = InitState(FALSE, s.techo, <<>>, <<>>)
NoTerminalNone == [][~s.tty => s' = s /\ out'.a = "NoTerminal" /\ out'.none /\ ~out'.hung]_vars

\* input that arrives in pieces is concatenated in order, nothing is lost or duplicated; what
\* callers got + what the call in progress holds + what is queued = what has arrived
NothingLostOrDuplicated ==
  /\ s.arrived = s.taken \o s.inq
  /\ s.taken = s.rets \o s.buf
  /\ s.arrived \o Cat([i \in 1..Len(s.pend) |-> s.pend[i].data]) = StreamOf(s.sched)

\* the returned buffer is (the next) part of what had arrived by the return time
ResultArrivedInTime ==
  Returning => IsPrefix(s.rets \o s.buf, ArrivedBy(Sched, s.now))

\* the caller gets exactly the buffer, at once; bytes not consumed stay in the terminal's input
\* queue for the next reader
LeftoverStaysQueued ==
  [][Returning => /\ out'.a = "Return" /\ out'.res = s.buf /\ ~out'.none
                  /\ s'.now = s.now /\ s'.rets = s.rets \o s.buf
                  /\ s'.inq = s.inq /\ s'.pend = s.pend
                  /\ s'.inq = Drop(ArrivedBy(Sched, s'.now), Len(s'.rets))]_vars

\* "min: Causes to block until at least the given number of bytes have been read"
MinBytes ==
  Returning /\ TimedCall => Len(s.buf) >= s.op.min

\* "If timeout is None (default), all available input is read without blocking" / read_tty_all()
NonBlocking ==
  Returning /\ ~TimedCall => s.now = s.t0 /\ s.inq = <<>>

\* a positive timeout bounds the TOTAL wait (the leftover applies after `min` bytes were read)
WaitBounded ==
  Returning /\ Timed(s) => s.now <= Max2(Deadline(s), s.tm)

\* a call with a timeout returns because `more` said stop or because the timeout is up
ReturnReason ==
  Returning /\ TimedCall => ~More(s.op, s.buf) \/ TimeIsUp(s)

\* "False, the input received so far is returned immediately": nothing is read past the point
\* where more() says stop (the rest stays for the next reader)
StopsWhenToldTo ==
  Returning /\ TimedCall => \A n \in s.op.min..(Len(s.buf) - 1) : More(s.op, Take(s.buf, n))

\* minimality: the call never waits while the documented return condition holds ...
NeverWaitsInVain ==
  s.pc = "wait" => /\ More(s.op, s.buf) /\ Len(s.buf) >= s.op.min
                   /\ s.inq = <<>> => ~TimeIsUp(s)      \* (a byte that arrived AT the deadline: DeadlineRace)
\* ... time passes only between calls or while a reader legitimately waits, and never beyond
\* its deadline
TimePasses ==
  [][s'.now # s.now =>
       \/ s.pc = "idle"
       \/ s.pc = "minwait" /\ Len(s.inq) < s.op.min
       \/ s.pc = "wait" /\ s.inq = <<>> /\ (Timed(s) => s'.now <= Deadline(s))]_vars

\* "echo: If True, any input while waiting is printed unto the screen.  Any input before or
\* after calling this function is not affected."
EchoDuringReadOnly ==
  s.echo = IF Reading THEN s.op.echo ELSE s.techo

\* more(buffer) is consulted with the accumulated buffer: never fewer than `min` bytes, a
\* growing prefix, and an early return is decided on exactly the returned value
ConsultsSeeBuffer ==
  /\ \A i \in 1..Len(s.cl) : s.cl[i] >= s.op.min /\ s.cl[i] <= Len(s.buf)
  /\ \A i \in 1..Len(s.cl) - 1 : s.cl[i] < s.cl[i + 1]
  /\ Returning /\ Observable(s.op) /\ TimedCall /\ ~TimeIsUp(s)
     => s.cl # <<>> /\ Last(s.cl) = Len(s.buf)

\* write_tty: "Writes to the active terminal and waits until complete transmission": everything
\* reaches the terminal, in order, completely (a partial write is continued), before the return
WriteInOrder ==
  /\ IsPrefix(s.wire \o s.wbuf, s.wsent)
  /\ Writing => s.wire \o s.wbuf \o s.wrem = s.wsent
WriteComplete ==
  ~Writing => s.wire = s.wsent /\ s.wbuf = <<>>

\* reading does not touch the output side, writing does not touch the input side or the clock
ReadTouchesOnlyInput ==
  [][s.pc \in ReaderPcs => s'.wire = s.wire /\ s'.wbuf = s.wbuf /\ s'.wsent = s.wsent]_vars
WriteTouchesOnlyOutput ==
  [][s'.pc \in WriterPcs \/ s.pc \in WriterPcs =>
       /\ s'.now = s.now /\ s'.inq = s.inq /\ s'.pend = s.pend /\ s'.echo = s.echo
       /\ s'.elog = s.elog /\ s'.taken = s.taken /\ s'.rets = s.rets]_vars

\* a call blocks for ever only where the documentation says it waits without limit: `min` bytes
\* not there yet, or a negative timeout while more() keeps asking - and only if nothing comes
BlocksOnlyWhenDocumented ==
  s.pc = "hung" =>
    /\ s.pend = <<>> /\ IsRead(s.op) /\ s.op.tmo # TNone
    /\ \/ Len(s.buf) < s.op.min /\ Len(s.inq) < s.op.min
       \/ s.op.tmo = TInf /\ More(s.op, s.buf) /\ s.inq = <<>>
=============================================================================
