"""Real-code side of Trace_Draw.tla: run draw() (both APIs) against a capturing, optionally
faulting, stdout and record everything the C06 / C07 clauses need.

Operations are counted in the order draw() issues them: stream ``write`` / ``flush``, ``sleep``
and frame ``render`` calls share one counter, so "the k-th operation" is well defined and a
fault plan (k, prefix, kind) is deterministic.
"""

from __future__ import annotations

import gc
import os
import sys
import termios
from pathlib import Path

from . import imgs, iterkit, lexer

_PTY = None


def pty_slave() -> int:
    """One pty per process; its slave is the 'tty' that termios calls operate on."""
    global _PTY
    if _PTY is None:
        _PTY = os.openpty()
    return _PTY[1]


def set_tty_mode(mode: str) -> None:
    """Initial attribute set of the pty: default (canonical, echo) / noecho / raw / cbreak05."""
    fd = pty_slave()
    a = termios.tcgetattr(fd)
    if mode == "noecho":
        a[3] &= ~termios.ECHO
    elif mode == "raw":
        a[3] &= ~(termios.ECHO | termios.ICANON | termios.ISIG)
        a[6][termios.VMIN], a[6][termios.VTIME] = 0, 0
    elif mode == "cbreak05":
        a[3] &= ~termios.ICANON
        a[6][termios.VMIN], a[6][termios.VTIME] = 0, 5
    termios.tcsetattr(fd, termios.TCSANOW, a)


class Fault(BaseException):
    """Marker base so that the harness can tell its own injected exceptions."""


class InjectedError(Exception):
    pass


class Recorder:
    """Shared op counter + fault plan."""

    def __init__(self, fault=None):
        self.ops: list[tuple] = []  # (kind, detail)
        self.fault = fault  # dict(k=int, p=int, kind="kbint"|"exc") or None
        self.fired = False
        # events that are not crash points and do not take part in the numbering of operations:
        # (name, number of operations issued before it), e.g. ("finalize", 7)
        self.marks: list[tuple] = []

    def hit(self, kind, detail=None) -> bool:
        """Register an op; True if the fault plan fires on it."""
        self.ops.append((kind, detail))
        f = self.fault
        if f and not self.fired and len(self.ops) == f["k"]:
            self.fired = True
            return True
        return False

    def exc(self):
        return KeyboardInterrupt() if self.fault["kind"] == "kbint" else InjectedError("injected fault")


class Capture:
    """sys.stdout stand-in: records what reaches the terminal; may fail at the k-th op."""

    encoding = "utf-8"

    def __init__(self, rec: Recorder, tty: bool):
        self.rec = rec
        self.tty = tty
        self.delivered: list[str] = []

    def write(self, s):
        if self.rec.hit("write", s):
            p = min(self.rec.fault.get("p", 0), len(s))
            self.delivered.append(s[:p])
            raise self.rec.exc()
        self.delivered.append(s)
        return len(s)

    def flush(self):
        if self.rec.hit("flush"):
            raise self.rec.exc()

    def isatty(self):
        return self.tty

    def fileno(self):
        if not self.tty:
            raise OSError("not a tty")
        return pty_slave()

    def text(self):
        return "".join(self.delivered)


# ------------------------------------------------------------------------------------
# new API: an instrumented renderable


def draw_probe_class():
    C = iterkit.classes()
    if "DrawProbe" in C:
        return C["DrawProbe"]
    Probe = C["Probe"]

    class DrawProbe(Probe):
        rec: Recorder | None = None
        size_wh = (2, 1)
        fail_finalize = False  # the finalizer hook of a renderable subclass may raise
        finalize_raised = False
        # every RenderData generated for the draw() under observation stays referenced HERE until
        # the next run starts: whether draw() itself finalized it is read off the live object the
        # moment draw() returns / raises (RenderData.__del__ finalizes on collection, which would
        # otherwise make an unfinalized instance look finalized as soon as draw()'s frame dies)
        live_data: list = []
        cur_rec: Recorder | None = None

        def _get_render_data_(self, *, iteration):
            data = super()._get_render_data_(iteration=iteration)
            DrawProbe.live_data.append(data)
            return data

        @classmethod
        def _finalize_render_data_(cls, render_data):
            rec = DrawProbe.cur_rec
            if rec is not None and any(render_data is d for d in DrawProbe.live_data):
                rec.marks.append(("finalize", len(rec.ops)))
            super()._finalize_render_data_(render_data)
            if DrawProbe.fail_finalize:
                DrawProbe.finalize_raised = True
                raise InjectedError("injected fault in _finalize_render_data_")

        def _get_render_size_(self):
            from term_image.geometry import Size

            return Size(*self.size_wh)

        def _render_(self, render_data, render_args):
            if self.rec is not None and self.rec.hit("render"):
                raise self.rec.exc()
            return super()._render_(render_data, render_args)

    C["DrawProbe"] = DrawProbe
    return DrawProbe


def run_new(case: dict, fault=None) -> dict:
    """case: rw, rh, frames, loops, cache, pad (RenderIter-style padding record), cols, rows,
    tty, animate, check_size, allow_scroll, hide_cursor, echo_input"""
    import term_image.renderable._renderable as R

    from .env import stubs

    stubs.set_term(size=(case["cols"], case["rows"]))
    hook = (fault or {}).get("hook")
    rec = Recorder(None if hook else fault)
    DrawProbe = draw_probe_class()
    DrawProbe.fail_finalize, DrawProbe.finalize_raised = hook == "finalize", False
    DrawProbe.cur_rec = None
    del DrawProbe.live_data[:]  # (an instance the previous run left unfinalized dies here)
    p = DrawProbe(case["frames"])
    p.size_wh = (case["rw"], case["rh"])
    p.rec = rec
    if case["frames"] > 1 and case.get("seek"):
        p.seek(case["seek"])
    cap = Capture(rec, case["tty"])

    def fake_sleep(_s):
        if rec.hit("sleep"):
            raise rec.exc()

    R.sleep = fake_sleep
    # hook "tcsetattr": the attribute set-up of draw() (its FIRST tcsetattr call, issued between
    # the hide-cursor write and the first frame) fails / is interrupted; later calls are real
    real_termios, setup = R.termios, {"fired": False}
    if hook == "tcsetattr":

        class TermiosProxy:
            def __getattr__(self, name):
                return getattr(real_termios, name)

            def tcsetattr(self, fd, when, attr):
                if not setup["fired"]:
                    setup["fired"] = True
                    raise KeyboardInterrupt() if fault["kind"] == "kbint" else InjectedError("injected fault in tcsetattr")
                return real_termios.tcsetattr(fd, when, attr)

        R.termios = TermiosProxy()
    fin0 = dict(DrawProbe.finalize_log)
    pristine = termios.tcgetattr(pty_slave())
    set_tty_mode(case.get("tty_mode", "default"))
    before = termios.tcgetattr(pty_slave())
    tell0, size0 = p.tell(), tuple(p.render_size)
    outcome = "ok"
    old = sys.stdout
    sys.stdout = cap
    DrawProbe.cur_rec = rec
    fin_live, marks = False, []
    try:
        try:
            p.draw(
                None,
                iterkit.make_padding(case["pad"]),
                animate=case.get("animate", True),
                loops=case.get("loops", 1),
                cache=case.get("cache", False),
                check_size=case.get("check_size", True),
                allow_scroll=case.get("allow_scroll", False),
                hide_cursor=case.get("hide_cursor", True),
                echo_input=case.get("echo_input", False),
            )
        except BaseException as e:  # noqa: BLE001
            outcome = type(e).__name__
        finally:
            # observed at the very moment draw() is over, on the live instances; a draw() rejected
            # by its validation before any render data exists has nothing to finalize
            DrawProbe.cur_rec = None
            fin_live = all(d.finalized for d in DrawProbe.live_data)
            marks = list(rec.marks)
    finally:
        sys.stdout = old
        DrawProbe.fail_finalize = False
        R.termios = real_termios
    gc.collect()
    after = termios.tcgetattr(pty_slave())
    termios.tcsetattr(pty_slave(), termios.TCSANOW, pristine)
    fins = sum(v - fin0.get(k, 0) for k, v in DrawProbe.finalize_log.items())
    return {
        "text": cap.text(),
        "ops": rec.ops,
        "outcome": outcome,
        "attrs_equal": after == before,
        "fin": fins,
        "fin_live": fin_live,
        "marks": marks,
        "state_same": p.tell() == tell0 and tuple(p.render_size) == size0,
        "fired": setup["fired"] if hook == "tcsetattr" else DrawProbe.finalize_raised if hook else rec.fired,
        "stale": any(r[5] for r in p.renders),
    }


# ------------------------------------------------------------------------------------
# old API: real image classes on generated animated / still files

_files: dict = {}


def image_file(frames: int, w: int = 6, h: int = 6, noise: bool = False) -> str:
    """noise: every pixel random (fixed seed) - a payload zlib cannot shrink, so that the size of
    a kitty transmission is controlled by the pixel dimensions with AND without compression."""
    key = (frames, w, h, noise)
    if key not in _files:
        d = imgs.tmpdir("draw") if not _files else Path(next(iter(_files.values()))).parent
        path = d / f"f{frames}-{w}x{h}{'n' if noise else ''}.{'gif' if frames > 1 else 'png'}"
        from PIL import Image

        if noise:
            import random

            def noisy(i):
                rng = random.Random(7919 * i + w * 131 + h)
                return Image.frombytes("RGB", (w, h), bytes(rng.randrange(256) for _ in range(w * h * 3)))

            if frames > 1:
                fr = [noisy(i).quantize(256) for i in range(frames)]
                fr[0].save(path, "GIF", save_all=True, append_images=fr[1:], duration=40, loop=0)
            else:
                noisy(0).save(path)
        elif frames > 1:
            fr = [Image.new("RGB", (w, h), FRAME_COLORS[i % len(FRAME_COLORS)]) for i in range(frames)]
            fr[0].save(path, "GIF", save_all=True, append_images=fr[1:], duration=40, loop=0)
        else:
            Image.new("RGB", (w, h), FRAME_COLORS[0]).save(path)
        _files[key] = str(path)
    return _files[key]


FRAME_COLORS = [(204, 0, 0), (0, 153, 0), (0, 0, 204), (204, 204, 0)]


def frame_color(path: str, i: int):
    from PIL import Image

    with Image.open(path) as im:
        if getattr(im, "is_animated", False):
            im.seek(i)
        return list(im.convert("RGB").getpixel((0, 0)))


def run_old(case: dict, fault=None) -> dict:
    """case: style, ident, frames, rw, rh, h_align, pad_width, v_align, pad_height, repeat,
    cached, cols, rows, tty, animate, scroll, check_size, method"""
    import term_image.image.common as common
    import term_image.image.iterm2 as iterm2
    import term_image.image.kitty as kitty

    from . import renderkit
    from .env import stubs

    stubs.set_identity(case["ident"])
    stubs.set_term(size=(case["cols"], case["rows"]), cell=case.get("cell"))
    rec = Recorder(fault)
    cls = renderkit.image_class(case["style"])
    path = image_file(case["frames"], *case.get("src", (6, 6)), noise=case.get("noise", False))

    class Faulty(cls):  # counts frame renders, may fail at the k-th operation
        def _render_image(self, *a, **kw):
            if rec.hit("render"):
                raise rec.exc()
            return super()._render_image(*a, **kw)

    Faulty.__name__ = cls.__name__
    image = Faulty.from_file(path, width=case["rw"], height=case["rh"])
    if case.get("method"):
        image.set_render_method(case["method"])
    if case.get("dynamic"):
        from term_image.image import Size

        image.size = getattr(Size, case["dynamic"])
    if case.get("seek") and case["frames"] > 1:
        image.seek(case["seek"])
    cap = Capture(rec, case["tty"])

    class FakeTime:
        @staticmethod
        def time():
            return 0.0

        @staticmethod
        def sleep(_s):
            if rec.hit("sleep"):
                raise rec.exc()

    old_time = common.time
    common.time = FakeTime
    # the library binds `_stdout_write = sys.stdout.write` at import time (used by clear());
    # draw() writes to the sys.stdout of the time of the call - anything that reaches the
    # import-time stream during a draw went to the wrong place
    # The one legitimate user during a draw is clear() (the per-frame delete of kitty
    # animations); it is delivered to the capture as before.  Anything else that takes that
    # route (e.g. the terminator of an interrupted transmission) is recorded as misdirected.
    stale: list[str] = []

    def import_time_stdout(s):
        from . import lexer

        st = lexer.lex(s)
        only_deletes = bool(st.toks) and all(
            t["k"] == "kitty" and st.gfx[t["x"]]["a"] == "d" for t in st.toks)
        if not only_deletes:
            stale.append(s)
        return sys.stdout.write(s)

    kitty._stdout_write = import_time_stdout
    iterm2._stdout_write = import_time_stdout
    before = termios.tcgetattr(pty_slave())
    tell0, size0 = image.tell(), image.size
    outcome = "ok"
    old = sys.stdout
    sys.stdout = cap
    try:
        try:
            image.draw(
                case.get("h_align"),
                case.get("pad_width", 0),
                case.get("v_align"),
                case.get("pad_height", -2),
                animate=case.get("animate", True),
                repeat=case.get("repeat", 1),
                cached=case.get("cached", False),
                scroll=case.get("scroll", False),
                check_size=case.get("check_size", True),
                **case.get("style_args", {}),
            )
        except BaseException as e:  # noqa: BLE001
            outcome = type(e).__name__
    finally:
        sys.stdout = old
        common.time = old_time
    after = termios.tcgetattr(pty_slave())
    if after != before:
        termios.tcsetattr(pty_slave(), termios.TCSANOW, before)
    res = {
        "text": cap.text(),
        "ops": rec.ops,
        "outcome": outcome,
        "attrs_equal": after == before,
        "fin": 1,  # the old API has no render data
        "fin_live": True,
        "marks": [],
        "state_same": image.tell() == tell0 and image.size == size0,
        "fired": rec.fired,
        "stale": False,
        "stale_out": "".join(stale),
        "path": path,
    }
    image.close()
    return res


# ------------------------------------------------------------------------------------
# helpers shared by the drivers


def is_substantive(op) -> bool:
    kind, data = op
    if kind in ("render", "sleep"):
        return True
    if kind == "write" and data:
        # frame content: letters, colours, graphics commands
        if any(c.isalpha() for c in _strip_csi(data)):  # (CSI sequences are stripped first)
            return True
        if "\x1b_G" in data or "\x1b]1337" in data or "\x1b[48;2" in data or "\x1b[38;2" in data:
            return True
    return False


def _strip_csi(s: str) -> str:
    import re

    return re.sub(r"\x1b\[[0-9;?]*[A-Za-z]", "", s)


def cleanup_boundary(ops) -> int:
    """Number of operations issued before draw()'s own clean-up starts (1-based count)."""
    last = 0
    for i, op in enumerate(ops, 1):
        if is_substantive(op):
            last = i
            # the flush that pushes this write out belongs to it
            if op[0] == "write" and i < len(ops) and ops[i][0] == "flush":
                last = i + 1
            elif op[0] == "write" and i + 1 < len(ops) and ops[i][0] == "write" and ops[i][1] == "" and ops[i + 1][0] == "flush":
                last = i + 2
    return last


def cut_positions(data: str, every: bool) -> list[int]:
    """Representative (or all) prefix lengths for an interrupted write of ``data``."""
    n = len(data)
    if every or n <= 12:
        return list(range(0, n + 1))
    pos = {0, 1, n - 1, n}
    i = 0
    classes = 0
    while i < n and classes < 40:
        if data[i] == "\x1b":
            pos.add(i + 1)  # right after an ESC
            if i + 1 < n and data[i + 1] == "[":
                pos.add(min(i + 4, n))  # inside CSI parameters
            if i + 1 < n and data[i + 1] in "_]":
                pos.add(min(i + 12, n))  # inside the control data of a string sequence
                pos.add(min(i + 40, n))  # inside its payload
            if i + 1 < n and data[i + 1] == "\\":
                pos.add(min(i + 2, n))  # right after a complete ST
            classes += 1
        i += 1
    return sorted(p for p in pos if 0 <= p <= n)


def lex_checked(text: str):
    st = lexer.lex(text)
    return st
