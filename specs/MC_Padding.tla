----------------------------- MODULE MC_Padding -----------------------------
(***************************************************************************)
(* C05, design level + spec -> code dump.                                   *)
(*                                                                         *)
(* One behaviour = one API operation applied to one padding OBJECT: Init,    *)
(* then exactly one NAMED action which records in `out` the operation, the  *)
(* object and the table of specified results over EVERY render size (or     *)
(* terminal size) within the constants.  (One state per single evaluation   *)
(* was measured first: 87 000 PrintT calls cost 25 s; one state per object  *)
(* with a result table enumerates exactly the same evaluations.)  TLC       *)
(* checks the property clauses as invariants over every table entry and     *)
(* prints every reached `out` as an EDGE line; harness/drivers/c05.py        *)
(* replays each entry into the REAL get_padded_size / to_exact / resolve /  *)
(* _get_exact_dimensions_ / ExactPadding(...) / _check_formatting and       *)
(* requires equal results.                                                  *)
(***************************************************************************)
EXTENDS Padding, FiniteSets, TLC, Json

CONSTANTS MaxRW, MaxRH,       \* render sizes 1..MaxRW x 1..MaxRH
          NegMin, MaxMin,     \* minimum render dimensions -NegMin..MaxMin per axis
          TermWLo, TermWHi, TermHLo, TermHHi,   \* terminal sizes
          ExactHi,            \* exact margins 0..ExactHi (constructor: -2..ExactHi)
          ChainAll            \* TRUE: resolve-then-evaluate over every terminal, else the 2 corners

VARIABLES out, grp   \* grp: work-sharing only (one initial state per group, so that all TLC
                     \* workers generate successors); it selects the first dimension of the object
vars == <<out, grp>>

RS == {Sz(w, h) : w \in 1..MaxRW, h \in 1..MaxRH}
Mins == (0 - NegMin)..MaxMin
Terms == {Sz(w, h) : w \in TermWLo..TermWHi, h \in TermHLo..TermHHi}
ChainTerms == IF ChainAll THEN Terms ELSE {Sz(TermWLo, TermHLo), Sz(TermWHi, TermHHi)}

AlignedAll == {Aligned(w, h, ha, va) : w \in Mins, h \in Mins, ha \in HAligns, va \in VAligns}
AlignedAbs == {p \in AlignedAll : ~IsRelative(p)}
AlignedRel == {p \in AlignedAll : IsRelative(p)}
ExactAll == {Exact(l, t, r, b) : l \in 0..ExactHi, t \in 0..ExactHi, r \in 0..ExactHi, b \in 0..ExactHi}

OldHIn == {"none", "<", "|", ">", "left", "center", "right", "middle", ""}
OldVIn == {"none", "^", "-", "_", "top", "middle", "bottom", "center", ""}

\* uniform record (JSON objects of one kind must have the same keys)
U(p) == IF p.kind = "exact"
          THEN [kind |-> "exact", w |-> 0, h |-> 0, ha |-> "", va |-> "", l |-> p.l, t |-> p.t, r |-> p.r, b |-> p.b]
          ELSE [kind |-> "aligned", w |-> p.w, h |-> p.h, ha |-> p.ha, va |-> p.va, l |-> 0, t |-> 0, r |-> 0, b |-> 0]
OfU(u) == IF u.kind = "exact" THEN Exact(u.l, u.t, u.r, u.b) ELSE Aligned(u.w, u.h, u.ha, u.va)

NoPad == Aligned(1, 1, "center", "middle")
Z == Sz(0, 0)

\* canonical enumerations of the render sizes / terminal sizes as sequences
RSeq == [i \in 1..(MaxRW * MaxRH) |-> Sz(((i - 1) % MaxRW) + 1, ((i - 1) \div MaxRW) + 1)]
TW == TermWHi - TermWLo + 1
TH == TermHHi - TermHLo + 1
TSeq == [i \in 1..(TW * TH) |-> Sz(TermWLo + ((i - 1) % TW), TermHLo + ((i - 1) \div TW))]
ASSUME {RSeq[i] : i \in DOMAIN RSeq} = RS /\ {TSeq[i] : i \in DOMAIN TSeq} = Terms

\* one table entry: the arguments besides the padding object, the resolved padding the
\* result is about, and the specified result
Entry(rs, term, q, res) == [rs |-> rs, term |-> term, q |-> U(q), res |-> res]

Out(act, op, p, a, tab) == [act |-> act, op |-> op, p |-> U(p), a |-> a, tab |-> tab]

Init == grp \in Mins /\ out = Out("Init", "init", NoPad, <<>>, <<>>)

EvalTab(p) == [i \in DOMAIN RSeq |-> Entry(RSeq[i], Z, p, ApiEval(p, RSeq[i]))]

(* --- one named action per API operation / input class ------------------- *)

\* AlignedPadding(...).resolve(os.terminal_size(term)), every terminal
ResolveOp ==
  /\ out.op = "init" /\ UNCHANGED grp
  /\ \E p \in {x \in AlignedAll : x.w = grp} :
       out' = Out("ResolveOp", "resolve", p, <<>>,
                  [i \in DOMAIN TSeq |-> Entry(Z, TSeq[i], Resolve(p, TSeq[i]), ApiResolve(p, TSeq[i]))])

\* get_padded_size / to_exact / _get_exact_dimensions_ on an absolute AlignedPadding,
\* every render size
EvalAligned ==
  /\ out.op = "init" /\ UNCHANGED grp
  /\ \E p \in {x \in AlignedAbs : x.w = grp} : out' = Out("EvalAligned", "eval", p, <<>>, EvalTab(p))

\* ... on a relative one: every operation raises
EvalRelative ==
  /\ out.op = "init" /\ UNCHANGED grp
  /\ \E p \in {x \in AlignedRel : x.w = grp} : out' = Out("EvalRelative", "eval", p, <<>>, EvalTab(p))

\* ... on an ExactPadding
EvalExact ==
  /\ out.op = "init" /\ UNCHANGED grp
  /\ \E p \in {x \in ExactAll : x.l = grp} : out' = Out("EvalExact", "eval", p, <<>>, EvalTab(p))

\* the documented use: resolve against the terminal, then evaluate for every render size
Chain ==
  /\ out.op = "init" /\ UNCHANGED grp
  /\ \E p \in {x \in AlignedRel : x.w = grp}, term \in ChainTerms :
       LET q == Resolve(p, term)
       IN out' = Out("Chain", "chain", p, <<>>,
                     [i \in DOMAIN RSeq |-> Entry(RSeq[i], term, q, ApiEval(q, RSeq[i]))])

\* ExactPadding(l, t, r, b)
NewExact ==
  /\ out.op = "init" /\ UNCHANGED grp
  /\ \E l \in {grp} \cap ((0 - 2)..ExactHi), t \in (0 - 2)..ExactHi, r \in (0 - 2)..ExactHi, b \in (0 - 2)..ExactHi :
       out' = Out("NewExact", "newexact", NoPad, <<l, t, r, b>>, <<Entry(Z, Z, NoPad, ApiNewExact(l, t, r, b))>>)

\* old API: BaseImage._check_formatting(None, w, None, h), every terminal size
CheckFormattingDims ==
  /\ out.op = "init" /\ UNCHANGED grp
  /\ \E w \in {grp}, h \in Mins :
       out' = Out("CheckFormattingDims", "checkfmt", OldApiPadding("none", w, "none", h), <<"none", "none">>,
                  [i \in DOMAIN TSeq |->
                     Entry(Z, TSeq[i], NoPad, ApiCheckFormatting("none", w, "none", h, TSeq[i]))])

\* old API: alignment names
CheckFormattingAlign ==
  /\ out.op = "init" /\ UNCHANGED grp
  /\ \E ha \in {x \in OldHIn : grp = 1}, va \in OldVIn :
       out' = Out("CheckFormattingAlign", "checkfmt", OldApiPadding(ha, 1, va, 1), <<ha, va>>,
                  <<Entry(Z, TSeq[1], NoPad, ApiCheckFormatting(ha, 1, va, 1, TSeq[1]))>>)

Next ==
  \/ ResolveOp \/ EvalAligned \/ EvalRelative \/ EvalExact \/ Chain
  \/ NewExact \/ CheckFormattingDims \/ CheckFormattingAlign

Spec == Init /\ [][Next]_vars

(* --- the property clauses (one INVARIANT line each), over every table entry *)

\* (quantifying over indices: building the SET of entries costs a normalisation per clause)
Evaluated(e) == out.op \in {"eval", "chain"} /\ e.res.err = ""
EvAligned(e) == Evaluated(e) /\ e.q.kind = "aligned"

\* padded size = max(render, minimum) per axis, and is what the four margins add up to
WidthIsMax ==
  \A ix \in DOMAIN out.tab : LET e == out.tab[ix] IN EvAligned(e) =>
    /\ e.res.dims.l + e.rs.w + e.res.dims.r = PMax(e.rs.w, e.q.w)
    /\ e.res.padded.w = PMax(e.rs.w, e.q.w)
HeightIsMax ==
  \A ix \in DOMAIN out.tab : LET e == out.tab[ix] IN EvAligned(e) =>
    /\ e.res.dims.t + e.rs.h + e.res.dims.b = PMax(e.rs.h, e.q.h)
    /\ e.res.padded.h = PMax(e.rs.h, e.q.h)
MarginsNonNegative ==
  \A ix \in DOMAIN out.tab : LET e == out.tab[ix] IN Evaluated(e) =>
    e.res.dims.l >= 0 /\ e.res.dims.t >= 0 /\ e.res.dims.r >= 0 /\ e.res.dims.b >= 0

\* alignment: LEFT/TOP put everything after, RIGHT/BOTTOM before, CENTER/MIDDLE split with
\* the odd column/line going after (floor)
AlignmentPlaces ==
  \A ix \in DOMAIN out.tab : LET e == out.tab[ix] IN EvAligned(e) =>
    LET dd == e.res.dims IN
    /\ (e.q.ha = "left" => dd.l = 0) /\ (e.q.ha = "right" => dd.r = 0)
    /\ (e.q.ha = "center" => dd.r - dd.l \in {0, 1})
    /\ (e.q.va = "top" => dd.t = 0) /\ (e.q.va = "bottom" => dd.b = 0)
    /\ (e.q.va = "middle" => dd.b - dd.t \in {0, 1})

\* to_exact is equivalent for the given render size and no longer depends on any
ToExactAgrees ==
  \A ix \in DOMAIN out.tab : LET e == out.tab[ix] IN Evaluated(e) =>
    /\ e.res.exact = e.res.dims
    /\ \A rs2 \in {Sz(1, 1), Sz(MaxRW, MaxRH), Sz(e.rs.h, e.rs.w)} :
         Dims(ToExact(OfU(e.q), e.rs), rs2) = e.res.dims

\* a minimum dimension <= the render dimension has no effect on that axis
NoEffectWhenNotLarger ==
  \A ix \in DOMAIN out.tab : LET e == out.tab[ix] IN EvAligned(e) =>
    LET dd == e.res.dims IN
    /\ (e.q.w <= e.rs.w => dd.l = 0 /\ dd.r = 0 /\ e.res.padded.w = e.rs.w)
    /\ (e.q.h <= e.rs.h => dd.t = 0 /\ dd.b = 0 /\ e.res.padded.h = e.rs.h)

ExactIsExact ==
  \A ix \in DOMAIN out.tab : LET e == out.tab[ix] IN Evaluated(e) /\ e.q.kind = "exact" =>
    /\ e.res.dims = D4(e.q.l, e.q.t, e.q.r, e.q.b)
    /\ e.res.padded = Sz(e.q.l + e.rs.w + e.q.r, e.q.t + e.rs.h + e.q.b)

\* relative dimensions: only resolve() works; it yields max(terminal + d, 1), keeps absolute
\* dimensions and alignments, is idempotent and independent of the terminal afterwards
RelativeRefused ==
  \A ix \in DOMAIN out.tab : LET e == out.tab[ix] IN
    out.op = "eval" /\ out.p.kind = "aligned" /\ ~(out.p.w > 0 /\ out.p.h > 0) => e.res.err = RelErr
ResolveRule ==
  \A ix \in DOMAIN out.tab : LET e == out.tab[ix] IN out.op \in {"resolve", "chain"} =>
    /\ e.q.w = (IF out.p.w > 0 THEN out.p.w ELSE PMax(e.term.w + out.p.w, 1))
    /\ e.q.h = (IF out.p.h > 0 THEN out.p.h ELSE PMax(e.term.h + out.p.h, 1))
    /\ e.q.w >= 1 /\ e.q.h >= 1 /\ e.q.ha = out.p.ha /\ e.q.va = out.p.va
    /\ (out.op = "resolve" => e.res.w = e.q.w /\ e.res.h = e.q.h /\ e.res.rel = FALSE)
ResolveIdempotent ==
  \A ix \in DOMAIN out.tab : LET e == out.tab[ix] IN out.op = "resolve" =>
    LET q == OfU(e.q) IN ~IsRelative(q) /\ \A t2 \in {e.term, TSeq[1], TSeq[TW * TH]} : Resolve(q, t2) = q

NegativeExactRejected ==
  \A ix \in DOMAIN out.tab : LET e == out.tab[ix] IN out.op = "newexact" =>
    IF \E i \in 1..4 : out.a[i] < 0 THEN e.res.err = "ValueError"
    ELSE e.res.err = "" /\ e.res.dims = D4(out.a[1], out.a[2], out.a[3], out.a[4])

\* the old API resolves its width/height arguments by the same rule
OldApiAgrees ==
  \A ix \in DOMAIN out.tab : LET e == out.tab[ix] IN out.op = "checkfmt" /\ e.res.err = "" =>
    LET q == Resolve(OfU(out.p), e.term)
    IN e.res.w = q.w /\ e.res.h = q.h /\ OldHAlign(e.res.ha) = out.p.ha
       /\ OldVAlign(e.res.va) = out.p.va

(* --- spec -> code dump: positional, one line per state -------------------- *)
(* ["action", "op", P(p), a, [ [rsw, rsh, tw, th, P(q), R(res)] ... ]],                  *)
(* P = [kind, w, h, ha, va, l, t, r, b]                                        *)
PT(p) == <<p.kind, p.w, p.h, p.ha, p.va, p.l, p.t, p.r, p.b>>
D4T(x) == <<x.l, x.t, x.r, x.b>>
RT(op, res) ==
  CASE op \in {"eval", "chain"} -> <<res.err, D4T(res.dims), <<res.padded.w, res.padded.h>>, D4T(res.exact)>>
    [] op = "resolve" -> <<res.err, res.w, res.h, res.rel>>
    [] op = "newexact" -> <<res.err, D4T(res.dims)>>
    [] op = "checkfmt" -> <<res.err, res.ha, res.w, res.va, res.h>>
ET(op, e) == <<e.rs.w, e.rs.h, e.term.w, e.term.h, PT(e.q), RT(op, e.res)>>
Dump == out.op # "init" =>
  PrintT(<<"EDGE", ToJson(<<out.act, out.op, PT(out.p), out.a, [i \in DOMAIN out.tab |-> ET(out.op, out.tab[i])]>>)>>)
=============================================================================
