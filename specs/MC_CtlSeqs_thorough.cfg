SPECIFICATION Spec
CONSTANTS
  COLS = 3
  ROWS = 2
  MaxWeight = 2
  Ns = {0, 1, 2}
  Zs = {0, 5}
  NColours = 2
CONSTRAINT Bounded
VIEW View
PROPERTY TokensHaveTheDocumentedEffect
PROPERTY BuildersMoveExactly
PROPERTY MovesAreInverse
PROPERTY TemplateZeroMeansOne
PROPERTY BuilderIsTemplateForPositive
PROPERTY EraseExactly
PROPERTY ColourTemplatesSetOneLayer
INVARIANT ResetClears
PROPERTY HideShowOnlyVisibility
INVARIANT HideThenShow
INVARIANT SyncBracketsNest
PROPERTY DeletesRemoveExactlyTheAddressed
PROPERTY RequestsAreInvisible
PROPERTY EndChunkedCloses
INVARIANT ErrorsOnlyByMisuse
INVARIANT OnScreen
CHECK_DEADLOCK FALSE
