SPECIFICATION Spec
CONSTANTS
  Rich = FALSE
  ClsSet = {"ITerm2Image"}
VIEW View
ACTION_CONSTRAINT Dump
INVARIANT InitDump
INVARIANT StateDump
CHECK_DEADLOCK FALSE
