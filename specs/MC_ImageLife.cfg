SPECIFICATION Spec
CONSTANTS
  Rich = TRUE
  ClsSet = {"BlockImage", "KittyImage", "ITerm2Image", "SubKittyImage"}
VIEW View
INVARIANT TypeOK
INVARIANT NonAnimatedIgnoresAnimationState
INVARIANT UnbornIsBlank
INVARIANT RenderedConsistent
INVARIANT WidthHeightMirrorSize
INVARIANT PilOnlyForPilSources
PROPERTY RejectedChangesNothing
PROPERTY OnlyOwnAttributesChange
PROPERTY FinalizedForever
PROPERTY OnlyCloseFinalizes
PROPERTY CloseAlwaysAccepted
PROPERTY FinalizedRefuses
PROPERTY FinalizedStillSets
PROPERTY FrameCountComputedOnce
PROPERTY SeekLaw
PROPERTY SeekInitialisedFromSource
PROPERTY PilSeekIndependent
PROPERTY SizeKindLaw
PROPERTY ConstructorSizeLaw
PROPERTY ManualStoredAsGiven
PROPERTY FrameDurationLaw
CHECK_DEADLOCK FALSE
