"""Seeded mutations for X05 (the control-sequence vocabulary, src/term_image/_ctlseqs.py).

    /venv/bin/python -m selftest.mutations_x05 [id ...] [--thorough]

Every mutant is applied to a scratch copy of /repo/src and `./check X05` is aimed at it through
VERIF_REPO.  A mutant counts as caught when the check exits 1 with a VIOLATION line; the two
`guard-*` entries are not regressions of a documented sequence but additions the table does not
know: the check must refuse to pass them silently (exit 2).
"""

from __future__ import annotations

import os
import shutil
import subprocess
import sys
from pathlib import Path

VERIF = Path(__file__).resolve().parent.parent
F = "_ctlseqs.py"

MUTATIONS = {
    # ---- builders -------------------------------------------------------------------------
    "x05-cursor-up-zero-not-guarded": dict(        # cursor_up(0) emits CSI 0 A, which moves by ONE
        old='    return CURSOR_UP % lines if lines > 0 else ""',
        new='    return CURSOR_UP % lines if lines >= 0 else ""'),
    "x05-cursor-forward-negative-abs": dict(       # negative counts move instead of doing nothing
        old='    return CURSOR_FORWARD % columns if columns > 0 else ""',
        new='    return CURSOR_FORWARD % abs(columns) if columns else ""'),
    # ---- templates --------------------------------------------------------------------------
    "x05-forward-backward-finals-swapped": dict(edits=[
        dict(old='CURSOR_FORWARD = f"{CSI}{Ps}C"', new='CURSOR_FORWARD = f"{CSI}{Ps}D"'),
        dict(old='CURSOR_BACKWARD = f"{CSI}{Ps}D"', new='CURSOR_BACKWARD = f"{CSI}{Ps}C"')]),
    "x05-erase-chars-is-delete-chars": dict(       # CSI Ps P (DCH) pulls the rest of the line left
        old='ERASE_CHARS = f"{CSI}{Ps}X"', new='ERASE_CHARS = f"{CSI}{Ps}P"'),
    "x05-bg-direct-sets-foreground": dict(
        old='SGR_BG_DIRECT = SGR % f"48;2;{Pm(3)}"', new='SGR_BG_DIRECT = SGR % f"38;2;{Pm(3)}"'),
    "x05-colon-form-missing-empty-colourspace": dict(   # 38:2:r:g:b (5 fields) instead of 38:2::r:g:b
        old='SGR_FG_DIRECT_2 = SGR % f"38:2::{Ps}:{Ps}:{Ps}"', new='SGR_FG_DIRECT_2 = SGR % f"38:2:{Ps}:{Ps}:{Ps}"'),
    "x05-sgr-default-only-foreground": dict(
        old='SGR_DEFAULT = SGR % ""', new='SGR_DEFAULT = SGR % "39"'),
    "x05-hide-show-swapped": dict(edits=[
        dict(old="SHOW_CURSOR = DECSET % 25", new="SHOW_CURSOR = DECRST % 25"),
        dict(old="HIDE_CURSOR = DECRST % 25", new="HIDE_CURSOR = DECSET % 25")]),
    "x05-end-synced-update-wrong-mode": dict(
        old="END_SYNCED_UPDATE = DECRST % 2026", new="END_SYNCED_UPDATE = DECRST % 2027"),
    "x05-decrst-without-question-mark": dict(      # CSI Ps l is ANSI reset mode, not DEC private
        old='DECRST = f"{CSI}?{Ps}l"', new='DECRST = f"{CSI}{Ps}l"'),
    "x05-cell-and-area-requests-swapped": dict(edits=[
        dict(old="TEXT_AREA_SIZE_PX = XTWINOPS_1 % 14", new="TEXT_AREA_SIZE_PX = XTWINOPS_1 % 16"),
        dict(old="CELL_SIZE_PX = XTWINOPS_1 % 16", new="CELL_SIZE_PX = XTWINOPS_1 % 14")]),
    "x05-bg-query-asks-foreground": dict(
        old="TEXT_BG_QUERY = TEXT_PARAM_QUERY % 11", new="TEXT_BG_QUERY = TEXT_PARAM_QUERY % 10"),
    "x05-st-typo": dict(                            # every string sequence stays open
        old='ST = f"{ESC}\\\\"', new='ST = f"{ESC}/"'),
    "x05-osc-query-terminated-by-bel-only-in-bytes": dict(   # the bytes twin differs from the str value
        old="del _START, module_items", new='del _START, module_items\nTEXT_FG_QUERY_b = TEXT_FG_QUERY_b[:-2] + b"\\x07"'),
    # ---- kitty / iterm2 ------------------------------------------------------------------------
    "x05-kitty-delete-cursor-lowercase": dict(     # d=c keeps the image data (documented: C frees it)
        old='KITTY_DELETE_CURSOR = KITTY_DELETE % "C"', new='KITTY_DELETE_CURSOR = KITTY_DELETE % "c"'),
    "x05-kitty-delete-all-only-at-cursor": dict(
        old='KITTY_DELETE_ALL = KITTY_DELETE % "A"', new='KITTY_DELETE_ALL = KITTY_DELETE % "C"'),
    "x05-kitty-delete-z-addresses-id": dict(
        old='KITTY_DELETE_Z_INDEX = KITTY_DELETE_EXTRA % ("Z", f"z={Ps}")',
        new='KITTY_DELETE_Z_INDEX = KITTY_DELETE_EXTRA % ("Z", f"i={Ps}")'),
    "x05-kitty-end-chunked-more": dict(            # m=1: the transfer is never closed
        old='KITTY_END_CHUNKED = KITTY_TRANSMISSION % ("q=1,m=0", "")', new='KITTY_END_CHUNKED = KITTY_TRANSMISSION % ("q=1,m=1", "")'),
    "x05-kitty-support-query-transmits": dict(     # a=T instead of a=q: the probe shows a pixel
        old='    "a=q,t=d,i=31,f=24,s=1,v=1,C=1,c=1,r=1",', new='    "a=T,t=d,i=31,f=24,s=1,v=1,C=1,c=1,r=1",'),
    "x05-kitty-support-query-other-id": dict(      # the answer is compared with id 31
        old='    "a=q,t=d,i=31,f=24,s=1,v=1,C=1,c=1,r=1",', new='    "a=q,t=d,i=13,f=24,s=1,v=1,C=1,c=1,r=1",'),
    "x05-iterm2-start-wrong-number": dict(
        old='ITERM2_START = f"{OSC}1337;File="', new='ITERM2_START = f"{OSC}1373;File="'),
    # ---- patterns ------------------------------------------------------------------------------
    "x05-cell-size-pattern-takes-area-report": dict(
        old="    CELL_SIZE_PX_re = XTWINOPS % 6", new="    CELL_SIZE_PX_re = XTWINOPS % 4"),
    "x05-rgb-pattern-no-bel": dict(
        old='    RGB_SPEC_re = rf"{OSC_escaped}(\\d+);(rgb:[\\da-fA-F/]+){ST_or_BEL}"',
        new='    RGB_SPEC_re = rf"{OSC_escaped}(\\d+);(rgb:[\\da-fA-F/]+){ST_escaped}"'),
    "x05-rgb-pattern-lowercase-hex-only": dict(
        old='    RGB_SPEC_re = rf"{OSC_escaped}(\\d+);(rgb:[\\da-fA-F/]+){ST_or_BEL}"',
        new='    RGB_SPEC_re = rf"{OSC_escaped}(\\d+);(rgb:[\\da-f/]+){ST_or_BEL}"'),
    "x05-xtversion-pattern-needs-parenthesis": dict(
        old='    XTVERSION_re = rf"{DCS}>\\|(\\w+)[( ]([^){ESC}]+)\\)?{ST_or_BEL}"',
        new='    XTVERSION_re = rf"{DCS}>\\|(\\w+)[(]([^){ESC}]+)\\)?{ST_or_BEL}"'),
    "x05-kitty-response-greedy-message": dict(     # two answers in one read: the message swallows the second
        old='        r"i=(?P<id>\\d+)(?:,I=(?P<number>\\d+))?;(?P<message>.+?)"',
        new='        r"i=(?P<id>\\d+)(?:,I=(?P<number>\\d+))?;(?P<message>.+)"'),
    "x05-kitty-response-number-before-id": dict(
        old='        r"i=(?P<id>\\d+)(?:,I=(?P<number>\\d+))?;(?P<message>.+?)"',
        new='        r"(?:I=(?P<number>\\d+),)?i=(?P<id>\\d+);(?P<message>.+?)"'),
    "x05-patterns-not-ascii": dict(                # \d, \w take non-ASCII digits / letters
        old="            globals()[name] = re.compile(regex, re.ASCII)", new="            globals()[name] = re.compile(regex)"),
    # ---- x_parse_color ------------------------------------------------------------------------------
    "x05-parse-color-power-of-two-scale": dict(     # ffff -> 254
        old="        int(component, 16) * 255 // ((1 << len(component) * 4) - 1)",
        new="        int(component, 16) * 255 // (1 << len(component) * 4)"),
    "x05-parse-color-takes-high-byte": dict(        # right for 4 digits, wrong for 1 and 3
        old="        int(component, 16) * 255 // ((1 << len(component) * 4) - 1)",
        new="        int(component.ljust(4, '0'), 16) >> 8"),
    # ---- exports -------------------------------------------------------------------------------------
    "x05-bytes-twin-missing-from-all": dict(
        old='    __all__.extend((name, f"{name}_b"))', new="    __all__.append(name)"),
}

# additions the table does not know: the check must exit 2 (a new sequence cannot slip past)
GUARDS = {
    "guard-new-template": dict(
        old='XTVERSION = f"{CSI}>q"', new='XTVERSION = f"{CSI}>q"\nCURSOR_HOME = f"{CSI}H"'),
    "guard-new-private-pattern": dict(
        old="del Response\n", new='del Response\n_DA1_re = re.compile(r"\\x1b\\[\\?[\\d;]*c")\n'),
    "guard-template-removed": dict(
        old='KITTY_DELETE_CURSOR = KITTY_DELETE % "C"\n', new=""),
}


def apply(mid: str, edits) -> Path:
    root = Path(f"/tmp/verif-selftest-{mid}")
    shutil.rmtree(root, ignore_errors=True)
    root.mkdir(parents=True)
    subprocess.run(["rsync", "-a", "/repo/src", str(root) + "/"], check=True)
    f = root / "src" / "term_image" / F
    text = f.read_text()
    for e in edits:
        if text.count(e["old"]) != 1:
            raise SystemExit(f"{mid}: pattern occurs {text.count(e['old'])} times: {e['old']!r}")
        text = text.replace(e["old"], e["new"])
    f.write_text(text)
    subprocess.run([sys.executable, "-m", "compileall", "-q", str(f)], check=True)
    return root


def run(mid: str, tier: str = "quick") -> bool:
    m = (MUTATIONS | GUARDS)[mid]
    root = apply(mid, m["edits"] if "edits" in m else [m])
    try:
        # the module must still import (a mutant that breaks the import proves nothing)
        p = subprocess.run([sys.executable, "-c", "import term_image._ctlseqs"], cwd="/", text=True,
                           env=dict(os.environ, PYTHONPATH=str(root / "src")), capture_output=True)
        if mid != "guard-template-removed" and p.returncode:
            print(f"MUT {mid} X05 does not import: {p.stderr[-300:]}")
            return False
        env = dict(os.environ, VERIF_REPO=str(root))
        p = subprocess.run([str(VERIF / "check"), "X05", "--tier", tier], env=env, cwd=VERIF,
                           stdout=subprocess.PIPE, stderr=subprocess.STDOUT, text=True, timeout=7200)
    finally:
        shutil.rmtree(root, ignore_errors=True)
    sigs = sorted({l.strip()[len("signature: "):] for l in p.stdout.splitlines() if l.strip().startswith("signature:")})
    if mid in GUARDS:
        ok = p.returncode == 2
        print(f"MUT {mid} X05 exit={p.returncode} {'refused' if ok else 'NOT REFUSED'}", flush=True)
        if ok:
            print("   " + next((l for l in p.stdout.splitlines() if l.startswith("MACHINERY")), "")[:260])
    else:
        ok = p.returncode == 1 and bool(sigs)
        status = "caught" if ok else ("MACHINERY" if p.returncode == 2 else "MISSED")
        print(f"MUT {mid} X05 exit={p.returncode} {status} {sigs}", flush=True)
    if (p.returncode == 2) != (mid in GUARDS):
        print("\n".join(p.stdout.splitlines()[-15:]))
    return ok


def main() -> int:
    args = [a for a in sys.argv[1:] if not a.startswith("--")]
    tier = "thorough" if "--thorough" in sys.argv else "quick"
    ids = args or list(MUTATIONS) + list(GUARDS)
    bad = [m for m in ids if not run(m, tier)]
    print(f"{len(ids) - len(bad)}/{len(ids)} as expected" + (f"; not: {bad}" if bad else ""))
    return 1 if bad else 0


if __name__ == "__main__":
    sys.exit(main())
