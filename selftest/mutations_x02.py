"""Seeded mutations for the extension check X02 (life cycle / attribute state machine of the old
image API).  Same record format as selftest/mutations.py ({file, old, new} or {edits: [...]}).

    /venv/bin/python -m selftest.mutations_x02 [id ...] [--thorough]

Each mutant is applied to a scratch copy of /repo/src under /tmp (removed afterwards) and
``VERIF_REPO=<copy> ./check X02`` must exit 1 with a signature.
"""

from __future__ import annotations

import os
import shutil
import subprocess
import sys
from pathlib import Path

VERIF = Path(__file__).resolve().parent.parent

MUTATIONS = {
    # ---- finalization ---------------------------------------------------------------------
    "x02-source-not-close-validated": dict(
        file="image/common.py",
        old="        _close_validated(lambda self: getattr(self, self._source_type.value)),",
        new="        (lambda self: getattr(self, self._source_type.value)),",
    ),
    "x02-get-image-not-close-validated": dict(
        file="image/common.py",
        old="    @_close_validated\n    def _get_image(self)",
        new="    def _get_image(self)",
    ),
    "x02-close-finalizes-pil-source": dict(
        file="image/common.py",
        old="                    del self._url\n                del self._source\n",
        new="                    del self._url\n                if self._source_type is ImageSource.PIL_IMAGE:\n"
            "                    self._source.close()\n                del self._source\n",
    ),
    "x02-exit-suppresses-exceptions": dict(
        file="image/common.py",
        old="        self.close()\n        return False  # Currently, no particular exception is suppressed",
        new="        self.close()\n        return True",
    ),
    "x02-close-only-marks-when-source-present": dict(
        # a second close() (source already released) "re-opens" the image
        file="image/common.py",
        old="        finally:\n            self._closed = True\n\n    def draw(",
        new="        finally:\n            self._closed = hasattr(self, \"_source\") or not self._closed\n\n    def draw(",
    ),
    # ---- frames ---------------------------------------------------------------------------
    "x02-seek-no-upper-bound": dict(
        file="image/common.py",
        old="        if not 0 <= pos < self.n_frames:\n            raise arg_value_error_range(\"pos\", pos, f\"n_frames={self.n_frames}\")\n        if self._is_animated:",
        new="        if not 0 <= pos:\n            raise arg_value_error_range(\"pos\", pos, f\"n_frames={self.n_frames}\")\n        if self._is_animated:",
    ),
    "x02-n-frames-recomputed": dict(
        file="image/common.py",
        old="        if not self._n_frames:\n            img = self._get_image()",
        new="        if True:\n            img = self._get_image()",
    ),
    "x02-seek-position-not-from-pil-image": dict(
        file="image/common.py",
        old="            self._seek_position = image.tell()",
        new="            self._seek_position = 0",
    ),
    "x02-frame-duration-accepts-int": dict(
        file="image/common.py",
        old="        if not isinstance(value, float):\n            raise arg_type_error(\"frame_duration\", value)",
        new="        if not isinstance(value, (int, float)):\n            raise arg_type_error(\"frame_duration\", value)",
    ),
    "x02-frame-duration-kept-on-still-image": dict(
        edits=[
            dict(file="image/common.py",
                 old="        lambda self: self._frame_duration if self._is_animated else None,",
                 new="        lambda self: getattr(self, \"_frame_duration\", None),"),
            dict(file="image/common.py",
                 old="        if self._is_animated:\n            self._frame_duration = value",
                 new="        self._frame_duration = value"),
        ],
    ),
    "x02-default-duration-changed": dict(
        # only visible on an animated source WITHOUT duration metadata
        file="image/common.py",
        old="            self._frame_duration = (image.info.get(\"duration\") or 100) / 1000",
        new="            self._frame_duration = (image.info.get(\"duration\") or 50) / 1000",
    ),
    # ---- size -------------------------------------------------------------------------------
    "x02-height-setter-sets-width": dict(
        file="image/common.py",
        old="        lambda self, height: self.set_size(height=height),",
        new="        lambda self, height: self.set_size(height),",
    ),
    "x02-size-tuple-stored-before-validation": dict(
        file="image/common.py",
        old="                raise arg_value_error(\"size\", size)\n            self.set_size(*size)",
        new="                raise arg_value_error(\"size\", size)\n            self._size = size\n            self.set_size(*size)",
    ),
    "x02-size-member-goes-through-set-size": dict(
        file="image/common.py",
        old="        if isinstance(size, Size):\n            self._size = size\n        elif isinstance(size, tuple):",
        new="        if isinstance(size, Size):\n            self.set_size(size)\n        elif isinstance(size, tuple):",
    ),
    "x02-renderer-does-not-restore-dynamic-size": dict(
        file="image/common.py",
        old="        finally:\n            if isinstance(_size, Size):\n                self.size = _size",
        new="        finally:\n            pass",
    ),
    "x02-rendered-width-from-height": dict(
        file="image/common.py",
        old="            else self._size\n        )[0],\n        doc=\"\"\"\n        The width with which",
        new="            else self._size\n        )[1],\n        doc=\"\"\"\n        The width with which",
    ),
    "x02-nonpositive-dimension-accepted": dict(
        file="image/common.py",
        old="            if isinstance(arg_value, int) and arg_value <= 0:\n                raise arg_value_error_range(arg_name, arg_value)",
        new="            if isinstance(arg_value, int) and arg_value < 0:\n                raise arg_value_error_range(arg_name, arg_value)",
    ),
    "x02-repr-shows-raw-size": dict(
        file="image/common.py",
        old="                else \"x\".join(map(str, self._size))",
        new="                else str(self._size)",
    ),
    # ---- construction / factories -------------------------------------------------------------
    "x02-from-file-keeps-pil-source-type": dict(
        file="image/common.py",
        old="        new._source_type = ImageSource.FILE_PATH\n",
        new="",
    ),
    "x02-from-file-builds-base-style": dict(
        # the classmethod ignores the invoking (sub)class
        file="image/common.py",
        old="        with img:\n            new = cls(img, **kwargs)",
        new="        with img:\n            new = (cls.__mro__[1] if cls.__name__.startswith(\"Sub\") else cls)(img, **kwargs)",
    ),
    "x02-auto-class-prefers-iterm2": dict(
        file="image/__init__.py",
        old="_styles = (KittyImage, ITerm2Image, BlockImage)",
        new="_styles = (ITerm2Image, KittyImage, BlockImage)",
    ),
    "x02-autoimage-drops-height": dict(
        file="image/__init__.py",
        old="    return auto_image_class()(image, width=width, height=height)",
        new="    return auto_image_class()(image, width=width)",
    ),
    "x02-from-url-not-validated": dict(
        file="image/common.py",
        old="        if not all(urlparse(url)[:3]):\n            raise arg_value_error_msg(\"Invalid URL\", url)\n",
        new="",
    ),
    "x02-graphics-gate-removed": dict(
        file="image/common.py",
        old="        if not (cls.is_supported() or cls._forced_support):",
        new="        if False:",
    ),
    "x02-null-sized-image-accepted": dict(
        file="image/common.py",
        old="        if 0 in image.size:\n            raise ValueError(\"'image' is null-sized\")\n",
        new="",
    ),
}


def apply(mid: str) -> Path:
    m = MUTATIONS[mid]
    root = Path(f"/tmp/verif-selftest-{mid}")
    shutil.rmtree(root, ignore_errors=True)
    root.mkdir(parents=True)
    subprocess.run(["rsync", "-a", "/repo/src", str(root) + "/"], check=True)
    for e in m["edits"] if "edits" in m else [m]:
        f = root / "src" / "term_image" / e["file"]
        text = f.read_text()
        if text.count(e["old"]) != 1:
            raise SystemExit(f"{mid}: pattern occurs {text.count(e['old'])} times in {e['file']}")
        f.write_text(text.replace(e["old"], e["new"]))
    subprocess.run([sys.executable, "-m", "compileall", "-q", str(root / "src" / "term_image")], check=True)
    return root


def run(mid: str, tier: str = "quick") -> bool:
    root = apply(mid)
    try:
        env = dict(os.environ, VERIF_REPO=str(root))
        p = subprocess.run([str(VERIF / "check"), "X02", "--tier", tier], env=env, cwd=VERIF,
                           stdout=subprocess.PIPE, stderr=subprocess.STDOUT, text=True, timeout=3600)
    finally:
        shutil.rmtree(root, ignore_errors=True)
    sigs = sorted({l.strip()[len("signature: "):] for l in p.stdout.splitlines() if l.strip().startswith("signature:")})
    ok = p.returncode == 1 and bool(sigs)
    status = "caught" if ok else ("MACHINERY" if p.returncode == 2 else "MISSED")
    print(f"MUT {mid} X02 exit={p.returncode} {status} {sigs[:6]}", flush=True)
    if p.returncode == 2:
        print("\n".join(p.stdout.splitlines()[-15:]))
    return ok


def main() -> int:
    ids = [a for a in sys.argv[1:] if not a.startswith("--")] or list(MUTATIONS)
    tier = "thorough" if "--thorough" in sys.argv else "quick"
    bad = [m for m in ids if not run(m, tier)]
    print(f"{len(ids) - len(bad)}/{len(ids)} caught" + (f"; not: {bad}" if bad else ""))
    return 1 if bad else 0


if __name__ == "__main__":
    sys.exit(main())
