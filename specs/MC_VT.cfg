SPECIFICATION Spec
CONSTANT L = 4
INVARIANT Dump
INVARIANT SwallowUntilST
INVARIANT StatesOK
INVARIANT EventsBounded
CHECK_DEADLOCK FALSE
