\* C16 data side, quick: complete state graph of 5 (tree, class) cases
SPECIFICATION Spec
CONSTANTS
  Sel = "quick"
  DumpEdges = TRUE
VIEW View
ACTION_CONSTRAINT Dump
INVARIANT TypeOK
PROPERTY RejectedHasNoEffect
PROPERTY ReadsHaveNoEffect
PROPERTY WritesAreExact
PROPERTY NeverUninitialized
CHECK_DEADLOCK FALSE
