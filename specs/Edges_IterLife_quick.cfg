SPECIFICATION Spec
CONSTANTS
  Ns = {2, 3}
  Reps <- RepsAll
  CachedKinds = {"F", "T", "n-1", "n"}
  SlotSet = {1}
  Rich = TRUE
VIEW View
ACTION_CONSTRAINT Dump
INVARIANT InitDump
INVARIANT StateDump
CHECK_DEADLOCK FALSE
