SPECIFICATION Spec
CONSTANTS
  Times = {1, 4}
  MaxChunks = 1
  MaxChunk = 2
  MaxBytes = 2
  Scheds <- AllScheds
  Ttys = {TRUE, FALSE}
  TermEchos = {TRUE}
  Mins = {0}
  Tmos <- TmosWrite
  Echos = {FALSE}
  Mores <- MoresWrite
  TermBytes <- Terms2
  Datas <- DatasWrite
  Plans <- PlansAll
  Horizon = 8
  MaxWire = 4
  Variant = "code"
VIEW View
INVARIANT TypeOK
INVARIANT PendFuture
INVARIANT NoTerminalNothing
INVARIANT NothingLostOrDuplicated
INVARIANT ResultArrivedInTime
INVARIANT MinBytes
INVARIANT NonBlocking
INVARIANT WaitBounded
INVARIANT ReturnReason
INVARIANT StopsWhenToldTo
INVARIANT NeverWaitsInVain
INVARIANT EchoDuringReadOnly
INVARIANT ConsultsSeeBuffer
INVARIANT WriteInOrder
INVARIANT WriteComplete
INVARIANT BlocksOnlyWhenDocumented
PROPERTY NoTerminalNone
PROPERTY LeftoverStaysQueued
PROPERTY TimePasses
PROPERTY ReadTouchesOnlyInput
PROPERTY WriteTouchesOnlyOutput
CHECK_DEADLOCK FALSE
