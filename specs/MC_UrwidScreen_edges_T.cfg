SPECIFICATION SpecDump
CONSTANTS
  Ident = "kitty"
  Style3 = "block"
  Bits = 3
  Fams = {"P", "S", "O", "L", "F", "T", "I"}
  WithBad = FALSE
  WithInv = TRUE
  Dyn = FALSE
  WithDC = TRUE
  WithWinch = TRUE
CONSTANT RelFams <- RelFamsT
VIEW CoarseView
ACTION_CONSTRAINT DumpL
CHECK_DEADLOCK FALSE
