SPECIFICATION Spec
CONSTANTS
  Sizes <- S2
  Pixels <- P2
  Ratios <- R1
  XtModes = {"text"}
  IoPx = {FALSE}
  Ops = {"cell", "memo"}
  Faults = {"kbd"}
  Variant = "code"
INVARIANT TypeOK
INVARIANT CellFresh
INVARIANT RatioFresh
INVARIANT FixedSnapshot
INVARIANT MemoFresh
INVARIANT FaultFresh
INVARIANT BodyOnce
CHECK_DEADLOCK FALSE
