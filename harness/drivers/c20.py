"""C20 - style settings resolve instance -> nearest class -> default, and unset restores.

model:    specs/StyleSettings.tla over specs/StyleSettingsCore.tla (MC_StyleSettings*.cfg):
          5 classes + 2 instances, per setting all histories of <= 5 operations; named
          invariants / action properties for every clause of the statement.
spec->code: TLC dumps every edge of the (bounded) model (Edges_StyleSettings_*.cfg);
          harness/graph.py turns them into covering walks; every walk is replayed from a
          clean state on REAL subclasses created with type(...) under KittyImage /
          ITerm2Image (harness/c20_world.py); after EACH operation the effective value is read
          at EVERY class and instance and compared with the spec's projection.
code->spec: seeded random set/unset/render histories on deeper random trees are executed on
          the real code, recorded, and validated by TLC against specs/Trace_StyleSettings.tla.
          The clause (= signature) of every disagreement - also of those found by the replay -
          comes from that TLA+ module.
"""

from __future__ import annotations

import json
import multiprocessing as mp
import os
import random
import re
import time
from concurrent.futures import ThreadPoolExecutor

from .. import c20_world as W
from .. import graph, tlc
from ..core import Report
from ..env import stubs

ASSUMPTIONS = [
    "the documented defaults are: render method LINES, forced_support False, jpeg_quality -1 "
    "(disabled), read_from_file True, native_anim_max_bytes 2 MiB (docstrings of the properties)",
    "the render method has no getter: its effective value is observed through the framing of an "
    "actual render without override (graphics commands == rendered height -> LINES, == 1 -> WHOLE); "
    "for a class it is observed at a fresh instance of that class; ANIM on a non-animated image "
    "frames like WHOLE ('the WHOLE render method is used instead')",
    "'rejected' = the call raises an exception (class checked only for set_render_method, which "
    "documents TypeError / ValueError); `del cls.forced_support` is expected to be rejected because "
    "forced_support documents GET and SET only",
    "bool is not offered where an int is documented (Python's bool is an int; the docs do not say)",
    "forced support is additionally observed through its documented effect: instantiation of the "
    "class while the scripted terminal supports no graphics protocol",
    "settings are modelled as independent (one setting under test per model behaviour); the "
    "replay reads ALL settings after every operation and requires the untouched ones to show "
    "their defaults; recorded histories interleave all settings",
]

ACTIONS = ("Set", "UnsetAt", "SetInvalid", "UnsetUnsupported", "InstanceSetClassOnly", "Render")
POOL = 6


# ------------------------------------------------------------------ TLC helpers
def coverage_of(res, module: str) -> dict[str, int]:
    """{action: generated} - tlc.py's table misses action lines carrying a location suffix."""
    pat = re.compile(
        r"^<(\w+) line \d+, col \d+ to line \d+, col \d+ of module %s(?: \([\d ]+\))?>: (\d+):(\d+)"
        % re.escape(module),
        re.M,
    )
    return {m.group(1): int(m.group(3)) for m in pat.finditer(res.stdout)}


def require_actions(res, what: str) -> dict[str, int]:
    cov = coverage_of(res, "StyleSettings")
    vac = [a for a in ACTIONS if cov.get(a, 0) == 0]
    if vac:
        raise tlc.MachineryError(f"c20: vacuous actions in {what}: {vac} (coverage {cov})")
    return {a: cov[a] for a in ACTIONS}


# ------------------------------------------------------------------ spec -> code
def _matches(exp: str, got: str) -> bool:
    return exp == got or (exp == "rejected" and got != "ok")


def _event(op: dict, res: str, used: str, usedpx: str, obs: dict) -> dict:
    return {"k": op["k"], "set": op["set"], "n": op["n"], "a": op["a"], "res": res, "used": used,
            "usedpx": usedpx, "eff": {st: [W.show(r) for r in v] for st, v in obs["eff"].items()},
            "px": obs["px"], "gate": obs["gate"], "clr": obs["clr"]}


def _ov_to_init(state: dict, n: int) -> dict:
    init = W.clean_init(n)
    init[state["cur"]] = [W.unshow(s) for s in state["ov"]]
    return init


def _compare(world: W.World, edge: dict, res: str, used: str, usedpx: str, obs: dict, defaults: dict,
             pxtab: dict) -> str:
    """'' if the real observation equals the edge's projection, else what differs (text only)."""
    op = edge["op"]
    to = op["exp"]
    cur = edge["to"]["cur"]
    if not _matches(op["res"], res):
        return f"result {res!r}, spec {op['res']!r}"
    if op["k"] == "render" and used != op["used"]:
        return f"render framed as {used!r}, spec {op['used']!r}"
    if op["k"] == "render" and usedpx not in pxtab[op["um"]]:
        return f"render transmitted {usedpx} px data, spec (method {op['um']}) {pxtab[op['um']]}"
    meth = to["m"] or [defaults["rm"].partition(":")[2]] * world.n  # untouched: the default method
    for i, p in enumerate(obs["px"]):
        if p != "skip" and p not in pxtab[meth[i]]:
            return (f"node {i + 1}: render without override transmitted {p} px data, spec (effective method "
                    f"{meth[i]}) {pxtab[meth[i]]}")
    for st in W.FAM_SETTINGS[world.fam]:
        got = [W.show(r) for r in obs["eff"][st]]
        # untouched settings show their defaults (they do not exist above / beside the style class)
        exp = to["eff"] if st == cur else [defaults[st] if world.in_family(i) else "na:0"
                                           for i in range(1, world.n + 1)]
        if any(g != "skip:0" and g != x for g, x in zip(got, exp)):  # skip = not observed at this step
            return f"effective {W.LONG[st]} per node {got}, spec {exp}"
    if "skip" not in obs["gate"]:
        # (the trees of the other settings have no abstract class: every class has a gate / a clear())
        exp = to["gate"] if cur == "fs" else [("shut" if world.is_class(i) else "na") for i in range(1, world.n + 1)]
        if obs["gate"] != exp:
            return f"instantiation gate per node {obs['gate']}, spec {exp}"
        exp = to["clr"] if cur == "fs" else [(defaults["clr"] if world.is_class(i) else "na")
                                             for i in range(1, world.n + 1)]
        if obs["clr"] != exp:
            return f"clear() on an unsupported terminal per node {obs['clr']}, spec {exp}"
    return ""


def replay_walk(task: dict) -> dict:
    """Execute one covering walk on fresh real classes.  Runs in a pool worker."""
    walk, defaults, wseed = task["walk"], task["defaults"], task["wseed"]
    first = walk[0]["from"]
    fam, cur = first["fam"], first["cur"]
    par, nc = task["par"], task["nc"]
    gt = task["geos"][(task["idx"] + task["wseed"]) % len(task["geos"])]
    dm, fl, real = task["dm"], task["fl"], task["real"]
    world = W.World(fam, par, nc, wseed, gt["g"], dm, fl, real)
    pxtab = gt["px"]
    out = {"steps": 0, "mismatches": [], "abandoned": False, "resyncs": 0}
    try:
        init = _ov_to_init(first, world.n)
        events: list = []
        for i, edge in enumerate(walk):
            op = {k: edge["op"][k] for k in ("k", "set", "n")}
            op["a"] = W.unshow(edge["op"]["a"])
            last = i == len(walk) - 1
            res, used, usedpx = world.do(op)
            obs = world.observe(render=(cur == "rm" or last), gate=(cur == "fs" or last))
            out["steps"] += 1
            events.append(_event(op, res, used, usedpx, obs))
            diff = _compare(world, edge, res, used, usedpx, obs, defaults, pxtab)
            if not diff:
                continue
            out["mismatches"].append(
                {"fam": fam, "par": par, "nc": nc, "dm": dm, "fl": fl, "real": real, "geo": world.geo, "init": init,
                 "ev": events,
                 "wseed": wseed,
                 "diff": diff, "walk": task["idx"], "step": i, "edge": edge})
            # resynchronise the real classes with the spec state and go on (keeps edge coverage)
            init = _ov_to_init(edge["to"], world.n)
            events = []
            try:
                world.force({cur: init[cur]})
            except W.ForceFailed:
                out["abandoned"] = True
                break
            out["resyncs"] += 1
            obs = world.observe(render=True, gate=True)
            if _compare(world, {"op": {"res": "ok", "k": "sync", "exp": edge["op"]["exp"]}, "to": edge["to"]},
                        "ok", "", "", obs, defaults, pxtab):
                out["abandoned"] = True
                break
    finally:
        world.close()
    return out


# ------------------------------------------------------------------ code -> spec
def gen_tree(rng: random.Random, tier: str):
    """Random tree below the REAL ancestry BaseImage > GraphicsImage > {style, other style}."""
    real = ["BaseImage", "GraphicsImage", "style", "other"]
    par = [0, 1, 2, 2]
    nu = rng.randint(2, 7 if tier == "quick" else 10)  # user subclasses
    family = [3]
    for _ in range(nu):
        i = len(par) + 1
        # favour deep chains with a few forks
        par.append(rng.choice([family[-1], family[-1], family[-1], rng.choice(family)]))
        family.append(i)
        real.append("")
    nc = len(par)
    ni = rng.randint(2, 4)
    for _ in range(ni):
        par.append(rng.choice([family[-1], rng.choice(family), rng.choice(family[-3:])]))
        real.append("")
    # some user classes are declared with a metaclass derived from their parent's metaclass
    dm = [0] * 4 + [int(rng.random() < 0.3) for _ in range(nu)] + [0] * ni
    # ... and some define __len__ returning 0 (their instances are falsy objects)
    fl = [0] * 4 + [int(rng.random() < 0.3) for _ in range(nu)] + [0] * ni
    return par, nc, dm, fl, real


VALID = {
    "fs": [W.rec("bool", 1), W.rec("bool", 0)],
    "rf": [W.rec("bool", 1), W.rec("bool", 0)],
    "jq": [W.rec("int", v) for v in (-1, -5, 0, 1, 50, 94, 95)],
    "nb": [W.rec("int", v) for v in (1, 4096, 2097152, 10**9)],
}
INVALID = {
    "rm": [W.rec("int", 3), W.rec("str", 0, "bogus"), W.rec("str", 0, ""), W.rec("str", 0, "block"),
           W.rec("float", 1)],
    "fs": [W.rec("int", 1), W.rec("int", 0), W.rec("none"), W.rec("str", 0, "true")],
    "rf": [W.rec("int", 0), W.rec("int", 1), W.rec("none"), W.rec("str", 0, "no")],
    "jq": [W.rec("int", 96), W.rec("int", 1000), W.rec("str", 0, "x"), W.rec("float", 50), W.rec("none")],
    "nb": [W.rec("int", 0), W.rec("int", -1), W.rec("str", 0, "x"), W.rec("float", 2), W.rec("none")],
}
METHODS = {"kitty": ["lines", "whole"], "iterm2": ["lines", "whole", "anim"]}


def gen_ops(rng: random.Random, fam: str, par, nc, length: int, real=None) -> list[dict]:
    n = len(par)
    real = real or ["style"] + [""] * (n - 1)
    fam_nodes = [i + 1 for i, r in enumerate(real) if r in ("style", "")]   # style class and below
    fam_classes = [i for i in fam_nodes if i <= nc]
    settings = W.FAM_SETTINGS[fam]
    weights = [5, 2] if fam == "kitty" else [5, 2, 3, 3, 1]
    ops = []
    for _ in range(length):
        st = rng.choices(settings, weights)[0]
        r = rng.random()
        # forced_support exists on every class incl. the real ancestors; the rest at / below the style
        node = rng.randint(1, n) if st == "fs" else rng.choice(fam_nodes)
        if st in ("fs", "nb") and r < 0.85:  # mostly the (class-only) legal target
            node = rng.randint(1, nc) if st == "fs" else rng.choice(fam_classes)
        if st == "rm" and r < 0.14:
            ov = rng.choice([W.UNSET] + [W.rec("str", 0, m) for m in METHODS[fam]])
            ops.append({"k": "render", "set": "rm", "n": node, "a": ov})
        elif r < 0.50:
            vals = [W.rec("str", 0, m) for m in METHODS[fam]] if st == "rm" else VALID[st]
            ops.append({"k": "set", "set": st, "n": node, "a": rng.choice(vals)})
        elif r < 0.88:
            ops.append({"k": "unset", "set": st, "n": node, "a": W.UNSET})
        else:
            bad = INVALID[st] + ([W.rec("str", 0, "anim")] if (st == "rm" and fam == "kitty") else [])
            ops.append({"k": "set", "set": st, "n": node, "a": rng.choice(bad)})
    return ops


def record(task: dict) -> dict:
    """Run a history on the real code and record it (pool worker)."""
    fam, par, nc = task["fam"], task["par"], task["nc"]
    dm = task.get("dm") or [0] * len(par)
    fl = task.get("fl") or [0] * len(par)
    real = task.get("real") or ["style"] + [""] * (len(par) - 1)
    world = W.World(fam, par, nc, task["wseed"], task.get("geo"), dm, fl, real)
    try:
        init = task.get("init") or W.clean_init(world.n)
        if task.get("init"):
            try:
                world.force({st: init[st] for st in W.FAM_SETTINGS[fam]})
            except W.ForceFailed as e:
                raise tlc.MachineryError(f"c20: the scenario's start state cannot be re-created: {e}") from e
        ev = []
        for op in task["ops"]:
            res, used, usedpx = world.do(op)
            ev.append(_event(op, res, used, usedpx, world.observe(render=True, gate=True)))
    finally:
        world.close()
    return {"fam": fam, "par": par, "nc": nc, "dm": dm, "fl": fl, "real": real, "geo": world.geo, "init": init,
            "ev": ev}


# ------------------------------------------------------------------ verdicts
def _trace_json(t: dict) -> dict:
    return {k: t[k] for k in ("fam", "par", "nc", "dm", "fl", "real", "geo", "init", "ev")}


def _scenario(t: dict, wseed: int) -> dict:
    return {"fam": t["fam"], "par": t["par"], "nc": t["nc"], "dm": t["dm"], "fl": t["fl"], "real": t["real"], "geo": t["geo"],
            "init": t["init"],
            "wseed": wseed,
            "ops": [{k: e[k] for k in ("k", "set", "n", "a")} for e in t["ev"]]}


def _describe(t: dict, v: dict) -> str:
    at = v["at"]
    lines = [f"clause {v['verdict']!r} about {W.LONG.get(v['set'], v['set'])} at operation {at} of {len(t['ev'])}; "
             f"family {t['fam']}, tree par={t['par']} (classes 1..{t['nc']}; real classes: "
             f"{ {i + 1: r for i, r in enumerate(t['real']) if r} }; "
             f"declared with a derived metaclass: {[i + 1 for i, d in enumerate(t['dm']) if d]}, "
             f"defining __len__ -> 0 (falsy instances): {[i + 1 for i, d in enumerate(t['fl']) if d]}), "
             f"geometry {t['geo']}"]
    for i, e in enumerate(t["ev"][:at], 1):
        what = {"set": f"set {W.LONG[e['set']]} = {W.show(e['a'])}", "unset": f"unset {W.LONG[e['set']]}",
                "render": f"render override={W.show(e['a'])}"}[e["k"]]
        lines.append(f"  {i}. node {e['n']}: {what} -> {e['res']}"
                     f"{(' framed ' + e['used'] + ', data ' + e['usedpx'] + ' px') if e['used'] else ''}")
    if 0 < at <= len(t["ev"]):
        e = t["ev"][at - 1]
        st = v["set"] if v["set"] in e["eff"] else e["set"]
        lines.append(f"  observed {W.LONG[st]} per node: {e['eff'][st]}")
        lines.append(f"  observed data size (px) of the no-override render per node: {e['px']}")
        lines.append(f"  observed instantiation gate: {e['gate']}")
        lines.append(f"  observed clear() on an unsupported terminal: {e['clr']}")
    return "\n".join(lines)


def validate(traces: list[dict], name: str):
    """TLC-validate traces against Trace_StyleSettings (no reporting; usable from a thread)."""
    if not traces:
        return [], 0, 0
    return tlc.validate_traces(
        "Trace_StyleSettings", "Trace_StyleSettings.cfg", [_trace_json(t) for t in traces],
        batch=120, parallel=4, workers=2, timeout=600, name=name)


def report(rep: Report, traces: list[dict], validated, origin: str, expect_fail: bool = False):
    """Turn the verdicts of :func:`validate` into evidence counters and violations."""
    verdicts, st, tr = validated
    rep.states += st
    rep.transitions += tr
    rep.traces_validated += len(traces)
    for t, v in zip(traces, verdicts):
        if v["verdict"].startswith("unsupported"):
            raise tlc.MachineryError(f"c20: {v['verdict']} at event {v['at']} ({origin})")
        if expect_fail:
            if v["verdict"] == "ok" or v["at"] != len(t["ev"]):
                raise tlc.MachineryError(
                    f"c20: replay saw a difference ({t.get('diff')}) at walk {t.get('walk')} step "
                    f"{t.get('step')} that Trace_StyleSettings does not confirm: {v}")
        if v["verdict"] != "ok":
            sig = f"{W.LONG.get(v['set'], v['set'])}:{v['verdict']}"
            detail = f"[{origin}] " + _describe(t, v)
            if t.get("diff"):
                detail += f"\n  replay difference: {t['diff']}"
            rep.violation(sig, detail, _scenario(t, t.get("wseed", 0)))
    return verdicts


def judge(rep: Report, traces: list[dict], name: str, origin: str, expect_fail: bool = False):
    return report(rep, traces, validate(traces, name), origin, expect_fail)


# ------------------------------------------------------------------ main
def _replay(rep: Report, replay: dict) -> None:
    sc = replay["scenario"]
    if sc.get("kind") == "design":
        res = tlc.run("StyleSettings", "MC_StyleSettings_quick.cfg", workers=8, timeout=900)
        rep.add_tlc(res)
        if res.violated:
            rep.violation(f"design:StyleSettings:{res.violated}", res.error_text[:1500], sc)
        return
    stubs.install()
    t = record({"fam": sc["fam"], "par": sc["par"], "nc": sc["nc"], "init": sc.get("init"), "geo": sc.get("geo"),
                "dm": sc.get("dm"), "fl": sc.get("fl"), "real": sc.get("real"),
                "ops": sc["ops"], "wseed": sc.get("wseed", 0)})
    rep.evaluations += len(t["ev"])
    t["wseed"] = sc.get("wseed", 0)
    judge(rep, [t], "c20-replay", "replay")


def main(rep: Report, replay: dict | None) -> None:
    rep.assumptions += ASSUMPTIONS
    rep.rule = (
        "spec->code: every edge of the bounded model (7 nodes; per family and setting all override "
        "maps with <= MaxWeight overridden nodes x every operation of the alphabet) replayed on real "
        "classes, all nodes read after each step; code->spec: seeded histories on random deeper trees; "
        "distinct_nontrivial = distinct (family, setting, state, operation) edges + distinct recorded "
        "histories"
    )
    if replay:
        _replay(rep, replay)
        return
    quick = rep.tier == "quick"
    timing = rep.extra.setdefault("timing_s", {})
    t0 = time.time()

    def lap(name):
        nonlocal t0
        timing[name] = round(time.time() - t0, 1)
        t0 = time.time()

    stubs.install()
    pool = mp.get_context("fork").Pool(POOL)  # forked before any thread exists
    try:
        with ThreadPoolExecutor(max_workers=3) as ex:
            f_mc = ex.submit(
                tlc.run, "StyleSettings",
                "MC_StyleSettings_quick.cfg" if quick else "MC_StyleSettings.cfg",
                workers=4 if quick else 8, timeout=300 if quick else 1500, coverage=True)
            f_edges = ex.submit(
                tlc.run, "StyleSettings",
                "Edges_StyleSettings_quick.cfg" if quick else "Edges_StyleSettings_thorough.cfg",
                workers=1, timeout=300 if quick else 1500, coverage=True)

            # ---- code -> spec: record histories while TLC runs
            rng = random.Random(rep.seed * 104729 + 20)
            ntr = 150 if quick else 1500
            tasks = []
            for i in range(ntr):
                fam = "iterm2" if i % 5 < 3 else "kitty"
                par, nc, dm, fl, real = gen_tree(rng, rep.tier)
                length = rng.randint(8, 16) if quick else rng.randint(12, 40)
                tasks.append({"fam": fam, "par": par, "nc": nc, "dm": dm, "fl": fl, "real": real,
                              "wseed": rng.randrange(1 << 30), "ops": gen_ops(rng, fam, par, nc, length, real)})
            recorded = pool.map(record, tasks, chunksize=4)
            for t, task in zip(recorded, tasks):
                t["wseed"] = task["wseed"]
            lap("record_histories")
            # canary: a corrupted copy of a recorded trace (one observed value flipped in its first
            # event) rides along; the Trace spec must reject it at that event
            src = next(t for t in recorded if t["fam"] == "iterm2")
            canary = json.loads(json.dumps(_trace_json(src)))
            canary["ev"] = canary["ev"][:1]
            v0 = canary["ev"][0]["eff"]["rf"][0]
            canary["ev"][0]["eff"]["rf"][0] = "bool:0" if v0 == "bool:1" else "bool:1"
            f_hist = ex.submit(validate, recorded + [canary], "c20-c2s")

            # ---- spec -> code: replay every edge
            res_e = f_edges.result()
            if res_e.violated:
                raise tlc.MachineryError(f"c20: edge dump run failed: {res_e.violated}\n{res_e.error_text[:1500]}")
            rep.add_tlc(res_e)
            require_actions(res_e, "the edge dump")
            lap("wait_edge_dump")
            g = graph.from_result(res_e)
            defaults = {}
            trees = {}
            geos = None
            for d in res_e.tagged("DEFAULTS"):
                defaults[d["fam"]] = {x["set"]: x["v"] for x in d["eff"]}
                defaults[d["fam"]]["clr"] = d["clr"]
                trees[(d["fam"], d["cur"])] = d
                geos = d["geos"]
            if not g.edges or not trees or set(defaults) != {"kitty", "iterm2"}:
                raise tlc.MachineryError("c20: edge dump is empty / has no DEFAULTS line")
            walks = g.walks(max_len=60)
            if g.unreachable_edges:
                raise tlc.MachineryError(f"c20: {g.unreachable_edges} dumped edges are unreachable")
            # metaclass variant per walk: rotating; the walks of the global setting under every variant
            wtasks = []
            for i, w in enumerate(walks):
                tr = trees[(w[0]["from"]["fam"], w[0]["from"]["cur"])]
                metas = tr["variants"]
                if w[0]["from"]["cur"] == "nb":
                    variants = metas
                else:
                    variants = [metas[(i + rep.seed) % len(metas)]]
                for cv in variants:
                    wtasks.append({"idx": i, "walk": w, "defaults": defaults[w[0]["from"]["fam"]], "par": tr["par"],
                                   "nc": tr["nc"], "real": tr["real"], "dm": cv["dm"], "fl": cv["fl"], "geos": geos, "wseed": rep.seed * 1000003 + i})
            wtasks.sort(key=lambda t: -len(t["walk"]))
            lap("build_walks")
            results = pool.map(replay_walk, wtasks, chunksize=2)
            lap("replay_walks")

            # ---- canary: a tampered edge must be noticed by the replay
            tampered = json.loads(json.dumps(next(t for t in wtasks if t["walk"][0]["from"]["cur"] == "jq")))
            tampered["walk"] = tampered["walk"][:1]
            tampered["walk"][0]["op"]["exp"]["eff"][2] = "int:77"
            if not pool.apply(replay_walk, (tampered,))["mismatches"]:
                raise tlc.MachineryError("c20: the replay did not notice a tampered edge")

            res_mc = f_mc.result()
            lap("wait_model_check")
            hv, hst, htr = f_hist.result()
            lap("wait_validate_histories")
            cv = hv.pop()
            if cv["verdict"] == "ok" or cv["at"] != 1:
                raise tlc.MachineryError(f"c20: Trace_StyleSettings accepted a corrupted trace: {cv}")
            rep.extra["canary"] = {"corrupted_trace_verdict": cv["verdict"], "tampered_edge": "noticed"}
            hist_validated = (hv, hst, htr)
    finally:
        pool.terminate()
        pool.join()

    # ---- the model itself
    rep.add_tlc(res_mc)
    if res_mc.violated:
        rep.violation(f"design:StyleSettings:{res_mc.violated}",
                      "the model in StyleSettings.tla violates " + res_mc.violated + "\n" + res_mc.error_text[:1500],
                      {"kind": "design"})
    mc_cov = require_actions(res_mc, "the model-checking run")
    rep.extra["model"] = {"states": res_mc.distinct, "transitions": res_mc.generated, "depth": res_mc.depth,
                          "actions_generated": mc_cov, "wall_s": round(res_mc.wall_s, 1)}
    rep.exhaustive = True
    rep.extra["exhaustive_space"] = (
        "7-node tree (5 classes, 2 instances), per family x setting: every override map with at most "
        + ("5" if quick else "7 (= all)") + " overridden nodes model-checked with every operation of the alphabet; "
        "every edge between maps with at most " + ("2" if quick else "3") + " overridden nodes replayed on the real classes")

    # ---- replay results
    steps = sum(r["steps"] for r in results)
    mism = [m for r in results for m in r["mismatches"]]
    rep.evaluations += steps + sum(len(t["ev"]) for t in recorded)
    rep.traces_validated += len(wtasks)
    for e in g.edges:
        rep.distinct.add(("edge", graph.key(e["from"]), graph.key(e["op"])))
    rep.extra["replay"] = {"edges": len(g.edges), "model_states": g.nodes, "walks": len(walks), "walk_runs": len(wtasks),
                           "trees": {f"{k[0]}/{k[1]}": v["par"] for k, v in trees.items()}, "steps": steps,
                           "disagreeing_steps": len(mism), "resyncs": sum(r["resyncs"] for r in results),
                           "walks_abandoned": sum(1 for r in results if r["abandoned"])}
    if any(r["abandoned"] for r in results):
        rep.notes.append("some walks were abandoned because the real classes could not be resynchronised")
    judge(rep, mism, "c20-s2c", "spec->code replay", expect_fail=True)
    lap("classify_replay_differences")

    # ---- recorded histories
    verdicts = report(rep, recorded, hist_validated, "code->spec history")
    for t in recorded:
        rep.distinct.add(("hist", t["fam"], tuple(t["par"]), json.dumps([(e["k"], e["set"], e["n"], W.show(e["a"])) for e in t["ev"]])))
    rep.extra["histories"] = {"recorded": len(recorded), "events": sum(v["events"] for v in verdicts),
                              "events_judged": sum(v["judged"] for v in verdicts),
                              "max_classes": max(t["nc"] for t in recorded),
                              "rejected": sum(1 for v in verdicts if v["verdict"] != "ok")}

    w0 = next((w for w in walks if len({e["op"]["k"] + e["op"]["res"] for e in w[:8]}) >= 3), walks[0])
    rep.sample({"walk": [{k: v for k, v in e["op"].items() if k != "exp"} for e in w0[:6]],
                "family": w0[0]["from"]["fam"]})
    rep.sample({"history": _scenario(recorded[0], 0)["ops"][:6], "family": recorded[0]["fam"],
                "par": recorded[0]["par"]})
