"""C14 spec -> code: replay walks of the TtyLock state graph into the real wrappers.

A *world* is one execution of one walk: for every process of the model a freshly loaded
copy of ``term_image/utils.py`` (own globals) with the instrumented locks of
``env/sched.py``; for every model thread a real thread running its program against the
REAL ``lock_tty`` wrapper (or the real ``get_cell_size`` for the ``_cell_size_lock``
instance) and the REAL ``_process_start_wrapper`` / ``_process_run_wrapper``.  Each edge of
the walk names the thread that moves and the statement it executes; the controller checks
that the real thread is parked at that kind of scheduling point, lets it run to the next
one, and then compares with the specification's next state:

* the set of threads inside probe bodies (``incs``),
* the set of threads whose pending acquire cannot succeed (``blk``),
* for ``Read``: the reply the real probe got from the FIFO terminal.

Thread population (model ``n``): a model thread exists in the world from the step ``Create`` that brings it into
existence (or from the start of its process when ``Creator`` is 0); what the ``threading`` module would tell the code
of a process about its threads (``active_count()``, ``enumerate()``) is the model's: born, not finished, created
through ``threading`` (``Kind``) - every process of a world is a module copy inside ONE OS process, so the real answer
would count the controller and the threads of all processes.  Time (``Elapse``): more time than any finite timeout
passes with nobody moving; bounded waits for a lock expire (``sched.expire_waits``), unbounded ones keep waiting.
"""

from __future__ import annotations

import os
from collections import deque

from .env import sched
from .tlc import MachineryError

EXPECT = {
    "ReadA": "read", "ReadB": "read", "SReadA": "read", "STest": "read", "SCopy": "read",
    "AcqA": "acquire", "AcqB": "acquire", "SAcqA": "acquire",
    "RelB": "release", "RelA": "release", "SRel": "release",
    "Nest": "body", "Write": "body", "Read": "reply",
    "SNew": "newlock", "SSpawn": "spawn",
}

# which property clause a divergence at a given statement speaks about
CLAUSE = {
    "incs": "MutualExclusion",
    "blk": "MutualExclusion",
    "blocked-on-self": "Reentrant",
    "reply": "OwnReply",
}


class Divergence(Exception):
    def __init__(self, clause, what, detail):
        super().__init__(detail)
        self.clause = clause
        self.what = what
        self.detail = detail


class FakeTerminal:
    """FIFO terminal: answers requests in the order they were written."""

    def __init__(self):
        self.inq: deque = deque()
        self.outq: deque = deque()

    def reply(self):
        self.outq.append(self.inq.popleft())


class World:
    def __init__(self, config: dict, instance: str, modes: list[str], uid: int, qen: bool = True):
        self.cfg = config
        self.instance = instance  # "tty" | "cell"
        self.lockname = "_tty_lock" if instance == "tty" else "_cell_size_lock"
        self.modes = modes  # modes[c-1] for child c
        self.uid = uid
        self.ctl = sched.Controller(groups=[instance])
        self.ctl.on_cache_write = self._cache_written  # type: ignore[attr-defined]
        self.term = FakeTerminal()
        self.procs: dict[int, dict] = {}
        self.procobj: dict[int, sched.ProcObj] = {}
        self.replies: dict[int, list] = {}
        self.counter = 0
        self.born: set = set()
        self._item: dict = {}
        self._make_proc(0, None)
        # configuration of the root process at its first Process.start() (disable_queries() or not)
        dict.__setitem__(self.procs[0], "_queries_enabled", bool(qen))
        for t in self.born0_of(0):
            self.born.add(t)
            self.ctl.spawn(t, self._program(t))
        for t in self.born0_of(0):
            self._to_first(t)

    # -- model constants ----------------------------------------------------------------
    def proc_of(self, t):
        return self.cfg["procOf"][t - 1]

    def prog(self, t):
        return self.cfg["prog"][t - 1]

    def threads_of(self, p):
        return [t for t in range(1, self.cfg["nt"] + 1) if self.proc_of(t) == p]

    def creator(self, t):
        return (self.cfg.get("creator") or [0] * self.cfg["nt"])[t - 1]

    def kind(self, t):
        return (self.cfg.get("kind") or ["threading"] * self.cfg["nt"])[t - 1]

    def born0_of(self, p):
        """the threads process p has when it starts running"""
        return [t for t in self.threads_of(p) if self.creator(t) == 0]

    # -- what `threading` tells the code of process p about its threads ------------------
    def visible_threads(self, p):
        ths = self.threads_of(p)
        out = []
        for t in ths:
            mt = self.ctl.threads.get(t)
            alive = t in self.born and (t == ths[0] or mt is None or not mt.done)  # the main thread outlives its program
            if alive and self.kind(t) == "threading":
                out.append(t)
        return out or ths[:1]

    def _install_thread_view(self, g, p):
        import threading

        world = self

        class VThread:
            daemon = False

            def __init__(self, t, main):
                self.name = "MainThread" if main else f"Thread-{t}"
                self.ident = self.native_id = 1000 + t

            def is_alive(self):
                return True

        def enumerate_():
            first = world.threads_of(p)[0]
            return [VThread(t, t == first) for t in world.visible_threads(p)]

        def active_count():
            return len(world.visible_threads(p))

        over = {"active_count": active_count, "activeCount": active_count, "enumerate": enumerate_}

        class ThreadingView:
            def __getattr__(self, name):
                if name in over:
                    return over[name]
                if name == "RLock":
                    return dict.__getitem__(g, "RLock")
                return getattr(threading, name)

        real = {id(getattr(threading, n)): f for n, f in over.items() if hasattr(threading, n)}
        for k, v in list(g.items()):
            if k.startswith("__"):
                continue
            if v is threading:
                dict.__setitem__(g, k, ThreadingView())
            elif id(v) in real and callable(v):
                dict.__setitem__(g, k, real[id(v)])

    # -- processes ----------------------------------------------------------------------
    def _make_proc(self, p, parent):
        g = sched.load_utils_copy(f"utils__c14_{self.uid}_p{p}", self.ctl)
        sched.install_locks(g, self.ctl, f"p{p}")
        if parent is not None and self.modes[p - 1] == "fork":
            sched.fork_into(self.procs[parent], g, self.ctl, f"p{p}")
        self._install_thread_view(g, p)
        sched.apply_wrappers(g, self._fake_start, self._fake_run)
        if self.instance == "tty":
            g["__probe"] = self._make_probe(g)
        else:
            self._patch_cell(g)
        self.procs[p] = g

    def _make_probe(self, g):
        ctl, term, world = self.ctl, self.term, self

        @g["lock_tty"]
        def probe(depth, rid):
            me = ctl.cur().tid
            outer = me in ctl.inbody
            ctl.inbody.add(me)
            try:
                ctl.park("body")
                if depth > 1:
                    return probe(depth - 1, rid)
                term.inq.append(rid)
                ctl.park("reply")
                got = term.outq.popleft() if term.outq else None
                world.replies.setdefault(me, []).append((rid, got))
                return got
            finally:
                if not outer:
                    ctl.inbody.discard(me)

        return probe

    def _patch_cell(self, g):
        """``get_cell_size`` is the synchronized function; its body is made observable
        through the seams it calls: get_terminal_size (entry), fcntl.ioctl, cache write (exit)."""
        ctl, world = self.ctl, self

        def get_terminal_size():
            me = ctl.cur()
            if me is not None and not ctl.aborting:
                ctl.inbody.add(me.tid)
                ctl.park("body")
                world.counter += 1
                return os.terminal_size((1000 + world.counter, 50))  # never a cache hit
            return os.terminal_size((80, 24))

        class Fcntl:
            @staticmethod
            def ioctl(fd, req, buf, *a):
                if ctl.cur() is not None and not ctl.aborting:
                    ctl.park("reply")
                buf[0], buf[1], buf[2], buf[3] = 50, 80, 8000, 6000
                return 0

        g["get_terminal_size"] = get_terminal_size
        g["fcntl"] = Fcntl
        g["_tty_fd"] = 99  # never used for I/O: ioctl is the stand-in above

    def _cache_written(self):
        me = self.ctl.cur()
        if me is not None:
            self.ctl.inbody.discard(me.tid)

    # -- thread programs ----------------------------------------------------------------
    def _program(self, t):
        p = self.proc_of(t)

        def run():
            g = self.procs[p]
            for ip, item in enumerate(self.prog(t), start=1):
                self._item[t] = item["k"]
                if item["k"] == "call":
                    if self.instance == "tty":
                        g["__probe"](item["d"], [t, ip])
                    else:
                        g["get_cell_size"]()
                else:
                    c = item["c"]
                    self.procobj[c] = sched.ProcObj(c)
                    g["_process_start_wrapper"](self.procobj[c])

        return run

    def _fake_start(self, procobj):
        self.ctl.park("spawn", procobj)

    def _fake_run(self, procobj):
        # the child's main thread: Process.run() -> target
        t = self.threads_of(procobj.child)[0]
        self._program(t)()

    def _current_item(self, t):
        return self._item.get(t)

    def _to_first(self, t):
        at = self.ctl.resume(t)
        if at[0] == "done":
            return
        if at[0] != "read":
            raise Divergence(
                "MutualExclusion", "first-step",
                f"thread {t} started its program and stopped at {at[0]!r}; the specified first "
                f"statement is the read of the global {self.lockname}",
            )

    # -- observations -------------------------------------------------------------------
    def blocked(self):
        out = set()
        for t, mt in self.ctl.threads.items():
            if mt.at and mt.at[0] in ("acquire", "blocked") and not mt.at[1].free_for(mt):
                out.add(t)
        return out

    def describe(self):
        parts = []
        for t, mt in sorted(self.ctl.threads.items()):
            at = mt.at
            parts.append(f"t{t}@{at[0] if at else '?'}" + (f"({at[1].label})" if at and isinstance(at[1], sched.SLock) else ""))
        locks = []
        for p, g in sorted(self.procs.items()):
            locks.append(f"p{p}.{self.lockname}={dict.__getitem__(g, self.lockname)!r}")
        return " ".join(parts) + " | " + " ".join(locks) + f" | in bodies: {sorted(self.ctl.inbody)}"

    # -- one edge -----------------------------------------------------------------------
    def step(self, op: dict):
        act, t = op["act"], op["t"]
        ctl = self.ctl
        if act == "ToggleQ":
            g0 = self.procs[0]
            dict.__setitem__(g0, "_queries_enabled", not dict.__getitem__(g0, "_queries_enabled"))
        elif act == "Reply":
            if self.instance == "tty":
                if not self.term.inq:
                    raise Divergence("OwnReply", "reply", "the specification's terminal answers a request the code never wrote")
                self.term.reply()
        elif act == "RunWrap":
            c = op["req"][0]
            ths = self.born0_of(c)
            for t2 in ths:
                self._to_first(t2)
        elif act == "Create":
            # thread `u` comes into existence now (its creator is wherever the walk has taken it: inside a body, inside
            # the start wrapper, ...) and runs to the first statement of its program
            u = op["req"][0]
            self.born.add(u)
            ctl.spawn(u, self._program(u))
            self._to_first(u)
        elif act == "Elapse":
            # more time than any timeout goes by; the specification: whoever waits still waits (compared below)
            gone = sched.expire_waits(ctl)
            still = self.blocked()
            left = [x for x in gone if x not in still]
            if left:
                t2 = left[0]
                item = self._current_item(t2)
                raise Divergence(
                    "HandOverHeld" if item == "start" else "MutualExclusion", "Elapse:wait-abandoned",
                    f"thread {t2} ({'the start wrapper' if item == 'start' else 'a synchronized call'}) waited for the lock "
                    f"that guards the terminal, which another thread holds inside a synchronized call that lasts longer "
                    f"than any timeout; the specification: it waits for as long as it takes (the lock is handed over / "
                    f"entered only when free); the real code gave up waiting and went on without the lock "
                    f"(now at {ctl.where(t2) and ctl.where(t2)[0]!r})",
                )
        else:
            mt = ctl.threads.get(t)
            if mt is None or mt.done:
                raise Divergence("MutualExclusion", f"{act}:thread-finished",
                                 f"specification: thread {t} executes {act}; real thread already finished"
                                 + (f" with {mt.error!r}" if mt and mt.error else ""))
            want = EXPECT[act]
            have = mt.at[0] if mt.at else None
            # HOW the wrapper finds out whether the process already uses a process lock is not
            # part of the property (today: isinstance(G, thread-lock type), i.e. one more read of the
            # global): if the code decides without reading G, the step is a no-op for the real thread
            noop = (act == "STest" and have in ("newlock", "release", "spawn")) or (
                act == "SCopy" and have in ("release", "spawn"))
            if act == "SNew" and have in ("release", "spawn"):
                raise Divergence(
                    "MutualExclusion", "SNew:no-process-lock-created",
                    f"process {self.proc_of(t)} starts a process while it still uses its thread lock: it has to switch to a "
                    f"process lock and hand it over; the real start wrapper does neither (_queries_enabled="
                    f"{dict.__getitem__(self.procs[0], '_queries_enabled')}): parent and child keep private locks",
                )
            if act == "SCopy" and have == "newlock":
                raise Divergence(
                    "MutualExclusion", "SCopy:creates-second-process-lock",
                    f"process {self.proc_of(t)} already uses a process lock (installed by its run wrapper or by an earlier "
                    f"start) and has to hand THAT lock to the process it starts; the real start wrapper creates a new "
                    f"process lock instead: the started process and this process' later calls no longer synchronize "
                    f"with the processes that share the old lock",
                )
            if have != want and not noop:
                raise Divergence(
                    "MutualExclusion", f"{act}:at-{have}",
                    f"specification: thread {t} is about to execute {act} (a {want!r} point); the real "
                    f"thread is parked at {have!r} - the code does not execute the specified statement sequence",
                )
            if act == "SSpawn":
                procobj = mt.at[1]
                c = procobj.child
                self._make_proc(c, self.proc_of(t))
                for t2 in self.born0_of(c):
                    self.born.add(t2)
                    fn = (
                        (lambda po=procobj, gg=self.procs[c]: gg["_process_run_wrapper"](po))
                        if t2 == self.threads_of(c)[0]
                        else self._program(t2)
                    )
                    ctl.spawn(t2, fn)
            at = mt.at if noop else ctl.resume(t)
            if at[0] == "blocked":
                lock = at[1]
                if lock.owner is mt:
                    raise Divergence("Reentrant", f"{act}:blocked-on-self",
                                     f"thread {t} blocks on {lock!r}, which it holds itself: the lock is not re-entrant")
                raise Divergence("MutualExclusion", f"{act}:blocked",
                                 f"specification: {act} by thread {t} succeeds; the real acquire of {lock!r} blocks")
            if mt.error is not None:
                raise Divergence("MutualExclusion", f"{act}:raised-{type(mt.error).__name__}",
                                 f"{act} by thread {t}: the real code raised {mt.error!r}\n{mt.error_tb[-600:]}")
            if act == "Read" and self.instance == "tty":
                rid, got = self.replies[t][-1]
                if got != op["got"]:
                    raise Divergence("OwnReply", "Read:reply",
                                     f"thread {t} wrote request {rid} and read reply {got}; specified reply {op['got']}")
        incs = set(ctl.inbody)
        if incs != set(op["incs"]):
            raise Divergence(
                "MutualExclusion", f"{act}:in-body",
                f"after {act} by thread {t}: threads inside synchronized bodies: real {sorted(incs)}, "
                f"specified {sorted(op['incs'])}",
            )
        blk = self.blocked()
        spec_blk = set(op["blk"])
        if blk != spec_blk:
            extra = sorted(blk - spec_blk)
            if extra:
                t2 = extra[0]
                mt2 = ctl.threads[t2]
                lock = mt2.at[1]
                if lock.owner is mt2:
                    raise Divergence(
                        "Reentrant", f"{act}:would-block-on-self",
                        f"after {act} by thread {t}: thread {t2} is about to acquire {lock!r}, which it holds "
                        f"itself and which is not re-entrant (specified: the nested acquisition succeeds)",
                    )
                raise Divergence(
                    "NoDeadlock", f"{act}:waits-unspecified",
                    f"after {act} by thread {t}: thread {t2} must wait for {lock!r}; the specification lets it proceed",
                )
            raise Divergence(
                "MutualExclusion", f"{act}:blocked-set",
                f"after {act} by thread {t}: threads {sorted(spec_blk - blk)} must wait according to the "
                f"specification (the lock that guards the terminal is held by another thread), but the lock the "
                f"real thread is about to acquire is free: it would enter a held critical section",
            )
        if len(incs) > 1:
            raise Divergence("MutualExclusion", f"{act}:two-in-body", f"threads {sorted(incs)} are inside bodies")

    def close(self):
        self.ctl.abort_all()


def modes_of(edge: dict, np_: int) -> list[str]:
    """``mode`` is the 9th component of View; a function on 1..NP-1 prints as a JSON array."""
    m = edge["from"][8]
    if isinstance(m, dict):
        return [m[str(c)] for c in range(1, np_)]
    return list(m)


def replay_walk(config: dict, instance: str, walk: list[dict], uid: int):
    """Returns None, or (index, edge, Divergence) for the first divergence."""
    modes = modes_of(walk[0], config["np"])
    view = walk[0]["from"]
    qen = bool(view[9]) if len(view) > 9 else True  # View = <<..., mode, qen, ntog>>
    try:
        w = World(config, instance, modes, uid, qen)
    except Divergence as d:
        return 0, walk[0], d, "(setup)"
    try:
        for i, e in enumerate(walk):
            try:
                w.step(e["op"])
            except Divergence as d:
                return i, e, d, w.describe()
        return None
    finally:
        w.close()


def check_seams():
    g = sched.load_utils_copy("utils__c14_seamcheck")
    for n in ("_process_start_wrapper", "_process_run_wrapper", "lock_tty", "get_cell_size"):
        if not callable(g[n]):
            raise MachineryError(f"term_image.utils.{n} is not callable")


def replay_model(job: dict) -> dict:
    """Run in a worker process: TLC (exhaustive or simulation) with the edge dump, cover the
    printed graph with walks, replay every walk.  Returns plain data."""
    import sys
    import time

    from . import graph, tlc

    # a multiprocessing child has closed sys.__stdin__; importing term_image there would raise
    # ValueError from `.fileno()` (the library only expects OSError / AttributeError)
    if sys.__stdin__ is None or sys.__stdin__.closed:
        sys.__stdin__ = open(os.devnull)
    t0 = time.time()
    res = tlc.run("MC_TtyLock", job["cfg"], workers=1, timeout=job.get("timeout", 600), coverage=True,
                  simulate=job.get("simulate"), depth=job.get("depth"), seed=job.get("seed"))
    out = {
        "cfg": job["cfg"], "instance": job["instance"], "distinct": res.distinct, "generated": res.generated,
        "violated": res.violated, "error_text": res.error_text[:3000], "coverage": action_coverage(res.stdout),
        "tlc_s": round(time.time() - t0, 1), "divergences": [], "walks": 0, "steps": 0, "edges": 0,
    }
    if res.violated:
        return out
    conf = res.tagged("CONFIG")
    if not conf:
        raise MachineryError(f"{job['cfg']}: no CONFIG line")
    conf = conf[0]
    g = graph.from_result(res)
    walks = g.walks(max_len=job.get("max_len", 400))
    if getattr(g, "unreachable_edges", 0):
        raise MachineryError(f"{job['cfg']}: {g.unreachable_edges} dumped edges are unreachable from the initial states")
    out.update(edges=len(g.edges), nodes=g.nodes, walks=len(walks), config=conf,
               acts=sorted({e["op"]["act"] for e in g.edges}))
    t1 = time.time()
    limit = job.get("max_walks")
    if limit and len(walks) > limit:
        import random

        random.Random(job.get("seed") or 0).shuffle(walks)
        walks = walks[:limit]
        out["walks"] = len(walks)
    tamper = job.get("tamper")
    for i, w in enumerate(walks):
        r = replay_walk(conf, job["instance"], w, i)
        out["steps"] += len(w)
        if tamper is not None and i == 0 and not r:
            # self-check of the binding (only meaningful on a walk the code follows): a tampered
            # edge must be rejected, at that edge
            import copy

            w2 = copy.deepcopy(w)
            k = next((j for j, e in enumerate(w2) if e["op"]["act"] == "AcqB"), None)
            if k is not None:
                w2[k]["op"]["incs"] = []
                r2 = replay_walk(conf, job["instance"], w2, 10**6)
                out["tamper_rejected"] = bool(r2 and r2[0] == k)
        if r:
            idx, e, d, desc = r
            out["divergences"].append({
                "walk": w[: idx + 1], "idx": idx, "clause": d.clause, "what": d.what,
                "detail": d.detail, "state": desc,
                "path": [[x["op"]["t"], x["op"]["act"]] for x in w[: idx + 1]],
            })
            if len(out["divergences"]) >= job.get("max_div", 4):
                break
    if walks:
        out["sample"] = [[x["op"]["t"], x["op"]["act"]] for x in walks[len(walks) // 2]][:60]
    out["replay_s"] = round(time.time() - t1, 1)
    return out


def action_coverage(stdout: str) -> dict:
    """TLC's per-action coverage lines (tlc.py's parser does not know the LET-wrapped form)."""
    import re

    cov = {}
    for m in re.finditer(r"^<(\w+) line \d+, col \d+ to line \d+, col \d+ of module (\w+)(?: \([\d ]+\))?>: (\d+):(\d+)", stdout, re.M):
        cov[m.group(1)] = [int(m.group(3)), int(m.group(4))]
    return cov
