SPECIFICATION Spec
CONSTANTS
  Sizes <- S2
  Pixels <- P1
  Ratios <- R1
  XtModes = {"text", "cell"}
  IoPx = {FALSE}
  Ops = {"cell"}
  Faults = {"kbd", "exc"}
  Variant = "code"
INVARIANT TypeOK
INVARIANT CellFresh
INVARIANT RatioFresh
INVARIANT FixedSnapshot
INVARIANT MemoFresh
INVARIANT FaultFresh
INVARIANT BodyOnce
VIEW View
CHECK_DEADLOCK FALSE
ACTION_CONSTRAINT Dump
