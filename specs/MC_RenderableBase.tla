-------------------------- MODULE MC_RenderableBase --------------------------
(***************************************************************************)
(* X06: the state machine over RenderableBase!Do - one instance of a render  *)
(* class, one named action per API operation AND per documented branch of   *)
(* it (accepted / rejected / evaluating a POSTPONED count / failing hook),  *)
(* so that `-coverage 1` shows every branch was explored.                   *)
(*                                                                         *)
(*   MC_RenderableBase*.cfg: the complete graph (the only unbounded         *)
(*   quantity, failing calls of the base `_get_frame_count_`, cut at         *)
(*   MaxOps); with DumpEdges every edge is printed for the replay.           *)
(***************************************************************************)
EXTENDS RenderableBase, TLC, Json

CONSTANTS
  Hooks,      \* `_get_frame_count_` variants of the class under test
  CountArgs,  \* frame_count arguments offered to the constructor
  DurArgs,    \* frame_duration arguments offered to the constructor
  SetDurs,    \* values offered to the frame_duration setter
  Sizes,      \* render sizes the subclass may take (<<w, h>>)
  Offs,       \* seek offsets
  Pads,       \* left paddings offered to render()
  MaxOps,     \* bound on failing `_get_frame_count_` calls (CONSTRAINT Bound)
  DumpEdges

VARIABLES s, out
vars == <<s, out>>

Size0 == CHOOSE z \in Sizes : \A y \in Sizes : z[1] * 100 + z[2] <= y[1] * 100 + y[2]

Init == /\ \E hk \in Hooks : s = New(hk, Size0[1], Size0[2])
        /\ out = [op |-> Op0("init"), r |-> R0]

Step(op) == LET d == Do(s, op) IN s' = d.s /\ out' = [op |-> op, r |-> d.r]
Live == s.phase = "live"
Postponed == s.cnt.k = "post"

(* ---- construction (L1, L2) ---- *)
OpConstruct(fc, fd) == Op("construct", fc, fd, 0, 0, "", "")
Construct ==
  s.phase = "new" /\ \E fc \in CountArgs, fd \in DurArgs :
     ValidCount(fc) /\ Animated(fc) /\ ValidDur(fd) /\ Step(OpConstruct(fc, fd))
ConstructIgnoresDuration ==      \* frame_count = 1: ANY frame_duration is accepted and ignored
  s.phase = "new" /\ \E fc \in CountArgs, fd \in DurArgs : ~Animated(fc) /\ Step(OpConstruct(fc, fd))
ConstructBadCount ==
  s.phase = "new" /\ \E fc \in CountArgs, fd \in DurArgs : ~ValidCount(fc) /\ Step(OpConstruct(fc, fd))
ConstructBadDuration ==
  s.phase = "new" /\ \E fc \in CountArgs, fd \in DurArgs :
     ValidCount(fc) /\ Animated(fc) /\ ~ValidDur(fd) /\ Step(OpConstruct(fc, fd))

(* ---- reads ---- *)
GetAnimated == Live /\ Step(Op0("animated"))
Tell == Live /\ Step(Op0("tell"))
GetFrameCount == Live /\ ~Postponed /\ Step(Op0("frame_count"))
GetFrameCountEvaluates == Live /\ Postponed /\ s.hook.k # "unimpl" /\ Step(Op0("frame_count"))
GetFrameCountUnimplemented == Live /\ Postponed /\ s.hook.k = "unimpl" /\ Step(Op0("frame_count"))
GetDuration == Live /\ s.anim /\ Step(Op0("get_duration"))
GetDurationNonAnimated == Live /\ ~s.anim /\ Step(Op0("get_duration"))
GetRenderSize == Live /\ Step(Op0("render_size"))

(* ---- frame_duration setter (L4) ---- *)
OpSetDur(d) == Op("set_duration", d, NONE, 0, 0, "", "")
SetDuration == Live /\ s.anim /\ \E d \in SetDurs : ValidDur(d) /\ Step(OpSetDur(d))
SetDurationInvalid == Live /\ s.anim /\ \E d \in SetDurs : ~ValidDur(d) /\ Step(OpSetDur(d))
SetDurationNonAnimated == Live /\ ~s.anim /\ \E d \in SetDurs : Step(OpSetDur(d))

(* ---- the subclass's own state ---- *)
Resize == Live /\ \E z \in Sizes : <<s.w, s.h>> # z /\ Step(Op("resize", NONE, NONE, z[1], z[2], "", ""))

(* ---- render / str (L6, L7) ---- *)
OpRender(t, p, f) == Op("render", NONE, NONE, p, 0, t, f)
Render == Live /\ \E t \in RenderArgKinds \ {"bad"} : Step(OpRender(t, 0, "no"))
RenderPadded == Live /\ \E t \in RenderArgKinds \ {"bad"}, p \in Pads \ {0} : Step(OpRender(t, p, "no"))
RenderBadArgs == Live /\ \E p \in Pads : Step(OpRender("bad", p, "no"))
RenderFails == Live /\ \E t \in {"none", "own"}, f \in FailKinds \ {"no"} : Step(OpRender(t, 0, f))
Str == Live /\ Step(Op("str", NONE, NONE, 0, 0, "", "no"))
StrFails == Live /\ \E f \in FailKinds \ {"no"} : Step(Op("str", NONE, NONE, 0, 0, "", f))

(* ---- `_init_render_` called directly by an extension (L6) ---- *)
OpInitRender(fin, it, f) == Op("init_render", NONE, NONE, fin, it, "", f)
InitRender == Live /\ \E it \in {0, 1} : Step(OpInitRender(1, it, "no"))
InitRenderCallerOwnsData == Live /\ \E it \in {0, 1} : Step(OpInitRender(0, it, "no"))
InitRenderFails == Live /\ \E fin \in {0, 1}, it \in {0, 1} : Step(OpInitRender(fin, it, "exc"))

(* ---- iter (L8) ---- *)
Iter == Live /\ s.anim /\ ~Postponed /\ Step(Op0("iter"))
IterEvaluates == Live /\ s.anim /\ Postponed /\ s.hook.k # "unimpl" /\ Step(Op0("iter"))
IterUnimplemented == Live /\ s.anim /\ Postponed /\ s.hook.k = "unimpl" /\ Step(Op0("iter"))
IterNonAnimated == Live /\ ~s.anim /\ Step(Op0("iter"))

(* ---- seek (moves the current frame; evaluates) ---- *)
OpSeek(x) == Op("seek", NONE, NONE, x, 0, "", "")
SeekOutcome(x) == Do(s, OpSeek(x)).r.res
Seek == Live /\ ~Postponed /\ \E x \in Offs : SeekOutcome(x) = "ok" /\ Step(OpSeek(x))
SeekEvaluates == Live /\ Postponed /\ s.hook.k # "unimpl" /\ \E x \in Offs : Step(OpSeek(x))
SeekOutOfRange == Live /\ ~Postponed /\ \E x \in Offs : SeekOutcome(x) = "ValueError" /\ Step(OpSeek(x))
SeekIndefinite == Live /\ ~Postponed /\ \E x \in Offs : SeekOutcome(x) = "IndefiniteSeekError" /\ Step(OpSeek(x))
SeekUnimplemented == Live /\ Postponed /\ s.hook.k = "unimpl" /\ \E x \in Offs : Step(OpSeek(x))

(* ---- draw of a non-animation (L9) ---- *)
Draw == Live /\ Step(Op("draw", NONE, NONE, 0, 0, "", "no"))
DrawInterrupted == Live /\ Step(Op("draw", NONE, NONE, 0, 0, "", "interrupt"))

(* ---- read-only attributes (L10) ---- *)
AssignReadOnly == Live /\ \E t \in ReadOnly : Step(Op("assign", NONE, NONE, 0, 0, t, ""))

Next ==
  \/ Construct \/ ConstructIgnoresDuration \/ ConstructBadCount \/ ConstructBadDuration
  \/ GetAnimated \/ Tell \/ GetFrameCount \/ GetFrameCountEvaluates \/ GetFrameCountUnimplemented
  \/ GetDuration \/ GetDurationNonAnimated \/ GetRenderSize
  \/ SetDuration \/ SetDurationInvalid \/ SetDurationNonAnimated \/ Resize
  \/ Render \/ RenderPadded \/ RenderBadArgs \/ RenderFails \/ Str \/ StrFails
  \/ InitRender \/ InitRenderCallerOwnsData \/ InitRenderFails
  \/ Iter \/ IterEvaluates \/ IterUnimplemented \/ IterNonAnimated
  \/ Seek \/ SeekEvaluates \/ SeekOutOfRange \/ SeekIndefinite \/ SeekUnimplemented
  \/ Draw \/ DrawInterrupted \/ AssignReadOnly

Spec == Init /\ [][Next]_vars

\* the only unbounded quantity: failing calls of the base `_get_frame_count_`
Bound == s.ncount <= MaxOps
\* `out` (the last operation and its result) only labels the edges
View == s

(* ======================= properties ======================= *)
TypeOK ==
  /\ s.phase \in {"new", "live"}
  /\ ValidHook(s.hook)
  /\ s.phase = "live" => /\ ValidCount(s.cnt0) /\ ValidCount(s.cnt)
                         /\ s.frame \in Nat /\ s.w >= 1 /\ s.h >= 1
  /\ out.r.res \in {"ok", "ValueError", "NonAnimatedRenderableError", "NotImplementedError",
                    "IndefiniteSeekError", "IncompatibleRenderArgsError", "AttributeError",
                    "ProbeError", "KeyboardInterrupt"}

\* L1: an instance exists only for valid arguments
ConstructedValid == Live => ValidCount(s.cnt0) /\ (s.anim => ValidDur(s.dur))
\* L2
AnimatedIsCountNotOne == Live => (s.anim <=> Animated(s.cnt0)) /\ (s.anim <=> Animated(s.cnt))
\* L4 / L1: a non-animated renderable has no duration, an animated one always a valid one
DurationIffAnimated == Live => IF s.anim THEN ValidDur(s.dur) ELSE s.dur = NONE
\* L3
EvaluatedAtMostOnce == s.evals <= 1
EvaluatedOnlyIfPostponed == s.evals = 1 => s.cnt0 = POST /\ s.cnt = s.hook
ResolvedIffEvaluated == Live /\ s.cnt0 = POST => (s.cnt = POST <=> s.evals = 0)
HookConsultedOnlyWhilePostponed == s.cnt0 # POST => s.ncount = 0
HookCallsWhenImplemented == s.hook.k # "unimpl" => s.ncount = s.evals
FrameInRange == Live => IF s.cnt.k = "int" THEN s.frame < s.cnt.v ELSE s.frame = 0
\* L6: between operations every render data created has been finalized
DataBalanced == s.nlive = 0
\* L6/L7: what a render shows is the current frame at the current size with the current duration
RenderShowsCurrentState ==
  out.op.name \in {"render", "str", "draw"} /\ out.r.res = "ok" =>
    /\ out.r.frame.shown = s.frame /\ out.r.frame.bw = s.w /\ out.r.frame.bh = s.h
    /\ out.r.data.off = s.frame /\ out.r.data.dur = (IF s.anim THEN s.dur ELSE UNINIT)
    /\ out.op.name = "render" =>
         /\ out.r.frame.num = s.frame
         /\ s.anim /\ s.dur.k = "int" => out.r.frame.dur = s.dur.v
         /\ out.r.frame.w = s.w + out.op.x
\* L6: every render operation that reached the hooks created data once, rendered once, finalized once
RenderProtocol ==
  out.op.name \in {"render", "str", "draw"} /\ out.r.hooks # <<>> =>
    /\ out.r.hooks[1] = "data" /\ out.r.hooks[2] = "render" /\ out.r.hooks[Len(out.r.hooks)] = "final"
    /\ Cardinality({i \in DOMAIN out.r.hooks : out.r.hooks[i] = "final"}) = 1
    /\ out.r.nsize = 1 /\ ~out.r.data.fin /\ ~out.r.data.iter
    /\ (out.r.hdl.called = 1) = (out.op.name = "draw" /\ out.op.f = "interrupt")

\* L6: `_init_render_` finalizes iff asked to, whether or not the renderer raised
InitRenderFinalizesIffAsked ==
  out.op.name = "init_render" =>
    /\ (out.r.hooks[Len(out.r.hooks)] = "final") = (out.op.x = 1)
    /\ out.r.data.iter = (out.op.y = 1) /\ ~out.r.data.fin /\ out.r.nsize = 1

\* The three predicates above speak about `out`, which is not part of the VIEW: a state reached again with
\* another `out` is not re-examined as a state, so they are checked on every TRANSITION instead.
EveryRenderShowsCurrentState == [][RenderShowsCurrentState']_vars
EveryRenderFollowsProtocol == [][RenderProtocol']_vars
EveryInitRenderFinalizesIffAsked == [][InitRenderFinalizesIffAsked']_vars
EveryResultWellTyped == [][TypeOK']_vars

\* L11 (action properties)
RejectedChangesNothing ==
  [][Rejected(out'.r) =>
       IF out'.op.name \in Evaluators THEN Unresolved(Core(s')) = Unresolved(Core(s)) /\ s'.evals >= s.evals
       ELSE Core(s') = Core(s)]_vars
ReadsChangeNothing ==
  [][out'.op.name \notin Mutators =>
       IF out'.op.name \in Evaluators THEN Unresolved(Core(s')) = Unresolved(Core(s))
       ELSE Core(s') = Core(s)]_vars
\* L3: once evaluated, never again, and never back to POSTPONED
EvaluationIsFinal == [][s.phase = "live" /\ s.cnt # POST => s'.cnt = s.cnt /\ s'.evals = s.evals]_vars
\* L3: only the operations that need the count evaluate it
OnlyEvaluatorsEvaluate == [][s'.ncount # s.ncount => out'.op.name \in Evaluators]_vars
\* L4: an accepted set takes effect (and is what the next render hands to `_render_`: RenderShowsCurrentState)
SetDurationTakesEffect ==
  [][out'.op.name = "set_duration" /\ ~Rejected(out'.r) => s'.dur = out'.op.a /\ Core(s') = [Core(s) EXCEPT !.dur = out'.op.a]]_vars
OnlySetterChangesDuration == [][s.phase = "live" /\ s'.dur # s.dur => out'.op.name = "set_duration"]_vars
OnlySeekMovesFrame == [][s.phase = "live" /\ s'.frame # s.frame => out'.op.name = "seek"]_vars
AnimatedNeverChanges == [][s.phase = "live" => s'.anim = s.anim /\ s'.cnt0 = s.cnt0]_vars

(* ======================= constants of the configurations ======================= *)
HooksQ == {UNIMPL, I(2), I(3), INDEF}
CountArgsQ == {I(-1), I(0), I(1), I(2), I(3), INDEF, POST}
DurArgsQ == {I(-2), I(0), I(5), DYN}
SetDursQ == {I(-1), I(0), I(5), I(9), DYN}
SizesQ == {<<2, 1>>, <<3, 2>>}
OffsQ == -1..3
PadsQ == {0, 1}
HooksT == {UNIMPL, I(2), I(4), INDEF}
CountArgsT == {I(-3), I(0), I(1), I(2), I(4), INDEF, POST}
DurArgsT == {I(-2), I(0), I(1), I(40), DYN}
SetDursT == {I(-7), I(0), I(1), I(5), I(9), DYN}
SizesT == {<<1, 1>>, <<2, 3>>, <<4, 2>>}
OffsT == -2..5
PadsT == {0, 1, 3}

(* ======================= edge dump ======================= *)
Node(t) == [c |-> Core(t), calls |-> t.ncount]
Dump == DumpEdges => PrintT(<<"EDGE", ToJson([from |-> Node(s), op |-> out', to |-> Node(s'), obs |-> Passive(s')])>>)
InitDump == DumpEdges /\ TLCGet("level") = 1 => PrintT(<<"INIT", ToJson(Node(s))>>)
=============================================================================
