SPECIFICATION Spec
CONSTANTS
  MaxLen = 4
  Prune = FALSE
  Alphabet = {"<", "|", ">", "^", "-", "_", ".", "#", "+", "0", "1", "5", "a", "f"}
INVARIANT TypeOK
INVARIANT Unambiguous
INVARIANT ParseIsTheGrammar
INVARIANT MachineAgrees
INVARIANT DeadIsDead
INVARIANT LaxOnlyAddsBareDots
INVARIANT StyleSpecific
CHECK_DEADLOCK FALSE
