"""C03 - graphics renders transmit exactly the image, in well-formed protocol framing.

model:    specs/Gfx.tla (receiver, producer, strip / resolution rules, iTerm2 clauses)
          MC_Gfx       producer (x) receiver for EVERY payload length 0..3*CS+8
                       (CS = 16 and the real constant 4096)
          MC_GfxRender render loops transcribed (x) chunker (x) encoder (x) the trace judges
          MC_GfxB64    base64 encoder (x) stream clauses for every payload SIZE CLASS
                       (0..48, k*2^16+d, k*2^20+d, 3*2^k+-1, 2^21+1, 2^22+1, 2^23+1)
binding:  spec -> code: every chunk sequence TLC generated is replayed into the REAL
                       Transmission.get_chunks (stub payload of that length) and compared;
          code -> spec: command sequences of REAL renders, with dumb projections
                       (harness/c03_project.py), validated by TLC against Trace_Gfx.tla.
"""

from __future__ import annotations

import copy
import json
import os
import random
import shutil
import struct
import time
import warnings
import zlib
from concurrent.futures import ThreadPoolExecutor
from pathlib import Path

from PIL import Image
from PIL.PngImagePlugin import PngInfo

from .. import c03_project as proj
from .. import imgs, lexer, renderkit, tlc
from ..core import Report
from ..env import stubs

CS = 4096

ASSUMPTIONS = [
    "kitty graphics protocol: a chunked transmission carries its control data in the first chunk, "
    "later chunks only m (and q); every chunk but the last is a multiple of 4 base64 characters "
    "and no chunk exceeds 4096; m=1 iff another chunk follows; o=z payloads are zlib streams; "
    "f=24/32 payloads are s*v*3 / s*v*4 bytes",
    "iTerm2 inline images: size= is the byte count of the decoded payload; width/height in cells",
    "trusted dumb projection (harness/c03_project.py): base64 / zlib / PNG / JPEG decoding and byte "
    "comparison; JPEG payloads are only required to decode to the right dimensions",
    "reference pixels: the source converted as the alpha setting documents (no alpha / opaque "
    "source -> RGB, float alpha -> RGBA untouched, background colour -> composited) and resized "
    "with Pillow BOX to the TRANSMITTED resolution; the resolution itself is judged in TLA+ "
    "(render px size for LINES, minimal render size for WHOLE)",
    "iTerm2 ANIM on a non-animated image / on a frame ('the WHOLE method is used instead'): "
    "either the render-size or the minimal-size picture is accepted, and the source file is "
    "accepted iff the WHOLE read-from-file gate holds",
    "blend=False (internal parameter): exactly one delete-at-cursor precedes each transmission",
    "unstable environment (cell size alternating between two values on successive get_cell_size() reads "
    "within one render): the clauses do not presuppose which read sizes what; they require ONE admissible "
    "resolution per render, identical s x v for every strip, rh strips with rows [k*v,(k+1)*v), pixels equal "
    "to the reference at the transmitted resolution s x v*rh, and no exception",
    "multi-render histories on one image object (seek / render / partially consumed ImageIterator): every "
    "render and every iterator frame is judged on its own against the CURRENT frame (image.tell() / the "
    "iterator's frame number) of the source, re-read from the file",
    "interleaved renders: render B of another image object (or the same one; the documentation says nothing "
    "against re-entrancy) runs to completion inside a seam render A calls between two of its strips "
    "(module-level standard_b64encode / compress of the style module); renders are independent: A's and "
    "B's command streams are each judged by the same clauses against their own references",
    "jpeg_quality: every value below 0 disables JPEG encoding (documented: 'value < 0; JPEG encoding is "
    "disabled'); values are set on the instance or class-wide (unset again after each case)",
    "payload size classes: a payload is ONE base64 string whatever its size ('=' only as the last one or two "
    "characters of the whole payload; a strict decoder obtains exactly size= / s*v*bpp bytes); sizes around "
    "64 KiB, 1 MiB and their multiples, 3*2^k and several MiB are realised with source files of exactly n bytes "
    "(a PNG with a private ancillary chunk vrFy, a GIF with an application extension block) sent as they are "
    "by iTerm2 WHOLE (read-from-file) / native ANIM renders, and with incompressible pictures of > 1 MiB",
    "payload length 0 cannot occur in a real render (sizes are >= 1 px): it is covered by the "
    "spec -> code replay of get_chunks only",
]

CELLS = [[2, 4], [9, 18], [3, 5], [16, 33]]
EXTRA_CELLS = [[16, 32], [11, 31]]  # LINES strips landing on exact / -4 chunk boundaries
ALPHAS = [None, 0.4, 40 / 255, 0.999, "#", "#102030"]
FILE_MODES = ["1", "L", "LA", "P", "RGB", "RGBA", "CMYK"]
PIL_MODES = FILE_MODES + ["PA", "HSV"]
KITTY_IDENTS = ["kitty", "kitty-old", "konsole"]
ITERM_IDENTS = ["iterm2", "konsole", "wezterm"]

# terminal backgrounds (alpha "#" composites over them): black / none, components below 0x10
# (a hex form without zero padding is malformed or mis-parsed), mixed, and plain ones
TERM_BGS = [None, [0, 0, 0], [16, 32, 48], [13, 17, 23], [0, 255, 0], [8, 8, 8], [1, 2, 3], [15, 16, 17],
            [255, 0, 9], [10, 200, 255]]

_dir: Path | None = None


# --------------------------------------------------------------------------- sources

def make_pixels(rng: random.Random, mode: str, w: int, h: int, style: str) -> Image.Image:
    if style == "noise":
        base = Image.frombytes("RGBA", (w, h), rng.randbytes(w * h * 4))
    else:
        base = Image.new("RGBA", (w, h))
        n = w * h
        px = imgs.rgba_pixels(rng, min(n, 600), 1, style)
        base.putdata((px * (n // len(px) + 1))[:n])
    if mode == "RGBA":
        return base
    if mode == "PA":
        p = base.convert("RGB").convert("P")
        img = Image.new("PA", (w, h))
        img.putpalette(p.getpalette())
        img.putdata(list(zip(p.getdata(), base.getchannel("A").getdata())))
        return img
    if mode == "P":
        img = base.convert("RGB").convert("P", palette=Image.Palette.ADAPTIVE, colors=8)
        img.info["transparency"] = 0
        return img
    if mode == "LA":
        return base.convert("LA")
    return base.convert("RGB").convert(mode)


def _save(img: Image.Image, path: Path, seed: int) -> None:
    """Source files carry a private marker so that no re-encoding can reproduce their bytes."""
    if path.suffix == ".png":
        info = PngInfo()
        info.add_text("verif", f"c03-{seed}")
        img.save(path, pnginfo=info)
    else:
        img.save(path, quality=90, comment=f"verif c03-{seed}".encode())


_IEND = b"\x00\x00\x00\x00IEND\xaeB`\x82"


def pad_file(path: Path, n: int, seed: int) -> None:
    """Grows a PNG / GIF file to EXACTLY ``n`` bytes without touching the picture: PNG - one private
    ancillary chunk ``vrFy`` (safe to copy) before IEND; GIF - one application extension block
    (identifier VERIFC03PAD) before the trailer.  The filling is seeded noise."""
    data = path.read_bytes()
    add = n - len(data)
    rnd = random.Random(seed * 31 + n)
    if path.suffix == ".png":
        if not data.endswith(_IEND) or add < 12:
            raise tlc.MachineryError(f"cannot grow {path.name} ({len(data)} bytes) to {n} bytes")
        body = b"vrFy" + rnd.randbytes(add - 12)
        chunk = struct.pack(">I", len(body) - 4) + body + struct.pack(">I", zlib.crc32(body))
        out = data[:-12] + chunk + _IEND
    elif path.suffix == ".gif":
        q = add - 15  # bytes of data sub-blocks (length byte + data each)
        if not data.endswith(b";") or q < 2:
            raise tlc.MachineryError(f"cannot grow {path.name} ({len(data)} bytes) to {n} bytes")
        parts = [b"\x21\xff\x0bVERIFC03PAD"]
        while q:
            take = min(q, 256)
            if q - take == 1:
                take -= 1  # a sub-block is at least 2 bytes
            parts.append(bytes([take - 1]) + rnd.randbytes(take - 1))
            q -= take
        parts.append(b"\x00")
        out = data[:-1] + b"".join(parts) + b";"
    else:
        raise tlc.MachineryError(f"no padding scheme for {path.name}")
    if len(out) != n:
        raise tlc.MachineryError(f"padding of {path.name} gave {len(out)} bytes, wanted {n}")
    path.write_bytes(out)


def build_source(case):
    """-> (constructor argument, 'pil' | 'path', Reference, animated)"""
    assert _dir is not None
    rng = random.Random(case["seed"])
    w, h = case["src"]
    kind = case["srckind"]
    alphakind = alpha_kind(case["alpha"])
    fs = f"-n{case['filesize']}" if case.get("filesize") else ""  # source file of exactly n bytes
    bg = case["alpha"] if alphakind == "bghex" else None
    if alphakind == "bgterm":
        tb = case["fg_bg"][1]
        bg = (*tb, 255) if tb else (0, 0, 0, 255)  # the exact RGB triple, no string form involved
    if kind.startswith("anim"):
        _, n, frame, how = kind.split(":")
        path = _dir / f"anim-{case['seed']}-{n}-{w}x{h}{fs}.gif"
        if not path.exists():
            imgs.make_animation(rng, path, int(n), w, h)
            if case.get("filesize"):
                pad_file(path, case["filesize"], case["seed"])
        ref = proj.Reference(path=str(path), frame=int(frame), alphakind=alphakind, bg=bg)
        if how == "file":
            return str(path), "path", ref, True
        if how == "gone":
            tmp = _dir / f"gone-{case['seed']}.gif"
            shutil.copyfile(path, tmp)
            img = Image.open(tmp)
            img.load()
            os.unlink(tmp)
            return img, "pil", ref, True
        return Image.open(path), "pil", ref, True
    img = make_pixels(rng, case["mode"], w, h, case.get("pixstyle", "mixed"))
    if kind == "pil":
        return img, "pil", proj.Reference(pil=img.copy(), alphakind=alphakind, bg=bg), False
    ext = "jpg" if case["mode"] == "CMYK" else "png"
    path = _dir / f"src-{case['seed']}-{case['mode']}-{w}x{h}{fs}.{ext}"
    if not path.exists():
        _save(img, path, case["seed"])
        if case.get("filesize"):
            pad_file(path, case["filesize"], case["seed"])
    ref = proj.Reference(path=str(path), alphakind=alphakind, bg=bg)
    if kind == "file":
        return str(path), "path", ref, False
    if kind == "pilgone":
        tmp = _dir / f"gone-{case['seed']}.{ext}"
        shutil.copyfile(path, tmp)
        img = Image.open(tmp)
        img.load()
        os.unlink(tmp)
        return img, "pil", ref, False
    return Image.open(path), "pil", ref, False  # pilfile


def alpha_kind(alpha) -> str:
    if alpha is None:
        return "none"
    if isinstance(alpha, float):
        return "float"
    return "bgterm" if alpha == "#" else "bghex"


# --------------------------------------------------------------------------- unstable environment

class FlipCellSize:
    """``get_cell_size`` stand-in of an UNSTABLE terminal: successive reads alternate between two
    cell sizes (font zoom while a render runs).  Installed over the name the graphics classes
    call (``term_image.image.common.get_cell_size``) for the duration of one render only."""

    def __init__(self, sizes):
        self.sizes = [tuple(x) for x in sizes]
        self.reads = 0

    def __call__(self):
        from term_image.geometry import _Size

        size = self.sizes[self.reads % 2]
        self.reads += 1
        return _Size(*size)

    def __enter__(self):
        import term_image.image.common as common

        if not hasattr(common, "get_cell_size"):
            raise tlc.MachineryError("seam term_image.image.common.get_cell_size is missing")
        self._common, self._saved = common, common.get_cell_size
        common.get_cell_size = self
        return self

    def __exit__(self, *exc):
        self._common.get_cell_size = self._saved
        return False


class _Stable:
    reads = -1

    def __enter__(self):
        return self

    def __exit__(self, *exc):
        return False


# --------------------------------------------------------------------------- real render

def open_image(case):
    """-> (real image object, Reference, animated)"""
    stubs.set_identity(case["ident"])
    stubs.set_term(size=(80, 30), cell=case.get("cell"), fg_bg=tuple(case["fg_bg"]))
    cls = renderkit.image_class(case["style"])
    obj, how, ref, animated = build_source(case)
    rw, rh = case["size"]
    if how == "path":
        image = cls.from_file(obj, width=rw, height=rh)
    else:
        image = cls(obj, width=rw, height=rh)
    kind = case["srckind"]
    if animated:
        image.seek(int(kind.split(":")[2]))
    if case["style"] == "iterm2":
        if case.get("jpeg") is not None:
            if case.get("jpeg_level") == "class":
                cls.jpeg_quality = case["jpeg"]  # class-wide; unset again by reset_class_settings()
            else:
                image.jpeg_quality = case["jpeg"]
        if case.get("rff") is not None:
            image.read_from_file = case["rff"]
    return image, ref, animated


def render_case(case):
    """Runs the REAL code once on a fresh image object.  -> (output, header, Reference)"""
    image, ref, animated = open_image(case)
    try:
        out, hdr = render_on(image, case, ref, animated)
    finally:
        try:
            image.close()
        except Exception:
            pass
    return out, hdr, ref


def render_on(image, case, ref, animated, via=None, text=None):
    """One render of ``image`` (or, with ``text``, an already produced ImageIterator frame).
    -> (output text, header for Trace_Gfx)"""
    kind = case["srckind"]
    rsize = tuple(image.rendered_size)
    args = dict(case.get("args", {}))
    if case.get("method"):
        args["method"] = case["method"]
    via = via or case["via"]
    cells2 = case.get("cells2")  # [first read, second read, first, ...] of an unstable terminal
    env = FlipCellSize(cells2) if cells2 else _Stable()
    if True:
        with env:
            if text is not None:
                out = text
            elif via == "str":
                out = str(image)
            elif via == "format":
                out = format(image, renderkit.format_spec_for(case))
            elif via == "frame":
                def on_frame(img, *a, **k):
                    try:
                        return image._render_image(img, *a, frame=True, **k)
                    finally:
                        if img is not image._source:
                            img.close()

                out = image._renderer(on_frame, case["alpha"], **args)
            else:
                out = image._renderer(image._render_image, case["alpha"], **args)
    cell = (cells2[0] if cells2 else case.get("cell")) or [1, 2]
    cell2 = cells2[1] if cells2 else cell
    alpha = 40 / 255 if via == "str" else case["alpha"]
    hdr = dict(
        style=case["style"],
        method=case.get("method") or "lines",
        rw=rsize[0],
        rh=rsize[1],
        cw=cell[0],
        ch=cell[1],
        ow=ref.size[0],
        oh=ref.size[1],
        compress=args.get("compress", 4),
        z=args.get("z_index", 0),
        blend=args.get("blend", True),
        mix=args.get("mix", False),
        jpeg=case.get("jpeg") if case.get("jpeg") is not None else -1,
        rff=case.get("rff") if case.get("rff") is not None else True,
        animated=animated,
        frame=via in ("frame", "iter"),
        readable=kind not in ("pil", "pilgone") and not kind.endswith(":gone"),
        modeclass=proj.mode_class(ref.mode),
        alphakind=alpha_kind(alpha),
        srckind=kind.split(":")[0],
        jpeg_level=case.get("jpeg_level", "instance") if case.get("jpeg") is not None else "unset",
        termbg=str(case["fg_bg"][1]),
        unstable=bool(cells2),
        cw2=cell2[0],
        ch2=cell2[1],
        cell_reads=env.reads,
        filesize=case.get("filesize", 0),
    )
    return out, hdr


_KEEP = (
    "proto a f t s v z zset zok o C c r m d keys nkeys b64len b64ok size par inline wcells hcells "
    "dlen ilen imgw imgh kind rows_lo rows_hi pix tb64 pad pad1 isfile imgmode"
).split()


def reset_class_settings():
    from term_image.image import ITerm2Image

    del ITerm2Image.jpeg_quality  # tolerant deleter: back to "unset" (disabled)
    del ITerm2Image.read_from_file


def traces_of(case):
    """All traces of a case: one for a plain case, one per render for a multi-render history."""
    reset_class_settings()
    try:
        return _traces_of(case)
    finally:
        reset_class_settings()


def _traces_of(case):
    if "history" in case:
        return history_traces(case)
    if "inner" in case:
        return interleaved_traces(case)
    return [trace_of(case)]


def history_traces(case):
    """seek / render / partially consumed ImageIterator ... on ONE image object.  Every render
    (and every frame an iterator yields) is a trace of its own whose reference is the CURRENT
    frame (``image.tell()`` / the iterator's frame number) of the source."""
    from term_image.image import ImageIterator

    image, ref0, animated = open_image(case)
    traces = []
    try:
        for step in case["history"]:
            if step[0] == "seek":
                image.seek(step[1])
            elif step[0] == "render":
                ref = ref0.at_frame(image.tell())
                out, hdr = render_on(image, case, ref, animated)
                hdr["hist"] = f"render@{image.tell()}"
                traces.append(_trace(out, hdr, ref, case))
            elif step[0] == "iter":
                it = ImageIterator(image, 1, renderkit.format_spec_for(case), False)
                for i in range(step[1]):
                    text = next(it)
                    ref = ref0.at_frame(i)
                    out, hdr = render_on(image, case, ref, animated, via="iter", text=text)
                    hdr["hist"] = f"iter@{i}"
                    traces.append(_trace(out, hdr, ref, case))
                if step[2] == "close":
                    it.close()
                del it
            else:
                raise tlc.MachineryError(f"unknown history step {step}")
    finally:
        try:
            image.close()
        except Exception:
            pass
    return traces


def trace_of(case):
    out, hdr, ref = render_case(case)
    return _trace(out, hdr, ref, case)


class Seam:
    """Wraps a module-level function of a style module (``standard_b64encode`` / ``compress`` of
    ``term_image.image.kitty`` / ``.iterm2``) so that its k-th call during the outer render first
    performs ``action`` (a complete render of another image object), then proceeds.  This is the
    deterministic stand-in for two overlapping renders (two threads; zlib / PNG encoding release
    the GIL): no real thread, same interleaving on every run."""

    def __init__(self, style, name, k, action):
        self.style, self.name, self.k, self.action = style, name, k, action
        self.calls, self.busy, self.reached = 0, False, False

    def __enter__(self):
        import sys

        self.mod = sys.modules.get(f"term_image.image.{self.style}")
        if self.mod is None or not callable(getattr(self.mod, self.name, None)):
            raise tlc.MachineryError(f"seam term_image.image.{self.style}.{self.name} is missing")
        self.orig = getattr(self.mod, self.name)

        def wrapper(*a, **kw):
            if not self.busy:
                self.calls += 1
                if self.calls == self.k:
                    self.busy = True
                    try:
                        self.reached = True
                        self.action()
                    finally:
                        self.busy = False
            return self.orig(*a, **kw)

        setattr(self.mod, self.name, wrapper)
        return self

    def __exit__(self, *exc):
        setattr(self.mod, self.name, self.orig)
        return False


def interleaved_traces(case):
    """Render A of ``case`` is suspended at a seam between two of its strips (or just before its
    only transmission is encoded); render B (``case['inner']``: another image object, or the SAME
    object when ``inner['same']``) runs to completion there; A continues.  Law: renders are
    independent - both outputs are judged on their own by Trace_Gfx against their own references."""
    inner = case["inner"]
    image_a, ref_a, anim_a = open_image(case)
    if inner.get("same"):
        image_b, ref_b, anim_b = image_a, ref_a, anim_a
    else:
        image_b, ref_b, anim_b = open_image(inner)  # same terminal identity / cell size as A
    got = {}

    def render_b():
        got["out"], got["hdr"] = render_on(image_b, inner, ref_b, anim_b)

    style, name, k = case["seam"]
    try:
        with Seam(style, name, k, render_b) as seam:
            out_a, hdr_a = render_on(image_a, case, ref_a, anim_a)
    finally:
        for im in (image_a, image_b):
            try:
                im.close()
            except Exception:
                pass
    if not seam.reached or "out" not in got:
        raise tlc.MachineryError(
            f"interleaving seam {style}.{name} call #{k} was never reached ({seam.calls} calls): {case}"
        )
    hdr_a["il"] = f"A:{case['style']}:{hdr_a['method']}<-{inner['style']}:{got['hdr']['method']}" + (
        ":same-object" if inner.get("same") else "")
    got["hdr"]["il"] = "B"
    return [_trace(out_a, hdr_a, ref_a, case), _trace(got["out"], got["hdr"], ref_b, inner)]


def _trace(out, hdr, ref, case):
    stream = lexer.lex(out, keep_payloads=True)
    unk = lexer.unknowns(stream)
    if unk:
        raise tlc.MachineryError(f"lexer does not know {unk[:3]} in output of {case}")
    if stream.toks and stream.toks[-1]["k"] == "partial":
        # never silently dropped: an unterminated command is missing from ``gfx``, the count
        # clauses of the trace spec then fail
        pass
    events = proj.project(stream.gfx, stream.payloads, ref)
    ev = [{k: e[k] for k in _KEEP} for e in events]
    return {"hdr": hdr, "ev": ev}


# --------------------------------------------------------------------------- cases

def factor(n: int) -> list[int]:
    """[w, h] with w*h = n, as square as possible."""
    best = 1
    d = 1
    while d * d <= n:
        if n % d == 0:
            best = d
        d += 1
    return [n // best, best]


def base_case(rng, style, **kw):
    c = dict(
        style=style,
        ident=rng.choice(KITTY_IDENTS if style == "kitty" else ITERM_IDENTS),
        method=None,
        args={},
        alpha=40 / 255,
        mode="RGB",
        src=[7, 13],
        srckind="pil",
        pixstyle="mixed",
        size=[3, 2],
        cell=[9, 18],
        via="renderer",
        seed=rng.randrange(1 << 30),
        fg_bg=[rng.choice([None, [200, 200, 200]]), rng.choice(TERM_BGS)],
        jpeg=None,
        rff=None,
    )
    c.update(kw)
    return c


def pick_via(rng, c):
    plain = not c["args"] and c["alpha"] == 40 / 255 and not c["method"]
    if "blend" in c["args"]:
        return "renderer"
    if c["srckind"].startswith("anim") and rng.random() < 0.3:
        return "frame"
    if plain and rng.random() < 0.5:
        return "str"
    return rng.choice(["format", "renderer"])


def boundary_cases(rng, tier):
    """Payloads landing on 1 / exactly-k / k +- epsilon chunks (kitty)."""
    ks = (1, 2, 3) if tier == "quick" else (1, 2, 3, 4)
    # WHOLE, original size transmitted as is (original area <= render area): s*v chosen freely
    for k in ks:
        for compress in (0, rng.randrange(1, 10)):
            for fmt in (24, 32):
                bpp = fmt // 8
                for d in (-4, 0, 4, None):
                    # raw bytes such that the base64 length is k*4096 + d (noise: zlib adds 11 bytes)
                    over = 11 if compress else 0
                    if d is None:
                        raw = 3072 * k + rng.randrange(16, 3000)
                    else:
                        cands = [r for r in range(3072 * k - 40, 3072 * k + 40)
                                 if r % bpp == 0 and 4 * ((r + over + 2) // 3) == k * CS + d]
                        if not cands:
                            continue
                        raw = rng.choice(cands)
                    c = base_case(
                        rng, "kitty", method="whole", cell=[16, 33], size=[5, 4],
                        src=factor(raw // bpp), pixstyle="noise",
                        mode="RGB" if fmt == 24 else "RGBA",
                        alpha=0.4 if fmt == 32 else rng.choice([None, 0.4]),
                        args={"compress": compress},
                        srckind=rng.choice(["pil", "file", "pilfile"]),
                    )
                    c["via"] = rng.choice(["format", "renderer"])
                    yield c
    # LINES, one strip = rw*cw x ch pixels
    for cell, rw, mode, alpha in (
        ([16, 32], 2, "RGB", None),      # 3072 bytes  -> 4096 exactly
        ([16, 32], 4, "RGB", 0.4),       # 6144        -> 2 chunks exactly
        ([16, 32], 3, "RGBA", 0.4),      # 6144 (RGBA) -> 2 chunks exactly
        ([16, 32], 5, "RGBA", 0.4),      # 10240       -> 3 chunks + 1368
        ([11, 31], 3, "RGB", "#102030"), # 3069        -> 4092 = CS - 4
        ([16, 33], 2, "RGB", None),      # 3168        -> 4224 = CS + 128
        ([16, 33], 5, "RGBA", 0.4),      # 10560       -> 3 chunks + 1792
        ([2, 4], 1, "RGB", None),        # 24 bytes    -> 32
    ):
        for rh in (1, 3, 4):
            for compress in (0, 6):
                c = base_case(
                    rng, "kitty", method=rng.choice([None, "lines"]), cell=cell, size=[rw, rh],
                    src=rng.choice([[rw * cell[0], rh * cell[1]], [40, 40], [97, 61]]),
                    pixstyle="noise", mode=mode, alpha=alpha, args={"compress": compress},
                    srckind=rng.choice(["pil", "file"]),
                )
                if rng.random() < 0.5:
                    c["args"]["blend"] = False
                c["via"] = pick_via(rng, c) if c["args"].get("blend", True) else "renderer"
                yield c


def grid_cases(rng, reps):
    sizes = [(w, h) for w in range(1, 6) for h in range(1, 5)]
    combos = []
    for method in (None, "lines", "whole"):
        for cell in CELLS:
            for rw, rh in sizes:
                combos.append(("kitty", method, cell, rw, rh))
    for method in (None, "lines", "whole", "anim"):
        for cell in CELLS:
            for rw, rh in sizes:
                combos.append(("iterm2", method, cell, rw, rh))
    for style, method, cell, rw, rh in combos:
        for _ in range(reps):
            c = base_case(rng, style, method=method, size=[rw, rh])
            c["cell"] = cell if rng.random() < 0.93 else rng.choice([None] + EXTRA_CELLS)
            c["alpha"] = rng.choice(ALPHAS)
            roll = rng.random()
            if roll < 0.12 or (method == "anim" and roll < 0.5):
                n = rng.choice([2, 3])
                c["srckind"] = f"anim:{n}:{rng.choice([0, n - 1])}:{rng.choice(['file', 'pil', 'pil', 'gone'])}"
                c["mode"] = "P"
                c["src"] = rng.choice([[1, 1], [3, 5], [16, 9], [40, 40]])
            else:
                c["srckind"] = rng.choice(["pil", "pil", "pilfile", "file", "pilgone"])
                c["mode"] = rng.choice(PIL_MODES if c["srckind"] == "pil" else FILE_MODES)
                c["src"] = rng.choice(
                    [[1, 1], [3, 5], [16, 9], [7, 13], [40, 40], [97, 61], [rw, rh * 2],
                     [rw * (cell or [1, 2])[0], rh * (cell or [1, 2])[1]],
                     [rh * (cell or [1, 2])[1], rw * (cell or [1, 2])[0]], [200, 3], [2, 300]]
                )
            c["pixstyle"] = rng.choice(["mixed", "mixed", "noise", "uniform"])
            if rng.random() < 0.7:
                c["args"]["compress"] = rng.randrange(0, 10)
            if rng.random() < 0.3:
                c["args"]["mix"] = rng.choice([True, False])
            if style == "kitty":
                if rng.random() < 0.5:
                    c["args"]["z_index"] = rng.choice([-5, 7, 0, 2**31 - 1, -(2**31) + 1, -(2**30)])
                if rng.random() < 0.25:
                    c["args"]["blend"] = rng.choice([True, False])
            else:
                c["jpeg"] = rng.choice([None, None, -1, -2, -50, 0, 50, 95])
                c["jpeg_level"] = rng.choice(["instance", "instance", "class"])
                c["rff"] = rng.choice([None, None, True, False])
            c["via"] = pick_via(rng, c)
            yield c


def gate_cases(rng, tier):
    """iTerm2: read-from-file gate / JPEG rule, full factorial over the gate's inputs."""
    for rff in (None, True, False):
        for srckind in ("pil", "pilfile", "file", "pilgone"):
            for mode in ("1", "L", "RGB", "RGBA", "LA", "P", "CMYK", "PA"):
                if mode == "PA" and srckind != "pil":
                    continue
                for alpha in (None, 0.4, "#", "#a0b0c0"):
                    for small in (True, False):
                        for jpeg in ((None, -2, -1, 0, 50) if tier == "thorough" else (rng.choice([None, -50, -2, -1, 0, 50, 95]),)):
                            for method in (("whole", "anim", "lines") if tier == "thorough" else ("whole", rng.choice(["whole", "anim", "lines"]))):
                                cell = rng.choice(CELLS)
                                rw, rh = rng.randrange(1, 6), rng.randrange(1, 5)
                                area = rw * cell[0] * rh * cell[1]
                                if small:
                                    # original area <= render area (also the equality case)
                                    src = rng.choice([[1, 1], factor(area), factor(max(1, area - 1))])
                                else:
                                    src = rng.choice([factor(area + 1), [rw * cell[0] + 1, rh * cell[1] + 3], [64, 64]])
                                    if src[0] * src[1] <= area:
                                        src = [rw * cell[0] + 1, rh * cell[1] + 1]
                                c = base_case(
                                    rng, "iterm2", method=method, cell=cell, size=[rw, rh], src=src,
                                    mode=mode, alpha=alpha, srckind=srckind, jpeg=jpeg, rff=rff,
                                    pixstyle=rng.choice(["mixed", "noise"]),
                                )
                                if rng.random() < 0.3:
                                    c["args"]["compress"] = rng.randrange(0, 10)
                                c["via"] = rng.choice(["format", "renderer"])
                                yield c


UNSTABLE_PAIRS = [[[8, 16], [6, 12]], [[6, 12], [8, 16]], [[8, 16], [10, 20]], [[10, 20], [8, 16]],
                  [[9, 18], [9, 20]], [[3, 5], [2, 4]]]


def unstable_cases(rng, tier):
    """Renders while the cell size alternates between two values on successive reads."""
    reps = 3 if tier == "quick" else 40
    for style, method in (("kitty", "lines"), ("kitty", None), ("kitty", "whole"), ("iterm2", "lines"),
                          ("iterm2", None), ("iterm2", "whole"), ("iterm2", "anim")):
        for pair in UNSTABLE_PAIRS:
            for i in range(reps):
                rw, rh = rng.randrange(1, 9), rng.choice([1, 2, 3, 4, 4])
                a, b = pair
                c = base_case(rng, style, method=method, size=[rw, rh], cell=a)
                c["cells2"] = pair
                c["alpha"] = rng.choice(ALPHAS)
                c["srckind"] = rng.choice(["pil", "pil", "pilfile", "file"])
                c["mode"] = rng.choice(["RGB", "RGBA", "L", "LA", "P"])
                # pre-sized for either read (no resampling), or arbitrary
                c["src"] = rng.choice([[rw * a[0], rh * a[1]], [rw * b[0], rh * b[1]], [40, 40], [7, 13],
                                       [rw * a[0] + 3, rh * b[1] + 5]]) if i else [rw * a[0], rh * a[1]]
                c["pixstyle"] = rng.choice(["noise", "mixed"])
                if rng.random() < 0.6:
                    c["args"]["compress"] = rng.randrange(0, 10)
                if style == "iterm2":
                    c["jpeg"] = rng.choice([None, None, -2, 50])
                    c["rff"] = rng.choice([None, True, False])
                c["via"] = pick_via(rng, c)
                yield c


def history_cases(rng, tier):
    """Several renders on ONE image object of an animated source: the frame shown must always be
    the CURRENT one (a PIL-image source object is reused and keeps its last frame position)."""
    nf = 4
    reps = 1 if tier == "quick" else 12
    for _ in range(reps):
        for style, method in (("kitty", "lines"), ("kitty", "whole"), ("iterm2", "lines"),
                              ("iterm2", "whole"), ("iterm2", "anim")):
            for how in ("pil", "gone", "file"):
                n, m = rng.randrange(1, nf), rng.randrange(1, nf)
                k = rng.randrange(2, nf)
                for hist in (
                    [["seek", n], ["render"], ["seek", 0], ["render"]],
                    [["seek", 0], ["render"], ["seek", n], ["render"], ["seek", 0], ["render"]],
                    [["seek", n], ["render"], ["seek", m], ["render"], ["seek", 0], ["render"], ["render"]],
                    [["iter", k, "close"], ["render"], ["seek", 0], ["render"]],
                    [["iter", k, "drop"], ["seek", 0], ["render"], ["seek", n], ["render"]],
                    [["render"], ["iter", 2, "close"], ["seek", 0], ["render"], ["iter", 1, "drop"], ["render"]],
                ):
                    c = base_case(rng, style, method=method, size=[rng.randrange(1, 5), rng.randrange(1, 4)],
                                  cell=rng.choice(CELLS), src=rng.choice([[3, 5], [16, 9], [40, 40]]),
                                  mode="P", srckind=f"anim:{nf}:0:{how}", alpha=rng.choice(ALPHAS))
                    if rng.random() < 0.5:
                        c["args"]["compress"] = rng.randrange(0, 10)
                    if style == "iterm2":
                        c["jpeg"] = rng.choice([None, -50, -1, 50])
                        c["rff"] = rng.choice([None, True, False])
                    c["via"] = rng.choice(["format", "renderer"])
                    c["history"] = hist
                    yield c


def interleaved_cases(rng, tier):
    """A complete render B of another image object (or of the same one) inside render A."""
    reps = 3 if tier == "quick" else 40
    kinds = (("kitty", "lines"), ("kitty", "whole"), ("iterm2", "lines"), ("iterm2", "whole"))
    for rep_no in range(reps):
        for sa, ma in kinds:
            # same style + LINES on both sides share the most module-level state: twice as often
            for sb, mb in kinds + (("same", None),) + ((("kitty", "lines"), ("iterm2", "lines")) if ma == "lines" else ()):
                same = sb == "same"
                if same:
                    sb, mb = sa, rng.choice(["lines", "whole"])
                ident = "konsole" if sa != sb else rng.choice(KITTY_IDENTS if sa == "kitty" else ITERM_IDENTS)
                cell = rng.choice(CELLS)
                fg_bg = [None, rng.choice(TERM_BGS)]

                def one(style, method):
                    c = base_case(rng, style, method=method, ident=ident, cell=cell, fg_bg=fg_bg,
                                  size=[rng.randrange(1, 6), rng.randrange(2, 5)],
                                  src=rng.choice([[3, 5], [16, 9], [7, 13], [40, 40], [97, 61]]),
                                  mode=rng.choice(["RGB", "RGBA", "L", "LA", "P"]),
                                  alpha=rng.choice(ALPHAS), pixstyle=rng.choice(["noise", "mixed"]),
                                  srckind=rng.choice(["pil", "pilfile", "file"]))
                    c["args"]["compress"] = rng.randrange(0, 10)
                    if style == "iterm2":
                        c["jpeg"] = rng.choice([None, -50, -1, 50])
                        c["rff"] = rng.choice([None, True, False])
                    c["via"] = rng.choice(["format", "renderer"])
                    return c

                a, b = one(sa, ma), one(sb, mb)
                if same:
                    b = dict(a, method=mb, same=True)
                # which call of which module-level function suspends A: between two strips for
                # LINES (call 2..rh), just before the only payload is encoded for WHOLE
                name = "standard_b64encode"
                if sa == "kitty" and a["args"]["compress"] > 0 and rng.random() < 0.5:
                    name = "compress"
                a["seam"] = [sa, name, rng.randrange(2, a["size"][1] + 1) if ma == "lines" else 1]
                a["inner"] = b
                yield a


def termbg_cases(rng, tier):
    """alpha '#': transparent pixels are composited over the TERMINAL's background colour, for
    every background of TERM_BGS x style x method, on sources that carry transparency."""
    reps = 1 if tier == "quick" else 10
    for _ in range(reps):
        for bg in TERM_BGS:
            for style, method in (("kitty", "lines"), ("kitty", "whole"), ("iterm2", "lines"),
                                  ("iterm2", "whole"), ("iterm2", "anim")):
                for mode in ("RGBA", rng.choice(["LA", "P", "PA"])):
                    kind = "pil" if mode == "PA" else rng.choice(["pil", "pilfile", "file"])
                    c = base_case(rng, style, method=method, alpha="#", mode=mode, srckind=kind,
                                  fg_bg=[None, bg], cell=rng.choice(CELLS),
                                  size=[rng.randrange(1, 5), rng.randrange(1, 4)],
                                  src=rng.choice([[3, 5], [16, 9], [7, 13], [40, 40]]), pixstyle="mixed")
                    if rng.random() < 0.5:
                        c["args"]["compress"] = rng.randrange(0, 10)
                    if style == "iterm2":
                        c["jpeg"] = rng.choice([None, None, -2, 50])
                        c["rff"] = rng.choice([None, True, False])
                    c["via"] = rng.choice(["format", "renderer"])
                    yield c


JPEG_VALUES = [None, -50, -2, -1, 0, 50, 95]


def jpeg_cases(rng, tier):
    """jpeg_quality: EVERY value below 0 disables JPEG (PNG, pixels exact); 0..95 enable it for
    opaque re-encoded renders.  Set on the instance and class-wide; renders that are re-encoded
    (read_from_file off) and opaque (no alpha / background colour / opaque source)."""
    reps = 1 if tier == "quick" else 8
    for _ in range(reps):
        for jpeg in JPEG_VALUES:
            for level in ("instance", "class"):
                for method in ("lines", None, "whole", "anim"):
                    for alpha, mode in ((None, rng.choice(["RGBA", "LA", "P"])), ("#", "RGBA"),
                                        (rng.choice([0.4, "#102030"]), rng.choice(["RGB", "L", "CMYK", "1"]))):
                        c = base_case(rng, "iterm2", method=method, alpha=alpha, mode=mode,
                                      srckind=rng.choice(["pil", "pilfile", "file"]), cell=rng.choice(CELLS),
                                      size=[rng.randrange(1, 5), rng.randrange(1, 4)],
                                      src=rng.choice([[3, 5], [16, 9], [40, 40], [97, 61]]),
                                      pixstyle=rng.choice(["mixed", "noise"]), jpeg=jpeg, rff=False)
                        c["jpeg_level"] = level
                        if rng.random() < 0.4:
                            c["args"]["compress"] = rng.randrange(0, 10)
                        c["via"] = rng.choice(["format", "renderer"])
                        yield c


# payload sizes (bytes) of Gfx.tla SizeGrid that are realised as source files of exactly n bytes
GRID16 = [k * 2**16 + d for k in (1, 2, 3) for d in (-2, -1, 0, 1, 2)]
GRID20 = [k * 2**20 + d for k in (1, 2, 3) for d in (-2, -1, 0, 1, 2)]
GRID3 = [3 * q + d for q in (2**14, 2**18) for d in (-1, 0, 1)]
GRIDBIG = [2**21 + 1, 2**22 + 1, 2**23 + 1]
QUICK_WHOLE = [2**16 - 1, 2**16, 2**16 + 1, 2**16 + 2, 2 * 2**16 + 1, 3 * 2**16 - 1, 3 * 2**14 + 1, 3 * 2**18 + 1,
               2**20 - 1, 2**20, 2**20 + 1, 2**20 + 2, 2**21 + 1]
QUICK_ANIM = [2**16 + 1, 2**20 + 1, 2**20 + 2]
BIG_CELL = [16, 33]


def size_cases(rng, tier):
    """Payload SIZE CLASSES: the payload is ONE base64 string whatever its size.
    (1) source files of exactly n bytes, n over Gfx.tla SizeGrid (>= 48 KiB), sent as they are:
        iTerm2 WHOLE through the read-from-file gate (file path / PIL image with a file name) and
        native ANIM (file path / PIL image); (2) re-encoded / raw payloads of incompressible
        pictures: > 1 MiB for WHOLE (iTerm2 PNG / JPEG, kitty raw and zlib), > 64 KiB per strip
        for LINES."""
    thorough = tier == "thorough"
    grid = sorted(set(GRID16 + GRID20 + GRID3 + GRIDBIG))
    for n in (grid if thorough else QUICK_WHOLE):
        for srckind in (("file", "pilfile") if thorough else (rng.choice(["file", "pilfile"]),)):
            c = base_case(rng, "iterm2", method="whole", cell=[9, 18], size=[3, 2], src=[8, 8], mode="RGB",
                          pixstyle="noise", srckind=srckind, rff=rng.choice([None, True]),
                          alpha=rng.choice(ALPHAS), jpeg=rng.choice([None, -1, 50]))
            c["filesize"] = n
            c["via"] = rng.choice(["format", "renderer"])
            yield c
    for n in (grid if thorough else QUICK_ANIM):
        for how in (("file", "pil") if thorough else (rng.choice(["file", "pil"]),)):
            c = base_case(rng, "iterm2", method="anim", cell=[9, 18], size=[3, 2], src=[8, 8], mode="P",
                          srckind=f"anim:2:0:{how}", rff=rng.choice([None, True, False]),
                          alpha=rng.choice(ALPHAS))
            c["filesize"] = n
            c["via"] = rng.choice(["format", "renderer"])
            yield c
    # incompressible pictures: 640 x 594 px = 1 140 480 (RGB) / 1 520 640 (RGBA) raw bytes > 2^20
    w, h = 40 * BIG_CELL[0], 18 * BIG_CELL[1]
    whole = [("iterm2", "whole", "RGB", None, "pil", rng.randrange(1, 10), None),
             ("kitty", "whole", "RGB", None, "pil", 0, None),
             ("kitty", "whole", "RGBA", 0.4, "pil", rng.randrange(1, 10), None)]
    if thorough:
        whole += [("iterm2", "whole", "RGBA", 0.4, "pil", 0, None),
                  ("iterm2", "whole", "RGB", "#102030", "file", rng.randrange(0, 10), None),
                  ("iterm2", "anim", "RGB", None, "pilgone", rng.randrange(0, 10), None),
                  ("iterm2", "whole", "L", None, "pil", 0, 95),
                  ("kitty", "whole", "RGBA", 0.4, "file", 0, None),
                  ("kitty", "whole", "RGB", "#", "pilfile", rng.randrange(1, 10), None)]
    for style, method, mode, alpha, srckind, compress, jpeg in whole:
        big = jpeg is not None  # a JPEG of noise is smaller than the raw picture: 1280 x 990 px
        c = base_case(rng, style, method=method, cell=BIG_CELL, size=[80, 30] if big else [40, 18],
                      src=[2 * w, 990] if big else [w, h], mode="RGB" if big else mode, alpha=alpha,
                      pixstyle="noise", srckind=srckind, args={"compress": compress}, jpeg=jpeg,
                      rff=False if srckind != "pil" else rng.choice([None, True, False]))
        c["via"] = "renderer"
        yield c
    # LINES: every strip 1280 x 33 px = 126 720 (RGB) / 168 960 (RGBA) raw bytes > 2^16
    lines = [("iterm2", "RGBA", 0.4, 0), ("kitty", "RGBA", 0.4, 0)]
    if thorough:
        lines += [("iterm2", "RGB", None, rng.randrange(1, 10)), ("kitty", "RGB", None, rng.randrange(1, 10)),
                  ("iterm2", "RGB", None, 0), ("kitty", "RGBA", 0.4, rng.randrange(1, 10))]
    for style, mode, alpha, compress in lines:
        c = base_case(rng, style, method="lines", cell=BIG_CELL, size=[80, 2], src=[80 * BIG_CELL[0], 2 * BIG_CELL[1]],
                      mode=mode, alpha=alpha, pixstyle="noise", srckind="pil", args={"compress": compress})
        c["via"] = "renderer"
        yield c


def gen_cases(rng, tier, rng_sizes):
    yield from size_cases(rng_sizes, tier)  # own generator: the draws of the other groups stay as they were
    yield from jpeg_cases(rng, tier)
    yield from termbg_cases(rng, tier)
    yield from interleaved_cases(rng, tier)
    yield from history_cases(rng, tier)
    yield from unstable_cases(rng, tier)
    yield from boundary_cases(rng, tier)
    yield from gate_cases(rng, tier)
    yield from grid_cases(rng, 4 if tier == "quick" else 100)
    if tier == "thorough":
        for _ in range(6):
            yield from boundary_cases(rng, tier)


# --------------------------------------------------------------------------- spec -> code

def chunk_class(L: int, cs: int) -> str:
    if L == 0:
        return "L=0"
    if L < cs - 4:
        return "L<CS"
    k, r = divmod(L, cs)
    if r == 0:
        return "L=k*CS"
    if r <= 4:
        return "L=k*CS+eps"
    if r >= cs - 4:
        return "L=k*CS-eps"
    return "L=k*CS+r"


def real_chunks(L: int, size: int | None):
    """The REAL Transmission.get_chunks on a payload of L base64 characters."""
    from term_image.image.kitty import ControlData, Transmission

    t = Transmission(ControlData(f=24, s=1, v=1, c=1, r=1), b"", 0)
    t.encode = lambda: b"A" * L  # only the length matters to get_chunks
    chunks = list(t.get_chunks() if size is None else t.get_chunks(size))
    seq = []
    for ch in chunks:
        if not (ch.startswith("\x1b_G") and ch.endswith("\x1b\\")):
            return [{"ctl": False, "m": -9, "len": -1}]
        g = lexer.parse_kitty(ch[3:-2])
        seq.append({
            "ctl": any(k not in ("m", "q") for k in g["keys"]),
            "m": g["m"],
            "len": g["b64len"],
        })
    return seq


def replay_chunks(rep: Report, res, cs: int, use_default: bool) -> int:
    recs = res.tagged("CHUNKS")
    if len(recs) != 3 * cs + 9:
        raise tlc.MachineryError(f"MC_Gfx (ChunkSize {cs}) printed {len(recs)} behaviours, expected {3 * cs + 9}")
    n = 0
    for r in recs:
        if r["verdict"] != "ok":
            continue  # reported through the invariant
        model = [{"ctl": bool(x["ctl"]), "m": x["m"], "len": x["len"]} for x in r["seq"]]
        real = real_chunks(r["L"], None if use_default else cs)
        n += 1
        rep.evaluations += 1
        if real == model and (n == 1 or r["L"] == 2 * cs):
            # tampered edge: an altered model sequence must NOT compare equal to the real one
            bad = [dict(x) for x in model]
            bad[-1]["m"] = 1 - bad[-1]["m"]
            if real == bad:
                raise tlc.MachineryError("chunk-sequence comparison accepts a tampered model edge")
        if real != model:
            rep.violation(
                f"kitty:get_chunks:chunk-sequence:{chunk_class(r['L'], cs)}",
                f"Transmission.get_chunks({'default size' if use_default else cs}) on a payload of "
                f"{r['L']} base64 characters emits (control?, m, length) = "
                f"{[(x['ctl'], x['m'], x['len']) for x in real][:6]}, the specification (Gfx.tla producer, "
                f"accepted by the receiver) {[(x['ctl'], x['m'], x['len']) for x in model][:6]}",
                {"kind": "chunks", "L": r["L"], "size": None if use_default else cs},
            )
    return n


def replay_streams(rep: Report, res, file_streams, only=None) -> dict:
    """spec -> code for the encoder: every size n of the model (MC_GfxB64 prints the stream it
    accepts: len, pad, pad1) is realised as a REAL payload and must come out as that stream:
    (1) kitty ``Transmission.encode`` on n payload bytes (compress 0), (2) the payloads of the
    iTerm2 WHOLE / native ANIM renders whose source file has exactly n bytes."""
    from term_image.image.kitty import ControlData, Transmission

    model = {r["n"]: r for r in res.tagged("STREAM")}
    if len(model) < 80 or 2**20 + 1 not in model or 2**16 + 1 not in model:
        raise tlc.MachineryError(f"MC_GfxB64 printed {len(model)} streams")
    done = {"kitty-encode": 0, "iterm2-file": 0}

    def compare(sig, what, n, got, scenario):
        m = model.get(n)
        if m is None:
            raise tlc.MachineryError(f"payload size {n} is not in the model's SizeGrid")
        rep.evaluations += 1
        want = (m["len"], m["pad"], m["pad1"])
        if want == got and n == 2**16 + 1:
            if (m["len"], m["pad"], m["pad1"] - 4) == got:  # tampered edge must compare unequal
                raise tlc.MachineryError("stream comparison accepts a tampered model edge")
        if want != got:
            rep.violation(
                f"{sig}:base64-stream:{m['cls']}",
                f"{what} of {n} bytes is the stream (characters, trailing '=', offset of the first '=') = {got}, "
                f"the specification (Gfx.tla encoder, accepted by B64StreamClause) {want}",
                scenario,
            )

    for n in sorted(model):
        if only is not None and n not in only:
            continue
        t = Transmission(ControlData(f=24, s=1, v=1, c=1, r=1), bytes(n), 0)
        enc = t.encode()
        text = enc.decode("ascii") if isinstance(enc, (bytes, bytearray)) else str(enc)
        compare("kitty:encode", "Transmission(..., level 0).encode() on a payload", n,
                (len(text), len(text) - len(text.rstrip("=")), text.find("=")), {"kind": "encode", "n": n})
        done["kitty-encode"] += 1
    for n, ln, pad, pad1, h, case in file_streams:
        compare(f"iterm2:{h['method']}", f"the payload of an iTerm2 {h['method']} render of a source file", n,
                (ln, pad, pad1), {"case": case})
        done["iterm2-file"] += 1
    return done


def check_mc(res, name: str, rep: Report, actions) -> None:
    if res.violated:
        rep.violation(
            f"design:{name}:{res.violated}",
            f"the model {name} violates {res.violated}\n{res.error_text[:1500]}",
            {"kind": "design"},
        )
        return
    for a in actions:
        if res.coverage.get(a, (0, 0))[0] == 0:
            raise tlc.MachineryError(f"{name}: action {a} is vacuous (coverage {res.coverage})")


# --------------------------------------------------------------------------- canaries

def corruptions(traces):
    """Recorded traces with ONE field altered; each must be rejected with the named clause."""
    def first(pred, unstable=False):
        # stable-environment traces unless asked otherwise (the unstable clauses admit sets)
        return next((copy.deepcopy(t) for t in traces if t["hdr"]["unstable"] == unstable and pred(t)), None)

    def multi(t):
        return t["hdr"]["style"] == "kitty" and any(e["m"] == 1 for e in t["ev"])

    out = []
    t = first(multi)
    if t:
        i = next(i for i, e in enumerate(t["ev"]) if e["m"] == 1)
        t["ev"][i]["m"] = 0
        out.append((t, "m-inconsistent"))
    t = first(multi)
    if t:
        i = next(i for i, e in enumerate(t["ev"]) if e["m"] == 1)
        t["ev"][i]["b64len"] = CS + 4
        out.append((t, "chunk-too-long"))
    t = first(multi)
    if t:
        i = next(i for i, e in enumerate(t["ev"]) if e["m"] == 1)
        t["ev"][i]["b64len"] -= 1
        out.append((t, "chunk-not-multiple-of-4"))
    t = first(multi)
    if t:
        i = next(i for i, e in enumerate(t["ev"]) if e["m"] == 0 and e["keys"] == ["m"])
        t["ev"][i]["keys"] = ["a", "m"]
        t["ev"][i]["nkeys"] = 2
        out.append((t, "*"))  # m-inconsistent on the chunk before it, or continuation-has-only-m
    t = first(lambda t: multi(t) and t["ev"][-1]["keys"] == ["m"])
    if t:
        t["ev"] = t["ev"][:-1]  # the m=0 chunk of the last transmission is lost
        out.append((t, "*"))
    t = first(lambda t: t["hdr"]["style"] == "kitty" and t["hdr"]["method"] == "lines" and t["hdr"]["rh"] > 1)
    if t:
        j = [i for i, e in enumerate(t["ev"]) if e["dlen"] >= 0][1]
        t["ev"][j]["rows_lo"] += 1
        out.append((t, "strip-rows"))
    t = first(lambda t: t["hdr"]["style"] == "kitty")
    if t:
        j = [i for i, e in enumerate(t["ev"]) if e["dlen"] >= 0][0]
        t["ev"][j]["pix"] = 0
        out.append((t, "pixels"))
    t = first(lambda t: t["hdr"]["style"] == "kitty" and t["hdr"]["compress"] == 0
              and all(e["b64len"] >= 8 for e in t["ev"] if e["dlen"] >= 0))
    if t:
        j = [i for i, e in enumerate(t["ev"]) if e["dlen"] >= 0][0]
        t["ev"][j]["dlen"] -= 3
        t["ev"][j]["tb64"] -= 4
        t["ev"][j]["b64len"] -= 4
        if t["ev"][j]["pad1"] >= 0:
            t["ev"][j]["pad1"] -= 4
        out.append((t, "payload-size"))
    t = first(lambda t: t["hdr"]["style"] == "kitty" and t["hdr"]["method"] == "lines" and t["hdr"]["rh"] > 1 and t["hdr"]["blend"])
    if t:
        # drop the last strip
        idx = [i for i, e in enumerate(t["ev"]) if e["a"] == "T"][-1]
        t["ev"] = t["ev"][:idx]
        out.append((t, "strip-count"))
    t = first(lambda t: t["hdr"]["style"] == "kitty" and t["hdr"]["unstable"] and t["hdr"]["method"] == "lines"
              and t["hdr"]["rh"] > 1 and t["hdr"]["compress"] == 0 and t["hdr"]["blend"]
              and t["hdr"]["ch"] != t["hdr"]["ch2"] and len(t["ev"]) == t["hdr"]["rh"]
              and t["ev"][1]["s"] * max(t["hdr"]["ch"], t["hdr"]["ch2"]) * 4 <= 3000, unstable=True)
    if t:
        # second strip re-announced with the OTHER cell height (payload lengths made to agree)
        e = t["ev"][1]
        other = t["hdr"]["ch2"] if e["v"] == t["hdr"]["ch"] else t["hdr"]["ch"]
        raw = e["s"] * other * (e["f"] // 8)
        e["v"] = other
        e["dlen"] = raw
        e["b64len"] = e["tb64"] = 4 * ((raw + 2) // 3)
        e["pad"] = (3 - raw % 3) % 3
        out.append((t, "strip-uniform"))
    t = first(lambda t: t["hdr"]["style"] == "iterm2")
    if t:
        t["ev"][0]["size"] += 1
        out.append((t, "size-key"))
    for style in ("iterm2", "kitty"):
        # a '=' in the middle of the payload (two separately padded pieces), lengths untouched
        t = first(lambda t: t["hdr"]["style"] == style and t["ev"] and t["ev"][-1]["tb64"] >= 16)
        if t:
            t["ev"][-1]["pad1"] = t["ev"][-1]["tb64"] // 8 * 4 - 1
            out.append((t, "base64-padding"))
    t = first(lambda t: t["hdr"]["style"] == "iterm2" and t["hdr"]["method"] == "whole" and t["ev"]
              and t["ev"][0]["isfile"] == 1)
    if t:
        t["hdr"]["rff"] = False
        out.append((t, "payload-kind"))
    t = first(lambda t: t["hdr"]["style"] == "iterm2" and t["ev"] and t["ev"][0]["kind"] == "png" and t["ev"][0]["isfile"] == 0)
    if t:
        t["ev"][0]["pix"] = 0
        out.append((t, "pixels"))
    t = first(lambda t: t["hdr"]["style"] == "kitty" and t["hdr"]["method"] == "whole"
              and t["hdr"]["ow"] * t["hdr"]["oh"] < t["hdr"]["rw"] * t["hdr"]["cw"] * t["hdr"]["rh"] * t["hdr"]["ch"])
    if t:
        t["hdr"]["ow"] += 1000  # now the original is the larger one: render size required
        t["hdr"]["oh"] += 1000
        out.append((t, "*"))
    return out


# --------------------------------------------------------------------------- main

def classify_boundaries(traces) -> dict:
    cnt: dict[str, int] = {}
    for t in traces:
        if t["hdr"]["style"] != "kitty":
            continue
        for e in t["ev"]:
            if e["dlen"] >= 0:
                key = ("z:" if t["hdr"]["compress"] else "raw:") + chunk_class(e["tb64"], CS)
                cnt[key] = cnt.get(key, 0) + 1
    return cnt


def main(rep: Report, replay: dict | None) -> None:
    global _dir
    warnings.filterwarnings("ignore", message="Image data size above the maximum for native animation")
    rep.assumptions += ASSUMPTIONS
    rep.rule = (
        "MC: every payload length 0..3*CS+8 (CS=16 and CS=4096) through producer (x) receiver; render "
        "loops over rw 1..2, rh 1..3, 3 cell sizes, 3 original sizes, 5 modes, 3 alpha kinds, compress "
        "0/4, gate inputs.  Traces: boundary cases (payload = k*4096-4 / k*4096 / k*4096+4 / +r, raw and "
        "zlib, k=1..3(4)), full factorial over the read-from-file gate inputs, full grid method x cell "
        "size x rw 1..5 x rh 1..4 with seeded draws of the remaining parameters; distinct_nontrivial = "
        "distinct (style, method, rw, rh, cell, compress, alpha kind, mode class, source kind, "
        "#chunks, payload kinds)"
    )
    renderkit.setup("c03")
    _dir = renderkit._cache_dir  # per-process scratch directory (removed at exit)
    thorough = rep.tier == "thorough"

    if replay and replay.get("scenario", {}).get("kind") == "chunks":
        sc = replay["scenario"]
        res = tlc.run("MC_Gfx", "MC_Gfx4096.cfg" if sc["size"] is None else "MC_Gfx.cfg",
                      workers=4, timeout=600, deadlock=False)
        rep.add_tlc(res)
        cs = CS if sc["size"] is None else sc["size"]
        for r in res.tagged("CHUNKS"):
            if r["L"] == sc["L"]:
                real = real_chunks(sc["L"], sc["size"])
                model = [{"ctl": bool(x["ctl"]), "m": x["m"], "len": x["len"]} for x in r["seq"]]
                rep.evaluations += 1
                if real != model:
                    rep.violation(f"kitty:get_chunks:chunk-sequence:{chunk_class(sc['L'], cs)}",
                                  f"real {real[:6]} != model {model[:6]}", sc)
        return

    if replay and replay.get("scenario", {}).get("kind") == "encode":
        res = tlc.run("MC_GfxB64", "MC_GfxB64.cfg", workers=2, timeout=600, deadlock=False)
        rep.add_tlc(res)
        replay_streams(rep, res, [], only={replay["scenario"]["n"]})
        return

    pool = ThreadPoolExecutor(max_workers=8)
    futs = {}
    if not replay:
        futs["MC_Gfx16"] = pool.submit(tlc.run, "MC_Gfx", "MC_Gfx.cfg", workers=2, timeout=600,
                                       coverage=True, deadlock=False, seed=rep.seed)
        # same module and actions as the ChunkSize=16 run (whose coverage is checked); -coverage
        # only slows this one down, every behaviour is accounted for through its CHUNKS line
        futs["MC_Gfx4096"] = pool.submit(tlc.run, "MC_Gfx", "MC_Gfx4096.cfg", workers=4, timeout=600,
                                         deadlock=False, seed=rep.seed)
        futs["MC_GfxRender"] = pool.submit(tlc.run, "MC_GfxRender", "MC_GfxRender.cfg", workers=6,
                                           timeout=900, coverage=True, deadlock=False, seed=rep.seed)
        # encoder (x) stream clauses over the payload size classes: the code (one piece) and a
        # correct alternative (blocks of 3*2^18 bytes) must both be accepted
        futs["MC_GfxB64"] = pool.submit(tlc.run, "MC_GfxB64", "MC_GfxB64.cfg", workers=2, timeout=600,
                                        coverage=True, deadlock=False, seed=rep.seed)
        futs["MC_GfxB64_alt"] = pool.submit(tlc.run, "MC_GfxB64", "MC_GfxB64_alt.cfg", workers=2, timeout=600,
                                            coverage=True, deadlock=False, seed=rep.seed)
        # the invariants must bite: regressions written into the model have to be rejected
        muts = [("MC_Gfx", "MC_Gfx_mut1.cfg"), ("MC_Gfx", "MC_Gfx_mut2.cfg"),
                ("MC_GfxB64", "MC_GfxB64_mut_block-1MiB.cfg")]
        if thorough:
            muts.append(("MC_GfxB64", "MC_GfxB64_mut_block-64KiB.cfg"))
        muts += [("MC_GfxRender", f"MC_GfxRender_mut_{v}.cfg") for v in
                 (("cell-height-plus-1", "bpp-plus-1", "gate-ignores-palette", "whole-at-render-size",
                   "second-cell-read", "encode-in-blocks")
                  if thorough else ("cell-height-plus-1", "second-cell-read", "encode-in-blocks"))]
        for spec, cfg in muts:
            futs["mut:" + cfg] = pool.submit(tlc.run, spec, cfg, workers=2, timeout=600,
                                             deadlock=False, check=False)

    rng = random.Random(rep.seed * 7919 + 3)
    if replay:
        cases = [replay["scenario"]["case"]]
    else:
        cases = list(gen_cases(rng, rep.tier, random.Random(rep.seed * 7919 + 11)))

    phase = {"render+project": 0.0, "trace-validation": 0.0}
    bc: dict[str, int] = {}
    actions: dict[str, int] = {}
    unstable: dict[str, int] = {}
    histories: dict[str, int] = {}
    interleaved: dict[str, int] = {}
    termbg: dict[str, int] = {}
    jpegs: dict[str, int] = {}
    sizeclasses: dict[str, int] = {}
    file_streams: list = []  # payloads of source files of exactly n bytes: (n, len, pad, pad1, hdr, case)
    rejected = 0
    block = 4000
    for b0 in range(0, len(cases), block):
        t0 = time.time()
        traces, owners = [], []
        for case in cases[b0 : b0 + block]:
            rep.evaluations += 1
            try:
                trs = traces_of(case)
            except tlc.MachineryError:
                raise
            except Exception as e:
                rep.violation(
                    f"render-raises:{case['style']}:{case.get('method') or 'default'}:{type(e).__name__}",
                    f"rendering raised {type(e).__name__}: {e}; case={json.dumps(case)}",
                    {"case": case},
                )
                continue
            traces.extend(trs)
            owners.extend([case] * len(trs))
        phase["render+project"] += round(time.time() - t0, 1)
        t0 = time.time()
        allt = traces
        verdicts, st, trn = tlc.validate_traces(
            "Trace_Gfx", "Trace_Gfx.cfg", allt, batch=500, parallel=6, workers=2, name="c03", timeout=900
        )
        rep.states += st
        rep.transitions += trn
        rep.traces_validated += len(traces)
        for v, tr, case in zip(verdicts, traces, owners):
            h = tr["hdr"]
            kinds = tuple(sorted({("file" if e["isfile"] else e["kind"]) for e in tr["ev"]}))
            rep.distinct.add((h["style"], h["method"], h["rw"], h["rh"], h["cw"], h["ch"], h["compress"],
                              h["alphakind"], h["modeclass"], h["srckind"], v["maxch"], kinds))
            if v["verdict"] != "ok":
                clause = v["verdict"].split(":")[0]
                ev = tr["ev"][v["at"] - 1] if 0 < v["at"] <= len(tr["ev"]) else None
                rep.violation(
                    f"{h['style']}:{h['method']}:{clause}",
                    f"clause {v['verdict']!r} failed at graphics command {v['at']} of {len(tr['ev'])}\n"
                    f"header={json.dumps(h)}\ncommand={json.dumps(ev)}\ncase={json.dumps(case)}",
                    {"case": case},
                )
        phase["trace-validation"] += round(time.time() - t0, 1)
        if b0 == 0 and not replay:
            # corrupted copies of ACCEPTED recorded traces must each be rejected with the clause
            # that names the altered field (the judge is not blind)
            good = [tr for v, tr in zip(verdicts, traces) if v["verdict"] == "ok"]
            try:
                canaries = corruptions(good)
            except (StopIteration, IndexError):
                canaries = []
            if len(canaries) >= 13:
                cv, st, trn = tlc.validate_traces(
                    "Trace_Gfx", "Trace_Gfx.cfg", [c[0] for c in canaries], batch=500, parallel=1,
                    workers=2, name="c03c", timeout=300,
                )
                rep.states += st
                rep.transitions += trn
                for v, (tr, want) in zip(cv, canaries):
                    got = v["verdict"].split(":")[0]
                    if v["verdict"] == "ok" or (want != "*" and got != want):
                        raise tlc.MachineryError(
                            f"corrupted trace not rejected as expected: wanted clause {want!r}, "
                            f"verdict {v['verdict']!r}"
                        )
                    rejected += 1
            elif not rep.violations:
                raise tlc.MachineryError(f"only {len(canaries)} corrupted-trace canaries could be built")
        for key, n in classify_boundaries(traces).items():
            bc[key] = bc.get(key, 0) + n
        for v, tr, case in zip(verdicts, traces, owners):
            # payload size class of the render as Trace_Gfx (Gfx.tla PayloadClass) reports it
            h = tr["hdr"]
            kinds = sorted({("file" if e["isfile"] else e["kind"]) for e in tr["ev"] if e["tb64"] > 0})
            key = f"{h['style']}:{h['method']}:{'+'.join(kinds) or 'raw'}:{v['pclass']}"
            sizeclasses[key] = sizeclasses.get(key, 0) + 1
            if h["filesize"] and tr["ev"]:
                e = tr["ev"][0]
                file_streams.append((h["filesize"], e["tb64"], e["pad"], e["pad1"], h, case))
        for tr in traces:
            if tr["hdr"]["style"] == "iterm2" and tr["ev"] and not tr["ev"][0]["isfile"]:
                key = f"jpeg={tr['hdr']['jpeg']}:{tr['hdr']['jpeg_level']}:{tr['ev'][0]['kind']}"
                jpegs[key] = jpegs.get(key, 0) + 1
        for tr in traces:
            if tr["hdr"]["alphakind"] == "bgterm" and tr["hdr"]["modeclass"] != "opaque":
                termbg[tr["hdr"]["termbg"]] = termbg.get(tr["hdr"]["termbg"], 0) + 1
        for tr in traces:
            if tr["hdr"].get("il", "B") != "B":
                interleaved[tr["hdr"]["il"]] = interleaved.get(tr["hdr"]["il"], 0) + 1
        for tr in traces:
            if "hist" in tr["hdr"]:
                histories[tr["hdr"]["hist"]] = histories.get(tr["hdr"]["hist"], 0) + 1
        for tr in traces:
            if tr["hdr"]["unstable"]:
                key = f"{tr['hdr']['style']}:{tr['hdr']['method']}:reads={tr['hdr']['cell_reads']}"
                unstable[key] = unstable.get(key, 0) + 1
        for tr in traces:  # how often each action of Trace_Gfx fired (vacuity)
            for e in tr["ev"]:
                a = ("ITermImage" if tr["hdr"]["style"] == "iterm2" else
                     "KittyDelete" if e["a"] == "d" else "KittyChunk")
                actions[a] = actions.get(a, 0) + 1
            actions["Finish"] = actions.get("Finish", 0) + 1
        if b0 == 0:
            for tr, case in list(zip(traces, owners))[:: max(1, len(traces) // 4)][:4]:
                rep.sample({"case": case, "hdr": tr["hdr"],
                            "commands": [[e["keys"], e["b64len"], e["rows_lo"], e["rows_hi"], e["pix"]]
                                         for e in tr["ev"]][:8]})
    rep.extra["corrupted_traces_rejected"] = rejected
    rep.extra["kitty_payload_boundary_classes"] = bc
    rep.extra["renders"] = len(cases)
    rep.extra["Trace_Gfx_actions"] = actions
    rep.extra["unstable_cell_size_renders"] = unstable
    rep.extra["iterm2_reencoded_renders_by_jpeg_quality"] = jpegs
    if not replay and not rep.violations:
        for v in (-50, -2, -1):
            for level in ("instance", "class"):
                if not jpegs.get(f"jpeg={v}:{level}:png"):
                    raise tlc.MachineryError(f"jpeg_quality {v} ({level}) never re-encoded a render: {jpegs}")
    rep.extra["payload_size_classes"] = sizeclasses
    if not replay and not rep.violations:
        need = ["iterm2:whole:file:>1MiB", "iterm2:anim:file:>1MiB", "iterm2:whole:png:>1MiB",
                "kitty:whole:raw:>1MiB", "iterm2:whole:file:64KiB..1MiB", "iterm2:anim:file:64KiB..1MiB",
                "iterm2:lines:png:64KiB..1MiB", "kitty:lines:raw:64KiB..1MiB"]
        if thorough:
            need += ["iterm2:whole:jpeg:>1MiB", "iterm2:anim:png:>1MiB"]
        for key in need:
            if not sizeclasses.get(key):
                raise tlc.MachineryError(f"no render with a payload of size class {key}: {sizeclasses}")
    rep.extra["alpha_hash_renders_by_terminal_background"] = termbg
    if not replay and not rep.violations and any(
        not termbg.get(str(bg)) for bg in TERM_BGS
    ):
        raise tlc.MachineryError(f"a terminal background was never composited over: {termbg}")
    rep.extra["interleaved_render_pairs"] = interleaved
    if not replay and not rep.violations and len(interleaved) < 20:
        raise tlc.MachineryError(f"interleaved-renders group is incomplete: {interleaved}")
    rep.extra["multi_render_history_traces"] = histories
    if not replay and not rep.violations and not (histories.get("render@0") and histories.get("iter@1")):
        raise tlc.MachineryError(f"multi-render history group is vacuous: {histories}")
    if not replay and not rep.violations:
        if not unstable or any(k.endswith("reads=0") for k in unstable):
            raise tlc.MachineryError(f"unstable-environment group is vacuous (no cell size read seen): {unstable}")
    if not replay and not rep.violations:
        for a in ("KittyDelete", "KittyChunk", "ITermImage", "Finish"):
            if not actions.get(a):
                raise tlc.MachineryError(f"Trace_Gfx action {a} never fired: {actions}")
    if not replay and not rep.violations:
        for need in ("raw:L=k*CS", "raw:L=k*CS-eps", "raw:L=k*CS+eps", "raw:L<CS", "raw:L=k*CS+r",
                     "z:L=k*CS", "z:L=k*CS-eps", "z:L=k*CS+eps"):
            if not bc.get(need):
                raise tlc.MachineryError(f"no real transmission landed on boundary class {need}: {bc}")

    # ---- models
    rep.extra["phase_s"] = phase
    if not replay:
        t0 = time.time()
        r16 = futs["MC_Gfx16"].result()
        r4096 = futs["MC_Gfx4096"].result()
        rr = futs["MC_GfxRender"].result()
        for name, res, acts in (
            ("MC_Gfx(ChunkSize=16)", r16, ("First", "Continue", "Last", "Stop")),
            ("MC_Gfx(ChunkSize=4096)", r4096, ()),
            ("MC_GfxRender", rr, ("KittyStrip", "ITermFile", "ITermResave", "ITermReenc", "Finish")),
        ):
            check_mc(res, name, rep, acts)
            rep.add_tlc(res)
            rep.extra[name] = {"states": res.distinct, "generated": res.generated, "coverage": res.coverage}
        for name in ("MC_GfxB64", "MC_GfxB64_alt"):
            res = futs[name].result()
            check_mc(res, name, rep, ("EncodeWhole",) if name == "MC_GfxB64" else ("EncodeBlock", "EndOfStream"))
            rep.add_tlc(res)
            rep.extra[name] = {"states": res.distinct, "generated": res.generated, "coverage": res.coverage}
        phase["wait-for-models"] = round(time.time() - t0, 1)
        phase["model-wall"] = {k: round(f.result().wall_s, 1) for k, f in futs.items()}
        t0 = time.time()
        n = replay_chunks(rep, r16, 16, use_default=False)
        n += replay_chunks(rep, r4096, CS, use_default=True)
        phase["chunk-replay"] = round(time.time() - t0, 1)
        rep.traces_validated += n
        rep.extra["chunk_sequences_replayed_into_get_chunks"] = n
        t0 = time.time()
        rep.extra["payload_streams_replayed"] = replay_streams(rep, futs["MC_GfxB64"].result(), file_streams)
        phase["stream-replay"] = round(time.time() - t0, 1)
        killed = []
        for key, f in futs.items():
            if key.startswith("mut:"):
                res = f.result()
                if not res.violated:
                    raise tlc.MachineryError(f"model regression {key} is NOT rejected by the invariants")
                killed.append(f"{key[4:]} -> {res.violated}")
        rep.extra["model_regressions_rejected"] = killed
        rep.exhaustive = True
        rep.extra["exhaustive_space"] = (
            "payload lengths 0..3*CS+8 for CS in {16, 4096} (model checked and each replayed into the "
            "real get_chunks); Jobs of MC_GfxRender"
        )
    pool.shutdown()
