--------------------------- MODULE RenderableBase ---------------------------
(***************************************************************************)
(* X06 - the base `Renderable` API of the renderable framework              *)
(* (term_image/renderable/_renderable.py, _types.Frame, _enum), as          *)
(* DOCUMENTED in the docstrings / docs/source/api/renderable.rst.           *)
(*                                                                         *)
(* Functional core (no variables): one instance of a concrete render class  *)
(* (a subclass of Renderable that follows the documented `_render_`          *)
(* contract, see "Probe contract" below).  `Do(s, op)` is the documented     *)
(* outcome of one API operation: the successor state and the observable      *)
(* result record.  MC_RenderableBase.tla turns it into a state machine with  *)
(* one named action per operation and branch; Trace_RenderableBase.tla       *)
(* validates recorded histories of the real code against the same core.      *)
(*                                                                         *)
(* Values.  K(k, v): a tagged value that may be an enum member               *)
(*   frame count  K("int", n) | INDEF (FrameCount.INDEFINITE)                 *)
(*                | POST (FrameCount.POSTPONED)                               *)
(*   duration     K("int", ms) | DYN (FrameDuration.DYNAMIC)                  *)
(*                | NONE (a non-animated renderable has no frame duration)    *)
(*                | K("uninit", 0) (render-data field left uninitialized)     *)
(*   hook         what the subclass's `_get_frame_count_()` returns:          *)
(*                K("int", n >= 2) | INDEF | K("unimpl", 0) (base             *)
(*                implementation: raises NotImplementedError)                 *)
(*                                                                         *)
(* Documented laws modelled here (see notes/X06.md for the quotations):      *)
(*  L1  construction: an integer frame_count < 1 is a ValueError; for an      *)
(*      animated renderable (frame_count # 1) an integer frame_duration <= 0  *)
(*      is a ValueError; frame_duration is IGNORED when frame_count = 1       *)
(*  L2  `animated` = (frame_count # 1); it never changes                      *)
(*  L3  `frame_count`: the count, or INDEFINITE; a POSTPONED count is         *)
(*      evaluated through `_get_frame_count_()` when `frame_count` is first   *)
(*      invoked (directly, or by seek()/iter() which need it), exactly once;  *)
(*      operations that do not need the count never evaluate it; the base     *)
(*      `_get_frame_count_` raises NotImplementedError (count stays           *)
(*      postponed)                                                            *)
(*  L4  `frame_duration` get: the setting, NonAnimatedRenderableError if      *)
(*      non-animated; set: positive int or DYNAMIC, otherwise ValueError;     *)
(*      NonAnimatedRenderableError if non-animated (whatever the value)       *)
(*  L5  `render_size` = `_get_render_size_()` at the time of the call         *)
(*  L6  render(args, padding): render data is created once                    *)
(*      (`_get_render_data_`), holds size = `_get_render_size_()` read once,   *)
(*      frame_offset = tell(), seek_whence = START, iteration = False,        *)
(*      duration = the frame_duration setting (left uninitialized for a       *)
(*      non-animated renderable); `_render_` is called exactly once with it   *)
(*      and with render arguments of the renderable's own class; the data is  *)
(*      finalized exactly once after `_render_` returned OR RAISED; the       *)
(*      returned Frame is the one `_render_` produced (padded if asked);      *)
(*      incompatible render arguments are rejected before any hook runs;      *)
(*      `_init_render_` called directly finalizes iff *finalize*              *)
(*  L7  str(r) = render output of the current frame with default arguments    *)
(*  L8  iter(r): NonAnimatedRenderableError for a non-animated renderable,    *)
(*      otherwise a FRESH RenderIterator (loop 1) over render data created    *)
(*      for iteration (iteration = True); the renderable's state is untouched  *)
(*  L9  draw() of a non-animation: same protocol as render(); when the write  *)
(*      is interrupted, `_handle_interrupted_draw_` is called once with the    *)
(*      still-live data, the class's render arguments and the output stream,  *)
(*      BEFORE the data is finalized, and KeyboardInterrupt propagates        *)
(*  L10 read-only attributes (`frame_count`, `render_size`: GET only;         *)
(*      `frame_duration` has no DELETE) reject assignment / deletion          *)
(*  L11 a rejected operation leaves the state unchanged (only a POSTPONED     *)
(*      count may have been evaluated on the way); reads change nothing       *)
(*  L12 Frame: immutable, hashable, equal fields <=> equal, equal => equal    *)
(*      hashes, str(frame) = render_output  (FrameLaws, judged in the Trace   *)
(*      module on real Frame objects)                                         *)
(***************************************************************************)
EXTENDS Naturals, Integers, Sequences, FiniteSets

K(k, v) == [k |-> k, v |-> v]
I(n) == K("int", n)
INDEF == K("indef", 0)
POST == K("post", 0)
DYN == K("dyn", 0)
NONE == K("none", 0)
UNINIT == K("uninit", 0)
UNIMPL == K("unimpl", 0)

(* ---------------- documented argument domains ---------------- *)
ValidCount(c) == c.k \in {"indef", "post"} \/ (c.k = "int" /\ c.v >= 1)
Animated(c) == ~(c.k = "int" /\ c.v = 1)
ValidDur(d) == d.k = "dyn" \/ (d.k = "int" /\ d.v >= 1)
ValidHook(h) == h.k \in {"indef", "unimpl"} \/ (h.k = "int" /\ h.v >= 2)

(* ---------------- state ---------------- *)
\* phase "new": the class exists (hook, size of its next instance), no instance yet
New(hook, w, h) ==
  [phase |-> "new", hook |-> hook, cnt0 |-> NONE, cnt |-> NONE, anim |-> FALSE, dur |-> NONE,
   frame |-> 0, w |-> w, h |-> h, evals |-> 0,
   \* calls of `_get_frame_count_` so far (also the failing ones of the base implementation);
   \* render data created and not yet finalized (0 whenever no operation is in progress)
   ncount |-> 0, nlive |-> 0]

\* the state of the renderable proper (without the bookkeeping of hook calls)
Core(s) == [phase |-> s.phase, hook |-> s.hook, cnt0 |-> s.cnt0, cnt |-> s.cnt, anim |-> s.anim,
            dur |-> s.dur, frame |-> s.frame, w |-> s.w, h |-> s.h, evals |-> s.evals]

\* the PASSIVE projection: what a caller can read without (documented) side effect
\*   animated, tell(), frame_duration (NONE = NonAnimatedRenderableError), render_size,
\*   number of calls / completed calls of `_get_frame_count_` (seen by the subclass),
\*   number of render data objects created and not finalized
Passive(s) ==
  IF s.phase = "new" THEN [anim |-> FALSE, tell |-> 0, dur |-> NONE, w |-> 0, h |-> 0, evals |-> 0, calls |-> 0, live |-> 0]
  ELSE [anim |-> s.anim, tell |-> s.frame, dur |-> s.dur, w |-> s.w, h |-> s.h, evals |-> s.evals,
        calls |-> s.ncount, live |-> s.nlive]

(* ---------------- result records (all of one shape) ---------------- *)
V(k, a, b) == [k |-> k, a |-> a, b |-> b]
NoVal == V("none", 0, 0)
NoFrame == [num |-> 0, dur |-> 0, w |-> 0, h |-> 0, shown |-> 0, tag |-> "", bw |-> 0, bh |-> 0, ml |-> 0]
NoData == [off |-> 0, wh |-> "", w |-> 0, h |-> 0, dur |-> NONE, iter |-> FALSE, tag |-> "", fin |-> FALSE,
           same |-> FALSE]
NoHdl == [called |-> 0, fin |-> FALSE, out |-> FALSE, ret |-> FALSE]
R0 == [res |-> "ok", val |-> NoVal, frame |-> NoFrame, hooks |-> <<>>, nsize |-> 0, ncount |-> 0,
       data |-> NoData, hdl |-> NoHdl]
Exc(name) == [R0 EXCEPT !.res = name]
Ret(s, r) == [s |-> s, r |-> r]

CountVal(c) == IF c.k = "int" THEN V("int", c.v, 0) ELSE V(c.k, 0, 0)
DurVal(d) == IF d.k = "int" THEN V("int", d.v, 0) ELSE V(d.k, 0, 0)

(* ---------------- Probe contract: the documented `_render_` contract ---------------- *)
(* Frame.number = data.frame_offset; Frame.render_size = data.size; Frame.duration =    *)
(* data.duration if static, "determined from the frame data source" if DYNAMIC (the     *)
(* probe's source says 10 * (number + 1)), unspecified for non-animated (the probe      *)
(* gives 0); the output shows the frame number and the render arguments it was given.   *)
DynDur(n) == 10 * (n + 1)
RenderedDur(s) == IF ~s.anim THEN 0 ELSE IF s.dur.k = "dyn" THEN DynDur(s.frame) ELSE s.dur.v
ArgsTag(t) == IF t = "own" THEN "a1" ELSE "a0"     \* "none" / "base": the class's defaults

DataOf(s, iter, tag) ==
  [off |-> s.frame, wh |-> "START", w |-> s.w, h |-> s.h,
   dur |-> IF s.anim THEN s.dur ELSE UNINIT, iter |-> iter, tag |-> tag, fin |-> FALSE, same |-> TRUE]

FrameOf(s, tag, pad) ==
  [num |-> s.frame, dur |-> RenderedDur(s), w |-> s.w + pad, h |-> s.h, shown |-> s.frame, tag |-> tag,
   bw |-> s.w, bh |-> s.h, ml |-> pad]
\* only the text is returned (str(), draw()): number / duration / size are not observable
TextOf(s, tag) == [NoFrame EXCEPT !.shown = s.frame, !.tag = tag, !.bw = s.w, !.bh = s.h]

(* ---------------- evaluation of a POSTPONED frame count (L3) ---------------- *)
Eval(s) ==
  IF s.cnt.k # "post" THEN [s |-> s, ok |-> TRUE, n |-> 0]
  ELSE IF s.hook.k = "unimpl" THEN [s |-> [s EXCEPT !.ncount = @ + 1], ok |-> FALSE, n |-> 1]
  ELSE [s |-> [s EXCEPT !.cnt = s.hook, !.evals = @ + 1, !.ncount = @ + 1], ok |-> TRUE, n |-> 1]

(* ---------------- one render operation (L6): data created and finalized ---------------- *)
\* `nlive` goes up at "data" and down at "final": every operation here does both
Rendered(s, handler) == [s EXCEPT !.nlive = (@ + 1) - 1]
FailRes(f) == IF f = "kb" THEN "KeyboardInterrupt" ELSE "ProbeError"

(* ---------------- operations ---------------- *)
\* L1.  Which argument the ValueError names: frame_duration is judged only once frame_count
\* has a meaning (its validity depends on whether the renderable is animated).
DoConstruct(s, fc, fd) ==
  IF ~ValidCount(fc) THEN Ret(s, [Exc("ValueError") EXCEPT !.val = V("arg", 1, 0)])
  ELSE IF Animated(fc) /\ ~ValidDur(fd) THEN Ret(s, [Exc("ValueError") EXCEPT !.val = V("arg", 2, 0)])
  ELSE Ret([s EXCEPT !.phase = "live", !.cnt0 = fc, !.cnt = fc, !.anim = Animated(fc),
                     !.dur = IF Animated(fc) THEN fd ELSE NONE, !.frame = 0], R0)

DoFrameCount(s) ==
  LET e == Eval(s) IN
  IF e.ok THEN Ret(e.s, [R0 EXCEPT !.val = CountVal(e.s.cnt), !.ncount = e.n])
  ELSE Ret(e.s, [Exc("NotImplementedError") EXCEPT !.ncount = e.n])

DoGetDuration(s) ==
  IF s.anim THEN Ret(s, [R0 EXCEPT !.val = DurVal(s.dur)]) ELSE Ret(s, Exc("NonAnimatedRenderableError"))

DoSetDuration(s, d) ==
  IF ~s.anim THEN Ret(s, Exc("NonAnimatedRenderableError"))
  ELSE IF ~ValidDur(d) THEN Ret(s, Exc("ValueError"))
  ELSE Ret([s EXCEPT !.dur = d], R0)

DoRenderSize(s) == Ret(s, [R0 EXCEPT !.val = V("size", s.w, s.h), !.nsize = 1])

\* not an API call: the subclass's own state (what `_get_render_size_()` answers) changes
DoResize(s, w, h) == Ret([s EXCEPT !.w = w, !.h = h], R0)

DoRender(s, args, pad, fail) ==
  IF args = "bad" THEN Ret(s, Exc("IncompatibleRenderArgsError"))
  ELSE LET r == [R0 EXCEPT !.hooks = <<"data", "render", "final">>, !.nsize = 1,
                           !.data = DataOf(s, FALSE, ArgsTag(args))]
       IN IF fail # "no" THEN Ret(Rendered(s, FALSE), [r EXCEPT !.res = FailRes(fail)])
          ELSE Ret(Rendered(s, FALSE), [r EXCEPT !.val = V("frame", 0, 0), !.frame = FrameOf(s, ArgsTag(args), pad)])

DoStr(s, fail) ==
  LET r == [R0 EXCEPT !.hooks = <<"data", "render", "final">>, !.nsize = 1, !.data = DataOf(s, FALSE, "a0")]
  IN IF fail # "no" THEN Ret(Rendered(s, FALSE), [r EXCEPT !.res = FailRes(fail)])
     ELSE Ret(Rendered(s, FALSE), [r EXCEPT !.val = V("str", 0, 0), !.frame = TextOf(s, "a0")])

\* L8.  The iterator is closed by the caller right after it was looked at: `final` is that close.
DoIter(s) ==
  IF ~s.anim THEN Ret(s, Exc("NonAnimatedRenderableError"))
  ELSE LET e == Eval(s) IN
       IF ~e.ok THEN Ret(e.s, [Exc("NotImplementedError") EXCEPT !.ncount = e.n])
       ELSE Ret([e.s EXCEPT !.nlive = (@ + 1) - 1],
                [R0 EXCEPT !.val = V("iter", 1, 1), !.hooks = <<"data", "final">>, !.nsize = 1,
                           !.ncount = e.n, !.data = DataOf(e.s, TRUE, "")])

\* seek(offset, START) only - the full table is RenderableSeek.tla; here it moves the current
\* frame so that renders of other frames are reachable, and it is one of the evaluating operations
DoSeek(s, x) ==
  LET e == Eval(s) IN
  IF ~e.ok THEN Ret(e.s, [Exc("NotImplementedError") EXCEPT !.ncount = e.n])
  ELSE IF e.s.cnt.k = "indef" THEN Ret(e.s, [Exc("IndefiniteSeekError") EXCEPT !.ncount = e.n])
  ELSE IF x >= 0 /\ x < e.s.cnt.v THEN Ret([e.s EXCEPT !.frame = x], [R0 EXCEPT !.val = V("int", x, 0), !.ncount = e.n])
  ELSE Ret(e.s, [Exc("ValueError") EXCEPT !.ncount = e.n])

\* L9.  draw(animate=False, check_size=False) onto a stream that is not a terminal
DoDraw(s, fail) ==
  LET r == [R0 EXCEPT !.nsize = 1, !.data = DataOf(s, FALSE, "a0")] IN
  IF fail = "interrupt"
  THEN Ret(Rendered(s, TRUE),
           [r EXCEPT !.res = "KeyboardInterrupt", !.hooks = <<"data", "render", "handler", "final">>,
                     !.hdl = [called |-> 1, fin |-> FALSE, out |-> TRUE, ret |-> TRUE]])
  ELSE Ret(Rendered(s, FALSE),
           [r EXCEPT !.val = V("drawn", 0, 0), !.hooks = <<"data", "render", "final">>, !.frame = TextOf(s, "a0")])

\* L6 (Extension API).  `_init_render_(renderer, iteration=.., finalize=..)` called directly with the caller's
\* own renderer: data created once, renderer called once with it and the class's default arguments, finalized
\* right after the renderer returned or raised iff *finalize* (otherwise the caller keeps the data, still live,
\* and finalizes it itself afterwards); returns (what the renderer returned, None for "no padding")
DoInitRender(s, fin, iter, fail) ==
  LET r == [R0 EXCEPT !.hooks = IF fin = 1 THEN <<"data", "renderer", "final">> ELSE <<"data", "renderer">>,
                      !.nsize = 1, !.data = DataOf(s, iter = 1, "a0")]
      s2 == [s EXCEPT !.nlive = (@ + 1) - 1]
  IN IF fail # "no" THEN Ret(s2, [r EXCEPT !.res = FailRes(fail)]) ELSE Ret(s2, [r EXCEPT !.val = V("init", 1, 1)])

OpNames == {"construct", "init_render", "animated", "tell", "frame_count", "get_duration", "set_duration", "render_size",
            "resize", "render", "str", "iter", "seek", "draw", "assign"}
RenderArgKinds == {"none", "own", "base", "bad"}
FailKinds == {"no", "exc", "kb"}
DrawFailKinds == {"no", "interrupt"}
ReadOnly == {"frame_count", "render_size", "del_frame_duration"}

\* op = [name, a, b, x, y, t, f]: a, b tagged values; x, y integers; t, f strings
Op(name, a, b, x, y, t, f) == [name |-> name, a |-> a, b |-> b, x |-> x, y |-> y, t |-> t, f |-> f]
Op0(name) == Op(name, NONE, NONE, 0, 0, "", "")

WellFormedOp(s, op) ==
  /\ op.name \in OpNames
  /\ (s.phase = "new") = (op.name = "construct")
  /\ CASE op.name = "construct" -> op.a.k \in {"int", "indef", "post"} /\ op.b.k \in {"int", "dyn"}
       [] op.name = "set_duration" -> op.a.k \in {"int", "dyn"}
       [] op.name = "resize" -> op.x >= 1 /\ op.y >= 1
       [] op.name = "render" -> op.t \in RenderArgKinds /\ op.f \in FailKinds /\ op.x >= 0
       [] op.name = "str" -> op.f \in FailKinds
       [] op.name = "init_render" -> op.x \in {0, 1} /\ op.y \in {0, 1} /\ op.f \in {"no", "exc"}
       [] op.name = "draw" -> op.f \in DrawFailKinds
       [] op.name = "assign" -> op.t \in ReadOnly
       [] OTHER -> TRUE

Do(s, op) ==
  LET d == CASE op.name = "construct" -> DoConstruct(s, op.a, op.b)
             [] op.name = "animated" -> Ret(s, [R0 EXCEPT !.val = V("bool", IF s.anim THEN 1 ELSE 0, 0)])
             [] op.name = "tell" -> Ret(s, [R0 EXCEPT !.val = V("int", s.frame, 0)])
             [] op.name = "frame_count" -> DoFrameCount(s)
             [] op.name = "get_duration" -> DoGetDuration(s)
             [] op.name = "set_duration" -> DoSetDuration(s, op.a)
             [] op.name = "render_size" -> DoRenderSize(s)
             [] op.name = "resize" -> DoResize(s, op.x, op.y)
             [] op.name = "render" -> DoRender(s, op.t, op.x, op.f)
             [] op.name = "str" -> DoStr(s, op.f)
             [] op.name = "init_render" -> DoInitRender(s, op.x, op.y, op.f)
             [] op.name = "iter" -> DoIter(s)
             [] op.name = "seek" -> DoSeek(s, op.x)
             [] op.name = "draw" -> DoDraw(s, op.f)
             [] op.name = "assign" -> Ret(s, Exc("AttributeError"))
  IN [s |-> d.s, r |-> d.r]

(* ---------------- classification used by the properties ---------------- *)
Rejected(r) == r.res # "ok"
\* operations documented to change the renderable: everything else is a read
Mutators == {"construct", "set_duration", "seek", "resize"}
\* operations that need the number of frames (and therefore evaluate a POSTPONED count)
Evaluators == {"frame_count", "seek", "iter"}
\* the state with the POSTPONED count forgotten (what must not change in a rejected evaluator)
Unresolved(c) == [c EXCEPT !.cnt = NONE, !.evals = 0]

(* ---------------- L12: Frame as a value ---------------- *)
(* fr = [f, eq, heq, str, mut, ne]:  f[i] = [num, dur, w, h, oid] (oid = identity of the   *)
(* output text), eq / heq = pairs <<i, j>> observed ==  / equal hashes, ne = pairs where   *)
(* != is not the negation of ==, str[i] = (str(frame) == frame.render_output), mut[i] =    *)
(* what an attempt to assign / delete a field raised                                        *)
Range(q) == {q[i] : i \in DOMAIN q}
FrameLaws(fr) ==
  LET n == Len(fr.f)
      same == {p \in (1..n) \X (1..n) : fr.f[p[1]] = fr.f[p[2]]}
  IN IF Range(fr.eq) # same THEN "Frame:eq: == is not (all fields equal)"
     ELSE IF ~(same \subseteq Range(fr.heq)) THEN "Frame:hash: equal frames hash differently"
     ELSE IF fr.ne # <<>> THEN "Frame:ne: != is not the negation of =="
     ELSE IF \E i \in 1..Len(fr.str) : ~fr.str[i] THEN "Frame:str: str(frame) is not its render_output"
     ELSE IF \E i \in 1..Len(fr.mut) : fr.mut[i] # "AttributeError" THEN "Frame:immutable: a field could be changed"
     ELSE "ok"
=============================================================================
