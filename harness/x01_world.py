"""X01 - real-code side of the value-type check (term_image.geometry / .padding / .color).

A ``World`` is the caller's view modelled by specs/ValueTypes.tla: a list of variables (the
*store*) bound to real objects.  ``do(op)`` performs one modelled operation through the public
API (plus the documented-as-internal ``_new``), ``observe()`` reads every live object back
(attributes, tuple view, class, ``relative``, identity) and the ``==`` / ``hash`` relations
between all of them.  Nothing here judges: values are only read, decoded and reported.
"""

from __future__ import annotations

import os
import random
import re

from term_image.color import Color
from term_image.geometry import RawSize, Size
from term_image.padding import AlignedPadding, ExactPadding, HAlign, Padding, VAlign


# subclasses (the classes document how they may be subclassed; `__slots__ = ()` keeps the
# instances as closed as those of the base classes)
class SubAligned(AlignedPadding):
    __slots__ = ()


class SubExact(ExactPadding):
    __slots__ = ()


class CustomPadding(Padding):
    """A concrete padding written against the documented extension API only."""

    __slots__ = ("left", "top", "right", "bottom")

    def __init__(self, left=0, top=0, right=0, bottom=0, fill=" "):
        super().__init__(fill)
        for name, value in zip(self.__slots__, (left, top, right, bottom)):
            object.__setattr__(self, name, value)

    def _get_exact_dimensions_(self, render_size):
        return self.left, self.top, self.right, self.bottom


class SubSize(Size):
    __slots__ = ()


class SubColor(Color):
    __slots__ = ()


CLS = {c.__name__: c for c in (AlignedPadding, SubAligned, ExactPadding, SubExact, CustomPadding, Size, SubSize,
                               RawSize, Color, SubColor)}
KIND = {"AlignedPadding": "aligned", "SubAligned": "aligned", "ExactPadding": "exact", "SubExact": "exact",
        "CustomPadding": "exact", "Size": "size", "SubSize": "size", "RawSize": "size", "Color": "color", "SubColor": "color", "str": "str"}

# symbols of ValueTypesCore (hex colour strings): 0..15 '0'..'f', 16..21 'A'..'F', 22 '#', then
# characters that are NOT hex digits
SYMBOLS = "0123456789abcdefABCDEF#g \nx０+_G"
SYM_OF = {c: i for i, c in enumerate(SYMBOLS)}
OTHER_SYM = 31  # any character outside the table (only in recorded histories)


def decode(symbols) -> str:
    return "".join(SYMBOLS[i] if i < len(SYMBOLS) else "é" for i in symbols)


def encode(text: str) -> list[int]:
    return [SYM_OF.get(c, OTHER_SYM) for c in text]


INT_FIELDS = {"aligned": ("width", "height"), "exact": ("left", "top", "right", "bottom"),
              "size": ("width", "height"), "color": ("r", "g", "b", "a")}
STR_FIELDS = {"aligned": ("h_align", "v_align", "fill"), "exact": ("fill",), "size": (), "color": ()}

_CUF = re.compile(r"\x1b\[(\d+)C")


def _width(line: str) -> int:
    """Columns a line of a padded TEXT render advances (`CSI n C` = n columns)."""
    n = sum(int(m) for m in _CUF.findall(line))
    return n + len(_CUF.sub("", line))


def _exc(e: BaseException) -> str:
    for name, cls in (("AttributeError", AttributeError), ("ValueError", ValueError), ("TypeError", TypeError)):
        if isinstance(e, cls):
            return name
    return type(e).__name__


def _int(v):
    """An integer field as it is sent to TLA+ (a non-int is reported, never coerced silently)."""
    if isinstance(v, bool) or not isinstance(v, int):
        return -(2**30) - 7
    return max(-(2**30), min(2**30, v))


class Unmodelled(Exception):
    """The scenario asks for something this module cannot perform."""


class World:
    def __init__(self, seed: int = 0):
        self.store: list = []
        self.rng = random.Random(seed)

    # ------------------------------------------------------------------ observation
    @staticmethod
    def kind(o) -> str:
        if isinstance(o, AlignedPadding):
            return "aligned"
        if isinstance(o, (ExactPadding, CustomPadding)):
            return "exact"
        if isinstance(o, Color):
            return "color"
        if isinstance(o, RawSize):
            return "size"
        if isinstance(o, str):
            return "str"
        return "other:" + type(o).__name__

    def obs_obj(self, o, ident: int) -> dict:
        k = self.kind(o)
        cls = type(o).__name__
        rec = {"k": k, "cls": cls, "n": [], "s": [], "id": ident, "rel": -1, "tup": []}
        try:
            if k == "aligned":
                rec["n"] = [_int(o.width), _int(o.height)]
                rec["s"] = [getattr(o.h_align, "name", repr(o.h_align)), getattr(o.v_align, "name", repr(o.v_align)),
                            o.fill if isinstance(o.fill, str) else repr(o.fill)]
                rec["rel"] = {True: 1, False: 0}.get(o.relative, 2)
            elif k == "exact":
                rec["n"] = [_int(o.left), _int(o.top), _int(o.right), _int(o.bottom)]
                rec["s"] = [o.fill if isinstance(o.fill, str) else repr(o.fill)]
            elif k == "size":
                rec["n"] = [_int(o.width), _int(o.height)]
                w, h = o  # unpacking
                rec["tup"] = [_int(w), _int(h)] if (len(o) == 2 and o[0] == w and o[1] == h) else [-1]
            elif k == "color":
                rec["n"] = [_int(o.r), _int(o.g), _int(o.b), _int(o.a)]
                r, g, b, a = o
                rec["tup"] = [_int(x) for x in (r, g, b, a)] if (len(o) == 4 and o[3] == a) else [-1]
            elif k == "str":
                rec["n"] = encode(o)
        except Exception as e:  # an attribute is missing: report, do not judge
            rec["cls"] = f"{cls}!{type(e).__name__}"
        return rec

    def observe(self) -> dict:
        ids: dict[int, int] = {}
        objs = []
        for o in self.store:
            ident = ids.setdefault(id(o), len(ids) + 1)
            objs.append(self.obs_obj(o, ident))
        eq, heq = [], []
        for a in self.store:
            er, hr = [], []
            for b in self.store:
                try:
                    x, y, z = a == b, b == a, a != b
                    er.append("T" if (x is True and y is True and z is False) else
                              "F" if (x is False and y is False and z is True) else "X")
                except Exception:
                    er.append("X")
                try:
                    hr.append("T" if hash(a) == hash(b) else "F")
                except Exception:
                    hr.append("X")
            eq.append(er)
            heq.append(hr)
        return {"o": objs, "eq": eq, "heq": heq}

    # ------------------------------------------------------------------ operations
    def _bind(self, dst: int, obj) -> None:
        if dst == len(self.store) + 1 or dst > len(self.store):
            self.store.append(obj)
        else:
            self.store[dst - 1] = obj

    def _render_size(self, op):
        if op["j"]:
            return self.store[op["j"] - 1]
        return Size(*op["n"])

    def _call(self, op):
        """-> ("obj", object) | ("val", list)"""
        nm, n, s = op["name"], op["n"], op["s"]
        o = self.store[op["i"] - 1] if op["i"] else None
        if nm == "new_aligned":
            cls = CLS[op["cls"]]
            ha, va = HAlign[s[0]], VAlign[s[1]]
            form = self.rng.randrange(3)
            if form == 0:
                return "obj", cls(n[0], n[1], ha, va, s[2])
            if form == 1:
                return "obj", cls(width=n[0], height=n[1], h_align=ha, v_align=va, fill=s[2])
            return "obj", cls(n[0], n[1], ha, fill=s[2], v_align=va)
        if nm == "new_aligned_default":
            return "obj", CLS[op["cls"]](n[0], n[1])
        if nm == "new_exact":
            cls = CLS[op["cls"]]
            if self.rng.randrange(2):
                return "obj", cls(n[0], n[1], n[2], n[3], s[0])
            return "obj", cls(bottom=n[3], right=n[2], top=n[1], left=n[0], fill=s[0])
        if nm == "new_exact_default":
            return "obj", CLS[op["cls"]]()
        if nm == "new_abstract":
            return "obj", Padding(*s)
        if nm == "resolve":
            return "obj", o.resolve(os.terminal_size((n[0], n[1])))
        if nm == "to_exact":
            return "obj", o.to_exact(self._render_size(op))
        if nm == "get_padded_size":
            return "obj", o.get_padded_size(self._render_size(op))
        if nm == "exact_dims":
            v = o._get_exact_dimensions_(self._render_size(op))
            return "val", self._tuple(v, 4)
        if nm == "pad":
            rs = self._render_size(op)
            render = "\n".join("x" * rs[0] for _ in range(rs[1]))
            out = o.pad(render, rs)
            lines = out.split("\n")
            widths = {_width(ln) for ln in lines}
            return "val", [len(lines), widths.pop() if len(widths) == 1 else -1]
        if nm == "dimensions":
            return "val", self._tuple(o.dimensions, 4)
        if nm == "min_size":
            return "obj", o.size
        if nm == "setattr":
            name = s[0]
            cur = getattr(o, name, None)
            new = (cur + 1) if isinstance(cur, int) and not isinstance(cur, bool) else \
                (not cur) if isinstance(cur, bool) else "x" if isinstance(cur, str) else 1
            if isinstance(cur, (HAlign, VAlign)):
                new = type(cur)((int(cur) + 1) % 3)
            setattr(o, name, new)
            return "val", []
        if nm == "delattr":
            delattr(o, s[0])
            return "val", []
        if nm == "rebuild":
            k = self.kind(o)
            kw = {f: getattr(o, f) for f in INT_FIELDS[k] + STR_FIELDS[k]}
            f = s[0]
            if f in INT_FIELDS[k]:
                kw[f] = n[0]
            elif f == "h_align":
                kw[f] = HAlign[s[1]]
            elif f == "v_align":
                kw[f] = VAlign[s[1]]
            elif f == "fill":
                kw[f] = s[1]
            elif f != "none":
                raise Unmodelled(f"rebuild field {f}")
            if self.rng.randrange(2):
                return "obj", type(o)(**kw)
            return "obj", type(o)(*kw.values())
        if nm == "new_size":
            return "obj", CLS[op["cls"]](n[0], n[1])
        if nm == "bypass":
            return "obj", CLS[op["cls"]]._new(*n)
        if nm == "replace":
            return "obj", o._replace(**{s[0]: n[0]})
        if nm == "new_color":
            cls = CLS[op["cls"]]
            if self.rng.randrange(2):
                return "obj", cls(*n)
            return "obj", cls(r=n[0], g=n[1], b=n[2], a=n[3])
        if nm == "new_color_rgb":
            return "obj", CLS[op["cls"]](n[0], n[1], n[2])
        if nm == "hex":
            return "obj", o.hex
        if nm == "rgb_hex":
            return "obj", o.rgb_hex
        if nm == "rgb":
            return "val", self._tuple(o.rgb, 3)
        if nm == "new_str":
            return "obj", decode(n)
        if nm == "from_hex":
            text = o
            form = s[0]
            if form in ("upper", "upper-nopound"):
                text = text.upper()
            if form in ("nopound", "upper-nopound") and text.startswith("#"):
                text = text[1:]
            return "obj", CLS[op["cls"]].from_hex(text)
        raise Unmodelled(nm)

    @staticmethod
    def _tuple(v, length: int) -> list:
        """A plain tuple of ints as a list; anything else is reported as it is."""
        if type(v) is not tuple or len(v) != length:
            return [-1, len(v) if hasattr(v, "__len__") else -1]
        return [_int(x) for x in v]

    def do(self, op: dict) -> tuple[str, list]:
        """Perform ``op``; -> (res, val).  A returned object is bound to slot ``dst``."""
        try:
            kind, v = self._call(op)
        except Unmodelled:
            raise
        except Exception as e:
            return _exc(e), []
        if kind == "obj":
            self._bind(op["dst"], v)
            return "ok", []
        return "ok", v

    # ------------------------------------------------------------------ forcing a state
    def force(self, objs: list[dict]) -> None:
        """Bind the store to fresh real objects with exactly the given records (same id = same
        object); used to start from / return to a model state."""
        made: dict[int, object] = {}
        store = []
        for r in objs:
            if r["id"] in made:
                store.append(made[r["id"]])
                continue
            k, cls, n, s = r["k"], r["cls"], r["n"], r["s"]
            if k == "aligned":
                o = CLS[cls](n[0], n[1], HAlign[s[0]], VAlign[s[1]], s[2])
            elif k == "exact":
                o = CLS[cls](n[0], n[1], n[2], n[3], s[0])
            elif k in ("size", "color"):
                o = tuple.__new__(CLS[cls], n)
            elif k == "str":
                o = decode(n)
            else:
                raise Unmodelled(k)
            made[r["id"]] = o
            store.append(o)
        self.store = store


assert issubclass(SubAligned, Padding)
