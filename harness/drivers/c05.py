"""C05 - padding and alignment place the render exactly, inside exactly the padded size.

model:    specs/Padding.tla (functional core) enumerated by specs/MC_Padding.tla:
          every (padding object, render size, terminal size) within the constants; the
          property clauses are invariants over every table entry.
spec->code: every enumerated evaluation printed by MC_Padding (EDGE lines) is replayed into
          the REAL AlignedPadding/ExactPadding methods and BaseImage._check_formatting;
          results (values and exception classes) must be equal.
code->spec: real padded outputs (Padding.pad, Renderable.render/draw(padding=), RenderIterator
          frames, format(image, spec), BaseImage._format_render, BaseImage.draw) are lexed
          together with the inner render they were made from and validated by TLC against
          specs/Trace_Pad.tla (two Terminal.tla interpreters; the expected geometry comes
          from Padding.tla, never from this driver).
"""

from __future__ import annotations

import contextlib
import io
import itertools
import json
import os
import random
import shutil
import uuid

from .. import lexer, renderkit, tlc
from ..core import Report
from ..env import stubs

ASSUMPTIONS = [
    "terminal semantics of specs/Terminal.tla (ECMA-48/xterm cursor movement incl. CUF clamping at "
    "the right margin, kitty graphics a=T/C=1/c/r/m, iTerm2 inline images with width/height in cells)",
    "newline is interpreted with ONLCR (column 0): multi-line padded outputs are checked at start "
    "column 0 and several start rows (incl. exact fit), single-line ones at several start columns",
    "the fill string occupies one column (the documented precondition): ' ', '#', SGR-wrapped blank "
    "ESC[100m SP ESC[0m, SGR-wrapped dim dot ESC[2m . ESC[0m, 'e' + U+0301; Trace_Pad verifies the "
    "precondition on the fill's own token stream and derives the expected fill cell from it; combining "
    "characters join the cell printed last, non-colour attributes are part of the compared cell",
    "the padded box must fit the screen (documented precondition of render outputs); screens are "
    "(pw+2)x(ph+2), pw x ph, pw x (ph+1), or the terminal size the padding was resolved against",
    "old API: h_align/v_align None mean centre/middle; width/height <= 0 are relative to the "
    "terminal size reported by get_terminal_size() (docstrings of BaseImage.draw / format spec)",
    "RenderIterator.set_padding() with a relative AlignedPadding relies on the repair of finding F7 "
    "(commit 3b16f02 of the tree); on a tree without it these cases raise and are reported",
]

HALIGNS = ["left", "center", "right"]
VALIGNS = ["top", "middle", "bottom"]
OLD_H = ["none", "<", "|", ">"]
OLD_V = ["none", "^", "-", "_"]
# one-column fills: single code points, the empty fill, and multi-code-point ones (an SGR-wrapped
# blank, an SGR-wrapped glyph carrying a non-colour attribute, base + combining character U+0301)
FILLS = [" ", "#", "", "\x1b[100m \x1b[0m", "\x1b[2m.\x1b[0m", "e\u0301"]
TERMS = [(4, 3), (6, 5), (9, 6), (20, 10)]

_KEEP_GFX = ("proto", "a", "C", "c", "r", "z", "m", "q", "d", "x0", "keys", "nkeys", "inline",
             "wcells", "hcells", "dnmc")

OLD_SITE = "_format_render"
SITES = {
    "pad": ("new-api", "Padding.pad"),
    "render": ("new-api", "Renderable.render"),
    "rdraw": ("new-api", "Renderable.draw"),
    "iter": ("new-api", "RenderIterator"),
    "format": ("old-api", OLD_SITE),
    "fmtrender": ("old-api", OLD_SITE),
    "draw": ("old-api", OLD_SITE),
}


# --------------------------------------------------------------------------------------
# environment
# --------------------------------------------------------------------------------------


def setup_env():
    """Install the scripted terminal and make sure every module that resolves relative
    paddings reads the terminal size from it (seam missing -> machinery failure)."""
    renderkit.setup("c05")
    import term_image.render._iterator as it_mod
    import term_image.renderable._renderable as r_mod

    for mod in (r_mod, it_mod):
        if not hasattr(mod, "get_terminal_size"):
            raise tlc.MachineryError(f"seam missing: {mod.__name__}.get_terminal_size")
        mod.get_terminal_size = stubs._get_terminal_size


def uniform_pad(p: dict) -> dict:
    base = dict(kind="", w=0, h=0, ha="", va="", l=0, t=0, r=0, b=0)
    base.update({k: v for k, v in p.items() if k in base})
    return base


def make_padding(p: dict, fill: str):
    from term_image.padding import AlignedPadding, ExactPadding, HAlign, VAlign

    if p["kind"] == "exact":
        return ExactPadding(p["l"], p["t"], p["r"], p["b"], fill)
    return AlignedPadding(
        p["w"], p["h"], HAlign[p["ha"].upper()], VAlign[p["va"].upper()], fill
    )


# --------------------------------------------------------------------------------------
# spec -> code: replay of the MC_Padding dump
# --------------------------------------------------------------------------------------


def _pad_of(P):
    kind, w, h, ha, va, l, t, r, b = P
    return dict(kind=kind, w=w, h=h, ha=ha, va=va, l=l, t=t, r=r, b=b)


def _call(fn):
    try:
        return "", fn()
    except Exception as e:  # the class is the observable
        return type(e).__name__, None


def replay_entry(act, op, P, a, entry, fill=" "):
    """Run one enumerated evaluation on the real code.

    Returns a list of (api, expected, actual) mismatches (empty = conforms)."""
    from term_image.geometry import Size
    from term_image.padding import AlignedPadding, ExactPadding

    rsw, rsh, tw, th, Q, R = entry
    bad = []

    def cmp(api, exp, act_):
        if exp != act_:
            bad.append((api, exp, act_))

    if op == "newexact":
        err, val = _call(lambda: ExactPadding(*a, fill))
        cmp("ExactPadding", [R[0], R[1] if not R[0] else None],
            [err, list(val.dimensions) if val is not None else None])
        if val is not None:
            cmp("ExactPadding.fields", list(a), [val.left, val.top, val.right, val.bottom])
        return bad

    if op == "checkfmt":
        from term_image.image import BaseImage

        stubs.set_term(size=(tw, th))
        ha, va = a
        p = _pad_of(P)
        err, val = _call(
            lambda: BaseImage._check_formatting(
                None if ha == "none" else ha, p["w"], None if va == "none" else va, p["h"]
            )
        )
        exp = [R[0]] + ([R[1], R[2], R[3], R[4]] if not R[0] else [])
        got = [err] + ([val[0] or "none", val[1], val[2] or "none", val[3]] if val else [])
        cmp("_check_formatting", exp, got)
        return bad

    pad = make_padding(_pad_of(P), fill)
    q = _pad_of(Q)
    if op in ("resolve", "chain"):
        err, res = _call(lambda: pad.resolve(os.terminal_size((tw, th))))
        got = (
            [err, res.width, res.height, res.h_align.name.lower(), res.v_align.name.lower(),
             res.relative, res.fill, type(res) is AlignedPadding]
            if res is not None else [err]
        )
        cmp("resolve", ["", q["w"], q["h"], q["ha"], q["va"], False, fill, True], got)
        if op == "resolve":
            cmp("resolve.result", ["", R[1], R[2], R[3]], got[:3] + [got[5]] if res is not None else got)
            if res is not None:
                again = res.resolve(os.terminal_size((th + 7, tw + 5)))
                cmp("resolve.idempotent", True, again == res)
            return bad
        if res is None:
            return bad
        pad = res

    # eval / chain: the three evaluators on `pad` for render size rs
    rs = Size(rsw, rsh)
    experr, dims, padded, exact = R
    err, val = _call(lambda: pad._get_exact_dimensions_(rs))
    cmp("_get_exact_dimensions_", [experr, None if experr else dims], [err, val and list(val)])
    err, val = _call(lambda: pad.get_padded_size(rs))
    cmp("get_padded_size", [experr, None if experr else padded], [err, val and list(val)])
    if val is not None and not isinstance(val, Size):
        bad.append(("get_padded_size.type", "Size", type(val).__name__))
    err, val = _call(lambda: pad.to_exact(rs))
    got = [err, None]
    if val is not None:
        got = [err, list(val.dimensions)]
        cmp("to_exact.fill", fill, val.fill)
        cmp("to_exact.type", True, type(val) is ExactPadding)
        cmp("to_exact.padded_size", padded, list(val.get_padded_size(rs)))
    cmp("to_exact", [experr, None if experr else exact], got)
    return bad


def mc_cfg(rep: Report) -> str:
    return "MC_Padding.cfg" if rep.tier == "quick" else "MC_Padding_full.cfg"


def run_model(rep: Report):
    return tlc.run("MC_Padding", mc_cfg(rep), workers=8, timeout=900, coverage=True, deadlock=False)


def model_and_replay(rep: Report, only_edge=None, res=None):
    cfg = mc_cfg(rep)
    if only_edge is None:
        res = res or run_model(rep)
        rep.add_tlc(res)
        rep.extra["mc_padding"] = {"cfg": cfg, "states": res.distinct, "generated": res.generated,
                                   "wall_s": round(res.wall_s, 1)}
        if res.violated:
            rep.violation(
                f"design:Padding:{res.violated}",
                "the padding rules specified in Padding.tla violate " + res.violated + "\n"
                + res.error_text[:1500],
                {"kind": "design"},
            )
            return
        actions = ["ResolveOp", "EvalAligned", "EvalRelative", "EvalExact", "Chain", "NewExact",
                   "CheckFormattingDims", "CheckFormattingAlign"]
        vac = [a for a in actions if res.coverage.get(a, (0, 0))[0] == 0]
        if vac:
            raise tlc.MachineryError(f"MC_Padding: vacuous actions {vac} (coverage {res.coverage})")
        edges = res.tagged("EDGE")
        if len(edges) != res.distinct - res.coverage["Init"][0]:
            raise tlc.MachineryError(
                f"MC_Padding printed {len(edges)} EDGE lines for {res.distinct} states"
            )
    else:
        edges = [only_edge]

    classes = {k: 0 for k in ("relative-refused", "axis-not-larger", "odd-remainder", "clamped-to-1",
                              "negative-exact", "bad-alignment-name")}
    n = 0
    for i, (act, op, P, a, tab) in enumerate(edges):
        fill = FILLS[i % len(FILLS)]
        for entry in tab:
            n += 1
            bad = replay_entry(act, op, P, a, entry, fill)
            R = entry[5]
            if op in ("eval", "chain"):
                if R[0]:
                    classes["relative-refused"] += 1
                else:
                    q = _pad_of(entry[4])
                    if q["kind"] == "aligned":
                        classes["axis-not-larger"] += q["w"] <= entry[0] or q["h"] <= entry[1]
                        classes["odd-remainder"] += (R[1][0] + R[1][2]) % 2 or (R[1][1] + R[1][3]) % 2
                    rep.distinct.add(("eval", tuple(entry[4]), entry[0], entry[1]))
            elif op == "resolve":
                classes["clamped-to-1"] += (P[1] <= 0 and entry[2] + P[1] < 1) or (P[2] <= 0 and entry[3] + P[2] < 1)
            elif op == "newexact":
                classes["negative-exact"] += bool(R[0])
            elif op == "checkfmt":
                classes["bad-alignment-name"] += bool(R[0])
            for api, exp, got in bad:
                site = "old-api:_check_formatting" if api == "_check_formatting" else "new-api:" + api
                rep.violation(
                    f"{site}:differs-from-spec",
                    f"{api} on padding {_pad_of(P)} (action {act}, fill {fill!r}), render size "
                    f"{entry[0]}x{entry[1]}, terminal {entry[2]}x{entry[3]}: spec says {exp}, code says {got}",
                    {"kind": "edge", "edge": [act, op, P, a, [entry]], "fill": fill},
                )
    rep.evaluations += n
    rep.traces_validated += len(edges)
    rep.extra["replayed_evaluations"] = n
    rep.extra["replay_classes"] = classes
    if only_edge is None:
        empty = [k for k, v in classes.items() if not v]
        if empty:
            raise tlc.MachineryError(f"MC_Padding dump never reached the input classes {empty}")
        rep.sample({"edge": edges[len(edges) // 2][:4], "first_entry": edges[len(edges) // 2][4][0]})
        rep.extra["tampered_edges_rejected"] = edge_canaries(edges)


def edge_canaries(edges) -> int:
    """The binding must be able to fail: tampered expectations have to be rejected by the replay."""
    import copy

    n = 0
    ev = next(e for e in edges if e[1] == "eval" and e[2][0] == "aligned" and not e[4][0][5][0])
    rs = next(e for e in edges if e[1] == "resolve" and e[2][1] <= 0)
    nx = next(e for e in edges if e[1] == "newexact" and min(e[3]) < 0)
    cf = next(e for e in edges if e[1] == "checkfmt" and e[2][1] <= 0)
    tampered = []
    for path in ([5, 1, 0], [5, 2, 0], [5, 3, 3]):  # a margin, the padded width, an exact margin
        e = copy.deepcopy(ev)
        ent = e[4][-1]
        ent[path[0]][path[1]][path[2]] += 1
        tampered.append((e, ent, ev[4][-1]))
    e = copy.deepcopy(rs)
    e[4][0][4][1] += 1
    e[4][0][5][1] += 1
    tampered.append((e, e[4][0], rs[4][0]))
    e = copy.deepcopy(nx)
    e[4][0][5][0] = ""
    tampered.append((e, e[4][0], nx[4][0]))
    e = copy.deepcopy(cf)
    e[4][0][5][2] += 1
    tampered.append((e, e[4][0], cf[4][0]))
    for e, ent, orig in tampered:
        if replay_entry(e[0], e[1], e[2], e[3], orig):
            continue  # the code under test already disagrees here (reported as a violation)
        if not replay_entry(e[0], e[1], e[2], e[3], ent):
            raise tlc.MachineryError(f"tampered edge accepted by the replay: {e[:4]} {ent}")
        n += 1
    return n


# --------------------------------------------------------------------------------------
# code -> spec: real padded outputs
# --------------------------------------------------------------------------------------


def text_render(rw: int, rh: int, variant: int, frame: int = 0) -> str:
    """A text render output of rw x rh cells in the form block renders have: every cell
    gets its own letter, every line its own colours, every line ends with SGR reset."""
    lines = []
    for r in range(rh):
        letters = "".join(chr(65 + (frame * 7 + r * rw + c) % 26) for c in range(rw))
        if variant == 0:
            lines.append(f"\x1b[38;2;{(40 * r + 10) % 256};{(frame * 50) % 256};200m{letters}\x1b[0m")
        elif variant == 1:
            half = rw // 2
            lines.append(
                f"\x1b[48;2;5;{(r * 60 + 7) % 256};9m{' ' * half}"
                f"\x1b[38;2;250;1;{(r + frame) % 256}m{letters[half:]}\x1b[0m"
            )
        else:
            lines.append(letters.lower())
    return "\n".join(lines)


class _Recorder:
    last_inner = None


def grid_class():
    """The small test renderable (defined lazily: term_image must be imported after stubs)."""
    from term_image.geometry import Size
    from term_image.renderable import Frame, FrameDuration, Renderable

    if getattr(grid_class, "cls", None):
        return grid_class.cls

    class Grid(Renderable):
        def __init__(self, size, frames, gen):
            super().__init__(frames, 1)
            self._size = Size(*size)
            self._gen = gen
            self.rendered = []  # (frame number, size, output) of every _render_ call

        def _get_render_size_(self):
            return self._size

        def _render_(self, render_data, render_args):
            data = render_data[Renderable]
            out = self._gen(data.frame_offset, tuple(data.size))
            self.rendered.append((data.frame_offset, tuple(data.size), out))
            dur = 1
            if self.animated and data.duration is not FrameDuration.DYNAMIC:
                dur = data.duration
            return Frame(data.frame_offset, dur, data.size, out)

    grid_class.cls = Grid
    return Grid


def inner_of(case):
    """(generator(frame, size) -> output, (rw, rh), image or None) for the case's inner render."""
    inner = case["inner"]
    if inner["kind"] == "text":
        rw, rh, variant = inner["rw"], inner["rh"], inner["variant"]
        return (lambda frame, size: text_render(size[0], size[1], variant, frame)), (rw, rh), None
    rk = dict(inner["rk"], via="renderer")
    out, (rw, rh), image = renderkit.render(rk)
    return (lambda frame, size: out), (rw, rh), image


def lex_norm(text: str, what: str, case, composed: bool = False) -> dict:
    """Lex; `composed`: the text is the library's composition of texts that lexed cleanly on their
    own (inner render, fill) - a sequence the lexer does not know can then only have been made by
    the composition (e.g. a cut-open escape sequence swallowing the next character): it is passed
    on as a `garbled` token for Trace_Pad to judge, not treated as a machinery problem."""
    import unicodedata

    stream = lexer.lex(text)
    toks = []
    for t in stream.toks:
        if t["k"] == "unknown" and t["g"].startswith("wide/combining U+"):
            cp = int(t["g"].split("U+")[1], 16)
            if unicodedata.combining(chr(cp)):
                # the shared lexer has no token for combining characters; Trace_Pad interprets
                # this one itself (ApplyX): it joins the cell printed last
                t = lexer.tok("comb", m=cp)
        if t["k"] == "unknown" and composed:
            t = lexer.tok("garbled", g=t["g"][:32])
        toks.append(t)
    unk = [t["g"] for t in toks if t["k"] == "unknown"]
    if unk:
        raise tlc.MachineryError(f"lexer does not know {unk[:3]} in {what} of {case}")
    gfx = []
    for g in stream.gfx:
        gg = dict(lexer.GFX_NONE)
        gfx.append({k: (g[k] if k in g else gg[k]) for k in _KEEP_GFX})
    return {"toks": toks, "gfx": gfx}


def trace_of(case, inner_out, rsize, padded_out, advertised, frame=None) -> dict:
    api, _site = SITES[case["via"]]
    fill = case.get("fill", " ")
    a = lex_norm(inner_out, "inner render", case)
    b = lex_norm(padded_out, "padded output", case, composed=True)
    f = lex_norm(fill, "fill string", case)
    # same reasoning for well-formed but foreign sequences (e.g. ESC + a letter of the render): a
    # token kind that occurs neither in the inner render, nor in the fill, nor in what padding may
    # add itself can only come from a cut-open sequence
    own = {t["k"] for t in a["toks"]} | {t["k"] for t in f["toks"]} | {
        "print", "lf", "sgr", "cuf", "comb", "abort", "partial", "garbled"}
    b["toks"] = [t if t["k"] in own else lexer.tok("garbled", g=t["k"]) for t in b["toks"]]
    return {
        "api": api.split("-")[0],
        "pad": uniform_pad(case["pad"]),
        "fill": "cell" if fill else "none",
        "ftoks": f["toks"],
        "tw": case["term"][0], "th": case["term"][1],
        "rw": rsize[0], "rh": rsize[1],
        "apw": advertised[0] if advertised else -1,
        "aph": advertised[1] if advertised else -1,
        "screen": case.get("screen", "tight"),
        "itoks": a["toks"], "igfx": a["gfx"],
        "toks": b["toks"], "gfx": b["gfx"],
    }


def old_spec(case) -> str:
    p = case["pad"]
    ha = "" if p["ha"] == "none" else p["ha"]
    va = "" if p["va"] == "none" else p["va"]
    w = "" if p.get("w_absent") else str(p["w"])
    h = "" if p.get("h_absent") else str(p["h"])
    rest = renderkit.format_spec_for(case["inner"]["rk"])[3:]
    vertical = f".{va}{h}" if va or h else ""  # a bare dot is not a valid specifier
    return f"{ha}{w}{vertical}{rest}"


def run_case(case) -> list[tuple[dict, dict]]:
    """Run the real code for one case; returns [(trace, case-with-frame-index)]."""
    from term_image.geometry import Size

    via = case["via"]
    tw, th = case["term"]
    gen, (rw, rh), image = inner_of(case)
    # (make_image_obj scripted its own terminal size; the case's comes after)
    rk = case["inner"].get("rk", {})
    stubs.set_term(size=(tw, th), cell=rk.get("cell"), fg_bg=rk.get("fg_bg", (None, None)))
    fill = case.get("fill", " ")
    out = []

    if via == "pad":
        padding = make_padding(case["pad"], fill)
        if getattr(padding, "relative", False):  # the documented use: resolve upon reception
            padding = padding.resolve(os.terminal_size((tw, th)))
        inner = gen(0, (rw, rh))
        padded = padding.pad(inner, Size(rw, rh))
        adv = tuple(padding.get_padded_size(Size(rw, rh)))
        out.append((trace_of(case, inner, (rw, rh), padded, adv), case))
        return out

    if via in ("render", "rdraw"):
        Grid = grid_class()
        g = Grid((rw, rh), 1, gen)
        padding = make_padding(case["pad"], fill)
        if via == "render":
            frame = g.render(None, padding)
            padded, adv = frame.render_output, tuple(frame.render_size)
        else:
            buf = io.StringIO()
            with contextlib.redirect_stdout(buf):
                g.draw(None, padding, check_size=case.get("check_size", False))
            padded, adv = buf.getvalue(), None
            if padded.endswith("\n"):
                padded = padded[:-1]  # draw()'s own final newline (judged by C06)
        if len(g.rendered) != 1:
            raise tlc.MachineryError(f"test renderable rendered {len(g.rendered)} times for {case}")
        out.append((trace_of(case, g.rendered[0][2], (rw, rh), padded, adv), case))
        return out

    if via == "iter":
        from term_image.render import RenderIterator

        Grid = grid_class()
        g = Grid((rw, rh), case["frames"], gen)
        it = RenderIterator(g, None, make_padding(case["pad"], fill), 1, case.get("cache", False))
        cur = dict(case)
        try:
            for i in range(case["frames"]):
                for op in case.get("ops", {}).get(str(i), []):
                    if op[0] == "set_padding":
                        it.set_padding(make_padding(op[1], op[2]))
                        cur = dict(cur, pad=op[1], fill=op[2])
                    elif op[0] == "set_render_size":
                        it.set_render_size(Size(*op[1]))
                n_before = len(g.rendered)
                frame = next(it)
                if len(g.rendered) != n_before + 1:
                    raise tlc.MachineryError(f"frame {i} was not rendered once in {case}")
                fno, size, inner = g.rendered[-1]
                out.append((trace_of(cur, inner, size, frame.render_output, tuple(frame.render_size)),
                            dict(case, frame_index=i)))
        finally:
            it.close()
        return out

    # ---- old API (BaseImage) ----
    p = case["pad"]
    ha = None if p["ha"] == "none" else p["ha"]
    va = None if p["va"] == "none" else p["va"]
    rkc = case["inner"]["rk"]
    args = dict(rkc.get("args", {}))
    if rkc.get("method"):
        args["method"] = rkc["method"]
    inner = gen(0, (rw, rh))
    if via == "format":
        padded = format(image, old_spec(case))
    elif via == "fmtrender":
        fmt = image._check_formatting(ha, p["w"], va, p["h"]) if case.get("checked", True) else (ha, p["w"], va, p["h"])
        padded = image._format_render(inner, *fmt)
    elif via == "draw":
        buf = io.StringIO()
        with contextlib.redirect_stdout(buf):
            image.draw(ha, p["w"], va, p["h"], rkc["alpha"], scroll=True, check_size=False, **args)
        padded = buf.getvalue()
        for epilogue in ("\x1b[m\n", "\x1b[0m\n"):  # draw()'s own epilogue (judged by C06)
            if padded.endswith(epilogue):
                padded = padded[: -len(epilogue)]
                break
    else:
        raise tlc.MachineryError(f"unknown via {via}")
    out.append((trace_of(case, inner, (rw, rh), padded, None), case))
    return out


# ---- case generation -------------------------------------------------------------------


def aligned(w, h, ha, va):
    return dict(kind="aligned", w=w, h=h, ha=ha, va=va)


def exact(l, t, r, b):
    return dict(kind="exact", l=l, t=t, r=r, b=b)


def image_inners(rng: random.Random, quick: bool):
    combos = [
        ("block", "other", None, {}), ("block", "kitty", None, {}),
        ("kitty", "kitty", "lines", {}), ("kitty", "kitty", "whole", {}),
        ("kitty", "kitty", "lines", {"mix": True}), ("kitty", "kitty-old", "whole", {"compress": 0}),
        ("kitty", "konsole", None, {}),
        ("iterm2", "iterm2", "lines", {}), ("iterm2", "iterm2", "whole", {}),
        ("iterm2", "konsole", "lines", {}), ("iterm2", "konsole", "whole", {}),
        ("iterm2", "wezterm", "lines", {}), ("iterm2", "wezterm", "whole", {"mix": True}),
    ]
    sizes = [(1, 1), (2, 1), (3, 2), (2, 3), (4, 3)] if quick else \
        [(w, h) for w in range(1, 6) for h in range(1, 4)]
    for style, ident, method, args in combos:
        for rw, rh in sizes:
            yield dict(
                style=style, ident=ident, method=method, args=dict(args),
                alpha=rng.choice([None, 40 / 255, "#", "#102030"]), mode=rng.choice(["RGB", "RGBA", "P", "L"]),
                src=rng.choice([[3, 5], [16, 9], [rw, rh * 2]]), srckind="pil",
                size=["manual", rw, rh], cell=rng.choice([[9, 18], [2, 4]]), via="renderer",
                seed=rng.randrange(1 << 30), fg_bg=(None, None),
            )


def rand_aligned(rng, rw, rh, ha=None, va=None):
    dw, dh = rng.choice([-1, 0, 1, 2, 3]), rng.choice([-1, 0, 1, 2, 3])
    return aligned(max(rw + dw, 1), max(rh + dh, 1), ha or rng.choice(HALIGNS), va or rng.choice(VALIGNS))


def rand_exact(rng):
    return exact(*(rng.choice([0, 0, 1, 2, 3]) for _ in range(4)))


def gen_cases(rng: random.Random, tier: str):
    quick = tier == "quick"
    term = (80, 30)

    # A. Padding.pad on text renders: sizes x fills x (exact margins, all alignments)
    sizes = [(w, h) for w in range(1, 5) for h in range(1, 4)]
    all_exact = [exact(*x) for x in itertools.product(range(3), repeat=4)]
    singles = [exact(2, 0, 0, 0), exact(0, 2, 0, 0), exact(0, 0, 2, 0), exact(0, 0, 0, 2),
               exact(1, 0, 1, 0), exact(0, 1, 0, 1), exact(0, 0, 0, 0), exact(1, 2, 3, 1)]
    deltas = [(dw, dh) for dw in (-1, 0, 1, 2, 3) for dh in (-1, 0, 1, 2, 3)]
    k = 0
    for (rw, rh), fill in itertools.product(sizes, FILLS):
        inner = dict(kind="text", rw=rw, rh=rh, variant=(k + k // len(FILLS)) % 3)
        k += 1
        pads = rng.sample(all_exact, 4 if quick else 40) + [singles[k % len(singles)]]
        for ha, va in itertools.product(HALIGNS, VALIGNS):
            for dw, dh in rng.sample(deltas, 1 if quick else 12):
                pads.append(aligned(max(rw + dw, 1), max(rh + dh, 1), ha, va))
        for p in pads:
            yield dict(via="pad", inner=inner, pad=p, fill=fill, term=term)

    # B. Padding.pad on real block / kitty / iterm2 renders (cursor-movement fills)
    inners = list(image_inners(rng, quick))
    for rk in inners:
        rw, rh = rk["size"][1:]
        inner = dict(kind="image", rk=rk)
        n = 2 if quick else 8
        pads = [rand_aligned(rng, rw, rh) for _ in range(n)] + [rand_exact(rng) for _ in range(n)]
        # the odd-remainder centre case and a one-sided one for every inner render
        pads += [aligned(rw + 3, rh + 1, "center", "middle"), aligned(rw + 2, rh + 2, "right", "bottom")]
        for p in pads:
            for fill in (FILLS if not quick else rng.sample(FILLS, 2)):
                yield dict(via="pad", inner=inner, pad=p, fill=fill, term=term)

    # C. Renderable.render / draw with absolute and relative paddings, several terminal sizes
    rel_dims = [0, -1, -2, -3]
    n_c = 14 if quick else 80
    for tw, th in TERMS:
        for i in range(n_c):
            rw, rh = rng.randrange(1, min(tw, 5) + 1), rng.randrange(1, min(th, 4) + 1)
            inner = dict(kind="text", rw=rw, rh=rh, variant=rng.randrange(3))
            w = rng.choice(rel_dims + [rng.randrange(1, tw + 1)])
            h = rng.choice(rel_dims + [rng.randrange(1, th + 1)])
            if i % 5 == 4:
                w, h = rng.choice(rel_dims), rng.choice(rel_dims)
            yield dict(via="render" if i % 3 else "rdraw", inner=inner,
                       pad=aligned(w, h, rng.choice(HALIGNS), rng.choice(VALIGNS)),
                       fill=rng.choice(FILLS), term=(tw, th), screen="term")
        for i in range(n_c // 2):
            rw, rh = rng.randrange(1, 5), rng.randrange(1, 4)
            inner = dict(kind="text", rw=rw, rh=rh, variant=rng.randrange(3))
            p = rand_exact(rng) if i % 2 else rand_aligned(rng, rw, rh)
            yield dict(via="render" if i % 3 else "rdraw", inner=inner, pad=p,
                       fill=rng.choice(FILLS), term=(tw, th))
    # default padding of draw(): AlignedPadding(0, -2)
    yield dict(via="rdraw", inner=dict(kind="text", rw=2, rh=2, variant=0), pad=aligned(0, -2, "center", "middle"),
               fill=" ", term=(9, 6), screen="term", check_size=True)
    # graphics inner renders through the renderable as well
    for rk in inners[:: (4 if quick else 1)]:
        rw, rh = rk["size"][1:]
        yield dict(via="render", inner=dict(kind="image", rk=rk), pad=rand_aligned(rng, rw, rh),
                   fill=rng.choice(FILLS), term=term)

    # D. RenderIterator frames (padding at construction, set_padding / set_render_size later)
    n_d = 30 if quick else 300
    for i in range(n_d):
        rw, rh = rng.randrange(1, 5), rng.randrange(1, 4)
        frames = rng.choice([2, 3])
        tw, th = rng.choice(TERMS[1:])
        if i % 3 == 0:
            p = aligned(rng.choice(rel_dims), rng.choice(rel_dims), rng.choice(HALIGNS), rng.choice(VALIGNS))
            screen = "term"
            rw, rh = min(rw, tw), min(rh, th)
        else:
            p = rand_exact(rng) if i % 3 == 1 else rand_aligned(rng, rw, rh)
            screen = "tight"
        ops = {}
        if i % 2:
            if i % 8 == 7:  # relative padding given later (F7, repaired in the tree: resolved upon reception)
                newpad = aligned(rng.choice(rel_dims), rng.choice(rel_dims), rng.choice(HALIGNS), rng.choice(VALIGNS))
                rw, rh = min(rw, tw), min(rh, th)
            else:
                newpad = rand_aligned(rng, rw, rh) if i % 4 == 1 else rand_exact(rng)
            ops["1"] = [["set_padding", newpad, rng.choice(FILLS)]]
            screen = "tight"
        if i % 5 == 0 and frames == 3 and screen == "tight":
            ops["2"] = [["set_render_size", [rng.randrange(1, 5), rng.randrange(1, 4)]]]
        yield dict(via="iter", inner=dict(kind="text", rw=rw, rh=rh, variant=rng.randrange(3)), pad=p,
                   fill=rng.choice(FILLS), term=(tw, th), screen=screen, frames=frames, ops=ops,
                   cache=bool(i % 7 == 0))

    # E. old API: format(image, spec), _format_render, draw
    for rk in inners:
        if "blend" in rk["args"] or "z_index" in rk["args"]:
            continue
        rw, rh = rk["size"][1:]
        inner = dict(kind="image", rk=rk)
        n = 3 if quick else 12
        for i in range(n):
            tw, th = rng.choice([(9, 6), (12, 8), (80, 30)])
            w = rng.choice([max(rw - 1, 1), rw, rw + 1, rw + 2, rw + 3])
            h = rng.choice([max(rh - 1, 1), rh, rh + 1, rh + 2, rh + 3])
            p = dict(kind="old", ha=rng.choice(OLD_H), va=rng.choice(OLD_V), w=w, h=h)
            via = ["format", "fmtrender", "format", "draw"][i % 4]
            screen = "tight"
            if i % 3 == 2:  # relative: absent width/height (= 0 / -2) or explicit non-positive
                if via == "format":
                    p.update(w=0, h=-2, w_absent=True, h_absent=True)
                else:
                    p.update(w=rng.choice([0, -1, -3]), h=rng.choice([0, -2, -3]))
                screen = "term"
                if rw > tw or rh > th:
                    continue
            if via == "draw" and p["w"] > tw:
                p["w"] = tw
            yield dict(via=via, inner=inner, pad=p, fill=" ", term=(tw, th), screen=screen)
        # the names spelled out, and the unchecked direct call
        yield dict(via="draw", inner=inner, pad=dict(kind="old", ha="right", va="bottom", w=rw + 2, h=rh + 1),
                   fill=" ", term=(80, 30))
        yield dict(via="fmtrender", inner=inner, checked=False,
                   pad=dict(kind="old", ha="<", va="^", w=rw + 1, h=rh + 2), fill=" ", term=(80, 30))


# ---- validation ------------------------------------------------------------------------


def validate(traces: list[dict], name="c05", batch=300, parallel=8, workers=2, timeout=900):
    """Like tlc.validate_traces, but Trace_Pad prints one verdict per (trace, start position):
    returns per trace the list of its verdicts; a trace with fewer verdicts than the number of
    positions the spec announced (or none) is a machinery failure."""
    rundir = tlc.OUT / "traces" / f"{name}-{uuid.uuid4().hex[:8]}"
    rundir.mkdir(parents=True, exist_ok=True)
    jobs, chunks = [], []
    for i in range(0, len(traces), batch):
        chunk = traces[i: i + batch]
        f = tlc.write_json(rundir / f"b{i}.json", chunk)
        chunks.append((i, len(chunk)))
        jobs.append(dict(spec="Trace_Pad", cfg="Trace_Pad.cfg", workers=workers, timeout=timeout,
                         env={"TRACE_FILE": str(f)}, deadlock=False,
                         # TLC enumerates the (trace, position) initial states recursively: the default
                         # thread stack overflows beyond ~800 initial states (measured)
                         jvm=["-Xmx3g", "-Xss32m"]))
    try:
        results = tlc.run_many(jobs, parallel=parallel)
    finally:
        shutil.rmtree(rundir, ignore_errors=True)
    verdicts: list[list[dict]] = [[] for _ in traces]
    states = trans = 0
    for (base, n), res in zip(chunks, results):
        if res.violated:
            raise tlc.MachineryError(f"Trace_Pad itself failed ({res.violated}):\n{res.error_text[:3000]}")
        states += res.distinct
        trans += res.generated
        for v in res.tagged("VERDICT"):
            if not 1 <= v["tid"] <= n:
                raise tlc.MachineryError(f"verdict with tid {v['tid']} outside batch of {n}")
            verdicts[base + v["tid"] - 1].append(v)
    for i, vs in enumerate(verdicts):
        if not vs or len(vs) != vs[0]["npos"]:
            raise tlc.MachineryError(
                f"trace #{i}: {len(vs)} verdicts, {vs[0]['npos'] if vs else '?'} start positions expected"
            )
    return verdicts, states, trans


def trace_canaries():
    """One real trace and corruptions of it; Trace_Pad must accept the first and reject the rest."""
    import copy

    # hand-made (NOT produced by the library: the self-check must not depend on the code under test)
    case = dict(via="pad", inner=dict(kind="text", rw=3, rh=2, variant=0), pad=exact(1, 2, 3, 1),
                fill="#", term=(80, 30))
    inner = text_render(3, 2, 0)
    l1, l2 = inner.split("\n")
    padded = "\n".join(["#" * 7, "#" * 7, "#" + l1 + "###", "#" + l2 + "###", "#" * 7])
    orig = trace_of(case, inner, (3, 2), padded, (7, 5))
    out = [("original", orig)]

    def variant(name, fn):
        t = copy.deepcopy(orig)
        fn(t)
        out.append((name, t))

    variant("header: left/right margins swapped", lambda t: t["pad"].update(l=3, r=1))
    variant("header: top/bottom margins swapped", lambda t: t["pad"].update(t=1, b=2))
    variant("header: other fill glyph", lambda t: t["ftoks"][0].update(m=36))
    variant("header: reported padded size off by one", lambda t: t.update(apw=t["apw"] + 1))
    variant("stream: last token dropped", lambda t: t["toks"].pop())
    variant("stream: one fill run one column short",
            lambda t: next(k for k in t["toks"] if k["k"] == "print" and k["m"] == 35 and k["n"] > 1).update(
                n=next(k for k in t["toks"] if k["k"] == "print" and k["m"] == 35 and k["n"] > 1)["n"] - 1))
    variant("stream: a colour of the inner render changed",
            lambda t: next(k for k in t["toks"] if k["k"] == "sgr" and len(k["p"]) == 5)["p"].__setitem__(4, 201))
    variant("stream: newline removed",
            lambda t: t["toks"].remove(next(k for k in t["toks"] if k["k"] == "lf")))
    # a styled fill: accepted when whole fill cells are emitted, rejected when the side padding is a
    # code-point slice of the padding line (cut-open sequence / too few cells / leaked attributes)
    sfill = "\x1b[100m \x1b[0m"
    scase = dict(case, fill=sfill)
    good = "\n".join([sfill * 7, sfill * 7, sfill + l1 + sfill * 3, sfill + l2 + sfill * 3, sfill * 7])
    out.append(("original", trace_of(scase, inner, (3, 2), good, (7, 5))))
    line = sfill * 7
    cut = "\n".join([line, line, line[:1] + l1 + line[:3], line[:1] + l2 + line[:3], line])
    out.append(("stream: side padding sliced by code points", trace_of(scase, inner, (3, 2), cut, (7, 5))))
    leak = "\n".join([line, line, sfill + l1 + sfill * 2 + "\x1b[100m ", sfill + l2 + sfill * 3, line])
    out.append(("stream: last fill cell of a line not reset", trace_of(scase, inner, (3, 2), leak, (7, 5))))
    cfill = "e\u0301"
    ccase = dict(case, fill=cfill)
    cgood = "\n".join([cfill * 7, cfill * 7, cfill + l1 + cfill * 3, cfill + l2 + cfill * 3, cfill * 7])
    out.append(("original", trace_of(ccase, inner, (3, 2), cgood, (7, 5))))
    cline = cfill * 7
    ccut = "\n".join([cline, cline, cline[:1] + l1 + cline[:3], cline[:1] + l2 + cline[:3], cline])
    out.append(("stream: combining fill sliced by code points", trace_of(ccase, inner, (3, 2), ccut, (7, 5))))
    return out


def traces_part(rep: Report, cases, canary=False):
    uniq: dict[str, dict] = {}
    for case in cases:
        rep.evaluations += 1
        api, site = SITES[case["via"]]
        try:
            produced = run_case(case)
        except tlc.MachineryError:
            raise
        except Exception as e:
            rep.violation(
                f"{api}:{site}:raises:{type(e).__name__}",
                f"{case['via']} raised {type(e).__name__}: {e}; case={json.dumps(case)}",
                {"kind": "trace", "case": case},
            )
            continue
        for trace, c in produced:
            key = json.dumps(trace, sort_keys=True)
            if key not in uniq:
                uniq[key] = {"trace": trace, "case": c, "n": 0}
            uniq[key]["n"] += 1
    items = list(uniq.values())
    canaries = trace_canaries() if canary else []
    verdicts, st, tr = validate([u["trace"] for u in items] + [t for _, t in canaries],
                                batch=300 if len(items) < 5000 else 500)
    rep.states += st
    rep.transitions += tr
    for (what, _), vs in zip(canaries, verdicts[len(items):]):
        accepted = [v for v in vs if v["verdict"] == "ok"]
        if (what == "original") != (len(accepted) == len(vs)):
            raise tlc.MachineryError(
                f"self-check of Trace_Pad failed: trace canary {what!r} got {[v['verdict'] for v in vs]}"
            )
    if canaries:
        rep.extra["corrupted_traces_rejected"] = sum(w != "original" for w, _ in canaries)
    for u, vs in zip(items, verdicts):
        case, t = u["case"], u["trace"]
        rep.traces_validated += len(vs)
        api, site = SITES[case["via"]]
        dims = vs[0]["dims"]
        nontrivial = any(dims)
        for v in vs:
            if nontrivial:
                p = v["pos"]
                rep.distinct.add((id(u), p["cols"], p["rows"], p["r0"], p["c0"]))
            if v["verdict"] == "ok":
                continue
            if v["verdict"].startswith(("unsupported", "fill-precondition")):
                raise tlc.MachineryError(f"Terminal.tla / Trace_Pad: {v['verdict']} for {case}")
            clause = v["verdict"].split(":")[0]
            p = v["pos"]
            rep.violation(
                f"{api}:{site}:{clause}",
                f"clause {v['verdict']!r} failed at token {v['at']} of {len(t['toks'])} (via {case['via']}; "
                f"screen {p['cols']}x{p['rows']}, start row {p['r0']} col {p['c0']}; render {t['rw']}x{t['rh']}, "
                f"specified margins l,t,r,b={dims}, padded box {v['box']}); case={json.dumps(case)}",
                {"kind": "trace", "case": case},
            )
            break  # one report per trace
    by_via: dict[str, int] = {}
    for u in items:
        by_via[u["case"]["via"]] = by_via.get(u["case"]["via"], 0) + 1
    rep.extra["traces_by_api"] = by_via
    rep.extra["distinct_traces"] = len(items)
    for u in items[:: max(len(items) // 3, 1)][:3]:
        rep.sample({"case": u["case"], "render": [u["trace"]["rw"], u["trace"]["rh"]],
                    "tokens": [t["k"] for t in u["trace"]["toks"]][:24]})
    return items


def main(rep: Report, replay: dict | None) -> None:
    rep.assumptions += ASSUMPTIONS
    rep.rule = (
        "spec->code: every (padding object, render size, terminal size) evaluation enumerated by "
        "MC_Padding is replayed into the real methods (evaluations); code->spec: cases = grids/seeded "
        "draws over API x inner render style x size x padding x alignment x fill x terminal; "
        "distinct_nontrivial = distinct specified evaluations with a result + distinct "
        "(token-stream pair, start position) validated by TLC whose padding has a non-zero margin"
    )
    setup_env()
    if replay:
        sc = replay["scenario"]
        if sc.get("kind") == "edge":
            act, op, P, a, tab = sc["edge"]
            for entry in tab:
                for api, exp, got in replay_entry(act, op, P, a, entry, sc.get("fill", " ")):
                    site = "old-api:_check_formatting" if api == "_check_formatting" else "new-api:" + api
                    rep.violation(f"{site}:differs-from-spec", f"spec says {exp}, code says {got}", sc)
            rep.evaluations += len(tab)
        elif sc.get("kind") == "trace":
            traces_part(rep, [sc["case"]])
        else:
            model_and_replay(rep)
        return
    # the model run (one JVM) overlaps with recording and validating the traces (other JVMs)
    from concurrent.futures import ThreadPoolExecutor

    with ThreadPoolExecutor(max_workers=1) as ex:
        fut = ex.submit(run_model, rep)
        rng = random.Random(rep.seed * 10007 + 5)
        traces_part(rep, gen_cases(rng, rep.tier), canary=True)
        res = fut.result()
    model_and_replay(rep, res=res)
    rep.exhaustive = True
    rep.extra["exhaustive_space"] = (
        "padding API evaluations: AlignedPadding minimum -3..8 per axis x 3x3 alignments, ExactPadding "
        "margins 0..2 (constructor -2..2), render sizes 1..6 x 1..4, terminals 4..9 x 3..6 "
        "(resolve-then-evaluate over " + ("the 2 corner terminals" if rep.tier == "quick" else "all 24 terminals")
        + "); the trace part is a sample"
    )
