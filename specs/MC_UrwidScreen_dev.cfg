SPECIFICATION Spec
CONSTANTS
  Ident = "kitty"
  Style3 = "block"
  Bits = 2
  Fams = {"P", "T"}
  WithBad = TRUE
VIEW View
INVARIANT PlacementsExact
INVARIANT OutputBracketed
INVARIANT DeletionsFirst
INVARIANT ClearedOnStartStopClear
INVARIANT NoGraphicsIfUnsupported
INVARIANT TerminalSane
INVARIANT DistinctZ
INVARIANT AllocatorSound
INVARIANT NoOrphanZ
CHECK_DEADLOCK FALSE
