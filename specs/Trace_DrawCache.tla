--------------------------- MODULE Trace_DrawCache ---------------------------
(***************************************************************************)
(* code -> spec for C09, draw(): what the REAL Renderable.draw() of an       *)
(* animated probe renderable did - recorded by a fake (non-tty) output that  *)
(* simulates Ctrl-C upon its k-th frame write - judged against DrawCacheCore. *)
(* A trace is [loops, cache, events, end]; an event is one frame write       *)
(* [num  |-> frame shown (decoded from the text written),                    *)
(*  nr   |-> number of _render_ calls since the previous frame write,        *)
(*  same |-> the text equals the one the UNCACHED twin (same renderable,     *)
(*           same loops, cache=False) wrote at this position];               *)
(* end = [how |-> "interrupt" | "returned" | <exception class>,              *)
(*        extra |-> _render_ calls after the last frame write].              *)
(* Steps are total; the verdict names the first failing clause.              *)
(***************************************************************************)
EXTENDS DrawCacheCore, IOUtils

Traces == JsonDeserialize(IOEnv.TRACE_FILE)

VARIABLES tid, l, verdict, at
tvars == <<s, out, tid, l, verdict, at>>

Tr == Traces[tid]
Ev == Tr.events
NE == Len(Ev)

Ctx == " (loops=" \o ToString(Tr.loops) \o ", cache=" \o
       (IF Tr.cache.kind = "bool" THEN ToString(Tr.cache.b) ELSE ToString(Tr.cache.n)) \o
       ", frame_count=" \o ToString(N) \o ")"

JudgeWrite(t, e) ==
  LET r == DoNext(t)[2] IN
  IF r.res # "frame"
    THEN "draw:frame-count: a frame was written after all " \o ToString(Tr.loops) \o " loops" \o Ctx
  ELSE IF e.num # r.num
    THEN "draw:frame-number: spec " \o ToString(r.num) \o ", code " \o ToString(e.num) \o Ctx
  ELSE IF ~e.same
    THEN "draw:uncached-twin: the frame written differs from the one written without caching" \o Ctx
  ELSE IF e.nr > 1
    THEN "draw:rendered-more-than-once: " \o ToString(e.nr) \o " renders for one frame write" \o Ctx
  ELSE IF ~r.rendered /\ e.nr # 0
    THEN "draw:NoRerender: frame " \o ToString(r.num) \o " is cached and no setting changed, but it was rendered again" \o Ctx
  ELSE IF r.rendered /\ e.nr = 0
    THEN "draw:not-rendered: frame " \o ToString(r.num) \o " was written without being rendered although " \o
         (IF t.cached THEN "it is not in the cache" ELSE "caching is not enabled") \o Ctx
  ELSE ""

JudgeEnd(t) ==
  LET r == DoNext(t)[2] e == Tr.end IN
  IF e.how \notin {"interrupt", "returned"}
    THEN "draw:raises: " \o e.how \o Ctx
  ELSE IF e.how = "returned" /\ r.res # "stop"
    THEN "draw:frame-count: returned after " \o ToString(NE) \o " frame writes, before the end of the animation" \o Ctx
  ELSE IF e.extra # 0
    THEN "draw:render-after-last-write: " \o ToString(e.extra) \o " more renders" \o Ctx
  ELSE ""

TInit ==
  /\ tid \in 1..Len(Traces)
  /\ l = 0
  /\ s = DrawIter(Tr.loops, DrawCacheDecision(Tr.loops, Tr.cache))
  /\ out = [op |-> [name |-> "init"], r |-> [res |-> "ok"]]
  /\ verdict = "ok"
  /\ at = 0

TStep ==
  /\ l < NE
  /\ l' = l + 1
  /\ LET pair == DoNext(s)
         j == IF verdict # "ok" THEN "" ELSE JudgeWrite(s, Ev[l + 1])
     IN /\ s' = pair[1]
        /\ out' = [op |-> [name |-> "next"], r |-> pair[2]]
        /\ verdict' = IF verdict # "ok" THEN verdict ELSE IF j = "" THEN "ok" ELSE j
        /\ at' = IF verdict = "ok" /\ j # "" THEN l + 1 ELSE at
  /\ UNCHANGED tid

TDone ==
  /\ l = NE
  /\ l' = NE + 1
  /\ LET j == IF verdict # "ok" THEN "" ELSE JudgeEnd(s) IN
       /\ verdict' = IF verdict # "ok" THEN verdict ELSE IF j = "" THEN "ok" ELSE j
       /\ at' = IF verdict = "ok" /\ j # "" THEN NE + 1 ELSE at
  /\ UNCHANGED <<s, out, tid>>

TNext == TStep \/ TDone
TSpec == TInit /\ [][TNext]_tvars

Report == (l = NE + 1) =>
  PrintT(<<"VERDICT", ToJson([tid |-> tid, verdict |-> verdict, at |-> at])>>)
=============================================================================
