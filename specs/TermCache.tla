----------------------------- MODULE TermCache -----------------------------
(***************************************************************************)
(* C15: cached terminal facts never outlive the condition they were         *)
(* computed under.                                                         *)
(*                                                                         *)
(* Model of the caches of term_image (utils._cell_size_cache keyed by the   *)
(* terminal size in cells, the `cached` memo tables of get_fg_bg_colors /   *)
(* get_terminal_name_version, the FIXED / DYNAMIC / float cell ratio,       *)
(* AutoCellRatio.is_supported) under every history of terminal resizes      *)
(* (cells and / or pixels), swap toggles, query enabling / disabling and    *)
(* ratio mode changes.  The invariants do not mention the caches: they      *)
(* compare every returned value with what TermCacheCore allows for the      *)
(* current terminal and settings.                                           *)
(***************************************************************************)
EXTENDS TermCacheCore, TLC

CONSTANTS
  Sizes,     \* set of <<cols, rows>>
  Pixels,    \* set of <<xpx, ypx>>
  Ratios,    \* set of <<num, den>> (explicit float ratios)
  XtModes,   \* subset of {"cell", "text", "none"}
  IoPx,      \* subset of BOOLEAN: does TIOCGWINSZ carry pixel sizes
  Ops,       \* subset of {"cell", "memo"}: which groups of operations are explored
  Variant    \* "code" or a seeded regression of the model

Nil == <<>>
MemoKeys == {"colors", "colorshex", "name"}

VARIABLES
  env,      \* environment record (TermCacheCore)
  swap, queries,
  cr,       \* term_image._cell_ratio: <<n, d>> or Nil (DYNAMIC)
  isSup,    \* AutoCellRatio.is_supported: "unknown" | "yes" | "no"
  cache,    \* utils._cell_size_cache: <<cols, rows, cw, ch>>
  memo,     \* memo[k] \in {"miss", "real", "none"}: memo tables of the `cached` query functions
  bodies,   \* bodies[k]: body executions of memoized function k since its last invalidation
  basis,    \* history variable of the specification (TermCacheCore!BasisAfterGet)
  out       \* last operation, arguments, result, number of query round trips it made

vars == <<env, swap, queries, cr, isSup, cache, memo, bodies, basis, out>>
View == <<env, swap, queries, cr, isSup, cache, memo, bodies, basis>>

NoQ == [winops |-> 0, colors |-> 0, name |-> 0]
Out(op, arg, res, q) == [op |-> op, arg |-> arg, res |-> res, q |-> q, err |-> FALSE]

-----------------------------------------------------------------------------
(* the library's get_cell_size(): returns [cell, cache', asked] *)
CacheHit ==
  IF Variant = "colsonly" THEN cache[1] = env.cols
  ELSE cache[1] = env.cols /\ cache[2] = env.rows

GetCell(c) ==  \* c = the cache the call starts from
  LET hit == IF Variant = "colsonly" THEN c[1] = env.cols ELSE c[1] = env.cols /\ c[2] = env.rows IN
  IF hit THEN [cell |-> Norm(<<c[3], c[4]>>), cache |-> c, asked |-> FALSE]
  ELSE LET r == Compute(env, swap, queries) IN
       [cell |-> r.cell, cache |-> <<env.cols, env.rows, r.cell[1], r.cell[2]>>, asked |-> r.asked]

Zero == <<0, 0, 0, 0>>

Init ==
  /\ env \in [cols : {s[1] : s \in Sizes}, rows : {s[2] : s \in Sizes}, xpx : {p[1] : p \in Pixels},
              ypx : {p[2] : p \in Pixels}, iopx : IoPx, xt : XtModes]
  /\ <<env.cols, env.rows>> \in Sizes /\ <<env.xpx, env.ypx>> \in Pixels
  /\ swap = FALSE /\ queries = TRUE
  /\ cr = <<1, 2>>
  /\ isSup = "unknown"
  /\ cache = Zero
  /\ memo = [k \in MemoKeys |-> "miss"]
  /\ bodies = [k \in MemoKeys |-> 0]
  /\ basis = Nil
  /\ out = Out("init", <<>>, <<>>, NoQ)

(* ---- environment ---- *)
Resize ==
  /\ "cell" \in Ops
  /\ \E s \in Sizes, p \in Pixels :
       /\ <<s, p>> # <<<<env.cols, env.rows>>, <<env.xpx, env.ypx>>>>
       /\ env' = [env EXCEPT !.cols = s[1], !.rows = s[2], !.xpx = p[1], !.ypx = p[2]]
       /\ out' = Out("Resize", <<s[1], s[2], p[1], p[2]>>, <<>>, NoQ)
  /\ UNCHANGED <<swap, queries, cr, isSup, cache, memo, bodies, basis>>

(* ---- settings ---- *)
EnableSwap ==
  /\ "cell" \in Ops
  /\ swap' = TRUE
  /\ cache' = IF ~swap /\ Variant # "noswapclear" THEN Zero ELSE cache
  /\ basis' = IF ~swap THEN Nil ELSE basis
  /\ out' = Out("EnableSwap", <<>>, <<>>, NoQ)
  /\ UNCHANGED <<env, queries, cr, isSup, memo, bodies>>

DisableSwap ==
  /\ "cell" \in Ops
  /\ swap' = FALSE
  /\ cache' = IF swap THEN Zero ELSE cache
  /\ basis' = IF swap THEN Nil ELSE basis
  /\ out' = Out("DisableSwap", <<>>, <<>>, NoQ)
  /\ UNCHANGED <<env, queries, cr, isSup, memo, bodies>>

EnableQueries ==
  /\ queries' = TRUE
  /\ IF ~queries
       THEN /\ memo' = IF Variant = "noqueryinval" THEN [memo EXCEPT !["name"] = "miss"] ELSE [k \in MemoKeys |-> "miss"]
            /\ bodies' = IF Variant = "noqueryinval" THEN [bodies EXCEPT !["name"] = 0] ELSE [k \in MemoKeys |-> 0]
            /\ cache' = IF Variant = "noquerycellclear" THEN cache ELSE Zero
            /\ basis' = Nil
       ELSE UNCHANGED <<memo, bodies, cache, basis>>
  /\ out' = Out("EnableQueries", <<>>, <<>>, NoQ)
  /\ UNCHANGED <<env, swap, cr, isSup>>

DisableQueries ==
  /\ queries' = FALSE
  /\ out' = Out("DisableQueries", <<>>, <<>>, NoQ)
  /\ UNCHANGED <<env, swap, cr, isSup, cache, memo, bodies, basis>>

(* ---- cell size and ratio ---- *)
GetCellSize ==
  /\ "cell" \in Ops
  /\ LET g == GetCell(cache) IN
       /\ cache' = g.cache
       /\ out' = Out("GetCellSize", <<>>, g.cell, [NoQ EXCEPT !.winops = IF g.asked THEN 1 ELSE 0])
  /\ basis' = BasisAfterGet(basis, env)
  /\ UNCHANGED <<env, swap, queries, cr, isSup, memo, bodies>>

GetRatio ==
  /\ "cell" \in Ops
  /\ IF cr # Nil
       THEN /\ out' = Out("GetRatio", <<>>, cr, NoQ)
            /\ UNCHANGED <<cache, basis>>
       ELSE LET g == GetCell(cache) IN
            /\ cache' = g.cache
            /\ basis' = BasisAfterGet(basis, env)
            /\ out' = Out("GetRatio", <<>>, RatioOf(g.cell), [NoQ EXCEPT !.winops = IF g.asked THEN 1 ELSE 0])
  /\ UNCHANGED <<env, swap, queries, cr, isSup, memo, bodies>>

SetRatioFloat ==
  /\ "cell" \in Ops
  /\ \E r \in Ratios :
       /\ cr' = r
       /\ out' = Out("SetRatio", r, <<>>, NoQ)
  /\ UNCHANGED <<env, swap, queries, isSup, cache, memo, bodies, basis>>

\* set_cell_ratio(AutoCellRatio.FIXED | DYNAMIC)
SetRatioAuto ==
  /\ "cell" \in Ops
  /\ \E m \in {"FIXED", "DYNAMIC"} :
       LET g1 == GetCell(cache)                        \* support check (only while is_supported is None)
           c1 == IF isSup = "unknown" THEN g1.cache ELSE cache
           a1 == isSup = "unknown" /\ g1.asked
           sup == IF isSup = "unknown" THEN (IF g1.cell # None THEN "yes" ELSE "no") ELSE isSup
           g2 == GetCell(c1)                           \* FIXED: the snapshot
           doFixed == sup = "yes" /\ m = "FIXED"
           nq == (IF a1 THEN 1 ELSE 0) + (IF doFixed /\ g2.asked THEN 1 ELSE 0)
       IN
       /\ isSup' = sup
       /\ cache' = IF doFixed THEN g2.cache ELSE c1
       /\ basis' = IF isSup = "unknown" \/ doFixed THEN BasisAfterGet(basis, env) ELSE basis
       /\ cr' = IF sup = "no" THEN cr ELSE IF m = "FIXED" THEN RatioOf(g2.cell) ELSE Nil
       /\ out' = [op |-> "SetRatio", arg |-> <<m>>, res |-> <<>>, q |-> [NoQ EXCEPT !.winops = nq], err |-> sup = "no"]
  /\ UNCHANGED <<env, swap, queries, memo, bodies>>

(* ---- memoized query functions ---- *)
Memoized(k, op) ==
  /\ "memo" \in Ops
  /\ IF memo[k] = "miss"
       THEN LET v == IF queries THEN "real" ELSE "none" IN
            /\ memo' = [memo EXCEPT ![k] = v]
            /\ bodies' = [bodies EXCEPT ![k] = @ + 1]
            /\ out' = Out(op, <<k>>, <<v>>, [NoQ EXCEPT ![IF k = "name" THEN "name" ELSE "colors"] = IF queries THEN 1 ELSE 0])
       ELSE /\ out' = Out(op, <<k>>, <<memo[k]>>, NoQ)
            /\ UNCHANGED <<memo, bodies>>
  /\ UNCHANGED <<env, swap, queries, cr, isSup, cache, basis>>

GetColors == \E k \in {"colors", "colorshex"} : Memoized(k, "GetColors")
GetName == Memoized("name", "GetName")

Next ==
  \/ Resize \/ EnableSwap \/ DisableSwap \/ EnableQueries \/ DisableQueries
  \/ SetRatioFloat \/ SetRatioAuto \/ GetCellSize \/ GetRatio \/ GetColors \/ GetName

Spec == Init /\ [][Next]_vars

-----------------------------------------------------------------------------
(* Properties: no mention of `cache` / `memo` *)

CellFresh ==
  out.op = "GetCellSize" => out.res \in AllowedCells(basis, env, swap, queries)

\* the DYNAMIC ratio follows the terminal; an explicit or FIXED ratio is what was set
RatioFresh ==
  out.op = "GetRatio" /\ cr = Nil =>
    \E a \in AllowedRatios(basis, env, swap, queries) : SameRatio(out.res, a)

\* FIXED takes its snapshot from the terminal as it is when set
FixedSnapshot ==
  out.op = "SetRatio" /\ out.arg = <<"FIXED">> /\ ~out.err =>
    \E a \in AllowedRatios(basis, env, swap, queries) : SameRatio(cr, a)

\* results obtained while queries were disabled are not returned once they are enabled again;
\* and nothing but the terminal's own answer is ever reported as such
MemoFresh ==
  out.op \in {"GetColors", "GetName"} =>
    /\ (queries => out.res = <<"real">>)
    /\ (out.res = <<"none">> => ~queries)

\* a memoized function runs its body at most once per argument tuple until invalidated
BodyOnce == \A k \in MemoKeys : bodies[k] <= 1

TypeOK ==
  /\ cache \in Seq(Nat) /\ Len(cache) = 4
  /\ isSup \in {"unknown", "yes", "no"}
  /\ \A k \in MemoKeys : memo[k] \in {"miss", "real", "none"}
=============================================================================
