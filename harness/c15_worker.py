"""C15 worker: drives the REAL public functions of term_image on a REAL pty.

Run as ``python -m harness.c15_worker <job.json>`` by ``harness/drivers/c15.py``.  The process
adopts a fresh pty before importing ``term_image`` (``harness/env/c15_pty.py``), plays the
terminal emulator itself (window size in cells and pixels via ``TIOCSWINSZ``; XTWINOPS, OSC
10/11, XTVERSION and DA1 answered by a responder thread from the terminal state) and

* ``replay``: executes tours of the TermCache state graph (edges dumped by TLC): after every
  operation the returned value and the number of query round trips of the memoized functions
  must equal what the edge prescribes;
* ``histories``: executes seeded random histories of the public functions and records one
  event per call (operation, arguments, result, round trips) for ``Trace_TermCache.tla``.
"""

from __future__ import annotations

import json
import os
import random
import signal
import sys
import termios
import threading
import time
from fractions import Fraction

FG = (0x12, 0x34, 0x56)
BG = (0xAB, 0xCD, 0xEF)
NAME = ("verifterm", "1.2.3")


# Faults raised out of a terminal query (TermCache!CellFault / SetRatioFault / MemoFault): when a fault is
# armed, the terminal does not answer the next query burst; the responder thread signals the main thread
# instead, whose handler raises the exception inside the library's query: "kbd" = SIGINT =>
# KeyboardInterrupt (a Ctrl-C), "exc" = SIGUSR1 => termios.error (an ordinary Exception subclass, what the
# termios calls raise on a dying tty).  To make the point of the fault the same in every run, the handler
# raises only when the interrupted frame is inside utils.read_tty() (the request has been written, the
# response is being awaited) and otherwise asks for the signal to be sent again a moment later
# (write_tty() itself swallows termios.error around tcdrain()).
FAULT_SIGNALS = {"kbd": signal.SIGINT, "exc": signal.SIGUSR1}
FAULT_TYPES = (KeyboardInterrupt, termios.error)
TERM = None
MAX_DEFER = 4000


def _fault_handler(signum, frame):
    term = TERM
    kind = term.fired if term else None
    if kind is None or term.raised:
        return
    f = frame
    while f is not None and f.f_code.co_name != "read_tty":
        f = f.f_back
    if f is None and term.deferred < MAX_DEFER:
        term.deferred += 1
        term.again.set()
        return
    term.raised = True
    if kind == "kbd":
        raise KeyboardInterrupt
    raise termios.error(5, "Input/output error (injected)")


def install_fault_handlers(term):
    global TERM
    TERM = term
    signal.signal(signal.SIGINT, _fault_handler)
    signal.signal(signal.SIGUSR1, _fault_handler)
    threading.Thread(target=term.kicker, name="fault-kicker", daemon=True).start()


class Term:
    """The terminal emulator's side: true geometry and what it answers."""

    def __init__(self, master, pty):
        self.master = master
        self.pty = pty
        self.env = dict(cols=80, rows=24, xpx=640, ypx=384, iopx=True, xt="text")
        self.armed = None   # fault kind to raise at the next query
        self.fired = None   # fault kind that has been raised during the current operation
        self.muted = False  # the rest of the burst that met the fault (up to its DA1) is not answered
        self.burst_done = threading.Event()
        self.again = threading.Event()  # the handler asks for the signal once more
        self.raised = False  # the handler has raised the exception of the current fault
        self.deferred = 0
        self.main = threading.main_thread().ident

    def kicker(self):
        while True:
            self.again.wait()
            self.again.clear()
            time.sleep(0.0003)
            kind = self.fired
            if kind and not self.raised:
                signal.pthread_kill(self.main, FAULT_SIGNALS[kind])

    def arm(self, kind):
        self.fired = None
        self.raised = False
        self.deferred = 0
        self.burst_done.clear()
        self.armed = kind

    def disarm(self):
        """End of the operation: returns the kind of fault that was raised (None if it did not query)."""
        self.armed = None
        fired, self.fired = self.fired, None
        if fired and not self.burst_done.wait(10):
            raise SystemExit("the responder did not see the end of the burst that met the fault")
        return fired

    def set_env(self, env):
        self.env = dict(env)
        self.apply()

    def resize(self, cols, rows, xpx, ypx):
        self.env.update(cols=cols, rows=rows, xpx=xpx, ypx=ypx)
        self.apply()

    def apply(self):
        e = self.env
        self.pty.set_winsize(self.master, e["cols"], e["rows"], e["xpx"] if e["iopx"] else 0,
                             e["ypx"] if e["iopx"] else 0)

    def answer(self, kind, m):
        e = self.env
        if self.armed and kind in ("winop", "osc", "xtversion"):
            # the terminal chokes on this burst; the exception is raised in the thread that is querying
            self.fired, self.armed = self.armed, None
            self.muted = True
            signal.pthread_kill(self.main, FAULT_SIGNALS[self.fired])
        if self.muted:
            if kind == "da1":  # every query burst of the library ends with DA1
                self.muted = False
                self.burst_done.set()
            return b""
        if kind == "winop":
            which = m.group("winop")  # b"4": text area (14 t), b"6": cell size (16 t)
            if which == b"6" and e["xt"] == "cell":
                return b"\x1b[6;%d;%dt" % (e["ypx"] // e["rows"], e["xpx"] // e["cols"])
            if which == b"4" and e["xt"] in ("text", "cell"):
                return b"\x1b[4;%d;%dt" % (e["ypx"], e["xpx"])
            return b""
        if kind == "osc":
            n = int(m.group("osc"))
            r, g, b = FG if n == 10 else BG
            return b"\x1b]%d;rgb:%02x%02x/%02x%02x/%02x%02x\x1b\\" % (n, r, r, g, g, b, b)
        if kind == "xtversion":
            return b"\x1bP>|%s(%s)\x1b\\" % (NAME[0].encode(), NAME[1].encode())
        if kind == "da1":
            return self.pty.DA1_REPLY
        return b""


class Lib:
    """The library under test, reached only through its public functions (plus the reset)."""

    def __init__(self, term, resp):
        import term_image
        from term_image import utils
        from term_image.exceptions import TermImageError

        self.ti, self.utils, self.err = term_image, utils, TermImageError
        self.term, self.resp = term, resp
        if utils._tty_fd == -1:
            raise SystemExit("term_image did not adopt the pty (utils._tty_fd == -1)")
        for name in ("_queries_enabled", "_swap_win_size", "_cell_size_cache", "_cell_size_lock"):
            if not hasattr(utils, name):
                raise SystemExit(f"seam term_image.utils.{name} is missing")
        term_image.set_query_timeout(5.0)

    def reset(self, env):
        """Initial state of the model: a freshly imported library on terminal `env`."""
        u, ti = self.utils, self.ti
        self.term.set_env(env)
        u._queries_enabled = True
        u._swap_win_size = False
        with u._cell_size_lock:
            u._cell_size_cache[:] = [0] * 4
        ti._cell_ratio = 0.5
        ti.AutoCellRatio.is_supported = None
        u.get_fg_bg_colors._invalidate_cache()
        u.get_terminal_name_version._invalidate_cache()
        u.read_tty_all()

    def counts(self):
        r = self.resp
        return (r.count("winop"), r.count("osc"), r.count("xtversion"))

    def do(self, op, arg, fault=None):
        """Execute one operation; returns (res, q, err, fault) in the vocabulary of TermCache.tla.

        `fault`: kind of exception to raise out of the first terminal query of this operation; the
        returned fault is the kind that was actually raised ("" when the operation did not query)."""
        if not fault:
            return (*self._do(op, arg), "")
        self.term.arm(fault)
        try:
            res, q, err = self._do(op, arg)
        except FAULT_TYPES as e:
            fired = self.term.disarm()
            if not fired:
                raise SystemExit(f"{type(e).__name__} without an injected fault during {op}{arg}")
            c = self.counts()
            self.utils.read_tty_all()
            return [], self._q(self._c0, c), True, fired
        fired = self.term.disarm()
        # fired without an exception: the library swallowed it (the operation returned)
        return res, q, err, fired or ""

    @staticmethod
    def _q(c0, c1):
        return {"winops": (c1[0] - c0[0] + 1) // 2, "colors": (c1[1] - c0[1] + 1) // 2, "name": c1[2] - c0[2]}

    def _do(self, op, arg):
        u, ti = self.utils, self.ti
        c0 = self._c0 = self.counts()
        res, err = [], False
        if op == "Resize":
            self.term.resize(*arg)
        elif op == "EnableSwap":
            ti.enable_win_size_swap()
        elif op == "DisableSwap":
            ti.disable_win_size_swap()
        elif op == "EnableQueries":
            ti.enable_queries()
        elif op == "DisableQueries":
            ti.disable_queries()
        elif op == "GetCellSize":
            s = u.get_cell_size()
            res = [0, 0] if s is None else [int(s[0]), int(s[1])]
        elif op == "GetRatio":
            f = Fraction(ti.get_cell_ratio()).limit_denominator(10000)
            res = [f.numerator, f.denominator]
        elif op == "SetRatio":
            try:
                if len(arg) == 2:
                    ti.set_cell_ratio(arg[0] / arg[1])
                else:
                    ti.set_cell_ratio(getattr(ti.AutoCellRatio, arg[0]))
                    if arg[0] == "FIXED":
                        # the snapshot just taken (a fixed ratio is returned as it is: no look-up)
                        f = Fraction(ti.get_cell_ratio()).limit_denominator(10000)
                        res = [f.numerator, f.denominator]
            except self.err:
                err = True
        elif op == "GetColors":
            v = (u.get_fg_bg_colors(hex=True) if arg[0] == "colorshex"
                 else u.get_fg_bg_colors(hex=False) if arg[0] == "colorsnohex" else u.get_fg_bg_colors())
            real = ("#%02x%02x%02x" % FG, "#%02x%02x%02x" % BG) if arg[0] == "colorshex" else (FG, BG)
            res = ["real" if v == real else "none" if v == (None, None) else f"other:{v!r}"]
        elif op == "GetName":
            v = u.get_terminal_name_version()
            res = ["real" if v == NAME else "none" if v == (None, None) else f"other:{v!r}"]
        else:
            raise SystemExit(f"unknown operation {op}")
        return res, self._q(c0, self.counts()), err


def same_ratio(a, b):
    return len(a) == 2 and len(b) == 2 and a[0] * b[1] == a[1] * b[0]


def compare(op, exp, res, q, err, allowed=(), fixed=(), errok=()):
    """None if the real observation is what the edge prescribes, else (what, description).

    For get_cell_size() and the DYNAMIC ratio the edge carries the set of values the property
    allows (computed by TLC: TermCacheCore!AllowedCells / AllowedRatios); a value in the set that
    differs from the model's own is *drift* (reported as ("drift", ...), not a violation)."""
    if err != exp["err"]:
        if err in errok:
            # admissible, but the library's support status now differs from the model's: the tour ends here
            return "drift-end", f"raised={err}, model {exp['err']}, admissible {errok}"
        return "err", f"raised={err}, specified={exp['err']}"
    if op == "GetRatio":
        if not same_ratio(res, exp["res"]):
            if any(same_ratio(res, a) for a in allowed):
                return "drift", f"returned ratio {res}, model {exp['res']}, allowed {allowed}"
            return "res", f"returned ratio {res[0]}/{res[1]}, specified {exp['res'][0]}/{exp['res'][1]}" + (
                f" (allowed: {allowed})" if allowed else "")
    elif op == "SetRatio" and fixed:
        if not same_ratio(res, fixed):
            if any(same_ratio(res, a) for a in allowed):
                # admissible, but the fixed ratio now differs from the model's: the tour ends here
                return "drift-end", f"FIXED snapshot {res}, model {fixed}, allowed {allowed}"
            return "res", f"FIXED took the snapshot {res[0]}/{res[1]}, specified {fixed[0]}/{fixed[1]} (allowed: {allowed})"
    elif op == "GetCellSize":
        if list(res) != list(exp["res"]):
            if any(list(res) == list(a) for a in allowed):
                return "drift", f"returned {res}, model {exp['res']}, allowed {allowed}"
            return "res", f"returned {res}, specified {exp['res']} (allowed: {allowed})"
    elif op in ("GetColors", "GetName"):
        if list(res) != list(exp["res"]):
            return "res", f"returned {res}, specified {exp['res']}"
    if op in ("GetColors", "GetName"):
        k = "name" if op == "GetName" else "colors"
        if q[k] != exp["q"][k]:
            return "body-count", f"{q[k]} query round trips, specified {exp['q'][k]}"
    return None


ENV_KEYS = ("cols", "rows", "xpx", "ypx", "iopx", "xt")


def env_of(view):
    e = view[0]  # View = <<env, swap, queries, cr, isSup, cache, memo, bodies, basis>>
    return {k: e[k] for k in ENV_KEYS}


def run_replay(lib, tours):
    out = {"tours": 0, "ops": 0, "divergences": [], "drift": 0, "faults": 0, "unfired": 0, "swallowed": 0,
           "after_fault": 0}
    for tour in tours:
        out["tours"] += 1
        lib.reset(env_of(tour[0]["from"]))
        for i, e in enumerate(tour):
            op = e["op"]
            res, q, err, fired = lib.do(op["op"], op["arg"], op.get("fault") or None)
            out["ops"] += 1
            if op.get("fault"):
                # a fault edge prescribes no result.  The property does not say that the exception has to
                # reach the caller, nor that the call must query: both are only counted; what the failed
                # look-up left behind is judged by the edges that follow (op.aff: FaultFresh)
                out["faults" if fired and err else "swallowed" if fired else "unfired"] += 1
                continue
            out["after_fault"] += bool(op.get("aff"))
            bad = compare(op["op"], op, res, q, err, e.get("allowed", ()), e.get("fixed", ()), e.get("errok", ()))
            if bad and bad[0] == "drift-end":
                out["drift"] += 1
                out["abandoned"] = out.get("abandoned", 0) + len(tour) - i - 1
                break
            if bad and bad[0] == "drift":
                out["drift"] += 1
                bad = None
            if bad:
                out["divergences"].append({
                    "idx": i, "what": bad[0], "detail": bad[1] + (
                        " - after a look-up of the same fact that was cut short by an exception" if op.get("aff") else ""),
                    "op": op, "real": {"res": res, "q": q, "err": err},
                    "env": env_of(tour[0]["from"]),
                    "prefix": [x["op"] for x in tour[: i + 1]],
                    "allowed_prefix": [x.get("allowed", []) for x in tour[: i + 1]],
                    "fixed_prefix": [x.get("fixed", []) for x in tour[: i + 1]],
                    "errok_prefix": [x.get("errok", []) for x in tour[: i + 1]],
                })
                break
        if len(out["divergences"]) >= 5:
            break
    return out


SIZES = [(4, 2), (4, 3), (6, 3), (9, 5), (7, 5)]
PIXELS = [(48, 36), (96, 72), (63, 45), (130, 75)]
RATIOS = [(3, 4), (1, 2), (5, 9)]


def gen_history(rng, length):
    env = dict(cols=0, rows=0, xpx=0, ypx=0, iopx=rng.random() < 0.4, xt=rng.choice(["cell", "text", "text", "none"]))
    (env["cols"], env["rows"]), (env["xpx"], env["ypx"]) = rng.choice(SIZES), rng.choice(PIXELS)
    ops = []
    cur = (env["cols"], env["rows"], env["xpx"], env["ypx"])
    for _ in range(length):
        r = rng.random()
        if r < 0.2:
            while True:
                kind = rng.random()
                s = rng.choice(SIZES) if kind < 0.7 else cur[:2]
                p = rng.choice(PIXELS) if kind > 0.4 else cur[2:]
                if (*s, *p) != cur:
                    break
            cur = (*s, *p)
            ops.append(("Resize", list(cur)))
        elif r < 0.36:
            ops.append((rng.choice(["EnableSwap", "DisableSwap", "EnableQueries", "DisableQueries"]), []))
        elif r < 0.46:
            k = rng.random()
            ops.append(("SetRatio", list(rng.choice(RATIOS)) if k < 0.3 else [rng.choice(["FIXED", "DYNAMIC", "DYNAMIC"])]))
        elif r < 0.66:
            ops.append(("GetCellSize", []))
        elif r < 0.82:
            ops.append(("GetRatio", []))
        elif r < 0.94:
            ops.append(("GetColors", [rng.choice(["colors", "colorshex", "colorsnohex"])]))
        else:
            ops.append(("GetName", ["name"]))
    # faults: an exception raised out of the terminal query of a look-up (it takes effect only if the
    # operation really queries); mostly followed by a look-up of the same fact at the unchanged terminal
    frng = random.Random(rng.random())
    out = []
    for op, arg in ops:
        if op in ("GetCellSize", "GetRatio", "GetColors", "GetName") or (op == "SetRatio" and len(arg) == 1):
            if frng.random() < 0.15:
                out.append((op, arg, frng.choice(["kbd", "exc"])))
                if frng.random() < 0.6:
                    out.append((op, arg, ""))
                continue
        out.append((op, arg, ""))
    return env, out


def run_history(lib, env, ops):
    lib.reset(env)
    ev = []
    for op, arg, *f in ops:
        res, q, err, fired = lib.do(op, arg, (f[0] if f else "") or None)
        ev.append({"op": op, "arg": arg, "res": res, "q": q, "err": err, "fault": fired, "req": f[0] if f else ""})
    return {"env": env, "ev": ev}


def main():
    job = json.load(open(sys.argv[1]))
    sys.path.insert(0, job["src"])
    for k in ("TERM_PROGRAM", "TERM_PROGRAM_VERSION"):
        os.environ.pop(k, None)
    from harness.env import c15_pty

    master = c15_pty.become_pty_process(80, 24, 640, 384)
    term = Term(master, c15_pty)
    resp = c15_pty.Responder(master, term.answer)
    resp.start()
    import warnings

    warnings.simplefilter("ignore")
    install_fault_handlers(term)
    lib = Lib(term, resp)
    result = {}
    if job.get("tours_file"):
        tours = json.load(open(job["tours_file"]))
        result["replay"] = run_replay(lib, tours)
    if job.get("histories"):
        h = job["histories"]
        rng = random.Random(h["seed"])
        traces = []
        for _ in range(h["count"]):
            env, ops = gen_history(rng, rng.randrange(h["min_len"], h["max_len"] + 1))
            traces.append(run_history(lib, env, ops))
        result["traces"] = traces
    if job.get("scenario"):
        sc = job["scenario"]
        result["traces"] = [run_history(lib, sc["env"], [tuple(o) for o in sc["ops"]])]
    result["garbage"] = bytes(resp.garbage[-200:]).decode("latin1")
    with open(job["result_file"], "w") as f:
        json.dump(result, f)
    os._exit(0)


if __name__ == "__main__":
    main()
